import PolyVerif.Model.Scalar
import PolyVerif.Model.Vec
