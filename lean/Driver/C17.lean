import Driver.Proto
import PolyVerif.Gen.Transform
import PolyVerif.Model.AabbFromPoints
import PolyVerif.Model.C17Mesh

namespace Driver.C17
open PolyVerif PolyVerif.Gen

abbrev M := mat.Matrix4x4 Float
abbrev Qt := quaternion.Quaternion Float

def mOf : List Float → Option M
  | [a,b,c,d,e,f,g,h,i,j,k,l,m,n,o,p] => some ⟨a,b,c,d,e,f,g,h,i,j,k,l,m,n,o,p⟩
  | _ => none
def mTo (m : M) : List Float :=
  [m.X00,m.X01,m.X02,m.X03,m.X10,m.X11,m.X12,m.X13,m.X20,m.X21,m.X22,m.X23,m.X30,m.X31,m.X32,m.X33]
def v3Of : List Float → Option (V3 Float)
  | [a,b,c] => some ⟨a,b,c⟩
  | _ => none
def v3To (v : V3 Float) : List Float := [v.x, v.y, v.z]
def v3List : List Float → List (V3 Float)
  | a :: b :: c :: rest => ⟨a, b, c⟩ :: v3List rest
  | _ => []
def qOf : List Float → Option Qt
  | [x,y,z,w] => some ⟨⟨x,y,z⟩, w⟩
  | _ => none
def qTo (q : Qt) : List Float := [q.v.x, q.v.y, q.v.z, q.w]
def bbOf : List Float → Option (geometry.AABB Float)
  | [a,b,c,d,e,f] => some ⟨⟨a,b,c⟩,⟨d,e,f⟩⟩
  | _ => none
def bbTo (b : geometry.AABB Float) : List Float := [b.center.x,b.center.y,b.center.z,b.extents.x,b.extents.y,b.extents.z]

def allClose (tol : Float) (a b : List Float) : Bool :=
  a.length == b.length && (a.zip b).all (fun (x, y) => close tol x y)

def tol : Float := 1e-9

/-- the mesh the harness builds: `NewTriangleMesh([0,1,2, 1,2,3, …]).SetFloat3Attribute(Position, pts)` (and Normal) -/
def meshOf (pts : List (V3 Float)) (nrm : Option (List (V3 Float))) : C17Mesh.Mesh Float :=
  let n := pts.length
  let idx : List Int := (List.range (n - 2)).flatMap fun i => [Int.ofNat i, Int.ofNat (i + 1), Int.ofNat (i + 2)]
  let v3 := match nrm with
    | some ns => if ns.isEmpty then [] else [("Normal", ns.toArray)]
    | none => []
  { v4Data := [], v3Data := (if pts.isEmpty then [] else [("Position", pts.toArray)]) ++ v3, v2Data := [], v1Data := [],
    indices := idx.toArray, materials := [], topology := 0 }
def posOut (r : Option (C17Mesh.Mesh Float)) : String :=
  match r with
  | none => "panic"
  | some m => match m.v3Data.get? "Position" with
    | some d => fsHex (d.toList.flatMap v3To)
    | none => ""
/-- the whole result mesh: Position | Normal | indices | topology | number of v1+v2+v4 attributes -/
def meshOut (r : Option (C17Mesh.Mesh Float)) : String :=
  match r with
  | none => "panic"
  | some m =>
    let at3 := fun (k : String) => match m.v3Data.get? k with
      | some d => fsHex (d.toList.flatMap v3To)
      | none => "-"
    at3 "Position" ++ " | " ++ at3 "Normal" ++ " | " ++ " ".intercalate (m.indices.toList.map toString) ++ " | "
      ++ toString m.topology ++ " " ++ toString (m.v1Data.length + m.v2Data.length + m.v4Data.length)

/-- a float as `nan`, `+inf`, `-inf` or its bit pattern (for answers where the NaN sign / payload is not part of the claim) -/
def fClass (x : Float) : String :=
  if x != x then "nan" else if x == 1.0 / 0.0 then "+inf" else if x == -(1.0 / 0.0) then "-inf" else fHex x

/-- one request → one answer line; `none` = not a C17 op / malformed -/
def handle (op : String) (args : List String) : Option String := do
  let fs ← floats? args
  match op with
  | "c17.mat.add" => do
      let a ← mOf (fs.take 16); let b ← mOf (fs.drop 16); pure (fsHex (mTo (a.Add b)))
  | "c17.mat.mul" => do
      let a ← mOf (fs.take 16); let b ← mOf (fs.drop 16); pure (fsHex (mTo (a.Multiply b)))
  | "c17.mat.det" => do let a ← mOf fs; pure (fHex a.Determinant)
  | "c17.mat.inv" => do let a ← mOf fs; pure (fsHex (mTo a.Inverse))
  | "c17.mat.mulpos" => do
      let a ← mOf (fs.take 16); let p ← v3Of (fs.drop 16); pure (fsHex (v3To (a.MulPosition p)))
  | "c17.quat.rotate" => do
      let q ← qOf (fs.take 4); let v ← v3Of (fs.drop 4); pure (fsHex (v3To (q.Rotate v)))
  | "c17.quat.mul" => do
      let a ← qOf (fs.take 4); let b ← qOf (fs.drop 4); pure (fsHex (qTo (a.Multiply b)))
  | "c17.quat.normalize" => do let a ← qOf fs; pure (fsHex (qTo a.Normalize))
  | "c17.quat.fromtheta" => do
      let v ← v3Of (fs.drop 1); pure (fsHex (qTo (quaternion.FromTheta (fs.getD 0 0) v)))
  | "c17.quat.rotationto" => do
      let a ← v3Of (fs.take 3); let b ← v3Of (fs.drop 3); pure (fsHex (qTo (quaternion.RotationTo a b)))
  | "c17.trs.transform" => do
      let p ← v3Of (fs.take 3); let r ← qOf ((fs.drop 3).take 4); let s ← v3Of ((fs.drop 7).take 3)
      let v ← v3Of (fs.drop 10)
      pure (fsHex (v3To ((trs.New p r s).Transform v)))
  | "c17.aabb.encpoint" => do
      let b ← bbOf (fs.take 6); let p ← v3Of (fs.drop 6); pure (fsHex (bbTo (b.EncapsulatePoint p)))
  | "c17.aabb.encbounds" => do
      let b ← bbOf (fs.take 6); let c ← bbOf (fs.drop 6); pure (fsHex (bbTo (b.EncapsulateBounds c)))
  | "c17.aabb.closest" => do
      let b ← bbOf (fs.take 6); let p ← v3Of (fs.drop 6); pure (fsHex (v3To (b.ClosestPoint p)))
  | "c17.aabb.frompoints" =>          -- args: points (3n, n ≥ 0): the REGENERATED NewAABBFromPoints at Float (IEEE ±Inf)
      pure (fsHex (bbTo (geometry.NewAABBFromPoints (v3List fs))))
  | "c17.aabb.frompoints_class" =>    -- same, every component printed as nan | +inf | -inf | hex (NaN payload / sign not compared)
      pure (" ".intercalate ((bbTo (geometry.NewAABBFromPoints (v3List fs))).map fClass))
  | "c17.aabb.contains" => do
      let b ← bbOf (fs.take 6); let p ← v3Of (fs.drop 6); pure (boolStr (b.Contains p))
  | "c17.aabb.intersects" => do
      let b ← bbOf (fs.take 6); let c ← bbOf (fs.drop 6); pure (boolStr (b.Intersects c))
  | "c17.aabb.expand" => do            -- box amount
      let a ← bbOf (fs.take 6); pure (fsHex (bbTo (a.Expand (fs.getD 6 0))))
  | "c17.aabb.volume" => do let a ← bbOf (fs.take 6); pure (fHex a.Volume)
  | "c17.mat.fromdirs" => do           -- up forward offset
      let u ← v3Of (fs.take 3); let f ← v3Of ((fs.drop 3).take 3); let o ← v3Of (fs.drop 6)
      pure (fsHex (mTo (mat.MatFromDirs u f o)))
  | "c17.trs.ctor" => do               -- kind(0 position,1 scale,2 rotation,3 translate of New p r s by d) params… v
      let kind := fs.getD 0 0
      if kind == 0 then
        let p ← v3Of ((fs.drop 1).take 3); let v ← v3Of (fs.drop 4)
        pure (fsHex (v3To ((trs.Position p).Transform v)))
      else if kind == 1 then
        let p ← v3Of ((fs.drop 1).take 3); let v ← v3Of (fs.drop 4)
        pure (fsHex (v3To ((trs.Scale p).Transform v)))
      else if kind == 2 then
        let q ← qOf ((fs.drop 1).take 4); let v ← v3Of (fs.drop 5)
        pure (fsHex (v3To ((trs.Rotation q).Transform v)))
      else
        let p ← v3Of ((fs.drop 1).take 3); let r ← qOf ((fs.drop 4).take 4); let sc ← v3Of ((fs.drop 8).take 3)
        let d ← v3Of ((fs.drop 11).take 3); let v ← v3Of (fs.drop 14)
        pure (fsHex (v3To (((trs.New p r sc).Translate d).Transform v)))
  -- oracles for Props/C17More.lean ------------------------------------------------------
  | "c17.holds.trs_ctor" => do         -- kind params… v out : out = R(S∘v)+T written out from the property text (identity / one / zero for the parts a constructor leaves out; kind 3: T+d)
      let kind := fs.getD 0 0
      let idq : Qt := ⟨⟨0, 0, 0⟩, 1⟩
      let one : V3 Float := ⟨1, 1, 1⟩
      let zero : V3 Float := ⟨0, 0, 0⟩
      let parts : Option (V3 Float × Qt × V3 Float × V3 Float × List Float) :=
        if kind == 0 then do let p ← v3Of ((fs.drop 1).take 3); let v ← v3Of ((fs.drop 4).take 3); pure (p, idq, one, v, fs.drop 7)
        else if kind == 1 then do let sc ← v3Of ((fs.drop 1).take 3); let v ← v3Of ((fs.drop 4).take 3); pure (zero, idq, sc, v, fs.drop 7)
        else if kind == 2 then do let q ← qOf ((fs.drop 1).take 4); let v ← v3Of ((fs.drop 5).take 3); pure (zero, q, one, v, fs.drop 8)
        else do
          let p ← v3Of ((fs.drop 1).take 3); let r ← qOf ((fs.drop 4).take 4); let sc ← v3Of ((fs.drop 8).take 3)
          let d ← v3Of ((fs.drop 11).take 3); let v ← v3Of ((fs.drop 14).take 3)
          pure (p.Add d, r, sc, v, fs.drop 17)
      let (t, r, sc, v, out) ← parts
      let want := (r.Rotate (sc.MultByVector v)).Add t
      pure (boolStr (allClose (tol * (1 + want.Length)) (v3To want) out))
  | "c17.holds.mulpos" => do           -- a p out(=a.MulPosition p): rows 0..2 of a times (p,1), written out independently of the generated code
      let m := fs.take 16; let p ← v3Of ((fs.drop 16).take 3); let o ← v3Of (fs.drop 19)
      let e := fun (i : Nat) => m.getD i 0
      let row := fun (r : Nat) => e (4*r) * p.x + e (4*r+1) * p.y + e (4*r+2) * p.z + e (4*r+3)
      let sc := 1 + (m.foldl (fun a x => max a x.abs) 0) * (1 + p.Length)
      pure (boolStr ((row 0 - o.x).abs ≤ 1e-9 * sc && (row 1 - o.y).abs ≤ 1e-9 * sc && (row 2 - o.z).abs ≤ 1e-9 * sc))
  | "c17.holds.rodrigues" => do        -- θ axis(non-zero) v out(=FromTheta(θ,axis).Rotate(v)) : Rodrigues' formula about axis/|axis|
      let θ := fs.getD 0 0
      let k ← v3Of ((fs.drop 1).take 3); let v ← v3Of ((fs.drop 4).take 3); let out ← v3Of (fs.drop 7)
      let n := k.Normalized
      let want := ((v.Scale (Float.cos θ)).Add ((n.Cross v).Scale (Float.sin θ))).Add (n.Scale (n.Dot v * (1 - Float.cos θ)))
      let tol := 1e-9 * (1 + v.Length)
      pure (boolStr ((want.x - out.x).abs ≤ tol && (want.y - out.y).abs ≤ tol && (want.z - out.z).abs ≤ tol))
  | "c17.holds.closest_nearest" => do  -- box v closest(=ClosestPoint v) q(a point the implementation says the box contains)
      let v ← v3Of ((fs.drop 6).take 3); let cp ← v3Of ((fs.drop 9).take 3); let q ← v3Of (fs.drop 12)
      pure (boolStr (v.Distance cp ≤ v.Distance q * (1 + 1e-12) + 1e-300))
  | "c17.holds.intersects" => do       -- a b result(1/0) : boxes with non-negative extents share a point iff Intersects
      let a ← bbOf (fs.take 6); let b ← bbOf ((fs.drop 6).take 6); let r := fs.getD 12 0
      let w : V3 Float := ⟨max a.Min.x b.Min.x, max a.Min.y b.Min.y, max a.Min.z b.Min.z⟩
      let shared := a.Contains w && b.Contains w
      pure (boolStr ((r == 1) == shared))
  | "c17.holds.fromdirs_frame" => do   -- up(unit) forward offset M(=MatFromDirs) : columns orthonormal, right handed, offset kept
      let m ← mOf (fs.drop 9)
      let l : V3 Float := ⟨m.X00, m.X10, m.X20⟩; let u : V3 Float := ⟨m.X01, m.X11, m.X21⟩; let f : V3 Float := ⟨m.X02, m.X12, m.X22⟩
      let o ← v3Of ((fs.drop 6).take 3)
      let z := fun (x : Float) => x.abs ≤ 1e-9
      let c := l.Cross u
      pure (boolStr (z (l.Dot l - 1) && z (f.Dot f - 1) && z (l.Dot u) && z (f.Dot u) && z (f.Dot l)
        && z (c.x - f.x) && z (c.y - f.y) && z (c.z - f.z)
        && m.X03 == o.x && m.X13 == o.y && m.X23 == o.z && m.X30 == 0 && m.X31 == 0 && m.X32 == 0 && m.X33 == 1))
  | "c17.line.closest" => do
      let a ← v3Of (fs.take 3); let b ← v3Of ((fs.drop 3).take 3); let p ← v3Of (fs.drop 6)
      pure (fsHex (v3To ((geometry.NewLine3D a b).ClosestPointOnLine p)))
  -- mesh level: Mesh.Rotate / Translate / Scale / ApplyTRS must move every position exactly as the point function does
  | "c17.mesh.rotate" => do           -- answered by running the literal-loop model of Mesh.Rotate (Model/C17Mesh.lean)
      let q ← qOf (fs.take 4); pure (posOut (C17Mesh.rotate (meshOf (v3List (fs.drop 4)) none) q))
  | "c17.mesh.translate" => do
      let t ← v3Of (fs.take 3); pure (posOut (C17Mesh.translate (meshOf (v3List (fs.drop 3)) none) t))
  | "c17.mesh.scale" => do
      let t ← v3Of (fs.take 3); pure (posOut (C17Mesh.scale (meshOf (v3List (fs.drop 3)) none) t))
  | "c17.mesh.applytrs" => do
      let p ← v3Of (fs.take 3); let r ← qOf ((fs.drop 3).take 4); let s ← v3Of ((fs.drop 7).take 3)
      pure (posOut (C17Mesh.applyTRS (meshOf (v3List (fs.drop 10)) none) (trs.New p r s)))
  | "c17.trs.array" => do
      let p ← v3Of (fs.take 3); let r ← qOf ((fs.drop 3).take 4); let s ← v3Of ((fs.drop 7).take 3)
      pure (fsHex ((C17Mesh.transformArray (trs.New p r s) (v3List (fs.drop 10)).toArray).toList.flatMap v3To))
  | "c17.trs.inplace" => do
      let p ← v3Of (fs.take 3); let r ← qOf ((fs.drop 3).take 4); let s ← v3Of ((fs.drop 7).take 3)
      pure (fsHex ((C17Mesh.transformInPlace (trs.New p r s) (v3List (fs.drop 10)).toArray).toList.flatMap v3To))
  | "c17.quat.rotatearray" => do
      let q ← qOf (fs.take 4)
      pure (fsHex ((C17Mesh.rotateArray q (v3List (fs.drop 4)).toArray).toList.flatMap v3To))
  -- meshops on a mesh with Position AND Normal: op(0 rotate q | 1 translate t | 2 scale origin amount) attr(0 Position, 1 Normal,
  -- 2 an attribute the mesh does not have) params n positions(3n) normals(3n); answer = the WHOLE result mesh (or panic)
  | "c17.meshop" => do
      let kind := (fs.getD 0 0).toUInt64.toNat
      let attr := match (fs.getD 1 0).toUInt64.toNat with | 0 => "Position" | 1 => "Normal" | _ => "Missing"
      let np := match kind with | 0 => 4 | 1 => 3 | _ => 6
      let ps := (fs.drop 2).take np
      let n := ((fs.drop (2 + np)).getD 0 0).toUInt64.toNat
      let pos := v3List ((fs.drop (3 + np)).take (3 * n))
      let nrm := v3List ((fs.drop (3 + np + 3 * n)).take (3 * n))
      let m := meshOf pos (some nrm)
      let r ← match kind with
        | 0 => (qOf ps).map (fun q => C17Mesh.rotateAttr m attr q)
        | 1 => (v3Of ps).map (fun t => C17Mesh.translateAttr m attr t)
        | _ => do let o ← v3Of (ps.take 3); let a ← v3Of (ps.drop 3); pure (C17Mesh.scaleAttr m attr o a)
      pure (meshOut r)
  -- oracle for Props/C17Mesh.lean: `MovesPointwise` (rejected iff the attribute is missing; otherwise exactly that attribute becomes
  -- the pointwise image — relative tolerance 1e-9 — and the other attribute, the indices, the topology are untouched, no other
  -- attribute appears), evaluated on the IMPLEMENTATION's result. args: as c17.meshop, then the encoded result
  | "c17.holds.meshop" => do
      let kind := (fs.getD 0 0).toUInt64.toNat
      let sel := (fs.getD 1 0).toUInt64.toNat
      let np := match kind with | 0 => 4 | 1 => 3 | _ => 6
      let ps := (fs.drop 2).take np
      let n := ((fs.drop (2 + np)).getD 0 0).toUInt64.toNat
      let pos := v3List ((fs.drop (3 + np)).take (3 * n))
      let nrm := v3List ((fs.drop (3 + np + 3 * n)).take (3 * n))
      let res := fs.drop (3 + np + 6 * n)
      let g : V3 Float → Option (V3 Float) := fun v =>
        match kind with
        | 0 => (qOf ps).map (fun q => q.Rotate v)
        | 1 => (v3Of ps).map (fun t => v.Add t)
        | _ => do let o ← v3Of (ps.take 3); let a ← v3Of (ps.drop 3); pure (o.Add ((v.Sub o).MultByVector a))
      let flag := res.getD 0 9
      if sel ≥ 2 then pure (boolStr (flag == 1 && res.length == 1))   -- attribute missing: must be rejected
      else if flag != 0 then pure "false" else
      -- both attributes must still be present (n ≥ 1)
      if res.getD 1 0 != 1 || res.getD (2 + 3 * n) 0 != 1 then pure "false" else
      let outPos := v3List ((res.drop 2).take (3 * n))
      let outNrm := v3List ((res.drop (3 + 3 * n)).take (3 * n))
      let rest := res.drop (3 + 6 * n)
      let nIdx := (rest.getD 0 0).toUInt64.toNat
      let idx := (rest.drop 1).take nIdx
      let wantIdx : List Float := (List.range (n - 2)).flatMap fun i => [Float.ofNat i, Float.ofNat (i + 1), Float.ofNat (i + 2)]
      let tailOk := (rest.drop (1 + nIdx)).map fHex == [fHex 0, fHex 0]
      let same := fun (a b : List (V3 Float)) => (a.flatMap v3To).map fHex == (b.flatMap v3To).map fHex
      let moved := fun (old out : List (V3 Float)) => old.length == out.length && (old.zip out).all fun (v, o) =>
        match g v with
        | some w => allClose 1e-9 (v3To w) (v3To o)
        | none => false
      let (chOld, chOut, keepOld, keepOut) := if sel == 0 then (pos, outPos, nrm, outNrm) else (nrm, outNrm, pos, outPos)
      pure (boolStr (moved chOld chOut && same keepOld keepOut && idx.map fHex == wantIdx.map fHex && tailOk))
  -- mesh / array level oracle: out must be the pointwise image (kind: 0 rotate q, 1 translate t, 2 scale s, 3 TRS p r s)
  | "c17.holds.pointwise" => do        -- args: kind, params (4|3|3|10), n, points (3n), out (3n)
      let kind := (fs.getD 0 0).toUInt64.toNat
      let np := match kind with | 0 => 4 | 1 => 3 | 2 => 3 | _ => 10
      let ps := (fs.drop 1).take np
      let n := ((fs.drop (1 + np)).getD 0 0).toUInt64.toNat
      let pts := v3List (((fs.drop (2 + np))).take (3 * n))
      let outs := v3List ((fs.drop (2 + np + 3 * n)))
      let f : V3 Float → Option (V3 Float) := fun v =>
        match kind with
        | 0 => (qOf ps).map (fun q => q.Rotate v)
        | 1 => (v3Of ps).map (fun t => v.Add t)
        | 2 => (v3Of ps).map (fun t => v.MultByVector t)
        | _ => do
            let p ← v3Of (ps.take 3); let r ← qOf ((ps.drop 3).take 4); let sc ← v3Of (ps.drop 7)
            pure ((r.Rotate (sc.MultByVector v)).Add p)
      if outs.length != n || pts.length != n then pure "false" else
      pure (boolStr ((pts.zip outs).all fun (v, o) => match f v with
        | some w => allClose 1e-9 (v3To w) (v3To o)
        | none => false))
  -- box HISTORY oracle: start box, #steps, then per step: kind(0 EncapsulatePoint p | 1 EncapsulateBounds centre extents | 2 Expand (amount,0,0) ≥ 0 |
  -- 3 SetMinMax min max) p1 p2 and the IMPLEMENTATION's box after the step.  Folded: aabb_encapsulatePoint_contains/_mono,
  -- aabb_encapsulateBounds_contains/_mono, aabb_expand_contains — after every step the box contains both corners of the box it started
  -- as, every point and both corners of every box encapsulated so far (SetMinMax replaces the box: the contents start over)
  | "c17.holds.aabb_history" => do
      let start ← bbOf (fs.take 6)
      let n := (fs.getD 6 0).toUInt64.toNat
      let e : Float := 1e-9
      let inBox := fun (b : geometry.AABB Float) (p : V3 Float) =>
        let mn := b.Min; let mx := b.Max
        let ok := fun (lo x hi : Float) => lo - e * (max 1.0 x.abs) ≤ x && x ≤ hi + e * (max 1.0 x.abs)
        ok mn.x p.x mx.x && ok mn.y p.y mx.y && ok mn.z p.z mx.z
      let rec go (k : Nat) (rest : List Float) (contents : List (V3 Float)) : Bool :=
        match k with
        | 0 => rest.isEmpty
        | k + 1 =>
          let kind := (rest.getD 0 9).toUInt64.toNat
          match v3Of ((rest.drop 1).take 3), v3Of ((rest.drop 4).take 3), bbOf ((rest.drop 7).take 6) with
          | some p1, some p2, some b =>
            let contents := match kind with
              | 0 => p1 :: contents
              | 1 => p1.Sub p2 :: p1.Add p2 :: contents
              | 2 => contents
              | _ => [p1, p2]
            contents.all (inBox b) && go k (rest.drop 13) contents
          | _, _, _ => false
      pure (boolStr (go n (fs.drop 7) [start.Min, start.Max]))
  -- oracles: the theorem statements of Props/C17 evaluated on the implementation's own output
  | "c17.holds.add_entrywise" => do   -- args: a b out
      let a ← mOf (fs.take 16); let b ← mOf ((fs.drop 16).take 16); let o ← mOf (fs.drop 32)
      pure (boolStr (((mTo a).zip (mTo b)).map (fun (x, y) => x + y) == mTo o))
  | "c17.holds.mul_row_col" => do
      let a := (fs.take 16).toArray; let b := ((fs.drop 16).take 16).toArray; let o := (fs.drop 32)
      let want := (List.range 16).map fun ij =>
        let i := ij / 4; let j := ij % 4
        (List.range 4).foldl (fun acc k => acc + a[4*i+k]! * b[4*k+j]!) 0.0
      pure (boolStr (allClose tol want o))
  | "c17.holds.mul_inv" => do          -- args: a out(=a⁻¹); a well-conditioned
      let a ← mOf (fs.take 16); let o ← mOf (fs.drop 16)
      pure (boolStr (allClose 1e-6 (mTo (a.Multiply o)) (mTo (mat.Identity : M)) &&
                     allClose 1e-6 (mTo (o.Multiply a)) (mTo (mat.Identity : M))))
  | "c17.holds.rotate_norm" => do      -- args: q(unit) v out
      let v ← v3Of ((fs.drop 4).take 3); let o ← v3Of (fs.drop 7)
      pure (boolStr (close tol v.Length o.Length))
  | "c17.holds.rotate_mul" => do       -- args: out12 = (q1*q2).rotate v ; outseq = q1.rotate(q2.rotate v)
      pure (boolStr (allClose tol (fs.take 3) (fs.drop 3)))
  | "c17.holds.rotation_to" => do      -- args: a b out(=RotationTo(a,b).Rotate(a))   unit a b
      -- directions closer than the documented snap (|a·b| > 0.999999, i.e. within 0.081°) are treated as (anti)parallel
      -- by design: there the image of a may miss b by the snap angle (≤ 1.5e-3); everywhere else it must hit b
      let a ← v3Of (fs.take 3); let b ← v3Of ((fs.drop 3).take 3)
      let d := (a.Dot b).abs
      let t : Float := if d > 0.999999 then 1.5e-3 else 1e-6
      pure (boolStr (allClose t ((fs.drop 3).take 3) (fs.drop 6)))
  | "c17.holds.trs" => do              -- args: p r s v out ; out = R(S∘v)+T
      let p ← v3Of (fs.take 3); let r ← qOf ((fs.drop 3).take 4); let s ← v3Of ((fs.drop 7).take 3)
      let v ← v3Of ((fs.drop 10).take 3)
      pure (boolStr (allClose tol (v3To ((r.Rotate (s.MultByVector v)).Add p)) (fs.drop 13)))
  | "c17.holds.aabb_contains" => do    -- args: box(after encapsulate) p : p must be inside (tolerance of 1 ulp-ish)
      let b ← bbOf (fs.take 6); let p ← v3Of (fs.drop 6)
      let mn := b.Min; let mx := b.Max
      let e : Float := 1e-9
      let ok (lo x hi : Float) : Bool := lo - e * (max 1.0 x.abs) ≤ x && x ≤ hi + e * (max 1.0 x.abs)
      pure (boolStr (ok mn.x p.x mx.x && ok mn.y p.y mx.y && ok mn.z p.z mx.z))
  | _ => none

end Driver.C17

def main : IO Unit := Driver.runLoop Driver.C17.handle
