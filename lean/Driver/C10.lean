import Driver.Proto
import PolyVerif.Model.Par
import PolyVerif.Gen.Partition
import PolyVerif.Model.ParCanvas
import Std.Data.HashMap

/-
  C10 driver.  Request lines (see go/harness/c10.go):

    c10.visits  NAME n size                       → sorted multiset of indices the model's workers hand to the callback | panic
    c10.scan    NAME n size d  v(n*d hex)         → "i:hex,..,hex" per delivered (index, value), sorted by index         | panic
    c10.prims   TOPO n size k  idx(k ints)        → "i:a,b,c" per delivered (index, primitive corner ids)              | panic
    c10.modify  NAME n size d  v(n*d hex)         → output array (n*d hex) of  f(i, v) = 2*v + i                        | panic
    c10.holds.visits_exact n k i1..ik             → the observed index multiset is exactly {0..n-1}, each once
    c10.accumulate VARIANT ncalls {loX hiX loY hiY loZ hiZ ns {x y z hex}*ns}*ncalls
                                                  → the canvas after the history of AddField* calls in the job model of
                                                    Model/ParCanvas.lean (jobs of the regenerated expressions, each event
                                                    `cell += sample` as a read-modify-write): "B:cx,cy,cz" per registered block, "cx,cy,cz:index:hex" per non-zero cell
    c10.holds.same_tri_multiset WHAT na nb a.. b..  → the two triangle lists are equal as multisets
    c10.holds.same_outcome TOPO count=N pool=S seq par → sequential and parallel outcome (ok / panic value / crash) identical
    c10.holds.same_output  k a1..ak b1..bk        → the two token lists are identical
-/
namespace Driver.C10
open PolyVerif.Par PolyVerif.Gen.Partition

def findSpec (name : String) : Option PartSpec := (specs.find? (fun p => p.1 == name)).map (·.2)

def panicsOf (name : String) (size : Int) : Bool :=
  -- guards as extracted (identical for all methods; proved in Props/C10 `guards`)
  match name.splitOn "/" with
  | "ScanPrimitivesParallelWithPoolSize" :: _ => decide (ScanPrimitivesParallelWithPoolSize.panics size)
  | ["ScanFloat3AttributeParallelWithPoolSize"] => decide (ScanFloat3AttributeParallelWithPoolSize.panics size)
  | ["ScanFloat2AttributeParallelWithPoolSize"] => decide (ScanFloat2AttributeParallelWithPoolSize.panics size)
  | ["ScanFloat1AttributeParallelWithPoolSize"] => decide (ScanFloat1AttributeParallelWithPoolSize.panics size)
  | ["ModifyFloat3AttributeParallelWithPoolSize"] => decide (ModifyFloat3AttributeParallelWithPoolSize.panics size)
  | ["ModifyFloat2AttributeParallelWithPoolSize"] => decide (ModifyFloat2AttributeParallelWithPoolSize.panics size)
  | ["ModifyFloat1AttributeParallelWithPoolSize"] => decide (ModifyFloat1AttributeParallelWithPoolSize.panics size)
  | _ => true

def joinOr (none : String) (l : List String) : String := if l.isEmpty then none else " ".intercalate l

/-- all indices delivered by all workers (flattened, worker order) -/
def delivered (P : PartSpec) (n size : Int) : List Int := (P.visits n size).flatten

/-- pairs (callback index, read index) of all workers -/
def deliveredPairs (P : PartSpec) (n size : Int) : List (Int × Int) :=
  ((intRange 0 (P.workers n size)).map (fun i => (P.iters n size i).map (fun j => (P.cbIndex j, P.readIndex j)))).flatten

def insertPair (x : Int × Int) : List (Int × Int) → List (Int × Int)
  | [] => [x]
  | y :: ys => if x.1 < y.1 ∨ (x.1 = y.1 ∧ x.2 ≤ y.2) then x :: y :: ys else y :: insertPair x ys
def sortPairs (l : List (Int × Int)) : List (Int × Int) := l.foldr insertPair []

def chunk (d : Nat) (xs : Array String) (k : Int) : Option String :=
  if k < 0 then none else
  let k := k.toNat
  if (k + 1) * d ≤ xs.size then some (",".intercalate ((xs.extract (k * d) ((k + 1) * d)).toList)) else none

def fnsOf : String → Option FieldFns
  | "AddField" => some addFieldFns
  | "AddFieldParallel" => some addFieldParallelFns
  | "AddFieldParallel2" => some addFieldParallel2Fns
  | _ => none

/-- parse one call: domain, then `ns` samples; returns the rest of the tokens -/
def parseCall (ts : List String) : Option (Dom × Std.HashMap (Int × Int × Int) Float × List String) := do
  match ts with
  | a :: b :: c :: d :: e :: f :: ns :: rest =>
    let dom : Dom := ⟨← int? a, ← int? b, ← int? c, ← int? d, ← int? e, ← int? f⟩
    let ns ← nat? ns
    let rec go (k : Nat) (ts : List String) (tbl : Std.HashMap (Int × Int × Int) Float) :
        Option (Std.HashMap (Int × Int × Int) Float × List String) :=
      match k, ts with
      | 0, ts => some (tbl, ts)
      | k + 1, x :: y :: z :: v :: ts => do
          let key := (← int? x, ← int? y, ← int? z)
          if tbl.contains key then none else   -- a position sampled twice: not the job model
          go k ts (tbl.insert key (← hexF? v))
      | _, _ => none
    let (tbl, rest) ← go ns rest {}
    pure (dom, tbl, rest)
  | _ => none

/-- replay a history of calls in the job model: every job of every call, block after block, each event a read-modify-write -/
def accumulate (F : FieldFns) : Nat → List String → (Cell → Float) → List Cell → Option ((Cell → Float) × List Cell)
  | 0, [], m, keys => some (m, keys)
  | 0, _ :: _, _, _ => none
  | k + 1, ts, m, keys => do
      let (dom, tbl, rest) ← parseCall ts
      let cells := (F.blocks dom).flatMap (F.jobCells dom)
      if cells.length ≠ tbl.size then none else     -- the model's jobs take exactly the samples the implementation took
      let log ← cells.mapM (fun e => do
        let v ← tbl[e.2]?
        pure (e.1, fun (a : Float) => a + v))
      accumulate F k rest (runUpd m log) (cells.map (·.1) ++ (F.blocks dom).map (fun b => (b, (-1 : Int))) ++ keys)

def handle (op : String) (args : List String) : Option String := do
  match op, args with
  | "c10.visits", [name, n, size] => do
      let P ← findSpec name; let n ← int? n; let size ← int? size
      if panicsOf name size then pure "panic" else
      pure (joinOr "none" ((sortInts (delivered P n size)).map toString))
  | "c10.scan", name :: n :: size :: d :: vals => do
      let P ← findSpec name; let n ← int? n; let size ← int? size; let d ← nat? d
      if panicsOf name size then pure "panic" else
      let xs := vals.toArray
      let toks ← (sortPairs (deliveredPairs P n size)).mapM (fun (ci, ri) => do
        let v ← chunk d xs ri; pure (toString ci ++ ":" ++ v))
      pure (joinOr "none" toks)
  | "c10.prims", topo :: n :: size :: _k :: idx => do
      let name := "ScanPrimitivesParallelWithPoolSize/" ++ topo
      let P ← findSpec name; let n ← int? n; let size ← int? size
      if panicsOf name size then pure "panic" else
      let xs := idx.toArray
      let toks ← (sortPairs (deliveredPairs P n size)).mapM (fun (ci, ri) => do
        if ri < 0 then none else
        let r := ri.toNat
        let v ← match topo with
          | "TriangleTopology" => do pure (s!"{← xs[3*r]?},{← xs[3*r+1]?},{← xs[3*r+2]?}")
          | "LineStripTopology" => do pure (s!"{← xs[r]?},{← xs[r+1]?}")
          | "PointTopology" => pure (toString r)   -- Point{index: i} reads v3Data[atr][i] directly
          | _ => none
        pure (toString ci ++ ":" ++ v))
      pure (joinOr "none" toks)
  | "c10.modify", name :: n :: size :: d :: vals => do
      let P ← findSpec name; let n ← int? n; let size ← int? size; let d ← nat? d
      let w ← P.writeIndex
      if panicsOf name size then pure "panic" else
      let fs ← floats? vals
      let xs := fs.toArray
      -- fresh zero array, then every write of every worker (worker order; any order gives the same, Props/C10 part 2)
      let nn := n.toNat
      let init : Array Float := Array.replicate (nn * d) 0.0
      let writes := ((intRange 0 (P.workers n size)).map (fun i => P.iters n size i)).flatten
      let out ← writes.foldlM (fun (acc : Array Float) j => do
        let ci := P.cbIndex j; let ri := P.readIndex j; let wi := w j
        if ri < 0 ∨ wi < 0 then none else
        let r := ri.toNat; let wN := wi.toNat
        if (r + 1) * d > xs.size ∨ (wN + 1) * d > acc.size then none else
        pure ((List.range d).foldl (fun (a : Array Float) c => a.set! (wN * d + c) (2.0 * xs[r * d + c]! + Float.ofInt ci)) acc)) init
      pure (joinOr "none" (out.toList.map fHex))
  | "c10.holds.visits_exact", n :: _k :: is => do
      let n ← nat? n; let l ← is.mapM int?
      pure (boolStr (isRangePerm n l))
  | "c10.accumulate", variant :: ncalls :: rest => do
      let F ← fnsOf variant; let n ← nat? ncalls
      let (m, keys) ← accumulate F n rest (fun _ => 0.0) []
      let distinct := (keys.foldl (fun (acc : Std.HashMap Cell Unit) k => acc.insert k ()) {}).toList.map (·.1)
      -- index -1 marks "block registered" (every enumerated block is allocated by its job, also with an empty sample range)
      let toks := distinct.filterMap (fun k =>
        if k.2 == -1 then some s!"B:{k.1.1},{k.1.2.1},{k.1.2.2}" else
        let v := m k
        if v == 0.0 then none else some s!"{k.1.1},{k.1.2.1},{k.1.2.2}:{k.2}:{fHex v}")
      pure (joinOr "none" (toks.mergeSort (fun x y => decide (x ≤ y))))
  | "c10.holds.same_tri_multiset", _what :: na :: nb :: rest => do
      let na ← nat? na; let nb ← nat? nb
      if rest.length ≠ na + nb then pure "false" else
      -- equal as multisets of triangles (each triangle one token of three corner positions)
      let a := (rest.take na).mergeSort (fun x y => decide (x ≤ y))
      let b := (rest.drop na).mergeSort (fun x y => decide (x ≤ y))
      pure (boolStr (a == b))
  | "c10.holds.same_outcome", [_topo, _count, _pool, seq, par] => pure (boolStr (seq == par))
  | "c10.holds.same_output", k :: rest => do
      let k ← nat? k
      pure (boolStr (rest.length == 2 * k && rest.take k == rest.drop k))
  | _, _ => none

end Driver.C10

def main : IO Unit := Driver.runLoop Driver.C10.handle
