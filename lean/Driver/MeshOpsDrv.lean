/-
  Request → model evaluation shared by the C02 and C03 drivers (core Lean only).
  `applyOp name tokens` parses the parameters and the input mesh(es) and runs the model of
  `PolyVerif/Model/MeshOps.lean`.  Outer `none` = malformed request, inner `none` = the model
  rejects the input (Go: error return or deliberate `panic(err)`).
-/
import Driver.MeshIO
import PolyVerif.Gen.Transform

namespace Driver.MeshIO
open PolyVerif PolyVerif.Mesh PolyVerif.Gen

def pow10 (p : Nat) : Float := (10 ^ p).toFloat

/-- `modeling.Vector3ToInt(v, power)`: `int(math.Round(x * math.Pow10(power)))` per component -/
def weldKey (power : Nat) (v : P) : List Int := v.map fun x => (Float.round (x * pow10 power)).toInt64.toInt

def firstLt (thr : Float) : P → Bool
  | a :: _ => a < thr
  | [] => false

def v3? : P → Option (V3 Float)
  | [a, b, c] => some ⟨a, b, c⟩
  | _ => none
def ofV3 (v : V3 Float) : P := [v.x, v.y, v.z]

/-- lift a V3 map to payloads (a payload of another width is left alone; cannot happen for width-3 keys) -/
def liftV3 (f : V3 Float → V3 Float) (p : P) : P :=
  match v3? p with
  | some v => ofV3 (f v)
  | none => p

def pV3 : Parser (V3 Float) := fun ts => do
  let (a, ts) ← pFloat ts
  let (b, ts) ← pFloat ts
  let (c, ts) ← pFloat ts
  pure (⟨a, b, c⟩, ts)

def one (m : MV) : Option (Option (List MV)) := some (some [m])
def oneO (m : Option MV) : Option (Option (List MV)) := some (m.map ([·]))

/-- `Tri.Area3D` is not needed to *move* data: the harness passes the keep decision of every
    triangle (computed by the Go predicate `!IsNaN(area) && area > minArea` on the same mesh), the
    model consumes them in triangle order. -/
def keepFromFlags (idx : List Nat) (flags : List Bool) : Nat → Nat → Nat → Bool :=
  let tbl := (triples idx).zip flags
  fun a b c => match tbl.find? (fun e => e.1 == (a, b, c)) with
    | some e => e.2
    | none => false

def applyOp (op : String) (ts : List String) : Option (Option (List MV)) :=
  match op with
  | "unweld" => do let (m, _) ← pMesh ts; one m.unweld
  | "removeunref" => do let (m, _) ← pMesh ts; one m.removeUnreferenced
  | "flip" => do let (m, _) ← pMesh ts; oneO m.flip
  | "topointcloud" => do let (m, _) ← pMesh ts; one m.toPointCloud
  | "setindices" => do
      let (idx, ts) ← pCounted pNat ts
      let (m, _) ← pMesh ts
      one (m.setIndices idx)
  | "append" => do
      let (a, ts) ← pMesh ts
      let (b, _) ← pMesh ts
      oneO (MeshVal.append zeroP a b)
  | "filter" => do
      let (w, ts) ← pNat ts
      let (name, ts) ← pTok ts
      let (thr, ts) ← pFloat ts
      let (m, _) ← pMesh ts
      oneO (m.filterAttr ⟨w, name⟩ (firstLt thr))
  | "split" => do
      let (m, _) ← pMesh ts
      some m.splitOnMaterials
  | "weld" => do
      let (name, ts) ← pTok ts
      let (p, ts) ← pNat ts
      let (m, _) ← pMesh ts
      oneO (m.weld ⟨3, name⟩ (weldKey p))
  | "crop" => do
      let (name, ts) ← pTok ts
      let (c, ts) ← pV3 ts
      let (e, ts) ← pV3 ts
      let (m, _) ← pMesh ts
      let box : geometry.AABB Float := ⟨c, e⟩
      oneO (m.crop ⟨3, name⟩ fun p => match v3? p with | some v => box.Contains v | none => false)
  | "removenull" => do
      let (name, ts) ← pTok ts
      let (flags, ts) ← pCounted pNat ts
      let (m, _) ← pMesh ts
      oneO (m.removeNullFaces ⟨3, name⟩ (keepFromFlags m.indices (flags.map (· != 0))))
  | "translate" => do
      let (name, ts) ← pTok ts
      let (t, ts) ← pV3 ts
      let (m, _) ← pMesh ts
      oneO (m.mapAttr ⟨3, name⟩ (liftV3 fun v => v.Add t))
  | "scale" => do
      let (name, ts) ← pTok ts
      let (o, ts) ← pV3 ts
      let (a, ts) ← pV3 ts
      let (m, _) ← pMesh ts
      oneO (m.mapAttr ⟨3, name⟩ (liftV3 fun v => o.Add ((v.Sub o).MultByVector a)))
  | "meshscale" => do
      let (a, ts) ← pV3 ts
      let (m, _) ← pMesh ts
      oneO (m.mapAttr ⟨3, "Position"⟩ (liftV3 fun v => v.MultByVector a))
  | "rotate" => do
      let (name, ts) ← pTok ts
      let (qv, ts) ← pV3 ts
      let (qw, ts) ← pFloat ts
      let (m, _) ← pMesh ts
      let q : quaternion.Quaternion Float := ⟨qv, qw⟩
      oneO (m.mapAttr ⟨3, name⟩ (liftV3 fun v => q.Rotate v))
  | "applytrs" => do
      let (p, ts) ← pV3 ts
      let (qv, ts) ← pV3 ts
      let (qw, ts) ← pFloat ts
      let (s, ts) ← pV3 ts
      let (m, _) ← pMesh ts
      let t := trs.New p ⟨qv, qw⟩ s
      oneO (m.mapAttr ⟨3, "Position"⟩ (liftV3 fun v => t.Transform v))
  | _ => none

end Driver.MeshIO
