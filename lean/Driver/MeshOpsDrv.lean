/-
  Request → model evaluation shared by the C02 and C03 drivers (core Lean only).
  `applyOp name tokens` parses the parameters and the input mesh(es) and runs the model of
  `PolyVerif/Model/MeshOps.lean`.  Outer `none` = malformed request, inner `none` = the model
  rejects the input (Go: error return or deliberate `panic(err)`).
-/
import Driver.MeshIO
import PolyVerif.Gen.Transform
import PolyVerif.Model.MeshTransforms
import PolyVerif.Model.MeshCallbacks

namespace Driver.MeshIO
open PolyVerif PolyVerif.Mesh PolyVerif.Gen

def pow10 (p : Nat) : Float := (10 ^ p).toFloat

/-- Go's `int(f)` for a float64 on amd64 (CVTTSD2SI): truncation when the value fits in int64, otherwise
    — NaN, ±Inf, out of range — the "integer indefinite" value `math.MinInt64` (Lean's `Float.toInt64`
    saturates and maps NaN to 0, so the out-of-range cases are spelled out). -/
def goInt (y : Float) : Int :=
  if y != y || y ≥ 9223372036854775808.0 || y < -9223372036854775808.0 then -9223372036854775808
  else y.toInt64.toInt

/-- `modeling.Vector3ToInt(v, power)`: `int(math.Round(x * math.Pow10(power)))` per component -/
def weldKey (power : Nat) (v : P) : List Int := v.map fun x => goInt (Float.round (x * pow10 power))

def firstLt (thr : Float) : P → Bool
  | a :: _ => a < thr
  | [] => false

/-- Go's `math.Max` (math/dim.go): +Inf wins over everything (also NaN), then NaN, then signed zeros -/
def goMax (x y : Float) : Float :=
  let pinf : Float := 1.0 / 0.0
  if x == pinf || y == pinf then pinf
  else if x != x || y != y then 0.0 / 0.0
  else if x == 0.0 && y == 0.0 then (if x.toBits == 0x8000000000000000 then y else x)
  else if x > y then x else y

/-- Go's `math.Min`: -Inf wins over everything (also NaN), then NaN, then signed zeros -/
def goMin (x y : Float) : Float :=
  let ninf : Float := -1.0 / 0.0
  if x == ninf || y == ninf then ninf
  else if x != x || y != y then 0.0 / 0.0
  else if x == 0.0 && y == 0.0 then (if x.toBits == 0x8000000000000000 then x else y)
  else if x < y then x else y

/-- Go's `-math.MaxFloat64` -/
def negMaxFloat : Float := Float.ofBits 0xffefffffffffffff

def pV3 : Parser (V3 Float) := fun ts => do
  let (a, ts) ← pFloat ts
  let (b, ts) ← pFloat ts
  let (c, ts) ← pFloat ts
  pure (⟨a, b, c⟩, ts)

def one (m : MV) : Option (Option (List MV)) := some (some [m])
def oneO (m : Option MV) : Option (Option (List MV)) := some (m.map ([·]))

/-- `Tri.Area3D` is not needed to *move* data: the harness passes the keep decision of every
    triangle (computed by the Go predicate `!IsNaN(area) && area > minArea` on the same mesh), the
    model consumes them in triangle order. -/
def keepFromFlags (idx : List Nat) (flags : List Bool) : Nat → Nat → Nat → Bool :=
  let tbl := (triples idx).zip flags
  fun a b c => match tbl.find? (fun e => e.1 == (a, b, c)) with
    | some e => e.2
    | none => false

/-- worker pool token: `seq` (sequential method) and `par` (NumCPU) never reject on the pool size -/
def pPool : Parser Nat
  | "seq" :: ts => some (1, ts)
  | "par" :: ts => some (1, ts)
  | t :: ts => t.toNat?.map (·, ts)
  | [] => none

/-- the callback the harness passes to ModifyFloatNAttribute: first component + i, second + 2i, the rest untouched -/
def modifyCb (i : Nat) (p : P) : P :=
  p.mapIdx fun j c => if j = 0 then c + i.toFloat else if j = 1 then c + (2 * i).toFloat else c

/-- the one runtime panic of the clean tree that the streams exercise on purpose (documented observation):
    LaplacianSmooth on an EMPTY line loop with the attribute present — VertexNeighborTable indexes `m.indices[0]` -/
def knownPanic (op : String) (ts : List String) : Bool :=
  if op == "laplacian" then
    match ts with
    | name :: _ :: _ :: rest =>
      match pMesh rest with
      | some (m, _) => m.topology == .lineLoop && m.indices.isEmpty && m.hasAttr ⟨3, name⟩
      | none => false
    | _ => false
  else false

def applyOp (op : String) (ts : List String) : Option (Option (List MV)) :=
  match op with
  | "scan" => do
      let (w, ts) ← pNat ts; let (name, ts) ← pTok ts; let (pool, ts) ← pPool ts
      let (m, _) ← pMesh ts
      oneO (m.scanAttr ⟨w, name⟩ pool)
  | "scanprims" => do
      let (pool, ts) ← pPool ts
      let (m, _) ← pMesh ts
      oneO (m.scanPrimitives pool)
  | "modify" => do
      let (w, ts) ← pNat ts; let (name, ts) ← pTok ts; let (pool, ts) ← pPool ts
      let (m, _) ← pMesh ts
      oneO (m.modifyAttrIdx ⟨w, name⟩ pool modifyCb)
  | "unweld" => do let (m, _) ← pMesh ts; one m.unweld
  | "removeunref" => do let (m, _) ← pMesh ts; one m.removeUnreferenced
  | "flip" => do let (m, _) ← pMesh ts; oneO m.flip
  | "topointcloud" => do let (m, _) ← pMesh ts; one m.toPointCloud
  | "setindices" => do
      let (idx, ts) ← pCounted pNat ts
      let (m, _) ← pMesh ts
      one (m.setIndices idx)
  | "repeat" => do
      let (k, ts) ← pNat ts
      let pT : Parser (trs.TRS Float) := fun ts => do
        let (p, ts) ← pV3 ts; let (qv, ts) ← pV3 ts; let (qw, ts) ← pFloat ts; let (sc, ts) ← pV3 ts
        pure (trs.New p ⟨qv, qw⟩ sc, ts)
      let (tl, ts) ← pMany pT k ts
      let (m, _) ← pMesh ts
      oneO (MeshVal.repeatMesh zeroP posKey m (tl.map fun t => liftV3 fun v => t.Transform v))
  | "setattr" => do
      let (w, ts) ← pNat ts
      let (name, ts) ← pTok ts
      let (n, ts) ← pNat ts
      let (vals, ts) ← pMany (pMany pFloat w) n ts
      let (m, _) ← pMesh ts
      one (m.setAttr ⟨w, name⟩ vals)
  | "append" => do
      let (a, ts) ← pMesh ts
      let (b, _) ← pMesh ts
      oneO (MeshVal.append zeroP a b)
  | "filter" => do
      let (w, ts) ← pNat ts
      let (name, ts) ← pTok ts
      let (thr, ts) ← pFloat ts
      let (m, _) ← pMesh ts
      oneO (m.filterAttr ⟨w, name⟩ (firstLt thr))
  | "split" => do
      let (m, _) ← pMesh ts
      some m.splitOnMaterials
  | "weld" => do
      let (name, ts) ← pTok ts
      let (p, ts) ← pNat ts
      let (m, _) ← pMesh ts
      oneO (m.weld ⟨3, name⟩ (weldKey p))
  | "crop" => do
      let (name, ts) ← pTok ts
      let (c, ts) ← pV3 ts
      let (e, ts) ← pV3 ts
      let (m, _) ← pMesh ts
      let box : geometry.AABB Float := ⟨c, e⟩
      oneO (m.crop ⟨3, name⟩ fun p => match v3? p with | some v => box.Contains v | none => false)
  | "removenull" => do
      let (name, ts) ← pTok ts
      let (flags, ts) ← pCounted pNat ts
      let (m, _) ← pMesh ts
      oneO (m.removeNullFaces ⟨3, name⟩ (keepFromFlags m.indices (flags.map (· != 0))))
  | "translate" => do
      let (name, ts) ← pTok ts
      let (t, ts) ← pV3 ts
      let (m, _) ← pMesh ts
      oneO (m.translate name t)
  | "scale" => do
      let (name, ts) ← pTok ts
      let (o, ts) ← pV3 ts
      let (a, ts) ← pV3 ts
      let (m, _) ← pMesh ts
      oneO (m.scaleAbout name o a)
  | "meshscale" => do
      let (a, ts) ← pV3 ts
      let (m, _) ← pMesh ts
      oneO (m.scaleMesh a)
  | "rotate" => do
      let (name, ts) ← pTok ts
      let (qv, ts) ← pV3 ts
      let (qw, ts) ← pFloat ts
      let (m, _) ← pMesh ts
      oneO (m.rotate name ⟨qv, qw⟩)
  | "applytrs" => do
      let (p, ts) ← pV3 ts
      let (qv, ts) ← pV3 ts
      let (qw, ts) ← pFloat ts
      let (s, ts) ← pV3 ts
      let (m, _) ← pMesh ts
      oneO (m.applyTRS (trs.New p ⟨qv, qw⟩ s))
  | "center" => do
      let (name, ts) ← pTok ts
      let (m, _) ← pMesh ts
      oneO (MeshVal.center goMin goMax m name)
  | "normalize" => do
      let (name, ts) ← pTok ts
      let (m, _) ← pMesh ts
      oneO (MeshVal.normalize negMaxFloat goMax m name)
  | "smoothnormals" => do let (m, _) ← pMesh ts; oneO m.smoothNormals
  | "flatnormals" => do let (m, _) ← pMesh ts; oneO m.flatNormals
  | "laplacian" => do
      let (name, ts) ← pTok ts
      let (iters, ts) ← pNat ts
      let (f, ts) ← pFloat ts
      let (m, _) ← pMesh ts
      oneO (m.laplacian name iters f)
  | _ => none

end Driver.MeshIO
