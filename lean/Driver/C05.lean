import Driver.Proto
import PolyVerif.Model.Obj
import PolyVerif.Model.ObjText
import PolyVerif.Model.ObjLex

/-!
  Driver for C05 (OBJ).  The text layer (what `bufio.Scanner`, `strings.Fields`, `strconv` do) lives
  here: `lexLine` turns a line of text into a `Line String Float…` for the reader model, `printLine`
  turns the writer model's lines into text.  Scalars are float64 bit patterns (UInt64).

  tokens:  strings are hex-encoded (`-` = empty); floats 16 hex digits
    mesh   := name nidx idx… (npos|-) xyz… (nuv|-) xy… (nnrm|-) xyz… nmats (matname|~ count)…      (~ = nil material)
    scene  := matfile nmesh mesh…
    result := ngroups mesh… nlibs lib…          (a read-back group is printed as a mesh; material never ~)

    c05.write <scene>                 → ok <text> | panic
    c05.read <text>                   → ok <result> | err | panic
    c05.itoa <int>                    → hex of strconv.Itoa(n)            (model: ObjText.showInt)
    c05.atoi <hex string>             → ok <n> | err   (strconv.Atoi)     (model: ObjText.parseInt)
    c05.holds.roundtrip <scene> <result>                    → RoundTrips (strict)
    c05.holds.roundtrip_matless_after_mat <scene> <result>  → same predicate (known finding class)
    c05.holds.roundtrip_empty_mesh_not_last <scene> <result>→ same predicate (known finding class)
    c05.holds.resave <text> <text'>   → `Resaves`: text' (= Write(Read text)) has the faces of text (count, order, positions,
                                        vt/vn where the whole group has them) and the reader accepts text' again
                                        … and `ResavesCorners` (the statement of theorem obj_resave_corners) holds
    c05.holds.resave_mixed_shapes …   → same predicate; texts with a group that mixes corner shapes
    c05.holds.fs_materials <groups> <groups'> → SameMaterials: obj.Save / SaveAll to disk (with .mtl) then obj.Load gives every
                                        triangle the material record it had (desc = name|Ns|Kd|map_Kd)
    c05.holds.reload <result> <result'> → RoundTrips (strict): the second load (of the saved text) returns the scene of the
                                        first load (obj_reload_strict); emitted when every group has a face
-/
namespace Driver.C05
open PolyVerif PolyVerif.Obj

abbrev S := UInt64   -- float64 bit pattern

/-! ### strings / hex -/

def strOfHex (s : String) : Option String :=
  if s == "-" then some "" else
  let rec go : List Char → List Char → Option (List Char)
    | [], acc => some acc.reverse
    | [_], _ => none
    | a :: b :: r, acc => do
      let x ← hexDigit a; let y ← hexDigit b
      go r (Char.ofNat (x * 16 + y) :: acc)
  (go s.toList []).map String.ofList

def hexOfStr (s : String) : String :=
  if s.isEmpty then "-" else
  String.ofList (s.toList.foldr (fun c acc => Nat.digitChar (c.toNat / 16 % 16) :: Nat.digitChar (c.toNat % 16) :: acc) [])

/-! ### numbers: printing (strconv.AppendFloat(f, 'f', -1, 64): shortest round-tripping decimal, computed with
    exact rational arithmetic) and parsing (strconv.ParseFloat(s, 32): correctly rounded to float32, error on overflow) -/

def stripTrailingZeros (cs : List Char) : List Char := (cs.reverse.dropWhile (· == '0')).reverse

/-- exact decimal expansion (kept for reference / debugging) -/
def printExact (b : S) : String :=
  let bits := b.toNat
  let sign := bits / 2 ^ 63
  let ex : Nat := bits / 2 ^ 52 % 2048
  let man : Nat := bits % 2 ^ 52
  let pre := if sign == 1 then "-" else ""
  if ex == 2047 then (if man == 0 then (if sign == 1 then "-Inf" else "+Inf") else "NaN") else
  let (m, e) : Nat × Int := if ex == 0 then (man, -1074) else (man + 2 ^ 52, (ex : Int) - 1075)
  if e ≥ 0 then pre ++ toString (m * 2 ^ e.toNat) else
  let k := (-e).toNat
  let n := m * 5 ^ k                       -- value = n / 10^k
  let ds := (toString n).toList
  let ds := if ds.length ≤ k then List.replicate (k + 1 - ds.length) '0' ++ ds else ds
  let ip := ds.take (ds.length - k)
  let fp := stripTrailingZeros (ds.drop (ds.length - k))
  pre ++ String.ofList ip ++ (if fp.isEmpty then "" else "." ++ String.ofList fp)

/-- a non-negative rational as numerator / denominator -/
abbrev Q := Nat × Nat
def qlt (a b : Q) : Bool := a.1 * b.2 < b.1 * a.2
def qle (a b : Q) : Bool := a.1 * b.2 ≤ b.1 * a.2
/-- |a - b| as a rational -/
def qdist (a b : Q) : Q := (if a.1 * b.2 ≥ b.1 * a.2 then a.1 * b.2 - b.1 * a.2 else b.1 * a.2 - a.1 * b.2, a.2 * b.2)
/-- D · 10^q -/
def dec (d : Nat) (q : Int) : Q := if q ≥ 0 then (d * 10 ^ q.toNat, 1) else (d, 10 ^ (-q).toNat)

/-- `strconv.AppendFloat(f, 'f', -1, 64)`: the shortest decimal that parses back to the same float64
    (closest to the value among the shortest), in positional notation -/
def printF (b : S) : String :=
  let bits := b.toNat
  let sign := bits / 2 ^ 63
  let ex : Nat := bits / 2 ^ 52 % 2048
  let man : Nat := bits % 2 ^ 52
  let pre := if sign == 1 then "-" else ""
  if ex == 2047 then (if man == 0 then (if sign == 1 then "-Inf" else "+Inf") else "NaN") else
  let (m, e) : Nat × Int := if ex == 0 then (man, -1074) else (man + 2 ^ 52, (ex : Int) - 1075)
  if m == 0 then pre ++ "0" else
  -- value and rounding interval in units of 2^(e-2)
  let boundary := man == 0 && ex > 1
  let unit : Int := e - 2
  let mk (k : Nat) : Q := if unit ≥ 0 then (k * 2 ^ unit.toNat, 1) else (k, 2 ^ (-unit).toNat)
  let x := mk (4 * m)
  let lo := mk (if boundary then 4 * m - 1 else 4 * m - 2)
  let hi := mk (4 * m + 2)
  let closed := m % 2 == 0
  let inside (d : Q) : Bool := if closed then qle lo d && qle d hi else qlt lo d && qlt d hi
  -- p10 with 10^p10 ≤ x < 10^(p10+1)
  let p0 : Int := ((toString (x.1 / x.2)).length : Int) - 1
  let p10 : Int := if x.1 ≥ x.2 then p0 else
    (List.range 400).foldl (fun (p : Int) _ => if qlt x (dec 1 p) then p - 1 else p) (-1)
  let rec search (fuel : Nat) (n : Nat) : Nat × Int :=
    match fuel with
    | 0 => (0, 0)
    | fuel + 1 =>
      let q : Int := p10 - (n : Int) + 1
      -- D_down = floor(x / 10^q)
      let dd : Nat := if q ≥ 0 then x.1 / (x.2 * 10 ^ q.toNat) else x.1 * 10 ^ (-q).toNat / x.2
      let du := dd + 1
      let okd := dd > 0 && inside (dec dd q)
      let oku := inside (dec du q)
      if okd && oku then
        let a := qdist x (dec dd q); let c := qdist x (dec du q)
        if qlt c a then (du, q) else if qlt a c then (dd, q) else (if dd % 2 == 0 then (dd, q) else (du, q))
      else if okd then (dd, q) else if oku then (du, q) else search fuel (n + 1)
  let (d0, q0) := search 20 1
  -- strip trailing zeros of the digit string
  let rec strip (fuel : Nat) (d : Nat) (q : Int) : Nat × Int :=
    match fuel with
    | 0 => (d, q)
    | fuel + 1 => if d % 10 == 0 && d > 0 then strip fuel (d / 10) (q + 1) else (d, q)
  let (d, q) := strip 400 d0 q0
  let ds := (toString d).toList
  if q ≥ 0 then pre ++ String.ofList ds ++ String.ofList (List.replicate q.toNat '0') else
  let k := (-q).toNat
  let ds := if ds.length ≤ k then List.replicate (k + 1 - ds.length) '0' ++ ds else ds
  let ip := ds.take (ds.length - k)
  let fp := ds.drop (ds.length - k)
  pre ++ String.ofList ip ++ "." ++ String.ofList fp

def isDigit (c : Char) : Bool := '0' ≤ c && c ≤ '9'

def digitsVal (cs : List Char) : Nat := cs.foldl (fun a c => a * 10 + (c.toNat - '0'.toNat)) 0

/-- `[+-]? digits [. digits]? ([eE] [+-]? digits)?` with at least one mantissa digit → (negative, n, e): value n·10^e -/
def parseDecimal (s : String) : Option (Bool × Nat × Int) := do
  let cs := s.toList
  let (neg, cs) := match cs with
    | '-' :: r => (true, r)
    | '+' :: r => (false, r)
    | _ => (false, cs)
  let ip := cs.takeWhile isDigit
  let cs := cs.dropWhile isDigit
  let (fp, cs) := match cs with
    | '.' :: r => (r.takeWhile isDigit, r.dropWhile isDigit)
    | _ => ([], cs)
  if ip.isEmpty && fp.isEmpty then none
  let (ex, cs) ← match cs with
    | c :: r =>
      if c == 'e' || c == 'E' then
        let (eneg, r) := match r with
          | '-' :: q => (true, q)
          | '+' :: q => (false, q)
          | _ => (false, r)
        let ed := r.takeWhile isDigit
        if ed.isEmpty then none
        else some ((if eneg then -(digitsVal ed : Int) else (digitsVal ed : Int)), r.dropWhile isDigit)
      else some ((0 : Int), cs)
    | [] => some ((0 : Int), cs)
  if !cs.isEmpty then none
  some (neg, digitsVal (ip ++ fp), ex - fp.length)

/-- correctly rounded (ties to even) float32 value of p/q > 0, as (m, e) with value m·2^e; none on overflow -/
def roundF32 (p q : Nat) : Option (Nat × Int) :=
  -- k with 2^k ≤ p/q < 2^(k+1)
  let k0 : Int := (Nat.log2 p : Int) - (Nat.log2 q : Int)
  let ge (k : Int) : Bool := if k ≥ 0 then p ≥ q * 2 ^ k.toNat else p * 2 ^ (-k).toNat ≥ q
  let k := if ge k0 then (if ge (k0 + 1) then k0 + 1 else k0) else k0 - 1
  let e : Int := max (k - 23) (-149)
  let (num, den) : Nat × Nat := if e ≥ 0 then (p, q * 2 ^ e.toNat) else (p * 2 ^ (-e).toNat, q)
  let m := num / den
  let r := num % den
  let m := if 2 * r > den || (2 * r == den && m % 2 == 1) then m + 1 else m
  -- overflow: ≥ 2^128
  if (if e ≥ 0 then m * 2 ^ e.toNat ≥ 2 ^ 128 else false) then none else some (m, e)

def parseF32 (s : String) : Option S := do
  let (neg, n, ex) ← parseDecimal s
  if n == 0 then some (if neg then (0x8000000000000000 : UInt64) else 0) else
  let (p, q) : Nat × Nat := if ex ≥ 0 then (n * 10 ^ ex.toNat, 1) else (n, 10 ^ (-ex).toNat)
  let (m, e) ← roundF32 p q
  let f := Float.scaleB (Float.ofNat m) e
  some (if neg then (-f).toBits else f.toBits)

/-- `strconv.Atoi`: the model function `ObjText.parseInt` (law `parseInt_showInt` proved in Props/C05Text.lean) -/
def atoi (s : String) : Option Int := ObjText.parseInt s

/-! ### lexer -/

def isSpace (c : Char) : Bool := ObjText.isSpace c

/-- `strings.Fields` (ASCII): the model function `ObjText.fields` (law `fields_printFace` proved in Props/C05Text.lean) -/
def fields (s : String) : List String := ObjText.fields s

/-- `bufio.ScanLines` -/
def scanLines (s : String) : List String :=
  let ls := s.splitOn "\n"
  let ls := match ls.reverse with
    | "" :: r => r.reverse
    | _ => ls
  ls.map fun l => if l.endsWith "\r" then (l.dropEnd 1).toString else l

/-- `parseObjFaceComponent`: the model function `ObjText.parseCorner` (law `parseCorner_showCorner` proved) -/
def pcStr (t : String) : Except Err Corner := ObjText.parseCorner t

def lexLine (line : String) : Line String S :=
  match fields line with
  | [] => .other line
  | kw :: args =>
    if !(ObjText.lexKeywords.contains kw) then .other line else     -- no default clause in the keyword switch
    -- components[k] is read (panic if missing) and parsed (err) in order
    let nums (k : Nat) : Except Err (List S) :=
      (List.range k).foldl (fun acc i => do
        let xs ← acc
        match args[i]? with
        | none => .error .panic
        | some a => match parseF32 a with
          | none => .error .err
          | some x => .ok (xs ++ [x])) (.ok [])
    match kw with
    | "v" => match nums 3 with
      | .ok [x, y, z] => .v ⟨x, y, z⟩
      | .error e => .bad e
      | _ => .bad .panic
    | "vn" => match nums 3 with
      | .ok [x, y, z] => .vn ⟨x, y, z⟩
      | .error e => .bad e
      | _ => .bad .panic
    | "vt" => match nums 2 with
      | .ok [x, y] => .vt ⟨x, y⟩
      | .error e => .bad e
      | _ => .bad .panic
    | "f" => match args with
      | a :: b :: c :: _ => .f a b c
      | _ => if args.any (fun t => match pcStr t with | .error .err => true | _ => false) then .bad .err else .bad .panic
    | "g" => .g (" ".intercalate args)
    | "usemtl" => if args.isEmpty then .bad .err else .usemtl (" ".intercalate args)
    | "mtllib" => if args.isEmpty then .bad .err else .mtllib args
    | _ => .other line

def lexText (s : String) : List (Line String S) := (scanLines s).map lexLine

/-! ### printer -/

/-- the face-corner token: the model function `ObjText.showCorner` (indices by `ObjText.showNat` = `strconv.Itoa`) -/
def printCorner (c : Corner) : String := ObjText.showCorner c

def printLine : Line Corner S → String
  | .v p => s!"v {printF p.x} {printF p.y} {printF p.z}"
  | .vn p => s!"vn {printF p.x} {printF p.y} {printF p.z}"
  | .vt p => s!"vt {printF p.x} {printF p.y}"
  | .f a b c => ObjText.printFace a b c     -- "f " + three corner tokens separated by one blank
  | .g n => "g " ++ n
  | .usemtl n => "usemtl " ++ n
  | .mtllib fs => "mtllib " ++ " ".intercalate fs
  | .other t => t
  | .bad _ => "<bad>"

def printText (ls : List (Line Corner S)) : String := String.join (ls.map fun l => printLine l ++ "\n")

/-! ### request parsing -/

def u64? (s : String) : Option S := if s.length ≠ 16 then none else (parseHex s).map Nat.toUInt64

def takeN {β : Type} (one : List String → Option (β × List String)) : Nat → List String → Option (List β × List String)
  | 0, ts => some ([], ts)
  | n + 1, ts => do let (a, ts) ← one ts; let (r, ts) ← takeN one n ts; some (a :: r, ts)

def nat1 : List String → Option (Nat × List String)
  | a :: ts => do let a ← nat? a; some (a, ts)
  | [] => none
def v3? : List String → Option (V3 S × List String)
  | a :: b :: c :: ts => do let a ← u64? a; let b ← u64? b; let c ← u64? c; some (⟨a, b, c⟩, ts)
  | _ => none
def v2? : List String → Option (V2 S × List String)
  | a :: b :: ts => do let a ← u64? a; let b ← u64? b; some (⟨a, b⟩, ts)
  | _ => none
def attr? {β : Type} (one : List String → Option (β × List String)) : List String → Option (Option (List β) × List String)
  | "-" :: ts => some (none, ts)
  | n :: ts => do let n ← nat? n; let (v, ts) ← takeN one n ts; some (some v, ts)
  | [] => none
def mat? : List String → Option ((Option String × Nat) × List String)
  | "~" :: c :: ts => do let c ← nat? c; some ((none, c), ts)
  | n :: c :: ts => do let n ← strOfHex n; let c ← nat? c; some ((some n, c), ts)
  | _ => none

def mesh? : List String → Option ((String × Mesh S) × List String)
  | name :: n :: ts => do
    let name ← strOfHex name
    let n ← nat? n
    let (idx, ts) ← takeN nat1 n ts
    let (pos, ts) ← attr? v3? ts
    let (uv, ts) ← attr? v2? ts
    let (nrm, ts) ← attr? v3? ts
    match ts with
    | k :: ts => do
      let k ← nat? k
      let (mats, ts) ← takeN mat? k ts
      some ((name, ⟨idx, pos, uv, nrm, mats⟩), ts)
    | [] => none
  | _ => none

def scene? : List String → Option ((String × List (String × Mesh S)) × List String)
  | f :: n :: ts => do
    let f ← strOfHex f; let n ← nat? n
    let (ms, ts) ← takeN mesh? n ts
    some ((f, ms), ts)
  | _ => none

def str1 : List String → Option (String × List String)
  | a :: ts => do let a ← strOfHex a; some (a, ts)
  | [] => none

def result? : List String → Option ((List (String × Mesh S) × List String) × List String)
  | n :: ts => do
    let n ← nat? n
    let (ms, ts) ← takeN mesh? n ts
    match ts with
    | k :: ts => do
      let k ← nat? k
      let (libs, ts) ← takeN str1 k ts
      some ((ms, libs), ts)
    | [] => none
  | [] => none

def f64s (xs : List S) : List String := xs.map fun x => natToHex x.toNat 16
def attr3Hex : Option (List (V3 S)) → List String
  | none => ["-"]
  | some vs => toString vs.length :: vs.flatMap fun v => f64s [v.x, v.y, v.z]
def attr2Hex : Option (List (V2 S)) → List String
  | none => ["-"]
  | some vs => toString vs.length :: vs.flatMap fun v => f64s [v.x, v.y]

def meshHex (p : String × Mesh S) : List String :=
  let m := p.2
  [hexOfStr p.1, toString m.idx.length] ++ m.idx.map toString ++ attr3Hex m.pos ++ attr2Hex m.uv ++ attr3Hex m.nrm ++
    [toString m.mats.length] ++ m.mats.flatMap fun (n, c) => [match n with | none => "~" | some n => hexOfStr n, toString c]

def resultHex (gs : List (String × Mesh S)) (libs : List String) : String :=
  " ".intercalate ([toString gs.length] ++ gs.flatMap meshHex ++ [toString libs.length] ++ libs.map hexOfStr)

def readText (t : String) : Except Err (List (String × Mesh S) × List String) :=
  (readObj pcStr (lexText t)).map fun (gs, libs) => (gs.map toMesh, libs)

/-- print-then-parse of a scalar.  The fallback value is never used by an oracle: every oracle that applies
    `rtF` first checks `scalarsOk` (all scalars of the source scene print-then-parse) and answers `false`
    otherwise. -/
def rtF (x : S) : S := match parseF32 (printF x) with
  | some y => y
  | none => x

def scalarOk (x : S) : Bool := (parseF32 (printF x)).isSome

def scalarsOk (ms : List (String × Mesh S)) : Bool :=
  ms.all fun p =>
    (optList p.2.pos).all (fun v => scalarOk v.x && scalarOk v.y && scalarOk v.z) &&
    (optList p.2.nrm).all (fun v => scalarOk v.x && scalarOk v.y && scalarOk v.z) &&
    (optList p.2.uv).all (fun v => scalarOk v.x && scalarOk v.y)

/-- `ngroups (name ntris nranges (desc count)…)…` -/
def matGroups? : List String → Option (List (String × Nat × List (String × Nat)) × List String)
  | n :: ts => do
    let n ← nat? n
    let one : List String → Option ((String × Nat × List (String × Nat)) × List String)
      | name :: nt :: k :: ts => do
        let name ← strOfHex name; let nt ← nat? nt; let k ← nat? k
        let rng : List String → Option ((String × Nat) × List String)
          | d :: c :: ts => do let d ← strOfHex d; let c ← nat? c; some ((d, c), ts)
          | _ => none
        let (rs, ts) ← takeN rng k ts
        some ((name, nt, rs), ts)
      | _ => none
    takeN one n ts
  | [] => none

def handle (op : String) (args : List String) : Option String := do
  match op with
  | "c05.write" =>
      let ((f, ms), _) ← scene? args
      match writeObj f ms with
      | .ok ls => pure ("ok " ++ hexOfStr (printText ls))
      | .error _ => pure "panic"
  | "c05.read" =>
      let t ← strOfHex (← args.head?)
      match readText t with
      | .ok (gs, libs) => pure ("ok " ++ resultHex gs libs)
      | .error .err => pure "err"
      | .error .panic => pure "panic"
  | "c05.itoa" =>        -- strconv.Itoa(n) ↔ ObjText.showInt
      let n ← int? (← args.head?)
      pure (hexOfStr (ObjText.showInt n))
  | "c05.atoi" =>        -- strconv.Atoi(s) ↔ ObjText.parseInt
      let t ← strOfHex (← args.head?)
      match ObjText.parseInt t with
      | some n => pure s!"ok {n}"
      | none => pure "err"
  | "c05.holds.readers_agree" =>
      match args with
      | n :: a :: rest => do
        let n ← nat? n
        pure (boolStr (rest.length + 1 == n && rest.all (· == a)))
      | _ => none
  | "c05.holds.roundtrip" | "c05.holds.roundtrip_matless_after_mat" | "c05.holds.roundtrip_empty_mesh_not_last" =>
      let ((_, ms), r) ← scene? args
      let ((gs, _), _) ← result? r
      pure (boolStr (scalarsOk ms && RoundTrips rtF ms gs))
  | "c05.holds.roundtrip_carry" =>
      let ((_, ms), r) ← scene? args
      let ((gs, _), _) ← result? r
      pure (boolStr (scalarsOk ms && RoundTripsCarry rtF none ms gs))
  | "c05.holds.fs_materials" =>
      let (want, r) ← matGroups? args
      let (got, _) ← matGroups? r
      pure (boolStr (SameMaterials want got))
  | "c05.holds.reload" =>
      let ((ms, _), r) ← result? args
      let ((gs, _), _) ← result? r
      pure (boolStr (scalarsOk ms && RoundTrips rtF ms gs))
  | "c05.holds.resave" | "c05.holds.resave_mixed_shapes" =>
      match args with
      | [a, b] =>
        let a ← strOfHex a; let b ← strOfHex b
        let reload := match readObj pcStr (lexText b) with
          | .ok _ => true
          | .error _ => false
        -- the statement of obj_resave_corners (final-pool form) on the implementation's saved text
        let corners := match readObj pcStr (lexText a) with
          | .ok (gs, _) => ResavesCorners pcStr pcStr (lexText a) gs (lexText b)
          | .error _ => false
        pure (boolStr (Resaves pcStr pcStr (lexText a) (lexText b) && reload && corners))
      | _ => none
  | _ => none

end Driver.C05

def main : IO Unit := Driver.runLoop Driver.C05.handle
