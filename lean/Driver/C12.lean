import Driver.Proto
import PolyVerif.Model.GraphIO
import PolyVerif.Model.GraphSession
import PolyVerif.Model.Payload

/-!
  C12 driver: answers the `c12.*` request lines from `PolyVerif.Model.GraphIO`.
  Payload strings stay opaque (the `s<hex>` token itself); only what the model inspects is decoded
  (ids, port / dependency names, output ports, the three header strings).  Hex preserves byte order,
  so sorting tokens = sorting the Go strings.
-/
namespace Driver.C12
open PolyVerif.GraphIO

/-! ### tokens -/

def hexVal (c : Char) : Option Nat :=
  if '0' ≤ c ∧ c ≤ '9' then some (c.toNat - 48)
  else if 'a' ≤ c ∧ c ≤ 'f' then some (c.toNat - 87) else none

def unhexBytes : List Char → Option (List UInt8)
  | [] => some []
  | [_] => none
  | a :: b :: r => do
    let x ← hexVal a; let y ← hexVal b; let rest ← unhexBytes r
    pure (UInt8.ofNat (x * 16 + y) :: rest)

/-- `s<hex>` → the UTF-8 string -/
def unS (t : String) : Option String :=
  match t.toList with
  | 's' :: r => do
    let bs ← unhexBytes r
    String.fromUTF8? (ByteArray.mk bs.toArray)
  | _ => none

def hexNib (n : Nat) : Char := if n < 10 then Char.ofNat (48 + n) else Char.ofNat (87 + n)

def hs (s : String) : String :=
  String.ofList ('s' :: s.toUTF8.toList.flatMap (fun b => [hexNib (b.toNat / 16), hexNib (b.toNat % 16)]))

abbrev P := StateT (List String) Option

def tok : P String := fun s => match s with | [] => none | t :: r => some (t, r)
def pNat : P Nat := do let t ← tok; (t.toNat? : Option Nat)
def pStr : P String := do let t ← tok; (unS t : Option String)          -- decoded
def pRaw : P String := do                                              -- opaque `s…` token
  let t ← tok
  if t.startsWith "s" then pure t else failure
def pOptRaw : P (Option String) := do
  let t ← tok
  if t = "-" then pure none else if t.startsWith "s" then pure (some t) else failure
def pName : P Name := do let s ← pStr; pure s.toList

def pMany {α} (p : P α) : Nat → P (List α)
  | 0 => pure []
  | n + 1 => do let a ← p; let r ← pMany p n; pure (a :: r)

def pCounted {α} (p : P α) : P (List α) := do let n ← pNat; pMany p n

/-! ### environment -/

abbrev V := String
abbrev G := Graph V

structure TyEntry where
  name : TyName
  T : NodeType
  dflt : Option V

def pPort : P (Name × VTy) := do let n ← pName; let t ← pNat; pure (n, t)

def pTy : P TyEntry := do
  let name ← pRaw; let out ← pNat; let kind ← pNat; let dflt ← pOptRaw
  let scal ← pCounted pPort; let arrs ← pCounted pPort
  let pk : Option PKind := if kind = 1 then some .value else if kind = 2 then some .file else none
  pure { name := name, T := { out := out, scal := scal, arrs := arrs, param := pk }, dflt := dflt }

def mkEnv (tys : List TyEntry) : Env V V :=
  { types := fun n => (tys.find? (·.name = n)).map (·.T),
    dflt := fun n => (tys.find? (·.name = n)).bind (·.dflt),
    toJ := id, fromJ := fun _ j => some j,
    cat := fun a b => a ++ (b.drop 1).toString }

def pHdr : P Hdr := do
  let n ← pStr; let v ← pStr; let d ← pStr; let a ← pOptRaw; let w ← pOptRaw
  pure ⟨n, v, d, a, w⟩

partial def pMeta : P Meta := do
  let t ← tok
  if t = "L" then do let j ← pRaw; pure (.leaf j)
  else if t = "O" then do
    let n ← pNat
    let kids ← pMany (do let k ← pRaw; let m ← pMeta; pure (k, m)) n
    pure (.obj kids)
  else failure

def pKids : P (List (String × Meta)) := pCounted (do let k ← pRaw; let m ← pMeta; pure (k, m))

def pOp : P (Op V) := do
  let t ← tok
  match t with
  | "C" => do let ty ← pRaw; pure (.create ty)
  | "N" => do let s ← pStr; let sp ← pStr; let d ← pStr; let ip ← pName; pure (.connect s sp d ip)
  | "D" => do let d ← pStr; let ip ← pName; pure (.disconnect d ip)
  | "V" => do let i ← pStr; let j ← pRaw; pure (.setValue i j)
  | "A" => do let i ← pStr; let s ← pRaw; pure (.setName i s)
  | "E" => do let i ← pStr; let s ← pRaw; pure (.setDesc i s)
  | "P" => do let i ← pStr; let f ← pRaw; pure (.setProducer i f)
  | "M" => do let p ← pCounted pRaw; let v ← pMeta; pure (.metaSet p v)
  | "X" => do let p ← pCounted pRaw; pure (.metaDel p)
  | "R" => do let i ← pStr; pure (.delete i)
  | _ => failure

/-! ### canonical printing (must match go/harness/c12.go) -/

def sortStr (l : List String) : List String := (l.toArray.qsort (· < ·)).toList

def sortOn {α} (key : α → String) (l : List α) : List α := (l.toArray.qsort (fun a b => key a < key b)).toList

def nameTok (n : Name) : String := hs (String.ofList n)

def optTok : Option String → String
  | none => "-"
  | some s => s

def cliTok : Option (String × String) → List String
  | none => ["-"]
  | some (f, u) => ["c", f, u]

def hdrToks (h : Hdr) : List String := [hs h.name, hs h.version, hs h.description, optTok h.authors, optTok h.webScene]

mutual
partial def metaToks : Meta → List String
  | .leaf j => ["L", j]
  | .obj kids => "O" :: kidsToksS kids
partial def kidsToksS (kids : List (String × Meta)) : List String :=
  toString kids.length :: (sortOn (·.1) kids).flatMap (fun kv => kv.1 :: metaToks kv.2)
end

def emptyParamName : String := "s"

def nodeToks (E : Env V V) (n : Node V) : List String :=
  let T : NodeType := (E.types n.ty).getD { out := 0, scal := [], arrs := [], param := none }
  let scal := (sortOn (fun p => nameTok p.1) T.scal).filterMap (fun p => (n.scal p.1).map (fun r => [nameTok p.1, hs r.node, hs r.port]))
  let arrs := (sortOn (fun p => nameTok p.1) T.arrs).filterMap (fun p =>
    let l := n.arrs p.1
    if l.isEmpty then none else some (nameTok p.1 :: toString l.length :: l.flatMap (fun r => [hs r.node, hs r.port])))
  [hs n.id, n.ty] ++ (toString scal.length :: scal.flatten) ++ (toString arrs.length :: arrs.flatten) ++
  (match n.par with
   | none => ["-"]
   | some p => ["p", p.name, p.desc, optTok p.value, optTok p.dflt] ++ cliTok p.cli)

def prodToks (ps : List (String × Ref)) : List String :=
  toString ps.length :: (sortOn (·.1) ps).flatMap (fun kv => [kv.1, hs kv.2.node, hs kv.2.port])

def graphToks (E : Env V V) (g : G) : List String :=
  ["G"] ++ hdrToks g.hdr ++ [toString g.nodes.length] ++ (sortOn (fun n => hs n.id) g.nodes).flatMap (nodeToks E) ++
  prodToks g.prods ++ kidsToksS g.md

def nodeSToks (n : NodeS V) : List String :=
  [hs n.id, n.ty, toString n.deps.length] ++ n.deps.flatMap (fun d => [nameTok d.name, hs d.ref.node, hs d.ref.port]) ++
  (match n.data with
   | none => ["-"]
   | some d => ["d", d.name, optTok d.desc, optTok d.cur, optTok d.dflt] ++ cliTok d.cli)

def schemaToks (s : Schema V) : List String :=
  ["S"] ++ hdrToks s.hdr ++ [toString s.nodes.length] ++ (sortOn (fun n => hs n.id) s.nodes).flatMap nodeSToks ++
  prodToks s.prods ++ kidsToksS s.md

/-! ### parsing dumps back -/

def pRef : P Ref := do let i ← pStr; let p ← pStr; pure ⟨i, p⟩

def pCli : P (Option (String × String)) := do
  let t ← tok
  if t = "-" then pure none
  else if t = "c" then do let f ← pRaw; let u ← pRaw; pure (some (f, u))
  else failure

def pNode : P (Node V) := do
  let id ← pStr; let ty ← pRaw
  let scal ← pCounted (do let p ← pName; let r ← pRef; pure (p, r))
  let arrs ← pCounted (do let p ← pName; let l ← pCounted pRef; pure (p, l))
  let t ← tok
  let par ← (if t = "-" then pure none
    else if t = "p" then do
      let name ← pRaw; let desc ← pRaw; let v ← pOptRaw; let d ← pOptRaw; let cli ← pCli
      -- a dump shows Value(); store it as the applied value
      pure (some { name := name, desc := desc, cur := v, dflt := d, cli := cli : Param V })
    else failure : P (Option (Param V)))
  pure { id := id, ty := ty,
         scal := fun q => (scal.find? (·.1 = q)).map (·.2),
         arrs := fun q => ((arrs.find? (·.1 = q)).map (·.2)).getD [],
         par := par }

def pProds : P (List (String × Ref)) := pCounted (do let f ← pRaw; let r ← pRef; pure (f, r))

def pGraph : P G := do
  let t ← tok
  if t ≠ "G" then failure
  let hdr ← pHdr
  let nodes ← pCounted pNode
  let prods ← pProds
  let md ← pKids
  pure { nodes := nodes, prods := prods, md := md, hdr := hdr }

def pNodeS : P (NodeS V) := do
  let id ← pStr; let ty ← pRaw
  let deps ← pCounted (do let n ← pName; let r ← pRef; pure (⟨n, r⟩ : Dep))
  let t ← tok
  let data ← (if t = "-" then pure none
    else if t = "d" then do
      let name ← pRaw; let desc ← pOptRaw; let c ← pOptRaw; let d ← pOptRaw; let cli ← pCli
      pure (some { name := name, desc := desc, cur := c, dflt := d, cli := cli : PData V })
    else failure : P (Option (PData V)))
  pure { id := id, ty := ty, deps := deps, data := data }

def pSchema : P (Schema V) := do
  let t ← tok
  if t ≠ "S" then failure
  let hdr ← pHdr
  let nodes ← pCounted pNodeS
  let prods ← pProds
  let md ← pKids
  pure { hdr := hdr, nodes := nodes, prods := prods, md := md }

/-! ### requests -/

def errTok : Err → String
  | .panic => "panic" | .err => "err" | .fuel => "fuel"

/-- an event of a session: `L <file dump>` = load that saved file into the SAME application, else an editing op -/
def pEv : P (SEv V) := do
  let s ← get
  match s with
  | "L" :: r => do set r; let f ← pSchema; pure (.load f)
  | _ => do let o ← pOp; pure (.edit o)

/-- run a session, collecting the status of every event -/
def runStat (E : Env V V) (g : G) : List (SEv V) → G × List String
  | [] => (g, [])
  | ev :: evs =>
    match evStep E g ev with
    | .ok g' => let (gf, st) := runStat E g' evs; (gf, "ok" :: st)
    | .error e => let (gf, st) := runStat E g evs; (gf, errTok e :: st)

/-- header (of the application when the session starts), type table, start graph (`-` = the empty graph of a new
    application, else the dump of the graph the application defines in code), session -/
def pCase : P (Env V V × G × List (SEv V)) := do
  let hdr ← pHdr
  let tys ← pCounted pTy
  let rest ← get
  let g0 ← (match rest with
    | "-" :: r => do set r; pure (Graph.init hdr)
    | _ => pGraph : P G)
  let evs ← pCounted pEv
  pure (mkEnv tys, g0, evs)

def fixDesc (s : Schema V) : Schema V :=
  -- a value parameter's description decodes from JSON "" as the empty string token
  s

def join (l : List String) : String := " ".intercalate l

def metaEq (a b : List (String × Meta)) : Bool := kidsToksS a == kidsToksS b

/-- the opaque empty string is the token "s": make `desc.getD ""` of the model print like Go's "" -/
def normEmpty (g : G) : G :=
  { g with nodes := g.nodes.map fun n =>
      { n with par := n.par.map fun p => { p with name := if p.name = "" then "s" else p.name,
                                                  desc := if p.desc = "" then "s" else p.desc } } }

def normEmptyS (s : Schema V) : Schema V :=
  { s with nodes := s.nodes.map fun n =>
      { n with data := n.data.map fun d => { d with name := if d.name = "" then "s" else d.name,
                                                    desc := d.desc.map fun x => if x = "" then "s" else x } } }

def splitAt2 (marker : String) (ts : List String) : Option (List String × List String) :=
  match ts with
  | [] => none
  | t :: r =>
    if t ≠ marker then none else
    let a := r.takeWhile (· ≠ marker)
    let b := r.dropWhile (· ≠ marker)
    if b.isEmpty then none else some (t :: a, b)

def allDistinct : List Name → Bool
  | [] => true
  | a :: r => !r.contains a && allDistinct r

/-- the driver's float codec: a number stays the text strconv printed (float formatting is the trusted law) -/
def numChar (c : Char) : Bool := isDigit c || c = '-' || c = '+' || c = '.' || c = 'e' || c = 'E'
def numC : PolyVerif.Payload.Codec (List Char) :=
  { print := id,
    parse := fun s => match s.takeWhile numChar with
      | [] => none
      | d :: ds => some (d :: ds, s.dropWhile numChar) }

open PolyVerif.Payload in
/-- parse a Go-marshalled payload text with the model's codec of that type and print it again -/
def reprint (kind : String) (t : List Char) : Option (List Char) :=
  let via {α : Type} (c : Codec α) : Option (List Char) := (whole (c.parse t)).map c.print
  match kind with
  | "f64" => via numC
  | "int" => via intC
  | "str" => via strC
  | "color" => via strC
  | "bool" => via boolC
  | "v2" => via (v2C numC)
  | "v3" => via (v3C numC)
  | "v3arr" => via (sliceC (v3C numC))
  | "aabb" => via (aabbC numC)
  | "arrint" => via (arrC intC)
  | "arrstr" => via (arrC strC)
  | "arrbool" => via (arrC boolC)
  | _ => none

def handle (op : String) (args : List String) : Option String :=
  match op with
  | "c12.json" =>
    match args with
    | [kind, t] => do
      let s ← unS t
      match reprint kind s.toList with
      | some out => pure (hs (String.ofList out))
      | none => pure "err"
    | _ => none
  | "c12.holds.image_payload_kept" =>
    match args with
    -- kind, status, live pixels, reloaded pixels (16-bit RGBA + NRGBA per pixel), artifact pixels of both applications,
    -- ToMessage bytes of both, first and second save, name/description kept
    | [_, st, live, reloaded, art1, art2, before, after, s1, s2, md] =>
      some (boolStr (st == hs "ok" && live == reloaded && art1 == art2 && art1 == live && before == after && s1 == s2 && md == "true"))
    | _ => some "false"
  | "c12.less" => do
    let ((a, b), _) ← (do let a ← pName; let b ← pName; pure (a, b) : P _).run args
    pure (boolStr (depLess a b))
  | "c12.atoi" => do
    let (a, _) ← pName.run args
    pure (match atoi a with | some v => toString v | none => "err")
  | "c12.arrname" => do
    let ((p, i), _) ← (do let p ← pName; let i ← pNat; pure (p, i) : P _).run args
    pure (nameTok (arrName p i))
  | "c12.edit" => do
    let ((E, g, ops), _) ← pCase.run args
    let (gf, st) := runStat E g ops
    pure ((if st.isEmpty then "-" else ",".intercalate st) ++ " " ++ join (graphToks E (normEmpty gf)))
  | "c12.save" => do
    let ((E, g, ops), _) ← pCase.run args
    pure (join (schemaToks (normEmptyS (encode E depLess (runEv E g ops)))))
  | "c12.reload" => do
    let ((E, g, ops), _) ← pCase.run args
    match decode E Hdr.empty (encode E depLess (runEv E g ops)) with
    | .ok g' => pure (join (graphToks E (normEmpty g')))
    | .error e => pure (errTok e)
  | "c12.file" => do
    let ((E, s), _) ← (do let tys ← pCounted pTy; let s ← pSchema; pure (mkEnv tys, s) : P _).run args
    match decode E Hdr.empty s with
    | .ok g' => pure (join (graphToks E (normEmpty g')) ++ " " ++ join (schemaToks (normEmptyS (encode E depLess g'))))
    | .error e => pure (errTok e)
  | "c12.holds.same_graph" => do
    let ((E, g1, g2), _) ← (do let tys ← pCounted pTy; let a ← pGraph; let b ← pGraph; pure (mkEnv tys, a, b) : P _).run args
    pure (boolStr (Graph.same E metaEq g1 g2 && Graph.same E metaEq g2 g1))
  | "c12.holds.id_table" => do
    -- the node id table read both ways: for every id the saved file would bind, `NodeId(Node(id))` is that id
    -- (ids the id-based editing operations resolve are the nodes that get saved) - also right after a load
    let (l, _) ← (pCounted (do let a ← pRaw; let b ← pRaw; pure (a, b)) : P _).run args
    pure (boolStr (l.all fun (a, b) => a == b && a != "s"))
  | "c12.holds.bytes_identical" =>
    match args with
    | [a, b] => some (boolStr (a == b && a != "spanic" && a != "s70616e6963"))
    | _ => none
  | "c12.holds.file_equals_schema" =>
    -- the file GraphSaver.Save left on disk is App.Schema() at that moment (full bytes, or length + SHA-256 of both)
    match args with
    | [st, "full", a, b] => some (boolStr (st == hs "ok" && a == b))
    | [st, "digest", la, da, lb, db] => some (boolStr (st == hs "ok" && la == lb && da == db))
    | _ => some "false"
  | "c12.holds.schema_fixpoint" => do
    let (a, b) ← splitAt2 "S" args
    let (sa, _) ← pSchema.run a
    let (sb, _) ← pSchema.run b
    pure (boolStr (schemaToks sa == schemaToks sb))
  | "c12.holds.same_artifacts" => do
    let (l, _) ← (pCounted (do let n ← pRaw; let a ← tok; let b ← tok; pure (n, a, b)) : P _).run args
    -- an artifact whose evaluation panics (an unconnected required input) must do so on both sides
    pure (boolStr (l.all fun (_, a, b) => a == b && a != "missing"))
  | "c12.holds.ports_distinct" => do
    let ((_, ns), _) ← (do let t ← pRaw; let ns ← pCounted pName; pure (t, ns) : P _).run args
    pure (boolStr (allDistinct (ns.map lower) && ns.all (fun n => !n.contains '.' && !n.isEmpty)))
  | "c12.holds.natural_order" => do
    -- the hypothesis of `decode_encode` (`CmpOK.arrOrder` + asymmetry), on the implementation's own answers:
    -- for i < j the comparator says P.i < P.j and not P.j < P.i
    let ((i, j, lij, lji), _) ← (do let _ ← pName; let _ ← pName; let i ← pNat; let j ← pNat; let a ← tok; let b ← tok
                                    pure (i, j, a, b) : P _).run args
    pure (boolStr (decide (i < j) && lij == "true" && lji == "false"))
  | "c12.holds.param_value_kept" =>
    match args with
    | [_, st, before, after, dBefore, dAfter, md] =>
      some (boolStr (st == hs "ok" && before == after && dBefore == dAfter && md == "true"))
    | _ => some "false"
  | "c12.holds.param_law" =>
    match args with
    | [_, j1, j2, b1, b2, same, md] => some (boolStr (j1 == j2 && b1 == b2 && same == "true" && md == "true"))
    | _ => some "false"
  | "c12.holds.repo_file_loads" =>
    match args with
    | [_, st] => some (boolStr (st == hs "ok"))
    | _ => none
  | "c12.holds.repo_file_bytes_identical" =>
    match args with
    | [_, a, b] => some (boolStr (a == b))
    | _ => none
  | "c12.holds.repo_file_schema_reproduced" =>
    match args with
    | _ :: rest => do
      let (a, b) ← splitAt2 "S" rest
      let (sa, _) ← pSchema.run a
      let (sb, _) ← pSchema.run b
      pure (boolStr (schemaToks sa == schemaToks sb))
    | _ => none
  | "c12.holds.save_ok" => some "false"
  | "c12.holds.reload_ok" => some "false"
  | "c12.holds.fileparam_content" => do
    let ((st, l), _) ← (do let st ← pRaw; let l ← pCounted (do let a ← pRaw; let b ← pRaw; pure (a, b)); pure (st, l) : P _).run args
    pure (boolStr (st == hs "ok" && l.all fun (a, b) => a == b))
  | "c12.holds.codefile_value_kept" =>
    -- a code-declared File parameter (with a default): value, producer artifact and re-save survive the reload
    match args with
    | [_, st, live, reloaded, a1, a2, s1, s2] =>
      some (boolStr (st == hs "ok" && live == reloaded && a1 == a2 && a1 == live && s1 == s2))
    | _ => some "false"
  | "c12.holds.fileparam_description" =>
    match args with
    | [a, b] => some (boolStr (a == b))
    | _ => none
  | "c12.holds.fileparam_bytes_identical" =>
    match args with
    | [a, b] => some (boolStr (a == b))
    | _ => none
  | _ => none

end Driver.C12

def main : IO Unit := Driver.runLoop Driver.C12.handle
