/-
  C13 driver: answers the request lines of harness stream "c13" from the models
  PolyVerif/Model/Nodes.lean + PolyVerif/Model/Linz.lean (core Lean only; `Std.Data.HashSet` of
  the Lean distribution is used by the untrusted search only).

    c13.seq <graph> K <call>*K
        answer: the K responses of folding `PolyVerif.Linz.seqStep` (V := Nat) over the calls
    c13.holds.linearizable <graph> E <event>*E
        answer: `true` iff a linearization of the recorded history is found by the (untrusted,
        `partial`) backtracking search AND `PolyVerif.Linz.checkWitness g0 events S` accepts it

    graph := N <node>*N      node := `Q v` | `S salt ns sc*ns na (len id*len)*na`    sc := `-` | id
    call  := `u p v` | `d p` | `a i`        resp := `ok` | `v n` | `err`
    event := `i opid tid <call>` | `r opid <resp>`

  Initial state: struct nodes cache 0, version 0, remembered none, flag false; parameters version 0.
-/
import Driver.Proto
import PolyVerif.Model.Nodes
import PolyVerif.Model.Linz
import Std.Data.HashSet

namespace Driver.C13
open PolyVerif.Nodes PolyVerif.Linz

/-! ### the concrete `Process()` of every struct node of the harness (`c13mix` in go/harness/c13.go) -/

def M : Nat := 2147483647

def mixScalars (h : Nat) : List (Option Nat) → List Nat → Nat × List Nat
  | [], vs => (h, vs)
  | none :: ps, vs => mixScalars ((h * 31 + 7) % M) ps vs
  | some _ :: ps, v :: vs => mixScalars ((h * 31 + 11 + v) % M) ps vs
  | some _ :: ps, [] => mixScalars ((h * 31 + 11) % M) ps []

def mixElems (h : Nat) : Nat → List Nat → Nat × List Nat
  | 0, vs => (h, vs)
  | n+1, v :: vs => mixElems ((h * 31 + 13 + v) % M) n vs
  | n+1, [] => mixElems ((h * 31 + 13) % M) n []

def mixArrays (h : Nat) : List (List Nat) → List Nat → Nat
  | [], _ => h
  | a :: as, vs =>
    let r := mixElems ((h * 37 + 5 + a.length) % M) a.length vs
    mixArrays r.1 as r.2

/-- walks the scalar ports consuming one value per connected port, then the arrays consuming
    `len` values each -/
def mix (salt : Nat) (sc : List (Option Nat)) (ar : List (List Nat)) (vs : List Nat) : Nat :=
  let r := mixScalars salt sc vs
  mixArrays r.1 ar r.2

/-! ### parsing -/

abbrev P := StateT (List String) Option

def tok : P String := fun ts => match ts with
  | [] => none
  | t :: r => some (t, r)

def pNat : P Nat := do
  let t ← tok
  match t.toNat? with
  | some n => pure n
  | none => failure

def pOptNat : P (Option Nat) := do
  let t ← tok
  if t == "-" then pure none else
  match t.toNat? with
  | some n => pure (some n)
  | none => failure

def rep {α : Type} (p : P α) : Nat → P (List α)
  | 0 => pure []
  | n+1 => do let a ← p; let r ← rep p n; pure (a :: r)

def pList {α : Type} (p : P α) : P (List α) := do let n ← pNat; rep p n

def pNode : P (Node Nat) := do
  let t ← tok
  if t == "Q" then
    let v ← pNat
    pure (.param v 0)
  else if t == "S" then
    let salt ← pNat
    let sc ← pList pOptNat
    let ar ← pList (pList pNat)
    pure (.struct { fn := fun sc ar ovs => mix salt sc ar (ovs.map (·.getD 0)), scalars := sc, arrays := ar, cache := 0, version := 0,
                    remembered := none, flag := false })
  else if t == "E" then
    -- a FAILING processor (harness `c13Failing`): when the mixed value is divisible by `fail`, `Process()` returns
    -- ((h*7+3) % M, error); `nodes.Struct.process()` stores that value and bumps the version all the same
    let salt ← pNat
    let fail ← pNat
    let sc ← pList pOptNat
    let ar ← pList (pList pNat)
    pure (.struct { fn := fun sc ar ovs =>
                      let h := mix salt sc ar (ovs.map (·.getD 0))
                      if fail > 0 && h % fail == 0 then (h * 7 + 3) % M else h,
                    scalars := sc, arrays := ar, cache := 0, version := 0, remembered := none, flag := false })
  else if t == "R" then
    -- the repo's `stl.ReadNode` over a `parameter.File`: even code = a well-formed STL (the mesh of that code),
    -- odd code = the same upload cut short: `ReadMesh` fails, the node yields the empty mesh (code 0) and an error
    let _salt ← pNat
    let sc ← pList pOptNat
    let ar ← pList (pList pNat)
    pure (.struct { fn := fun _ _ vs => let v := (vs.headD none).getD 0; if v % 2 == 1 then 0 else v,
                    scalars := sc, arrays := ar, cache := 0, version := 0, remembered := none, flag := false })
  else if t == "B" then
    -- the repo's binary producer `basics.BinaryNode` over a `parameter.File`: the artifact IS the
    -- file content (identity on the single input)
    let _salt ← pNat
    let sc ← pList pOptNat
    let ar ← pList (pList pNat)
    pure (.struct { fn := fun _ _ vs => (vs.headD none).getD 0, scalars := sc, arrays := ar, cache := 0, version := 0,
                    remembered := none, flag := false })
  else failure

def pCall : P (Call Nat) := do
  let t ← tok
  match t with
  | "u" => do let p ← pNat; let v ← pNat; pure (.update p v)
  | "d" => do let p ← pNat; pure (.paramData p)
  | "a" => do let i ← pNat; pure (.artifact i)
  | "ub" => do let p ← pNat; pure (.updateRejected p)   -- update with a message that does not decode
  | _ => failure

def pResp : P (Resp Nat) := do
  let t ← tok
  match t with
  | "ok" => pure .ok
  | "err" => pure .err
  | "v" => do let n ← pNat; pure (.val n)
  | _ => failure

def pEvent : P (Event Nat) := do
  let t ← tok
  match t with
  | "i" => do let id ← pNat; let tid ← pNat; let c ← pCall; pure (.inv id tid c)
  | "r" => do let id ← pNat; let r ← pResp; pure (.resp id r)
  | _ => failure

def pEnd : P Unit := fun ts => match ts with
  | [] => some ((), [])
  | _ => none

def respStr : Resp Nat → String
  | .ok => "ok"
  | .val n => s!"v {n}"
  | .err => "err"

/-! ### the model graph as a table -/

/-- the graph function backed by an array (the padding beyond the array is a parameter).
    NB the table is always passed around as DATA (an `Array` argument, evaluated once): a definition
    `tabulate N g : Graph Nat := let arr := …; fun j => …` is compiled as a 3-ary function that
    rebuilds the array on every lookup. -/
def graphOf (arr : Array (Node Nat)) : Graph Nat := fun j => arr[j]?.getD (.param 0 0)

/-- the first `N` entries of a graph function, tabulated -/
def table (N : Nat) (g : Graph Nat) : Array (Node Nat) := Array.ofFn (n := N) (fun j => g j.val)

/-- the C13 harness numbers its (fixed) graphs topologically: every dependency has a smaller id (a ranking for the
    model's guard `Acyclic`); a request violating it is treated as malformed -/
def wfNodes (ns : List (Node Nat)) : Bool :=
  (ns.zipIdx).all fun (n, i) =>
    match n with
    | .param _ _ => true
    | .struct s => s.deps.all (· < i)

/-! ### (a) sequential lines -/

/-- parameter versions (second component of `.param v n`) in node order -/
def paramVersions (arr : Array (Node Nat)) : List Nat :=
  arr.toList.filterMap fun n => match n with
    | .param _ n => some n
    | .struct _ => none

def callNode : Call Nat → Nat
  | .update p _ => p
  | .paramData p => p
  | .artifact i => i
  | .updateRejected p => p

def isUpdate : Call Nat → Bool
  | .update _ _ => true
  | _ => false

/-- `ub p` on a node that IS a parameter: `ApplyMessage` returns the decode error before writing
    anything, but `UpdateParameter` calls `incModelVersion` after it all the same (instance.go:440-442) -/
def isRejectedOnParam (arr : Array (Node Nat)) : Call Nat → Bool
  | .updateRejected p => (match arr[p]? with | some (.param _ _) => true | _ => false)
  | _ => false

/-- One response block per call: `<resp> pv <version of every parameter, node order> mv <model version>`.
    A call naming a node id `≥ N` (harness token 999999: a node id / producer name the instance does
    not have) is rejected — Go panics in `i.Node` (inside the lock) resp. in the producer lookup of
    `Artifact` (before the lock) — answer `err`, state unchanged.  `mv` = `Instance.ModelVersion()` =
    number of `UpdateParameter` calls so far that reached `incModelVersion`: the accepted ones AND the
    ones whose message did not decode (`ub` on a parameter: response `err`, parameter versions
    unchanged, mv + 1); a call that panics in `i.Parameter` (no parameter / unknown id) never reaches it. -/
def structVersions (arr : Array (Node Nat)) : List Nat :=
  arr.toList.filterMap fun n => match n with
    | .param _ _ => none
    | .struct s => some s.version

def runSeq (obs : Nat) (N : Nat) : Array (Node Nat) → Nat → List (Call Nat) → List String
  | _, _, [] => []
  | arr, mv, c :: cs =>
    let blk := fun (r : String) (a : Array (Node Nat)) (m : Nat) =>
      if obs == 1 then s!"{r} pv {" ".intercalate ((paramVersions a).map toString)} mv {m}"
      else if obs == 2 then
        s!"{r} pv {" ".intercalate ((paramVersions a).map toString)} sv {" ".intercalate ((structVersions a).map toString)} mv {m}"
      else r
    if callNode c ≥ N then
      blk "err" arr mv :: runSeq obs N arr mv cs
    else
      let r := seqStep (N+1) (graphOf arr) c
      let arr' := table N r.1
      let mv' := if (isUpdate c && decide (r.2 = .ok)) || isRejectedOnParam arr c then mv + 1 else mv
      blk (respStr r.2) arr' mv' :: runSeq obs N arr' mv' cs

/-- `c13.seq` (obs = true: blocks with pv/mv) and `c13.http.seq` (obs = false: the same fold of
    `seqStep`, the calls went through the edit server's HTTP handlers, only the responses are seen) -/
def handleSeq (obs : Nat) : P String := do
  let ns ← pList pNode
  let calls ← pList pCall
  pEnd
  if !wfNodes ns then failure
  pure (" ".intercalate (runSeq obs ns.length ns.toArray 0 calls))

/-! ### (b) linearization search (untrusted) + verified witness check -/

structure OpRec where
  op : LOp Nat
  invPos : Nat
  respPos : Nat

instance : Inhabited OpRec := ⟨{ op := ⟨0, 0, .paramData 0, .err⟩, invPos := 0, respPos := 0 }⟩

/-- the complete operations of a history: each invocation with its response and both positions;
    `none` if some invocation has no (or more than one) response or ids repeat -/
def collectOps (evs : List (Event Nat)) : Option (Array OpRec) := do
  let idx := evs.zipIdx
  let mut out : Array OpRec := #[]
  for (e, k) in idx do
    match e with
    | .inv id tid c =>
      if out.any (·.op.id == id) then none
      let rs := idx.filterMap fun (e2, k2) =>
        match e2 with
        | .resp id2 r => if id2 == id then some (r, k2) else none
        | _ => none
      match rs with
      | [(r, k2)] =>
        if k2 < k then none
        out := out.push { op := ⟨id, tid, c, r⟩, invPos := k, respPos := k2 }
      | _ => none
    | .resp id _ =>
      if !(evs.any fun e2 => match e2 with | .inv id2 _ _ => id2 == id | _ => false) then none
  pure out

/-! The search is a depth-first placement of operations, real-time minimal ones first:
    * candidates = remaining operations invoked before the earliest response among the remaining ones,
      tried in order of their response position;
    * an operation that does not change the parameter valuation (ParameterData, Artifact, a rejected
      call) and whose recorded response equals what the current state answers is placed at once,
      without alternatives (it is real-time minimal and commutes with whatever follows);
    * failed (remaining set, parameter valuation) pairs are memoised;
    * second phase only (`prune`): every update of a history writes a unique value, so the response
      of a read names the update it read from, per parameter — for an Artifact after inverting the
      hash over all candidate valuations.  A state in which some remaining read can no longer see
      the values it returned (the writer is already overwritten, or cannot precede it) is abandoned.
    Nothing here is trusted: the order found is validated by `PolyVerif.Linz.checkWitness`. -/

structure SearchSt where
  failed : Std.HashSet (Nat × List Nat) := {}
  budget : Nat

/-- the parameter valuation of a state: what every response is a function of (C11 `read_fresh`) -/
def valuation (arr : Array (Node Nat)) : List Nat :=
  arr.toList.filterMap fun n => match n with
    | .param v _ => some v
    | .struct _ => none

/-- `evalSpec` of every node, bottom-up (dependencies have smaller ids) -/
def nodeVals (arr : Array (Node Nat)) : Array Nat :=
  arr.foldl (init := #[]) fun vals n =>
    match n with
    | .param v _ => vals.push v
    | .struct s => vals.push (s.fn s.scalars s.arrays (s.deps.map fun d => some (vals[d]?.getD 0)))

def isParam (arr : Array (Node Nat)) (p : Nat) : Bool :=
  match graphOf arr p with
  | .param _ _ => true
  | .struct _ => false

def paramVal (arr : Array (Node Nat)) (p : Nat) : Option Nat :=
  match arr[p]? with
  | some (.param v _) => some v
  | _ => none

/-- does the call change the parameter valuation -/
def isWrite (arr : Array (Node Nat)) : Call Nat → Bool
  | .update p _ => isParam arr p
  | _ => false

/-- what the state answers, from the tabulated spec values (prediction; `seqStep` is run on the
    operation actually placed) -/
def predict (arr : Array (Node Nat)) (vals : Array Nat) : Call Nat → Resp Nat
  | .update p _ => if isParam arr p then .ok else .err
  | .paramData p => match graphOf arr p with
    | .param x _ => .val x
    | .struct _ => .err
  | .artifact i => .val (vals[i]?.getD 0)
  | .updateRejected _ => .err

structure Ctx where
  N : Nat
  ops : Array OpRec                                   -- sorted by response position
  prune : Bool
  /-- per operation: `none` = no constraint known; `some alts` = the read saw one of these partial
      valuations (lists of (parameter, value)) -/
  need : Array (Option (List (List (Nat × Nat))))
  /-- (parameter, value) ↦ index of the update writing it; `none` = written more than once or equal
      to the initial value (then nothing is concluded from it) -/
  writer : Std.HashMap (Nat × Nat) (Option Nat)

def feasible (cx : Ctx) (arr : Array (Node Nat)) (mask : Nat) : Bool :=
  (List.range cx.ops.size).all fun k =>
    !mask.testBit k ||
    match (cx.need[k]?).getD none with
    | none => true
    | some alts => alts.any fun alt => alt.all fun (p, x) =>
        paramVal arr p == some x ||
        (match cx.writer[(p, x)]? with
         | some (some w) => mask.testBit w && (cx.ops[w]!).invPos < (cx.ops[k]!).respPos
         | some none => true
         | none => false)

/-- `mask` = bit k set iff `cx.ops[k]` is still to be placed; `vals = nodeVals arr`;
    returns the placed indices, first to last -/
partial def search (cx : Ctx) (arr : Array (Node Nat)) (vals : Array Nat) (mask : Nat) (acc : List Nat) :
    StateM SearchSt (Option (List Nat)) := do
  if mask == 0 then return some acc.reverse
  let st ← get
  if st.budget == 0 then return none
  set { st with budget := st.budget - 1 }
  let n := cx.ops.size
  -- earliest response among the remaining operations
  let mut minResp := 0
  let mut found := false
  for k in [0:n] do
    if !found && mask.testBit k then
      minResp := (cx.ops[k]!).respPos
      found := true
  -- a candidate read / rejected call that the current state answers as recorded: place it, no alternatives
  let mut pick : Option Nat := none
  for k in [0:n] do
    if pick.isNone && mask.testBit k then
      let o := cx.ops[k]!
      if o.invPos < minResp && !(isWrite arr o.op.call) && decide (predict arr vals o.op.call = o.op.resp) then
        pick := some k
  if let some k := pick then
    let o := cx.ops[k]!
    let r := seqStep (cx.N+1) (graphOf arr) o.op.call
    if decide (r.2 = o.op.resp) then
      return (← search cx (table cx.N r.1) vals (mask ^^^ (1 <<< k)) (k :: acc))
  let key := (mask, valuation arr)
  if (← get).failed.contains key then return none
  if cx.prune && !(feasible cx arr mask) then
    modify fun s => { s with failed := s.failed.insert key }
    return none
  for k in [0:n] do
    if mask.testBit k then
      let o := cx.ops[k]!
      if o.invPos < minResp && decide (predict arr vals o.op.call = o.op.resp) then
        let r := seqStep (cx.N+1) (graphOf arr) o.op.call
        if decide (r.2 = o.op.resp) then
          let arr' := table cx.N r.1
          let res ← search cx arr' (nodeVals arr') (mask ^^^ (1 <<< k)) (k :: acc)
          if res.isSome then return res
          if (← get).budget == 0 then return none
  modify fun s => { s with failed := s.failed.insert key }
  return none

def sortByResp (ops : Array OpRec) : Array OpRec :=
  ops.qsort (fun a b => a.respPos < b.respPos)

/-! #### second phase: which update did a read read from -/

def insertSorted (x : Nat) : List Nat → List Nat
  | [] => [x]
  | y :: ys => if x < y then x :: y :: ys else if x == y then y :: ys else y :: insertSorted x ys

/-- per node: the parameters it depends on (sorted) -/
def relParams (arr : Array (Node Nat)) : Array (List Nat) :=
  (arr.zipIdx).foldl (init := #[]) fun rel (n, j) =>
    match n with
    | .param _ _ => rel.push [j]
    | .struct s => rel.push (s.deps.foldl (fun acc d => ((rel[d]?).getD []).foldl (fun a p => insertSorted p a) acc) [])

def setParam (arr : Array (Node Nat)) (p v : Nat) : Array (Node Nat) :=
  match arr[p]? with
  | some (.param _ n) => arr.set! p (.param v n)
  | _ => arr

/-- all valuations of the parameters `ps` over their candidate values; for each, the value of node `i`
    is recorded:  value ↦ the partial valuations producing it -/
partial def invert (i : Nat) (cand : Nat → List Nat) : List Nat → Array (Node Nat) → List (Nat × Nat) →
    Std.HashMap Nat (List (List (Nat × Nat))) → Std.HashMap Nat (List (List (Nat × Nat)))
  | [], arr, alt, m =>
    let h := ((nodeVals arr)[i]?).getD 0
    m.insert h (alt :: (m[h]?).getD [])
  | p :: ps, arr, alt, m =>
    (cand p).foldl (fun m v => invert i cand ps (setParam arr p v) ((p, v) :: alt) m) m

def inversionCap : Nat := 300000

def buildCtx (N : Nat) (ops : Array OpRec) (arr0 : Array (Node Nat)) (prune : Bool) : Option Ctx :=
  if !prune then some { N := N, ops := ops, prune := false, need := #[], writer := {} } else Id.run do
    let mut writer : Std.HashMap (Nat × Nat) (Option Nat) := {}
    for k in [0:ops.size] do
      match (ops[k]!).op.call with
      | .update p v =>
        if isParam arr0 p then
          writer := writer.insert (p, v) (if writer.contains (p, v) || paramVal arr0 p == some v then none else some k)
      | _ => pure ()
    let cand : Nat → List Nat := fun p =>
      ((paramVal arr0 p).toList ++ ops.toList.filterMap fun o =>
        match o.op.call with
        | .update q v => if q == p then some v else none
        | _ => none).eraseDups
    let rel := relParams arr0
    let mut tables : Std.HashMap Nat (Std.HashMap Nat (List (List (Nat × Nat)))) := {}
    let mut need : Array (Option (List (List (Nat × Nat)))) := #[]
    for k in [0:ops.size] do
      let o := ops[k]!
      match o.op.call, o.op.resp with
      | .paramData p, .val x =>
        need := need.push (if isParam arr0 p then some [[(p, x)]] else none)
      | .artifact i, .val h =>
        let ps := (rel[i]?).getD []
        if (ps.foldl (fun acc p => acc * (cand p).length) 1) > inversionCap then
          need := need.push none
        else
          if !tables.contains i then
            tables := tables.insert i (invert i cand ps arr0 [] {})
          let alts := (((tables[i]?).getD {})[h]?).getD []
          -- a value no candidate valuation produces: the history has no linearization at all
          if alts.isEmpty then return none
          need := need.push (some alts)
      | _, _ => need := need.push none
    return some { N := N, ops := ops, prune := true, need := need, writer := writer }

def budget1 : Nat := 3000
def budget2 : Nat := 2000000

def findOrder (N : Nat) (ops : Array OpRec) (arr0 : Array (Node Nat)) : Option (List Nat) :=
  let full := (1 <<< ops.size) - 1
  let vals0 := nodeVals arr0
  let try1 := match buildCtx N ops arr0 false with
    | some cx => ((search cx arr0 vals0 full []).run { budget := budget1 }).1
    | none => none
  match try1 with
  | some o => some o
  | none =>
    match buildCtx N ops arr0 true with
    | some cx => ((search cx arr0 vals0 full []).run { budget := budget2 }).1
    | none => none

def linearizable (ns : List (Node Nat)) (evs : List (Event Nat)) : Bool :=
  match collectOps evs with
  | none => false
  | some ops =>
    let byResp := sortByResp ops
    let arr0 := ns.toArray
    match findOrder ns.length byResp arr0 with
    | none => false
    | some order =>
      let S : List (LOp Nat) := order.filterMap fun k => byResp[k]?.map (·.op)
      -- the verified check decides; the search above is only a proposal
      checkWitness (ns.length+1) (graphOf arr0) evs S

/-- debugging aid (not used by the harness): search nodes used by phase 1 / phase 2 -/
def searchStats (ns : List (Node Nat)) (evs : List (Event Nat)) : String :=
  match collectOps evs with
  | none => "malformed"
  | some ops =>
    let byResp := sortByResp ops
    let arr0 := ns.toArray
    let full := (1 <<< byResp.size) - 1
    let vals0 := nodeVals arr0
    let r1 := match buildCtx ns.length byResp arr0 false with
      | some cx => let r := (search cx arr0 vals0 full []).run { budget := budget2 }; s!"{r.1.isSome} {budget2 - r.2.budget}"
      | none => "none"
    let r2 := match buildCtx ns.length byResp arr0 true with
      | some cx => let r := (search cx arr0 vals0 full []).run { budget := budget2 }; s!"{r.1.isSome} {budget2 - r.2.budget}"
      | none => "unmatched-artifact"
    s!"ops {byResp.size} plain {r1} pruned {r2}"

def handleLin (stats : Bool) : P String := do
  let ns ← pList pNode
  let evs ← pList pEvent
  pEnd
  if !wfNodes ns then failure
  pure (if stats then searchStats ns evs else Driver.boolStr (linearizable ns evs))

/-- `c13.holds.results_immutable K (dRet dLater)*K`: every result a client received (artifact bytes,
    ParameterData bytes) still has, whenever it was looked at again later — after later completed
    updates, and after the history ended — the digest it had when the call returned: results are
    VALUES, a later update must not change them in place (C13: "every artifact reflects one
    consistent snapshot"; anchors: "artifacts returned are values usable after unlock") -/
def handleImmutable : P String := do
  let k ← pNat
  let ps ← rep (do let a ← tok; let b ← tok; pure (a, b)) k
  pEnd
  pure (Driver.boolStr (ps.all fun (a, b) => a == b))

/-! ### sequential snapshot oracle -/

/-- The predicate of `artifact_snapshot` / `paramData_snapshot` / `snapshot_params` on a SEQUENTIAL run (the
    linearization is the call order): the parameter valuation is the initial one overwritten by the accepted
    updates so far; every `Artifact` response is `Spec` — the from-scratch evaluation, no cache, version or
    remembered list is looked at — of exactly that valuation; every `ParameterData` response is the current
    value; an update of a non-parameter / unknown id and a REJECTED message answer `err` and change nothing
    (`rejected_message_noop`: the reads after it are judged against the unchanged valuation). -/
def snapshotOk (N : Nat) : Array (Node Nat) → List (Call Nat × Resp Nat) → Bool
  | _, [] => true
  | arr, (c, r) :: rest =>
    if callNode c ≥ N then decide (r = .err) && snapshotOk N arr rest else
    match c with
    | .update p v =>
      (match arr[p]? with
       | some (.param _ n) => decide (r = .ok) && snapshotOk N (arr.set! p (.param v (n+1))) rest
       | _ => decide (r = .err) && snapshotOk N arr rest)
    | .updateRejected _ => decide (r = .err) && snapshotOk N arr rest
    | .paramData p =>
      (match arr[p]? with
       | some (.param x _) => decide (r = .val x) && snapshotOk N arr rest
       | _ => decide (r = .err) && snapshotOk N arr rest)
    | .artifact i => decide (r = .val (Spec (N+1) (graphOf arr) i)) && snapshotOk N arr rest

def handleSnapshot : P String := do
  let ns ← pList pNode
  let crs ← pList (do let c ← pCall; let r ← pResp; pure (c, r))
  pEnd
  if !wfNodes ns then failure
  pure (Driver.boolStr (snapshotOk ns.length ns.toArray crs))

/-- one request -> one answer line; `none` = unknown op / malformed -/
def handle (op : String) (args : List String) : Option String :=
  match op with
  | "c13.holds.results_immutable" => (handleImmutable.run args).map (·.1)
  | "c13.seq" => ((handleSeq 1).run args).map (·.1)
  | "c13.seqx" => ((handleSeq 2).run args).map (·.1)
  | "c13.http.seq" => ((handleSeq 0).run args).map (·.1)
  | "c13.holds.artifact_snapshot" => (handleSnapshot.run args).map (·.1)
  | "c13.holds.rejected_message_noop" => (handleImmutable.run args).map (·.1)
  | "c13.holds.linearizable" => ((handleLin false).run args).map (·.1)
  | "c13.debug.search" => ((handleLin true).run args).map (·.1)
  | _ => none

end Driver.C13

def main : IO Unit := Driver.runLoop Driver.C13.handle
