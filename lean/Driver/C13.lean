/-
  C13 driver: answers the request lines of harness stream "c13" from the models
  PolyVerif/Model/Nodes.lean + PolyVerif/Model/Linz.lean (core Lean only; `Std.Data.HashSet` of
  the Lean distribution is used by the untrusted search only).

    c13.seq <graph> K <call>*K
        answer: the K responses of folding `PolyVerif.Linz.seqStep` (V := Nat) over the calls
    c13.holds.linearizable <graph> E <event>*E
        answer: `true` iff a linearization of the recorded history is found by the (untrusted,
        `partial`) backtracking search AND `PolyVerif.Linz.checkWitness g0 events S` accepts it

    graph := N <node>*N      node := `Q v` | `S salt ns sc*ns na (len id*len)*na`    sc := `-` | id
    call  := `u p v` | `d p` | `a i`        resp := `ok` | `v n` | `err`
    event := `i opid tid <call>` | `r opid <resp>`

  Initial state: struct nodes cache 0, version 0, remembered none, flag false; parameters version 0.
-/
import Driver.Proto
import PolyVerif.Model.Nodes
import PolyVerif.Model.Linz
import Std.Data.HashSet

namespace Driver.C13
open PolyVerif.Nodes PolyVerif.Linz

/-! ### the concrete `Process()` of every struct node of the harness (`c13mix` in go/harness/c13.go) -/

def M : Nat := 2147483647

def mixScalars (h : Nat) : List (Option Nat) → List Nat → Nat × List Nat
  | [], vs => (h, vs)
  | none :: ps, vs => mixScalars ((h * 31 + 7) % M) ps vs
  | some _ :: ps, v :: vs => mixScalars ((h * 31 + 11 + v) % M) ps vs
  | some _ :: ps, [] => mixScalars ((h * 31 + 11) % M) ps []

def mixElems (h : Nat) : Nat → List Nat → Nat × List Nat
  | 0, vs => (h, vs)
  | n+1, v :: vs => mixElems ((h * 31 + 13 + v) % M) n vs
  | n+1, [] => mixElems ((h * 31 + 13) % M) n []

def mixArrays (h : Nat) : List (List Nat) → List Nat → Nat
  | [], _ => h
  | a :: as, vs =>
    let r := mixElems ((h * 37 + 5 + a.length) % M) a.length vs
    mixArrays r.1 as r.2

/-- walks the scalar ports consuming one value per connected port, then the arrays consuming
    `len` values each -/
def mix (salt : Nat) (sc : List (Option Nat)) (ar : List (List Nat)) (vs : List Nat) : Nat :=
  let r := mixScalars salt sc vs
  mixArrays r.1 ar r.2

/-! ### parsing -/

abbrev P := StateT (List String) Option

def tok : P String := fun ts => match ts with
  | [] => none
  | t :: r => some (t, r)

def pNat : P Nat := do
  let t ← tok
  match t.toNat? with
  | some n => pure n
  | none => failure

def pOptNat : P (Option Nat) := do
  let t ← tok
  if t == "-" then pure none else
  match t.toNat? with
  | some n => pure (some n)
  | none => failure

def rep {α : Type} (p : P α) : Nat → P (List α)
  | 0 => pure []
  | n+1 => do let a ← p; let r ← rep p n; pure (a :: r)

def pList {α : Type} (p : P α) : P (List α) := do let n ← pNat; rep p n

def pNode : P (Node Nat) := do
  let t ← tok
  if t == "Q" then
    let v ← pNat
    pure (.param v 0)
  else if t == "S" then
    let salt ← pNat
    let sc ← pList pOptNat
    let ar ← pList (pList pNat)
    pure (.struct { fn := mix salt, scalars := sc, arrays := ar, cache := 0, version := 0,
                    remembered := none, flag := false })
  else failure

def pCall : P (Call Nat) := do
  let t ← tok
  match t with
  | "u" => do let p ← pNat; let v ← pNat; pure (.update p v)
  | "d" => do let p ← pNat; pure (.paramData p)
  | "a" => do let i ← pNat; pure (.artifact i)
  | _ => failure

def pResp : P (Resp Nat) := do
  let t ← tok
  match t with
  | "ok" => pure .ok
  | "err" => pure .err
  | "v" => do let n ← pNat; pure (.val n)
  | _ => failure

def pEvent : P (Event Nat) := do
  let t ← tok
  match t with
  | "i" => do let id ← pNat; let tid ← pNat; let c ← pCall; pure (.inv id tid c)
  | "r" => do let id ← pNat; let r ← pResp; pure (.resp id r)
  | _ => failure

def pEnd : P Unit := fun ts => match ts with
  | [] => some ((), [])
  | _ => none

def respStr : Resp Nat → String
  | .ok => "ok"
  | .val n => s!"v {n}"
  | .err => "err"

/-! ### the model graph as a table -/

/-- the graph function backed by an array (same function on `0..N-1`; the padding is a parameter) -/
def tabulate (N : Nat) (g : Graph Nat) : Graph Nat :=
  let arr : Array (Node Nat) := Array.ofFn (n := N) (fun j => g j.val)
  fun j => arr[j]?.getD (.param 0 0)

def ofNodes (ns : List (Node Nat)) : Graph Nat :=
  let arr := ns.toArray
  fun j => arr[j]?.getD (.param 0 0)

/-- every dependency has a smaller id (the model's `WF`); a request violating it is malformed -/
def wfNodes (ns : List (Node Nat)) : Bool :=
  (ns.zipIdx).all fun (n, i) =>
    match n with
    | .param _ _ => true
    | .struct s => s.deps.all (· < i)

/-! ### (a) sequential lines -/

def runSeq (N : Nat) : Graph Nat → List (Call Nat) → List (Resp Nat)
  | _, [] => []
  | g, c :: cs =>
    let r := seqStep g c
    r.2 :: runSeq N (tabulate N r.1) cs

def handleSeq : P String := do
  let ns ← pList pNode
  let calls ← pList pCall
  pEnd
  if !wfNodes ns then failure
  pure (" ".intercalate ((runSeq ns.length (ofNodes ns) calls).map respStr))

/-! ### (b) linearization search (untrusted) + verified witness check -/

structure OpRec where
  op : LOp Nat
  invPos : Nat
  respPos : Nat

instance : Inhabited OpRec := ⟨{ op := ⟨0, 0, .paramData 0, .err⟩, invPos := 0, respPos := 0 }⟩

/-- the complete operations of a history: each invocation with its response and both positions;
    `none` if some invocation has no (or more than one) response or ids repeat -/
def collectOps (evs : List (Event Nat)) : Option (Array OpRec) := do
  let idx := evs.zipIdx
  let mut out : Array OpRec := #[]
  for (e, k) in idx do
    match e with
    | .inv id tid c =>
      if out.any (·.op.id == id) then none
      let rs := idx.filterMap fun (e2, k2) =>
        match e2 with
        | .resp id2 r => if id2 == id then some (r, k2) else none
        | _ => none
      match rs with
      | [(r, k2)] =>
        if k2 < k then none
        out := out.push { op := ⟨id, tid, c, r⟩, invPos := k, respPos := k2 }
      | _ => none
    | .resp id _ =>
      if !(evs.any fun e2 => match e2 with | .inv id2 _ _ => id2 == id | _ => false) then none
  pure out

structure SearchSt where
  failed : Std.HashSet (Nat × List Nat) := {}
  budget : Nat

/-- the parameter valuation of a state: what every response is a function of (C11 `read_fresh`) -/
def valuation (N : Nat) (g : Graph Nat) : List Nat :=
  (List.range N).filterMap fun j => match g j with
    | .param v _ => some v
    | .struct _ => none

/-- depth-first search; `byResp` = the operations sorted by response position, `mask` = bit k set
    iff `byResp[k]` is still to be placed; returns the placed indices, first to last -/
partial def search (N : Nat) (byResp : Array OpRec) (g : Graph Nat) (mask : Nat) (acc : List Nat) :
    StateM SearchSt (Option (List Nat)) := do
  if mask == 0 then return some acc.reverse
  let st ← get
  if st.budget == 0 then return none
  set { st with budget := st.budget - 1 }
  let key := (mask, valuation N g)
  if st.failed.contains key then return none
  -- earliest response among the remaining operations
  let mut minResp := 0
  let mut found := false
  for k in [0:byResp.size] do
    if !found && mask.testBit k then
      minResp := byResp[k]!.respPos
      found := true
  for k in [0:byResp.size] do
    if mask.testBit k then
      let o := byResp[k]!
      if o.invPos < minResp then
        let r := seqStep g o.op.call
        if decide (r.2 = o.op.resp) then
          let res ← search N byResp (tabulate N r.1) (mask ^^^ (1 <<< k)) (k :: acc)
          if res.isSome then return res
          if (← get).budget == 0 then return none
  modify fun s => { s with failed := s.failed.insert key }
  return none

def searchBudget : Nat := 200000

def sortByResp (ops : Array OpRec) : Array OpRec :=
  ops.qsort (fun a b => a.respPos < b.respPos)

def linearizable (ns : List (Node Nat)) (evs : List (Event Nat)) : Bool :=
  match collectOps evs with
  | none => false
  | some ops =>
    let byResp := sortByResp ops
    let g0 := ofNodes ns
    let N := ns.length
    let (res, _) := (search N byResp g0 ((1 <<< byResp.size) - 1) []).run { budget := searchBudget }
    match res with
    | none => false
    | some order =>
      let S : List (LOp Nat) := order.filterMap fun k => byResp[k]?.map (·.op)
      -- the verified check decides; the search above is only a proposal
      checkWitness g0 evs S

def handleLin : P String := do
  let ns ← pList pNode
  let evs ← pList pEvent
  pEnd
  if !wfNodes ns then failure
  pure (Driver.boolStr (linearizable ns evs))

/-- one request -> one answer line; `none` = unknown op / malformed -/
def handle (op : String) (args : List String) : Option String :=
  match op with
  | "c13.seq" => (handleSeq.run args).map (·.1)
  | "c13.holds.linearizable" => (handleLin.run args).map (·.1)
  | _ => none

end Driver.C13

def main : IO Unit := Driver.runLoop Driver.C13.handle
