import Driver.MeshOpsDrv
import Driver.MeshMoreDrv
import PolyVerif.Model.Primitives

namespace Driver.C02
open Driver.MeshIO PolyVerif.Mesh PolyVerif.Prim

def genOut (verts : Nat) (tris : List Nat) : String :=
  " ".intercalate ([toString verts, toString tris.length] ++ tris.map toString)

def showResults (op : String) : Option (List MV) → String
  | none => "rejected"
  | some ms =>
    if op == "split" then " ".intercalate (toString ms.length :: ms.map showShape)
    else " ".intercalate (ms.map showShape)

def b? (s : String) : Option Bool := if s == "1" then some true else if s == "0" then some false else none

/-- the winding decision of extrude.polygon (circle.go:157-172) recomputed from the implementation's OWN vertex positions
    `V` and the path points `P`:  dir = (V[bl]-V[tl]) × (V[tl]-V[tr]);  flip ⇔ dir · (V[bl] - P[pathIndex]) < 0 -/
def polygonFlagsFrom (pl sd : Nat) (closed : Bool) (V P : Array (PolyVerif.V3 Float)) : List Bool :=
  (polygonQuads pl sd closed).map fun q =>
    let tr := q.2.1 + q.2.2; let br := q.1 + q.2.2; let tl := tr + 1; let bl := br + 1
    match V[bl]?, V[tl]?, V[tr]?, P[q.1 / (sd + 1)]? with
    | some vbl, some vtl, some vtr, some pp =>
      let dir := (vbl.Sub vtl).Cross (vtl.Sub vtr)
      decide (dir.Dot (vbl.Sub pp) < 0)
    | _, _, _, _ => false

/-- `c02.holds.polygon_full pl sides closed path… mesh`: vertex count = polygonVerts, and the index list is EXACTLY the Lean
    generator with the winding flags recomputed from the output's positions (nothing is read off the index list) -/
def polygonFull (args : List String) : Option Bool := do
  let (pl, ts) ← pNat args; let (sd, ts) ← pNat ts; let (cl, ts) ← pNat ts
  let (path, ts) ← pMany pV3 pl ts
  let (m, _) ← pMesh ts
  let V := ((m.attr? ⟨3, "Position"⟩).getD []).filterMap PolyVerif.Mesh.v3?
  let flags := polygonFlagsFrom pl sd (cl != 0) V.toArray path.toArray
  pure (V.length == polygonVerts pl sd && m.attrLen == polygonVerts pl sd &&
        polygonTris pl sd (cl != 0) flags == m.indices)

/-- one request -> one answer line; `none` = unknown op / malformed -/
def handle (op : String) (args : List String) : Option String :=
  if op == "c02.holds.wf" then
    -- the decidable predicate of the C02 theorems, evaluated on the implementation's output.
    -- A mesh that does not parse (e.g. a negative index) is not well-formed.
    match pMesh args with
    | some (m, []) => some (boolStr (decide (MeshVal.WF m)))
    | _ => some "false"
  else if op == "c02.holds.wf_raw_setter" then
    -- raw whole-attribute setters (ClearAttributeData, SetFloatNData, CopyFloatNAttribute): "guard → WF", where
    -- guard = 1 when the caller respected the setter's side condition (theorems setAttr_wf, setAttr_delete_wf,
    -- setData_wf, clearAttrs_wf); with guard = 0 nothing is claimed
    match args with
    | g :: rest =>
      if g == "0" then some "true"
      else match pMesh rest with
        | some (m, []) => some (boolStr (decide (MeshVal.WF m)))
        | _ => some "false"
    | [] => some "false"
  else if op == "c02.corpus.slice_non_triangle" then
    some "rejected"   -- SliceByPlane accepts triangle meshes only (defect fixed in /repo dbd042b; kept as corpus)
  else if op == "c02.holds.cbw_shape" then
    -- ConstrainedBowyerWatson output has the shape the abstract model CBW (Props/C02Delaunay.constrainedBowyerWatson_wf)
    -- assumes: points are appended in pairs, a triangle uses no appended point, or one (the first of a pair), or
    -- both points of one pair
    match args with
    | ns :: rest =>
      match ns.toNat?, pMesh rest with
      | some n, some (m, []) =>
        let okTri := fun (t : Nat × Nat × Nat) =>
          let big := ([t.1, t.2.1, t.2.2].filter (· ≥ n)).map (· - n)
          match big with
          | [] => true
          | [p] => p % 2 == 0
          | [p, q] => (p % 2 == 0 && q == p + 1) || (q % 2 == 0 && p == q + 1)
          | _ => false
        some (boolStr (n ≤ m.attrLen && (m.attrLen - n) % 2 == 0 && (PolyVerif.Mesh.triples m.indices).all okTri))
      | _, _ => some "false"
    | [] => some "false"
  else if op == "c02.holds.polygon_full" then
    some (boolStr ((polygonFull args).getD false))
  else if op == "c02.gen.extrude_polygon_accepts" then
    -- extrude.polygon panics for fewer than 2 path points or fewer than 3 sides, accepts everything else
    match args.mapM String.toNat? with
    | some [pl, sd] => some (if (extrudePolygon? pl sd false []).isNone then "rejected" else "accepted")
    | _ => none
  else if op == "c02.holds.polygon_idx" then
    -- args: pathLen sides closed verts n idx… : the implementation's extrude.polygon output is the Lean
    -- generator for the winding flags read off the output itself (predicate of theorem extrudePolygon_wf)
    match args.mapM String.toNat? with
    | some (pl :: sd :: cl :: verts :: n :: idx) =>
      let flips := polygonFlipsOf pl sd (cl != 0) idx
      some (boolStr (idx.length == n && verts == polygonVerts pl sd && polygonTris pl sd (cl != 0) flips == idx))
    | _ => some "false"
  else if op.startsWith "c02.op." then
    let name := (op.drop 7).toString
    if knownPanic name args then some "panic" else
    if moreOps.contains name then (applyMore name args).map (showResults name) else   -- Model/MeshMore.lean (round 2)
    (applyOp name args).map (showResults name)
  else match op, args.mapM String.toNat? with
    | "c02.gen.uvsphere", some [r, c] => if r < 2 ∨ c < 3 then some "rejected" else some (genOut (uvVerts r c) (uvSphereTris r c))
    | "c02.gen.uvsphere_unwelded", some [r, c] => if r < 2 ∨ c < 3 then some "rejected" else some (genOut (uvUnweldedVerts r c) (uvUnweldedTris r c))
    | "c02.gen.hemisphere", some [r, c] => if r < 2 ∨ c < 3 then some "rejected" else some (genOut (uvVerts r c) (hemisphereTris r c))
    | "c02.gen.circle", some [s] => if s < 3 then some "rejected" else some (genOut (circleVerts s) (circleTris s))
    | "c02.gen.cylinder", some [s, t, b] => if s < 3 ∧ (t != 0 ∨ b != 0) then some "rejected" else some (genOut (cylinderVerts s (t != 0) (b != 0)) (cylinderTris s (t != 0) (b != 0)))
    | "c02.gen.cone", some [s] => if s < 3 then some "rejected" else some (genOut (coneVerts s) (coneTris s))
    | "c02.gen.extrude_shape", some [pl, sd, cl] =>
        some (match extrudeShape? pl sd (cl != 0) with | some (n, tris) => genOut n tris | none => "rejected")
    | "c02.gen.extrude_line", some [n] => some (match extrudeLine? n with | some (v, tris) => genOut v tris | none => "rejected")
    | "c02.gen.screw", some [l, sg] =>
        some (genOut (screw l sg).1 (screw l sg).2)
    | "c02.gen.quad", some [] => some (genOut quadVerts quadTris)
    | "c02.gen.cube", some [] => some (genOut cubeVerts cubeTris)
    | "c02.gen.cube_unwelded", some [] => some (genOut cubeUnweldedVerts cubeUnweldedTris)
    | _, _ => none

end Driver.C02

def main : IO Unit := Driver.runLoop Driver.C02.handle
