import Driver.Proto
import PolyVerif.Model.GltfSpec
import PolyVerif.Model.GltfDedup
import PolyVerif.Model.GltfTopo
import PolyVerif.Model.GltfGlb
import PolyVerif.Model.GltfShape
import PolyVerif.Model.Base64

/-
  C06 driver: parses scene descriptions / parsed-document summaries from the harness, answers with the model's
  summary (`c06.doc`, `c06.bin`, `c06.glb`) or evaluates the theorem predicates of Props/C06 on the implementation's
  parsed output (`c06.holds.*`).
-/
namespace Driver.C06
open PolyVerif PolyVerif.Gltf

/-! ### token parser -/

abbrev P := StateT (List String) Option

def tok : P String := do
  match (← get) with
  | [] => failure
  | t :: r => set r; pure t

def kw (s : String) : P Unit := do
  let t ← tok
  if t == s then pure () else failure

def pNat : P Nat := do
  let t ← tok
  match t.toNat? with
  | some n => pure n
  | none => failure

/-- `-1` ↦ none -/
def pOptNat : P (Option Nat) := do
  let t ← tok
  if t == "-1" then pure none else
  match t.toNat? with
  | some n => pure (some n)
  | none => failure

def pStr : P String := do
  let t ← tok
  if t.startsWith "q" then pure (t.drop 1).toString else failure

def pHex64 : P Nat := do
  let t ← tok
  if t.length ≠ 16 then failure else
  match parseHex t with
  | some n => pure n
  | none => failure

def pOptHex : P (Option Nat) := do
  match (← get) with
  | "-" :: r => set r; pure none
  | _ => some <$> pHex64

def rep {α} (p : P α) : Nat → P (List α)
  | 0 => pure []
  | n+1 => do
    let a ← p
    let r ← rep p n
    pure (a :: r)

def pCounted {α} (p : P α) : P (List α) := do
  let n ← pNat
  rep p n

/-- `0` ↦ none, `k v…` ↦ some -/
def pOptList {α} (p : P α) : P (Option (List α)) := do
  let n ← pNat
  if n == 0 then pure none else some <$> rep p n

/-- `-1` ↦ none, `k v…` ↦ some -/
def pM1List {α} (p : P α) : P (Option (List α)) := do
  match (← get) with
  | "-1" :: r => set r; pure none
  | _ => some <$> pCounted p

def q32 (bits : Nat) : Nat := (Float.ofBits bits.toUInt64).toFloat32.toBits.toNat
def toByte (bits : Nat) : Nat := (Float.ofBits bits.toUInt64).toUInt8.toNat

/-! ### scene -/

def chunk {α} (k : Nat) : Nat → List α → List (List α)
  | 0, _ => []
  | c+1, l => l.take k :: chunk k c (l.drop k)

def pAttr : P Attr := do
  let name ← pStr
  let dim ← pNat
  let count ← pNat
  let raw ← rep pHex64 (dim * count)
  let conv := if attrComp name = .u8 then toByte else q32
  pure { name := name, dim := dim, vals := chunk dim count (raw.map conv) }

def pMesh : P PMesh := do
  let topo ← pNat
  let idx ← pCounted pNat
  let attrs ← pCounted pAttr
  pure { topo := topo, indices := idx, attrs := attrs }

def pSampler : P Sampler := do
  let mag ← pNat; let min ← pNat; let ws ← pNat; let wt ← pNat; let name ← pStr; let tag ← pNat
  pure { mag := mag, min := min, wrapS := ws, wrapT := wt, name := name, tag := tag }

def pTex : P PTexture := do
  let uri ← pStr
  let hs ← pNat
  let smp ← if hs == 1 then some <$> pSampler else pure none
  let xf ← pM1List pHex64
  let req ← pNat
  pure { uri := uri, sampler := smp, xform := xf, xformRequired := req == 1 }

def pTexRefScaled : P (Option (Nat × Option Nat)) := do
  match (← pOptNat) with
  | none => pure none
  | some id => do
    let sc ← pOptHex
    pure (some (id, sc))

def pMatExt : P PMatExt := do
  let id ← pStr
  let key ← pNat
  let payload ← pCounted pHex64
  let texs ← pCounted (do let k ← pStr; let i ← pNat; pure (k, i))
  pure { id := id, eqKey := key, payload := payload, texs := texs }

def pOptStr : P (Option String) := do
  match (← get) with
  | "-" :: r => set r; pure none
  | _ => some <$> pStr

def pMat : P PMaterial := do
  let name ← pStr
  let am ← pOptStr
  let cutoff ← pOptHex
  let hasPbr ← pNat
  let bc ← pOptList pNat
  let metallic ← pOptHex
  let rough ← pOptHex
  let bct ← pOptNat
  let mrt ← pOptNat
  let em ← pOptList pNat
  let normal ← pTexRefScaled
  let occl ← pTexRefScaled
  let exts ← pCounted pMatExt
  pure { name := name, alphaMode := am, alphaCutoff := cutoff, hasPbr := hasPbr == 1, baseColor := bc,
         metallic := metallic, roughness := rough, baseColorTex := bct, metalRoughTex := mrt, emissive := em,
         normalTex := normal, occlusionTex := occl, exts := exts }

def pModel : P Model := do
  let name ← pStr
  let mesh ← pOptNat
  let mat ← pOptNat
  let t ← pOptList pHex64
  let r ← pOptList pHex64
  let s ← pOptList pHex64
  let ni ← pNat
  let inst ← rep (rep (q32 <$> pHex64) 10) ni
  pure { name := name, mesh := mesh, material := mat, translation := t, rotation := r, scale := s, instances := inst }

def pScene : P Scene := do
  kw "S"; kw "meshes"
  let meshes ← pCounted pMesh
  kw "texs"
  let texs ← pCounted pTex
  kw "mats"
  let mats ← pCounted pMat
  kw "models"
  let models ← pCounted pModel
  kw "lights"
  let lights ← pCounted (rep pHex64 12)
  pure { meshHeap := meshes, texHeap := texs, matHeap := mats, models := models, lights := lights }

/-! ### document -/

def pBound : P Bound := do
  let t ← tok
  if t == "s" then pure none else
  match t.toNat? with
  | some n => pure (some n)
  | none => failure

def pAcc : P Accessor := do
  let view ← pNat
  let code ← pNat
  let comp ← match Comp.ofCode? code with
    | some c => pure c
    | none => failure
  let dim ← pNat
  let count ← pNat
  let mn ← pCounted pBound
  let mx ← pCounted pBound
  pure { view := view, comp := comp, dim := dim, count := count, min := mn, max := mx }

def pKV : P (String × Nat) := do
  let k ← pStr
  let v ← pNat
  pure (k, v)

def pPrim : P Prim := do
  let attrs ← pCounted pKV
  let idx ← pOptNat
  let mat ← pOptNat
  let mode ← pOptNat
  pure { attrs := attrs, indices := idx, material := mat, mode := mode }

def pGMesh : P GMesh := do
  let name ← pStr
  let prims ← pCounted pPrim
  pure { name := name, prims := prims }

def pGNode : P GNode := do
  let name ← pStr
  let mesh ← pOptNat
  let t ← pOptList pHex64
  let r ← pOptList pHex64
  let s ← pOptList pHex64
  let inst ← pM1List pKV
  let light ← pOptNat
  pure { name := name, mesh := mesh, translation := t, rotation := r, scale := s, inst := inst, light := light }

def pTexInfo : P (Option TexInfo) := do
  match (← pOptNat) with
  | none => pure none
  | some i => do
    let xf ← pM1List pHex64
    pure (some { index := i, xform := xf })

def pTexInfoScaled : P (Option (TexInfo × Option Nat)) := do
  match (← pTexInfo) with
  | none => pure none
  | some ti => do
    let sc ← pOptHex
    pure (some (ti, sc))

def pGMatExt : P GMatExt := do
  let id ← pStr
  let payload ← pCounted pHex64
  let texs ← pCounted (do
    let k ← pStr
    match (← pTexInfo) with
    | some ti => pure (k, ti)
    | none => failure)
  pure { id := id, payload := payload, texs := texs }

def pGMat : P GMaterial := do
  let name ← pStr
  let am ← pOptStr
  let cutoff ← pOptHex
  let bcf ← pCounted pHex64
  let metallic ← pOptHex
  let rough ← pOptHex
  let bct ← pTexInfo
  let mrt ← pTexInfo
  let em ← pOptList pHex64
  let normal ← pTexInfoScaled
  let occl ← pTexInfoScaled
  let exts ← pCounted pGMatExt
  pure { name := name, alphaMode := am, alphaCutoff := cutoff, baseColorFactor := bcf, metallic := metallic,
         roughness := rough, baseColorTex := bct, metalRoughTex := mrt, emissive := em, normalTex := normal,
         occlusionTex := occl, exts := exts }

def pDoc : P Doc := do
  kw "D"; kw "buf"
  let bufLen ← pOptNat
  kw "views"
  let views ← pCounted (do let o ← pNat; let l ← pNat; let t ← pNat; pure ({ off := o, len := l, target := t } : View))
  kw "accs"
  let accs ← pCounted pAcc
  kw "meshes"
  let meshes ← pCounted pGMesh
  kw "nodes"
  let nodes ← pCounted pGNode
  kw "scene"
  let scene ← pCounted pNat
  kw "mats"
  let mats ← pCounted pGMat
  kw "texs"
  let texs ← pCounted (do let s ← pOptNat; let i ← pOptNat; pure ({ sampler := s, source := i } : GTexture))
  kw "images"
  let images ← pCounted pStr
  kw "samplers"
  let samplers ← pCounted pSampler
  kw "lights"
  let lightData ← pCounted (rep pHex64 9)
  kw "extUsed"
  let used ← pCounted pStr
  kw "extReq"
  let req ← pCounted pStr
  pure { bufLen := bufLen, views := views, accessors := accs, meshes := meshes, nodes := nodes, scene := scene,
         materials := mats, textures := texs, images := images, samplers := samplers, lights := lightData.length, lightData := lightData,
         extUsed := used, extRequired := req }

def hexByte (a b : Char) : Option UInt8 := do
  let x ← hexDigit a
  let y ← hexDigit b
  pure (UInt8.ofNat (x * 16 + y))

def bytesOfHex (s : String) : Option (List UInt8) :=
  let rec go : List Char → List UInt8 → Option (List UInt8)
    | [], acc => some acc.reverse
    | a :: b :: r, acc => match hexByte a b with
      | some x => go r (x :: acc)
      | none => none
    | _, _ => none
  go s.toList []

/-- `h<hex>` -/
def pBytes : P (List UInt8) := do
  let t ← tok
  if t.startsWith "h" then
    match bytesOfHex (t.drop 1).toString with
    | some b => pure b
    | none => failure
  else failure

/-! ### printers (must agree token for token with the harness) -/

def sq (s : String) : String := "q" ++ s
def optNat (o : Option Nat) : String := match o with
  | some n => toString n
  | none => "-1"
def h64 (n : Nat) : String := natToHex n 16
def optH (o : Option Nat) : String := match o with
  | some n => h64 n
  | none => "-"
def listH (l : List Nat) : List String := toString l.length :: l.map h64
def optListH (o : Option (List Nat)) : List String := match o with
  | some l => listH l
  | none => ["0"]

def sortKV (l : List (String × Nat)) : List (String × Nat) := l.mergeSort (fun a b => !(b.1 < a.1))
def sortStr (l : List String) : List String := l.mergeSort (fun a b => !(b < a))

def boundStr (b : Bound) : String := match b with
  | some n => toString n
  | none => "s"

def texInfoToks (t : Option TexInfo) : List String := match t with
  | none => ["-1"]
  | some ti => toString ti.index :: (match ti.xform with
    | some x => listH x
    | none => ["-1"])

def texInfoScaledToks (t : Option (TexInfo × Option Nat)) : List String := match t with
  | none => ["-1"]
  | some (ti, sc) => texInfoToks (some ti) ++ [optH sc]

def docToks (d : Doc) : List String :=
  ["D", "buf", optNat d.bufLen, "views", toString d.views.length]
  ++ d.views.flatMap (fun v => [toString v.off, toString v.len, toString v.target])
  ++ ["accs", toString d.accessors.length]
  ++ d.accessors.flatMap (fun a => [toString a.view, toString a.comp.code, toString a.dim, toString a.count,
        toString a.min.length] ++ a.min.map boundStr ++ [toString a.max.length] ++ a.max.map boundStr)
  ++ ["meshes", toString d.meshes.length]
  ++ d.meshes.flatMap (fun m => [sq m.name, toString m.prims.length] ++ m.prims.flatMap (fun p =>
        [toString p.attrs.length] ++ (sortKV p.attrs).flatMap (fun kv => [sq kv.1, toString kv.2])
        ++ [optNat p.indices, optNat p.material, optNat p.mode]))
  ++ ["nodes", toString d.nodes.length]
  ++ d.nodes.flatMap (fun n => [sq n.name, optNat n.mesh] ++ optListH n.translation ++ optListH n.rotation
        ++ optListH n.scale
        ++ (match n.inst with
            | none => ["-1"]
            | some i => toString i.length :: (sortKV i).flatMap (fun kv => [sq kv.1, toString kv.2]))
        ++ [optNat n.light])
  ++ ["scene", toString d.scene.length] ++ d.scene.map toString
  ++ ["mats", toString d.materials.length]
  ++ d.materials.flatMap (fun m => [sq m.name, (match m.alphaMode with
            | some a => sq a
            | none => "-"), optH m.alphaCutoff]
        ++ listH m.baseColorFactor ++ [optH m.metallic, optH m.roughness]
        ++ texInfoToks m.baseColorTex ++ texInfoToks m.metalRoughTex ++ optListH m.emissive
        ++ texInfoScaledToks m.normalTex ++ texInfoScaledToks m.occlusionTex
        ++ [toString m.exts.length]
        ++ (m.exts.mergeSort (fun a b => !(b.id < a.id))).flatMap (fun e => [sq e.id] ++ listH e.payload
              ++ [toString e.texs.length]
              ++ (e.texs.mergeSort (fun a b => !(b.1 < a.1))).flatMap (fun kt => sq kt.1 :: texInfoToks (some kt.2))))
  ++ ["texs", toString d.textures.length] ++ d.textures.flatMap (fun t => [optNat t.sampler, optNat t.source])
  ++ ["images", toString d.images.length] ++ d.images.map sq
  ++ ["samplers", toString d.samplers.length]
  ++ d.samplers.flatMap (fun s => [toString s.mag, toString s.min, toString s.wrapS, toString s.wrapT, sq s.name, toString s.tag])
  ++ ["lights", toString d.lights] ++ d.lightData.flatMap (fun l => l.map h64)
  ++ ["extUsed", toString d.extUsed.length] ++ (sortStr d.extUsed).map sq
  ++ ["extReq", toString d.extRequired.length] ++ (sortStr d.extRequired).map sq

def hexOfBytes (b : List UInt8) : String :=
  String.ofList (b.flatMap (fun x => [Nat.digitChar (x.toNat / 16), Nat.digitChar (x.toNat % 16)]))

def fnv1a (b : List UInt8) : UInt32 :=
  b.foldl (fun h x => (h ^^^ x.toUInt32) * 16777619) 2166136261

/-- same compact form as the harness: hex when small, length + FNV-1a otherwise -/
def bytesTok (b : List UInt8) : String :=
  if b.length ≤ 4096 then "h" ++ hexOfBytes b
  else "L" ++ toString b.length ++ ":" ++ natToHex (fnv1a b).toNat 8

/-! ### requests -/

def run {α} (p : P α) (args : List String) : Option (α × List String) := p.run args

def pFrame : P Frame := do
  let fileLen ← pNat; let magic ← pNat; let version ← pNat; let total ← pNat
  let jsonLen ← pNat; let jsonType ← pNat; let hasBin ← pNat; let binLen ← pNat; let binType ← pNat; let trailing ← pNat
  pure { fileLen := fileLen, magic := magic, version := version, total := total, jsonLen := jsonLen,
         jsonType := jsonType, hasBin := hasBin == 1, binLen := binLen, binType := binType, trailing := trailing }

def handle (op : String) (args : List String) : Option String :=
  match op with
  | "c06.doc" => do
      let (s, _) ← run (do let _ ← tok; pScene) args
      -- every scene the harness builds exists in Go: it must satisfy the hypothesis of gltf_panic_only_if
      if !Representable s then pure "unrepresentable" else
      match writeSceneT s with
      | .ok w => pure (" ".intercalate (docToks w.doc))
      | .err _ => pure "err"
      | .panic => pure "panic"
  | "c06.bin" => do
      let (s, _) ← run pScene args
      match writeSceneT s with
      | .ok w => pure (bytesTok w.buf)
      | .err _ => pure "err"
      | .panic => pure "panic"
  | "c06.glb" => do
      let ((js, s), _) ← run (do let j ← pBytes; let s ← pScene; pure (j, s)) args
      match writeSceneT s with
      | .ok w => pure (bytesTok (glbFrame js w.buf))
      | .err _ => pure "err"
      | .panic => pure "panic"
  | "c06.holds.valid" => do
      let ((d, seen, b), _) ← run (do
        let d ← pDoc
        kw "seen"
        let seen ← pCounted pStr
        kw "B"
        let b ← pBytes
        pure (d, seen, b)) args
      -- `seen`: every extension id the harness found anywhere in the JSON tree must be declared, too
      pure (boolStr (valid d b && seen.all (fun e => d.extUsed.contains e)))
  | "c06.holds.aligned" => do
      let (d, _) ← run pDoc args
      pure (boolStr (aligned d))
  | "c06.holds.alignment_witness" => do
      let (d, _) ← run pDoc args
      pure (boolStr (aligned d))
  | "c06.holds.frame" => do
      let ((f, jl, bl, p1, p2), _) ← run (do
        let f ← pFrame
        let jl ← pNat
        let bl ← pNat
        let p1 ← tok
        let p2 ← tok
        pure (f, jl, bl, p1, p2)) args
      pure (boolStr (frameOK f jl bl && p1 == "true" && p2 == "true"))
  | "c06.holds.decode" => do
      let ((s, d, b), _) ← run (do
        let s ← pScene
        let d ← pDoc
        kw "B"
        let b ← pBytes
        pure (s, d, b)) args
      pure (boolStr (carriesScene s d b))
  | "c06.holds.rewrite" => do
      -- the same scene written before and after a rejected write: same file, same payload (lengths and hashes)
      match args with
      | [l1, h1, l2, h2, bl1, bh1, bl2, bh2] => pure (boolStr (l1 == l2 && h1 == h2 && bl1 == bl2 && bh1 == bh2))
      | _ => none
  | "c06.holds.bigtext" => do
      if args == ["write-failed"] then pure "false" else
      let ((d, p), _) ← run (do
        let d ← pDoc
        kw "X"
        let ok ← tok
        let declared ← pNat
        let tl ← pNat; let th ← tok
        let gl ← pNat; let gh ← tok
        let el ← pNat; let eh ← tok
        let mm ← tok
        let sd ← tok
        pure (d, ({ b64ok := ok == "true", declared := declared, textLen := tl, textHash := th, glbLen := gl, glbHash := gh,
                    expLen := el, expHash := eh, boundsOK := mm == "true", sameDoc := sd == "true" } : PayloadSummary))) args
      pure (boolStr (bigTextOK d p))
  | "c06.uri" => do
      -- the buffer URI of the text container: Base64.dataURI of the model's buffer (compared exactly with WriteText's)
      let (s, _) ← run pScene args
      match writeSceneT s with
      | .ok w => pure (if w.bytesWritten > 0 then "u" ++ String.ofList (Base64.dataURI w.buf) else "none")
      | .err _ => pure "err"
      | .panic => pure "panic"
  | "c06.holds.uridecode" => do
      -- the strict reader of gltf_text_carries_buffer on the IMPLEMENTATION's URI: decodes to the payload the Go reader got
      let ((u, b), _) ← run (do
        let u ← tok
        let b ← pBytes
        pure (u, b)) args
      if !u.startsWith "u" then none else
      pure (boolStr (Base64.parseDataURI (u.drop 1).toString.toList == some b))
  | "c06.holds.glbparse" => do
      -- the statement of glb_parse_write, checked on the IMPLEMENTATION's file with the Lean reader
      let ((f, j, b), _) ← run (do
        let f ← pBytes
        let j ← pBytes
        let b ← pBytes
        pure (f, j, b)) args
      pure (boolStr (glbRoundTrips f j b))
  | "c06.topo" => do
      -- the predicates of gltf_topo_carried_iff / gltf_mode_index_iff and the document-level count check, evaluated on
      -- the IMPLEMENTATION's document and buffer; the harness states what the theorems predict from the scene
      let ((s, d, b), _) ← run (do
        let s ← pScene
        let d ← pDoc
        kw "B"
        let b ← pBytes
        pure (s, d, b)) args
      pure (boolStr (topoCarried s d) ++ " " ++ boolStr (modeIndexOK s d b) ++ " " ++ boolStr (docModeCountOK d))
  | "c06.holds.topo" => do
      let ((s, d, b), _) ← run (do
        let s ← pScene
        let d ← pDoc
        kw "B"
        let b ← pBytes
        pure (s, d, b)) args
      pure (boolStr (topoCarried s d && modeIndexOK s d b && docModeCountOK d))
  | "c06.holds.dedup" | "c06.holds.dedup_texxform" | "c06.holds.dedup_texxform_witness" => do
      let ((s, d), _) ← run (do
        let s ← pScene
        let d ← pDoc
        pure (s, d)) args
      pure (boolStr (dedupOK s d))
  | _ => none

end Driver.C06

def main : IO Unit := Driver.runLoop Driver.C06.handle
