import Driver.Proto
import PolyVerif.Model.Stl
import PolyVerif.Model.Binary32
import PolyVerif.Gen.StlNormals

/-!
  Driver for C07 (binary STL).  Line protocol:

    byte strings   lower-case hex, the empty string is `-`
    record         12 tokens of 8 hex digits (float32 bit patterns: normal, v1, v2, v3) + 4 hex digits attribute
    mesh           nidx idx… (npos|-) pos… (nnrm|-) nrm…   float64 as 16 hex digits, three per vector;
                   every float64 NaN is canonical 7ff8000000000000 (both sides), float32 NaN produced by
                   arithmetic is canonical 7fc00000 (the harness rewrites WriteMesh's NaN words)

    c07.write <hdr> n rec…            → bytes                          (stl.Write)
    c07.read <bytes>                  → ok <hdr> n rec… | err          (stl.Read)
    c07.writemesh <mesh>              → ok <hdr> n rec… | panic        (stl.WriteMesh, decoded by the model decoder)
    c07.readmesh <bytes>              → ok <mesh> | err                (stl.ReadMesh)
    c07.resavemesh <bytes>            → ok <hdr> n rec… | err          (stl.ReadMesh then stl.WriteMesh; stl_mesh_resave)
    c07.holds.size n <bytes>          → |bytes| = 84 + 50 n            (stl_length / stl_mesh_roundtrip)
    c07.holds.rt <hdr> n rec… <hdr> n rec…  → y = what the theorem says Read(Write x) is; y = x if x has no
                                        signalling NaN                  (stl_roundtrip, stl_roundtrip_exact)
    c07.holds.reencode <in> <out>     → out reads back to the same records as in, same length, and out = in
                                        when in has no signalling NaN   (stl_reencode)
    c07.holds.roundtrip <mesh> <mesh> → RoundTrips m r                 (stl_mesh_roundtrip)
    c07.holds.unit_mean <mesh> <bytes> → every stored normal is the unit vector along the sum of its corner normals
                                        (tolerance; avgNormal_unit_mean evaluated at Float on WriteMesh's output)
    c07.holds.geometric_fallback <bytes> <mesh> → every corner normal ReadMesh derived for a zero stored normal is
                                        unit, orthogonal to both edges, right-handed (flatNormal_geometric at Float)
    c07.holds.geometric_normal_when_none_stored_witness <mesh> <mesh> → FullNormals m r (strict clause; known finding:
                                        false for a mesh that stores no normals — stl_geometric_normal_counterexample)
-/
namespace Driver.C07
open PolyVerif PolyVerif.Stl

def bytesOfHex (s : String) : Option (List Byte) :=
  if s == "-" then some [] else
  let rec go : List Char → List Byte → Option (List Byte)
    | [], acc => some acc.reverse
    | [_], _ => none
    | a :: b :: r, acc => do
      let x ← hexDigit a; let y ← hexDigit b
      go r (BitVec.ofNat 8 (x * 16 + y) :: acc)
  go s.toList []

def hexOfBytes (bs : List Byte) : String :=
  if bs.isEmpty then "-" else
  String.ofList (bs.foldr (fun b acc => Nat.digitChar (b.toNat / 16) :: Nat.digitChar (b.toNat % 16) :: acc) [])

def w32? (s : String) : Option W32 := if s.length ≠ 8 then none else (parseHex s).map (BitVec.ofNat 32)
def w16? (s : String) : Option W16 := if s.length ≠ 4 then none else (parseHex s).map (BitVec.ofNat 16)
def w32Hex (w : W32) : String := natToHex w.toNat 8
def w16Hex (w : W16) : String := natToHex w.toNat 4

def header? (s : String) : Option Header := do
  let bs ← bytesOfHex s
  if h : bs.length = 80 then some ⟨bs, h⟩ else none

def rec? : List String → Option (Tri × List String)
  | a::b::c::d::e::f::g::h::i::j::k::l::m::r => do
    let a ← w32? a; let b ← w32? b; let c ← w32? c; let d ← w32? d; let e ← w32? e; let f ← w32? f
    let g ← w32? g; let h ← w32? h; let i ← w32? i; let j ← w32? j; let k ← w32? k; let l ← w32? l
    let m ← w16? m
    some (⟨⟨a,b,c⟩,⟨d,e,f⟩,⟨g,h,i⟩,⟨j,k,l⟩,m⟩, r)
  | _ => none

def recs? : Nat → List String → Option (List Tri × List String)
  | 0, ts => some ([], ts)
  | n+1, ts => do let (t, ts) ← rec? ts; let (r, ts) ← recs? n ts; some (t :: r, ts)

/-- `<hdr> n rec…` -/
def bin? (ts : List String) : Option ((Header × List Tri) × List String) := do
  match ts with
  | h :: n :: r =>
    let h ← header? h; let n ← nat? n
    let (rs, r) ← recs? n r
    some ((h, rs), r)
  | _ => none

def p3Hex (v : P3 W32) : List String := [w32Hex v.x, w32Hex v.y, w32Hex v.z]
def recHex (t : Tri) : List String := p3Hex t.n ++ p3Hex t.v1 ++ p3Hex t.v2 ++ p3Hex t.v3 ++ [w16Hex t.attr]
def binHex (h : Header) (ts : List Tri) : String :=
  " ".intercalate ([hexOfBytes h.bytes, toString ts.length] ++ ts.flatMap recHex)

/-! ### the precision bundle at IEEE doubles; payload = bit pattern with canonical NaN -/

def canon (f : Float) : UInt64 := f.toBits          -- Lean's toBits already maps every NaN to 7ff8…
def fl (b : UInt64) : Float := Float.ofBits b

def nanCanon32 (w : W32) : W32 := if isNaN32 w then 0x7fc00000#32 else w

/-- the hypothesis `hq` of `stl_mesh_roundtrip` holds for the driver's `q32` -/
theorem quiet_nanCanon32 (w : W32) : quiet (nanCanon32 w) = nanCanon32 w := by
  unfold nanCanon32
  by_cases h : isNaN32 w
  · rw [if_pos h]; decide
  · rw [if_neg h]; simp [quiet, h]

def vOfBits (a : P3 UInt64) : V3 Float := ⟨fl a.x, fl a.y, fl a.z⟩
def bitsOfV (v : V3 Float) : P3 UInt64 := ⟨canon v.x, canon v.y, canon v.z⟩

/-- the two normal functions are the expressions REGENERATED from write.go / read.go (Gen/StlNormals.lean),
    executed at `Float` (IEEE double, Go's operation order); `q32` / `up` are Lean's float conversions -/
def P : Params UInt64 where
  q32 b := nanCanon32 (BitVec.ofNat 32 (fl b).toFloat32.toBits.toNat)
  up w := canon (Float32.ofBits (UInt32.ofNat w.toNat)).toFloat
  avgNormal a b c := bitsOfV (Gen.StlNormals.avgNormal (vOfBits a) (vOfBits b) (vOfBits c))
  flatNormal v1 v2 v3 := bitsOfV (Gen.StlNormals.flatNormal (vOfBits v1) (vOfBits v2) (vOfBits v3))

/-! ### geometric content of the two normal clauses, evaluated at Float with a tolerance on implementation
    output (the statements of `avgNormal_unit_mean` / `flatNormal_geometric`, Lemmas/StlNormals.lean) -/

def fdot (a b : V3 Float) : Float := a.x * b.x + a.y * b.y + a.z * b.z
def fcross (a b : V3 Float) : V3 Float := ⟨a.y * b.z - a.z * b.y, a.z * b.x - a.x * b.z, a.x * b.y - a.y * b.x⟩
def flen (a : V3 Float) : Float := Float.sqrt (fdot a a)
def fsub (a b : V3 Float) : V3 Float := ⟨a.x - b.x, a.y - b.y, a.z - b.z⟩
def tame (a : V3 Float) : Bool := a.x.abs < 1e4 && a.y.abs < 1e4 && a.z.abs < 1e4
def w32V (v : P3 W32) : V3 Float :=
  let f (w : W32) : Float := (Float32.ofBits (UInt32.ofNat w.toNat)).toFloat
  ⟨f v.x, f v.y, f v.z⟩

/-- stored normal `n` is the unit vector along `n1+n2+n3` (skipped when the sum is tiny / huge / not finite) -/
def unitMeanOk (n1 n2 n3 n : V3 Float) : Bool :=
  let s : V3 Float := ⟨n1.x + n2.x + n3.x, n1.y + n2.y + n3.y, n1.z + n2.z + n3.z⟩
  let l := flen s
  if !(tame n1 && tame n2 && tame n3 && l > 1e-3) then true else
  (flen n - 1).abs < 1e-5 && fdot n s > 0 && flen (fcross n s) < 1e-5 * l

/-- corner normal `u` is the unit geometric normal of `v1 v2 v3` in winding order (skipped when degenerate / wild) -/
def geometricOk (v1 v2 v3 u : V3 Float) : Bool :=
  let e1 := fsub v2 v1; let e2 := fsub v3 v1; let cr := fcross e1 e2
  if !(tame v1 && tame v2 && tame v3 && flen cr > 1e-6 && flen e1 > 1e-3 && flen e2 > 1e-3) then true else
  (flen u - 1).abs < 1e-9 && (fdot u e1).abs < 1e-7 * flen e1 && (fdot u e2).abs < 1e-7 * flen e2 && fdot u cr > 0

def u64? (s : String) : Option UInt64 :=
  if s.length ≠ 16 then none else (parseHex s).map (fun n => canon (Float.ofBits n.toUInt64))

def vecs? : Nat → List String → Option (List (P3 UInt64) × List String)
  | 0, ts => some ([], ts)
  | n+1, a :: b :: c :: ts => do
    let a ← u64? a; let b ← u64? b; let c ← u64? c
    let (r, ts) ← vecs? n ts
    some (⟨a, b, c⟩ :: r, ts)
  | _, _ => none

def attr? : List String → Option (Option (List (P3 UInt64)) × List String)
  | "-" :: ts => some (none, ts)
  | n :: ts => do let n ← nat? n; let (v, ts) ← vecs? n ts; some (some v, ts)
  | [] => none

def nats? : Nat → List String → Option (List Nat × List String)
  | 0, ts => some ([], ts)
  | n+1, a :: ts => do let a ← nat? a; let (r, ts) ← nats? n ts; some (a :: r, ts)
  | _, _ => none

def mesh? (ts : List String) : Option (Mesh UInt64 × List String) := do
  match ts with
  | n :: ts =>
    let n ← nat? n
    let (idx, ts) ← nats? n ts
    let (p, ts) ← attr? ts
    let (nr, ts) ← attr? ts
    some (⟨idx, p, nr⟩, ts)
  | [] => none

def attrHex : Option (List (P3 UInt64)) → List String
  | none => ["-"]
  | some vs => toString vs.length :: vs.flatMap fun v => [natToHex v.x.toNat 16, natToHex v.y.toNat 16, natToHex v.z.toNat 16]

def meshHex (m : Mesh UInt64) : String :=
  " ".intercalate ([toString m.indices.length] ++ m.indices.map toString ++ attrHex m.pos ++ attrHex m.nrm)

def handle (op : String) (args : List String) : Option String := do
  match op with
  | "c07.q32spec" =>
      -- Go's float32(x) against its SPECIFICATION (B32.q32spec: nearest, ties to even, exact integer arithmetic)
      let ws ← args.mapM fun a => if a.length ≠ 16 then none else parseHex a
      pure (" ".intercalate (ws.map fun b => natToHex (B32.q32spec b) 8))
  | "c07.holds.q32_stored" =>
      -- every position word WriteMesh stored = q32spec of the mesh coordinate (NaN canonical)
      let rec go : List String → Option Bool
        | [] => some true
        | [_] => none
        | a :: w :: r => do
            let b ← parseHex a; let u ← parseHex w
            (go r).map (· && (a.length == 16 && B32.q32spec b == u))
      (go args).map boolStr
  | "c07.write" =>
      let ((h, ts), _) ← bin? args
      pure (hexOfBytes (encode h ts))
  | "c07.read" =>
      let bs ← bytesOfHex (← args.head?)
      match decode bs with
      | .ok (h, ts) => pure ("ok " ++ binHex h ts)
      | .error _ => pure "err"
  | "c07.writemesh" =>
      let (m, _) ← mesh? args
      match writeMesh P m with
      | .ok bs =>
        match decode bs with
        | .ok (h, ts) => pure ("ok " ++ binHex h ts)
        | .error _ => pure "undecodable"
      | .error _ => pure "panic"
  | "c07.resavemesh" =>      -- stl.ReadMesh then stl.WriteMesh: the exact re-saved bytes (NaN words canonical)
      let bs ← bytesOfHex (← args.head?)
      match resaveMesh P bs with
      | .ok out =>
        match decode out with
        | .ok (h, ts) => pure ("ok " ++ binHex h ts)
        | .error _ => pure "undecodable"
      | .error .short => pure "err"
      | .error .panic => pure "panic"
  | "c07.readmesh" =>
      let bs ← bytesOfHex (← args.head?)
      match readMesh P bs with
      | .ok m => pure ("ok " ++ meshHex m)
      | .error _ => pure "err"
  | "c07.holds.size" =>
      match args with
      | [n, b] => let n ← nat? n; let bs ← bytesOfHex b; pure (boolStr (bs.length == 84 + 50 * n))
      | _ => none
  | "c07.holds.rt" =>
      let (x, r) ← bin? args
      let (y, _) ← bin? r
      let back := match decode (encode x.1 x.2) with
        | .ok z => decide (z = y)
        | .error _ => false
      let exact := x.2.all (fun t => decide (quietTri t = t))
      pure (boolStr (back && (!exact || decide (x = y))))
  | "c07.holds.reencode" =>
      match args with
      | [i, o] =>
        let i ← bytesOfHex i; let o ← bytesOfHex o
        match decodeRaw i, decode i, decode o with
        | .ok (_, raw), .ok x, .ok y =>
          let exact := raw.all (fun t => decide (quietTri t = t))
          pure (boolStr (decide (x = y) && o.length == i.length && (!exact || o == i)))
        | _, _, _ => pure "false"
      | _ => none
  | "c07.holds.unit_mean" =>       -- <mesh> <bytes WriteMesh produced>
      let (m, r) ← mesh? args
      let bs ← bytesOfHex (← r.head?)
      match m.nrm, decode bs with
      | some ns, .ok (_, ts) =>
        pure (boolStr (ts.length == (chunks m.indices).length &&
          ((chunks m.indices).zip ts).all fun ((a, b, c), t) =>
            match ns[a]?, ns[b]?, ns[c]? with
            | some n1, some n2, some n3 => unitMeanOk (vOfBits n1) (vOfBits n2) (vOfBits n3) (w32V t.n)
            | _, _, _ => false))
      | _, _ => pure "false"
  | "c07.holds.geometric_fallback" =>   -- <bytes> <mesh ReadMesh returned>
      let bs ← bytesOfHex (← args.head?)
      let (r, _) ← mesh? (args.drop 1)
      match decode bs, r.nrm with
      | .ok (_, ts), some ns =>
        pure (boolStr (((List.range ts.length).zip ts).all fun (k, t) =>
          if isZeroV t.n then
            match ns[3 * k]?, ns[3 * k + 1]?, ns[3 * k + 2]? with
            | some u, some u', some u'' =>
              u == u' && u == u'' && geometricOk (w32V t.v1) (w32V t.v2) (w32V t.v3) (vOfBits u)
            | _, _, _ => false
          else true))
      | .ok _, none => pure "true"
      | _, _ => pure "false"
  | "c07.holds.geometric_normal_when_none_stored_witness" =>
      let (m, r) ← mesh? args
      let (m', _) ← mesh? r
      pure (boolStr (FullNormals P m m'))
  | "c07.holds.readers_agree" =>
      match args with
      | n :: a :: rest => do
        let n ← nat? n
        pure (boolStr (rest.length + 1 == n && rest.all (· == a)))
      | _ => none
  | "c07.holds.roundtrip" =>
      let (m, r) ← mesh? args
      let (m', _) ← mesh? r
      pure (boolStr (RoundTrips P m m'))
  | _ => none

end Driver.C07

def main : IO Unit := Driver.runLoop Driver.C07.handle
