/-
  Line protocol helpers shared by all driver modules (core Lean only).
  A line is a list of blank-separated tokens; the first token is the operation.
  Scalars cross the pipe as the 16-hex-digit IEEE-754 bit pattern of a float64,
  naturals / integers in decimal.
-/
namespace Driver

def hexDigit (c : Char) : Option Nat :=
  if '0' ≤ c ∧ c ≤ '9' then some (c.toNat - '0'.toNat)
  else if 'a' ≤ c ∧ c ≤ 'f' then some (c.toNat - 'a'.toNat + 10)
  else if 'A' ≤ c ∧ c ≤ 'F' then some (c.toNat - 'A'.toNat + 10)
  else none

def parseHex (s : String) : Option Nat :=
  if s.isEmpty then none else
  s.foldl (fun acc c => do let a ← acc; let d ← hexDigit c; pure (a * 16 + d)) (some 0)

def hexF? (s : String) : Option Float :=
  if s.length ≠ 16 then none else (parseHex s).map (fun n => Float.ofBits n.toUInt64)

def natToHex (n : Nat) (width : Nat) : String :=
  let rec go (n : Nat) (w : Nat) (acc : List Char) : List Char :=
    match w with
    | 0 => acc
    | w+1 => go (n / 16) w ((Nat.digitChar (n % 16)) :: acc)
  String.ofList (go n width [])

def fHex (f : Float) : String := natToHex f.toBits.toNat 16

def fsHex (fs : List Float) : String := " ".intercalate (fs.map fHex)

def floats? (ts : List String) : Option (List Float) := ts.mapM hexF?

def int? (s : String) : Option Int := s.toInt?
def nat? (s : String) : Option Nat := s.toNat?

def boolStr (b : Bool) : String := if b then "true" else "false"

/-- relative/absolute closeness used by `holds` oracles: |a-b| ≤ tol·max(1,|a|,|b|) -/
def close (tol a b : Float) : Bool :=
  let m := max 1.0 (max a.abs b.abs)
  (a - b).abs ≤ tol * m


/-- the request loop shared by all per-property drivers: one request line in, one answer line out -/
partial def runLoop (handle : String → List String → Option String) : IO Unit := do
  let hIn ← IO.getStdin
  let hOut ← IO.getStdout
  let rec loop : IO Unit := do
    let line ← hIn.getLine
    if line.isEmpty then return ()
    let toks := (line.trimAscii.toString.splitOn " ").filter (· ≠ "")
    match toks with
    | [] => hOut.putStrLn ""
    | op :: args =>
      match handle op args with
      | some s => hOut.putStrLn s
      | none => hOut.putStrLn "bad-op"
    loop
  loop
  hOut.flush

end Driver
