import Driver.Proto
import PolyVerif.Gen.Sdf
import PolyVerif.Model.SdfOps
import PolyVerif.Model.SdfVarLine
import PolyVerif.Gen.SdfOpsShape

namespace Driver.C19
open PolyVerif PolyVerif.Gen

abbrev V := V3 Float

def v3 (fs : List Float) (i : Nat) : V := ⟨fs.getD i 0, fs.getD (i+1) 0, fs.getD (i+2) 0⟩

def dist (a b : V) : Float := a.Distance b

/-- independent reference: distance from p to segment [a,b] -/
def segDist (a b p : V) : Float :=
  let d := b.Sub a
  let n := d.Dot d
  let t := if n == 0 then 0 else min 1 (max 0 ((p.Sub a).Dot d / n))
  dist p (a.Add (d.Scale t))

/-- independent reference: signed distance to an axis-aligned box (centre c, half extents h) -/
def boxRef (c h p : V) : Float :=
  let qx := (p.x - c.x).abs - h.x; let qy := (p.y - c.y).abs - h.y; let qz := (p.z - c.z).abs - h.z
  if qx ≤ 0 && qy ≤ 0 && qz ≤ 0 then max qx (max qy qz)
  else Float.sqrt ((max qx 0)^2 + (max qy 0)^2 + (max qz 0)^2)

/-- independent reference: min over the axis of (distance to centre − interpolated radius); sign-correct for the round cone -/
def coneRef (a b : V) (r1 r2 : Float) (p : V) : Float :=
  let n := 4000
  (List.range (n+1)).foldl (fun m i =>
    let t := i.toFloat / n.toFloat
    let c := a.Add ((b.Sub a).Scale t)
    min m (dist p c - (r1 + t * (r2 - r1)))) (dist p a - r1)

def spheres (fs : List Float) (k : Nat) : List (V → Float) :=
  (List.range k).map fun i => sdf.Sphere (v3 fs (4*i)) (fs.getD (4*i+3) 0)

def linePts (fs : List Float) (k : Nat) : List (V × Float) :=
  (List.range k).map fun i => (v3 fs (4*i), fs.getD (4*i+3) 0)

def handle (op : String) (args : List String) : Option String := do
  match op with
  | "c19.varline" => do          -- k, k × (x y z r), p
      let k ← nat? (← args.head?)
      let fs ← floats? args.tail
      -- answered from the interpretation of the statement lists extracted from line.go / operators.go (Gen/SdfOpsShape.lean);
      -- Props/C19Src.lean: equal to the hand models SdfVarLine.VarryingThicknessLine / SdfOps.Union / SdfOps.Intersect
      match Gen.SdfOpsShape.varLine.eval (SdfOpsIR.eval Gen.SdfOpsShape.union) (linePts fs k) with
      | some f => pure (fHex (f (v3 fs (4*k))))
      | none => pure "panic"
  | "c19.holds.varline_sign" => do   -- k, k × (x y z r), p, f(p): sign agrees with the union over consecutive pairs of the ball-union reference
      let k ← nat? (← args.head?)
      let fs ← floats? args.tail
      let pts := linePts fs k
      let p := v3 fs (4*k)
      let f := fs.getD (4*k+3) 0
      let refs := (pts.zip pts.tail).map fun se => coneRef se.1.1 se.2.1 se.1.2 se.2.2 p
      let ref := refs.foldl min (refs.headD 0)
      pure (boolStr (ref.abs < 1e-3 || (ref < 0) == (f < 0)))
  | "c19.union" | "c19.intersect" => do
      let k ← nat? (← args.head?)
      let fs ← floats? args.tail
      let fl := spheres fs k
      let p := v3 fs (4*k)
      let r := if op == "c19.union" then SdfOpsIR.eval Gen.SdfOpsShape.union fl else SdfOpsIR.eval Gen.SdfOpsShape.intersect fl
      match r with
      | some f => pure (fHex (f p))
      | none => pure "panic"
  | _ =>
  let fs ← floats? args
  match op with
  | "c19.sphere" => pure (fHex (sdf.Sphere (v3 fs 0) (fs.getD 3 0) (v3 fs 4)))
  | "c19.box" => pure (fHex (sdf.Box (v3 fs 0) (v3 fs 3) (v3 fs 6)))
  | "c19.rbox" => pure (fHex (sdf.RoundedBox (v3 fs 0) (v3 fs 3) (fs.getD 6 0) (v3 fs 7)))
  | "c19.line" => pure (fHex (sdf.Line (v3 fs 0) (v3 fs 3) (fs.getD 6 0) (v3 fs 7)))
  | "c19.plane" => pure (fHex (sdf.Plane (v3 fs 0) (v3 fs 3) (fs.getD 6 0) (v3 fs 7)))
  | "c19.rcone" => pure (fHex (sdf.RoundedCone (v3 fs 0) (v3 fs 3) (fs.getD 6 0) (fs.getD 7 0) (v3 fs 8)))
  | "c19.rcyl" => pure (fHex (sdf.RoundedCylinder (v3 fs 0) (fs.getD 3 0) (fs.getD 4 0) (fs.getD 5 0) (v3 fs 6)))
  | "c19.subtract" =>   -- sphere − sphere
      pure (fHex (sdf.Subtract (sdf.Sphere (v3 fs 0) (fs.getD 3 0)) (sdf.Sphere (v3 fs 4) (fs.getD 7 0)) (v3 fs 8)))
  | "c19.translate" =>  -- translated box
      pure (fHex (sdf.Translate (sdf.Box (v3 fs 0) (v3 fs 3)) (v3 fs 6) (v3 fs 9)))
  -- oracles on implementation output -------------------------------------------------------
  | "c19.holds.lipschitz" =>      -- args: f(p) f(q) p q
      let fp := fs.getD 0 0; let fq := fs.getD 1 0
      let d := dist (v3 fs 2) (v3 fs 5)
      pure (boolStr ((fp - fq).abs ≤ d * (1 + 1e-9) + 1e-9 * (max 1 (max fp.abs fq.abs))))
  | "c19.holds.sphere" =>         -- c r p f : sign and exact distance
      let ref := dist (v3 fs 4) (v3 fs 0) - fs.getD 3 0
      pure (boolStr (close 1e-9 ref (fs.getD 7 0)))
  | "c19.holds.box" =>            -- c bounds p f : exact signed distance to the box surface
      let b := v3 fs 3
      let ref := boxRef (v3 fs 0) ⟨b.x/2, b.y/2, b.z/2⟩ (v3 fs 6)
      pure (boolStr (close 1e-9 ref (fs.getD 9 0)))
  | "c19.holds.rbox" =>           -- c bounds r p f
      let b := v3 fs 3
      let ref := boxRef (v3 fs 0) ⟨b.x/2, b.y/2, b.z/2⟩ (v3 fs 7) - fs.getD 6 0
      pure (boolStr (close 1e-9 ref (fs.getD 10 0)))
  | "c19.holds.line" =>           -- a b r p f
      let ref := segDist (v3 fs 0) (v3 fs 3) (v3 fs 7) - fs.getD 6 0
      pure (boolStr (close 1e-9 ref (fs.getD 10 0)))
  | "c19.holds.line_scaled" =>    -- a b r p f : as c19.holds.line with a tolerance relative to the capsule's own scale
      let a := v3 fs 0; let b := v3 fs 3
      let ref := segDist a b (v3 fs 7) - fs.getD 6 0
      let sc := dist a b + (fs.getD 6 0).abs
      pure (boolStr ((ref - fs.getD 10 0).abs ≤ 1e-9 * sc + 1e-12 * (dist a (v3 fs 7))))
  | "c19.holds.plane" =>          -- o n(unit) h p f
      let ref := ((v3 fs 7).Sub (v3 fs 0)).Dot (v3 fs 3) + fs.getD 6 0
      pure (boolStr (close 1e-9 ref (fs.getD 10 0)))
  | "c19.holds.rcyl" =>           -- pos ra rb h p f : exact: distance to core cylinder (radius 2ra−rb, half height h) minus rb
      let pos := v3 fs 0; let ra := fs.getD 3 0; let rb := fs.getD 4 0; let h := fs.getD 5 0; let p := v3 fs 6
      let dx := Float.sqrt ((p.x-pos.x)^2 + (p.z-pos.z)^2) - (2*ra - rb)
      let dy := (p.y-pos.y).abs - h
      let ref := (if dx ≤ 0 && dy ≤ 0 then max dx dy else Float.sqrt ((max dx 0)^2 + (max dy 0)^2)) - rb
      pure (boolStr (close 1e-9 ref (fs.getD 9 0)))
  | "c19.holds.rcone_sign" =>     -- a b r1 r2 p f : sign agrees with the union-of-spheres reference (away from the surface)
      let ref := coneRef (v3 fs 0) (v3 fs 3) (fs.getD 6 0) (fs.getD 7 0) (v3 fs 8)
      let f := fs.getD 11 0
      pure (boolStr (ref.abs < 1e-3 || (ref < 0) == (f < 0)))
  | "c19.holds.rcone_outside_exact" => -- outside the cone the union-of-spheres minimum IS the distance
      let ref := coneRef (v3 fs 0) (v3 fs 3) (fs.getD 6 0) (fs.getD 7 0) (v3 fs 8)
      let f := fs.getD 11 0
      pure (boolStr (ref < 1e-3 || (ref - f).abs ≤ 1e-3 * (max 1 ref.abs)))
  | "c19.holds.setop" =>          -- kind(0 union,1 intersect,2 subtract) result k operand values…
      let kind := fs.getD 0 0; let r := fs.getD 1 0
      let vs := fs.drop 2
      let want := if kind == 0 then vs.any (· < 0) else if kind == 1 then vs.all (· < 0)
                  else (vs.getD 0 0 < 0 && 0 < vs.getD 1 0)
      pure (boolStr ((r < 0) == want))
  | _ => none

end Driver.C19

def main : IO Unit := Driver.runLoop Driver.C19.handle
