import Driver.Proto
import PolyVerif.Model.March
import PolyVerif.Gen.MarchInterp

/-
  C09 driver.

  model ops
    c09.march.grid  ox oy oz nx ny nz v…      the model's marched mesh (global-grid semantics + the
                                              block-fetch model) of an integer-tagged sample box; answer =
                                              canonical sorted triangle list, positions ×4 as integers
    c09.fetch …                               (see `handle`)
  oracle ops (the decidable predicates of Props/C09 applied to the implementation's output)
    c09.holds.closed   nv nt i…               every directed edge exactly once, its reverse exactly once, no degenerate face
    c09.holds.outward  nv nt i… p…            signed volume > 0
    c09.holds.near_iso cpu cutoff ns shapes… nv p…   every vertex lies on a lattice edge along which the analytic field changes sign
-/
namespace Driver.C09
open PolyVerif PolyVerif.March PolyVerif.Gen.March

/-! ### closedness -/

/-- specification predicate (quadratic): the statement of `C09.march_closed` on an index list -/
def closedSpec (tris : List (Nat × Nat × Nat)) : Bool :=
  let es := tris.flatMap triEdges
  tris.all (fun t => t.1 != t.2.1 && t.2.1 != t.2.2 && t.2.2 != t.1) &&
  es.all (fun e => es.count e == 1 && es.count (e.2, e.1) == 1)

def sortedNat (a : Array Nat) : Array Nat := a.qsort (· < ·)

/-- the same predicate, n log n: sort the encoded directed edges; no duplicates; the multiset of
    reversed edges is the same multiset -/
def closedFast (nv : Nat) (tris : Array (Nat × Nat × Nat)) : Bool :=
  let n := nv + 1
  let nondeg := tris.all (fun t => t.1 != t.2.1 && t.2.1 != t.2.2 && t.2.2 != t.1 && t.1 < nv && t.2.1 < nv && t.2.2 < nv)
  let fw := sortedNat (tris.flatMap fun t => #[t.1 * n + t.2.1, t.2.1 * n + t.2.2, t.2.2 * n + t.1])
  let bw := sortedNat (tris.flatMap fun t => #[t.2.1 * n + t.1, t.2.2 * n + t.2.1, t.1 * n + t.2.2])
  let nodup := (List.range (fw.size - 1)).all fun i => fw[i]! != fw[i+1]!
  nondeg && nodup && fw == bw

/-- specification predicate of the Balanced half (`C09.Balanced`): every directed edge occurs as often as its reverse -/
def balancedSpec (tris : List (Nat × Nat × Nat)) : Bool := balancedB (tris.flatMap triEdges)

/-- the same, n log n: the sorted multiset of directed edges equals the sorted multiset of reversed edges -/
def balancedFast (nv : Nat) (tris : Array (Nat × Nat × Nat)) : Bool :=
  let n := nv + 1
  let fw := sortedNat (tris.flatMap fun t => #[t.1 * n + t.2.1, t.2.1 * n + t.2.2, t.2.2 * n + t.1])
  let bw := sortedNat (tris.flatMap fun t => #[t.2.1 * n + t.1, t.2.2 * n + t.2.1, t.1 * n + t.2.2])
  tris.all (fun t => t.1 < nv && t.2.1 < nv && t.2.2 < nv) && fw == bw

def trisOf (idx : Array Nat) : Array (Nat × Nat × Nat) :=
  (Array.range (idx.size / 3)).map fun k => (idx[3*k]!, idx[3*k+1]!, idx[3*k+2]!)

def closed (nv : Nat) (idx : Array Nat) : String :=
  let tris := trisOf idx
  let fast := idx.size % 3 == 0 && closedFast nv tris
  -- small meshes: the fast evaluation must agree with the specification predicate
  if tris.size ≤ 150 then
    let spec := idx.size % 3 == 0 && closedSpec tris.toList && tris.all (fun t => t.1 < nv && t.2.1 < nv && t.2.2 < nv)
    if fast == spec then boolStr spec else "oracle-self-check-failed"
  else boolStr fast

def balanced (nv : Nat) (idx : Array Nat) : String :=
  let tris := trisOf idx
  let fast := idx.size % 3 == 0 && balancedFast nv tris
  if tris.size ≤ 150 then
    let spec := idx.size % 3 == 0 && balancedSpec tris.toList && tris.all (fun t => t.1 < nv && t.2.1 < nv && t.2.2 < nv)
    if fast == spec then boolStr spec else "oracle-self-check-failed"
  else boolStr fast

/-- `closed`, or exactly the fine-resolution weld pinch (known finding C09-weld-pinch-fine-resolution): balanced, no
    degenerate face, and every directed edge that occurs more than once has an END POINT within the weld radius
    (1.1e-3 world units per coordinate = `1.1e-3·cpu` cells) of a lattice corner — i.e. an end point that is the weld-merge
    of vertices of several lattice edges through that corner (one merged end point suffices: its partners' edges to a
    common neighbour coincide) -/
def closedOrWeldPinch (cpu : Float) (nv : Nat) (idx : Array Nat) (pos : Array Float) : Bool :=
  let tris := trisOf idx
  if idx.size % 3 == 0 && closedFast nv tris then true
  else
    let n := nv + 1
    let nondeg := tris.all (fun t => t.1 != t.2.1 && t.2.1 != t.2.2 && t.2.2 != t.1 && t.1 < nv && t.2.1 < nv && t.2.2 < nv)
    let delta : Float := 1.1e-3 * cpu
    let nearCorner (i : Nat) : Bool :=
      [0, 1, 2].all fun k => let u := pos[3*i+k]! * cpu; (u - u.round).abs ≤ delta
    let fw := sortedNat (tris.flatMap fun t => #[t.1 * n + t.2.1, t.2.1 * n + t.2.2, t.2.2 * n + t.1])
    let dupOk := (List.range (fw.size - 1)).all fun i =>
      fw[i]! != fw[i+1]! || nearCorner (fw[i]! / n) || nearCorner (fw[i]! % n)
    idx.size % 3 == 0 && nondeg && balancedFast nv tris && dupOk

/-! ### orientation: signed volume -/

def signedVolume6 (tris : Array (Nat × Nat × Nat)) (p : Array Float) : Float :=
  tris.foldl (fun acc t =>
    let ax := p[3*t.1]!; let ay := p[3*t.1+1]!; let az := p[3*t.1+2]!
    let bx := p[3*t.2.1]!; let by' := p[3*t.2.1+1]!; let bz := p[3*t.2.1+2]!
    let cx := p[3*t.2.2]!; let cy := p[3*t.2.2+1]!; let cz := p[3*t.2.2+2]!
    acc + (ax * (by' * cz - bz * cy) - ay * (bx * cz - bz * cx) + az * (bx * cy - by' * cx))) 0.0

/-! ### analytic fields (mirrors math/sdf at Float) -/

inductive Shape where
  | sphere (c : V3 Float) (r s : Float)
  | box (c size : V3 Float) (s : Float)
  | line (a b : V3 Float) (r s : Float)

def dist (v o : V3 Float) : Float :=
  let xd := o.x - v.x; let yd := o.y - v.y; let zd := o.z - v.z
  Float.sqrt (xd * xd + yd * yd + zd * zd)

def fmin (a b : Float) : Float := if a < b then a else b
def fmax (a b : Float) : Float := if a > b then a else b

def closestOnSeg (p1 p2 p : V3 Float) : V3 Float :=
  let h : V3 Float := ⟨p2.x - p1.x, p2.y - p1.y, p2.z - p1.z⟩
  let m := Float.sqrt (h.x * h.x + h.y * h.y + h.z * h.z)
  let hn : V3 Float := ⟨h.x / m, h.y / m, h.z / m⟩
  let l : V3 Float := ⟨p.x - p1.x, p.y - p1.y, p.z - p1.z⟩
  let t := (l.x * hn.x + l.y * hn.y + l.z * hn.z) / m
  if t ≥ 1 then p2 else if t ≤ 0 then p1
  else ⟨p1.x + h.x * t, p1.y + h.y * t, p1.z + h.z * t⟩

def Shape.eval (v : V3 Float) : Shape → Float
  | .sphere c r s => (dist v c - r) * s
  | .box c size s =>
    let qx := (v.x - c.x).abs - size.x * 0.5
    let qy := (v.y - c.y).abs - size.y * 0.5
    let qz := (v.z - c.z).abs - size.z * 0.5
    let inside := fmin (fmax qx (fmax qy qz)) 0
    let mx := fmax qx 0; let my := fmax qy 0; let mz := fmax qz 0
    (Float.sqrt (mx * mx + my * my + mz * mz) + inside) * s
  | .line a b r s => (dist v (closestOnSeg a b v) - r) * s

/-- union of shapes = pointwise minimum -/
def fieldAt (shapes : List Shape) (v : V3 Float) : Float :=
  match shapes with
  | [] => 10.0
  | s :: rest => rest.foldl (fun acc sh => fmin acc (sh.eval v)) (s.eval v)

def parseShapes : Nat → List Float → Option (List Shape × List Float)
  | 0, rest => some ([], rest)
  | n+1, k :: rest =>
    if k == 0.0 then
      match rest with
      | cx :: cy :: cz :: r :: s :: rest' => do
        let (l, r') ← parseShapes n rest'; pure (Shape.sphere ⟨cx, cy, cz⟩ r s :: l, r')
      | _ => none
    else if k == 1.0 then
      match rest with
      | cx :: cy :: cz :: sx :: sy :: sz :: s :: rest' => do
        let (l, r') ← parseShapes n rest'; pure (Shape.box ⟨cx, cy, cz⟩ ⟨sx, sy, sz⟩ s :: l, r')
      | _ => none
    else if k == 2.0 then
      match rest with
      | ax :: ay :: az :: bx :: by' :: bz :: r :: s :: rest' => do
        let (l, r') ← parseShapes n rest'; pure (Shape.line ⟨ax, ay, az⟩ ⟨bx, by', bz⟩ r s :: l, r')
      | _ => none
    else none
  | _, _ => none

/-- the field a canvas holds after ONE `AddField` of the union of `shapes`, at lattice point `p` (lattice coordinates as
    floats), sampled as the canvas samples it: `float64(i) / cubesPerUnit` -/
def sampleUnion (shapes : List Shape) (cpu : Float) (p : Array Float) : Float :=
  fieldAt shapes ⟨p[0]! / cpu, p[1]! / cpu, p[2]! / cpu⟩

/-- one added field: padded lattice bounds `[lo, hi)` of the samples `AddField*` writes, and its shapes -/
structure AddedField where
  lo : Array Float
  hi : Array Float
  shapes : List Shape

/-- the field a canvas holds after SEVERAL `AddField*` calls: every call ADDS (`+=`) its samples inside its own padded
    sample box onto what is there (0 initially) -/
def sampleAccumulated (fs : List AddedField) (cpu : Float) (p : Array Float) : Float :=
  fs.foldl (fun acc f =>
    if f.lo[0]! ≤ p[0]! && p[0]! < f.hi[0]! && f.lo[1]! ≤ p[1]! && p[1]! < f.hi[1]! && f.lo[2]! ≤ p[2]! && p[2]! < f.hi[2]!
    then acc + sampleUnion f.shapes cpu p else acc) 0.0

/-- `NearIso`: the vertex (world coordinates) lies, within `tol` lattice units, on a lattice edge
    `[p, p+e_k]` of the sampling grid whose two end points — sampled exactly as the canvas samples them,
    `float64(i) / cubesPerUnit` — are on different sides of the cutoff. -/
def nearIsoVertex (sample : Array Float → Float) (cpu cutoff : Float) (v : V3 Float) : Bool :=
  let tol : Float := 1e-6
  let u : Array Float := #[v.x * cpu, v.y * cpu, v.z * cpu]
  let r : Array Float := u.map Float.round
  (List.range 3).any fun k =>
    let j1 := (k + 1) % 3; let j2 := (k + 2) % 3
    (u[j1]! - r[j1]!).abs ≤ tol && (u[j2]! - r[j2]!).abs ≤ tol &&
    ([-1.0, 0.0, 1.0].any fun d =>
      let lo := (u[k]!).floor + d
      lo - tol ≤ u[k]! && u[k]! ≤ lo + 1 + tol &&
      (let pa := (r.set! k lo); let pb := (r.set! k (lo + 1))
       let fa := sample pa; let fb := sample pb
       (fa < cutoff) != (fb < cutoff)))

/-- the inside→outside direction (±e_k) of the sign-changing lattice edge the vertex lies on; `none` when the vertex
    lies on no such edge, on several (a vertex at a lattice corner: sample equal to the cutoff), or within the weld
    radius of a lattice corner -/
def vertexOutDir (sample : Array Float → Float) (cpu cutoff : Float) (v : V3 Float) : Option (V3 Float) :=
  let tol : Float := 1e-6
  let u : Array Float := #[v.x * cpu, v.y * cpu, v.z * cpu]
  let r : Array Float := u.map Float.round
  let cands : List (V3 Float) := (List.range 3).flatMap fun k =>
    let j1 := (k + 1) % 3; let j2 := (k + 2) % 3
    if (u[j1]! - r[j1]!).abs ≤ tol && (u[j2]! - r[j2]!).abs ≤ tol then
      [-1.0, 0.0, 1.0].filterMap fun d =>
        let lo := (u[k]!).floor + d
        if lo - tol ≤ u[k]! && u[k]! ≤ lo + 1 + tol then
          let fa := sample (r.set! k lo); let fb := sample (r.set! k (lo + 1))
          if (fa < cutoff) != (fb < cutoff) then
            let sgn : Float := if fa < cutoff then 1.0 else -1.0
            some (if k == 0 then ⟨sgn, 0, 0⟩ else if k == 1 then ⟨0, sgn, 0⟩ else ⟨0, 0, sgn⟩)
          else none
        else none
    else []
  -- a vertex within the weld radius (1e-3 world units per coordinate) of a lattice corner may stand in, after the
  -- weld, for a vertex of ANOTHER lattice edge through that corner: its edge is not determined by its position
  let delta : Float := 1.1e-3 * cpu
  let nearCorner := (u[0]! - r[0]!).abs ≤ delta && (u[1]! - r[1]!).abs ≤ delta && (u[2]! - r[2]!).abs ≤ delta
  match cands with
  | [d] => if nearCorner then none else some d
  | _ => none

/-- `TriOutward` — the predicate of `C09.emitted_triangle_outward` on the real mesh: for every triangle all of whose
    corners lie on exactly one sign-changing lattice edge, `normal · (d₀ + d₁ + d₂) ≥ −ε` (ε = 1e-6 cell², for slivers),
    and at least one such triangle (if there is any) is strictly positive -/
def triOutward (sample : Array Float → Float) (cpu cutoff : Float) (tris : Array (Nat × Nat × Nat)) (pos : Array Float) : Bool :=
  let nv := pos.size / 3
  let dirs : Array (Option (V3 Float)) := (Array.range nv).map fun i =>
    vertexOutDir sample cpu cutoff ⟨pos[3*i]!, pos[3*i+1]!, pos[3*i+2]!⟩
  let eps : Float := 1e-6 / (cpu * cpu)
  let vals : Array (Option Float) := tris.map fun t =>
    match dirs[t.1]!, dirs[t.2.1]!, dirs[t.2.2]! with
    | some d0, some d1, some d2 =>
      let p (i : Nat) : V3 Float := ⟨pos[3*i]!, pos[3*i+1]!, pos[3*i+2]!⟩
      let a := p t.1; let b := p t.2.1; let c := p t.2.2
      let e1 : V3 Float := ⟨b.x - a.x, b.y - a.y, b.z - a.z⟩; let e2 : V3 Float := ⟨c.x - a.x, c.y - a.y, c.z - a.z⟩
      let n : V3 Float := ⟨e1.y * e2.z - e1.z * e2.y, e1.z * e2.x - e1.x * e2.z, e1.x * e2.y - e1.y * e2.x⟩
      some (n.x * (d0.x + d1.x + d2.x) + n.y * (d0.y + d1.y + d2.y) + n.z * (d0.z + d1.z + d2.z))
    | _, _, _ => none
  vals.all (fun v => match v with | some x => x ≥ -eps | none => true) &&
  (vals.all (fun v => v.isNone) || vals.any (fun v => match v with | some x => x > eps | none => false))

/-! ### the model's marcher on an integer-tagged sample box -/

structure Box where
  o : Pt
  nx : Nat
  ny : Nat
  nz : Nat
  vals : Array Float

/-- several disjoint sample boxes written into one canvas by successive `AddField` calls -/
abbrev Grid := List Box

def Box.inBox (g : Box) (q : Pt) : Bool :=
  g.o.1 ≤ q.1 && q.1 < g.o.1 + g.nx && g.o.2.1 ≤ q.2.1 && q.2.1 < g.o.2.1 + g.ny &&
  g.o.2.2 ≤ q.2.2 && q.2.2 < g.o.2.2 + g.nz

def Box.at (g : Box) (q : Pt) : Float :=
  if g.inBox q then
    let i := (q.1 - g.o.1).toNat; let j := (q.2.1 - g.o.2.1).toNat; let k := (q.2.2 - g.o.2.2).toNat
    g.vals[(k * g.ny + j) * g.nx + i]!
  else 0.0

/-- the value the `AddField` calls leave at global sample position `q` (`+=` onto 0) -/
def gridAt (g : Grid) (q : Pt) : Float := g.foldl (fun acc b => acc + b.at q) 0.0

/-- blocks allocated by `AddField`: `chunkSectionsInRange(min, max)` — every chunk between the chunk of
    `min` and the chunk of `max` (the exclusive upper bound itself), per axis -/
def Box.allocated (g : Box) (b : Pt) : Bool :=
  let lo := chunkOf g.o
  let hi := chunkOf (g.o.1 + g.nx, g.o.2.1 + g.ny, g.o.2.2 + g.nz)
  lo.1 ≤ b.1 && b.1 ≤ hi.1 && lo.2.1 ≤ b.2.1 && b.2.1 ≤ hi.2.1 && lo.2.2 ≤ b.2.2 && b.2.2 ≤ hi.2.2

def gridAllocated (g : Grid) (b : Pt) : Bool := g.any (·.allocated b)

/-- the canvas storage as the model's `Blocks`: block `b`, flat index ↦ sample -/
def gridBlocks (g : Grid) : Blocks Float := fun b =>
  if gridAllocated g b then
    some fun idx =>
      let n := marchingSectionSize
      let x := idx % n; let y := (idx / n) % n; let z := idx / (n * n)
      gridAt g (b.1 * n + x, b.2.1 * n + y, b.2.2 * n + z)
  else none

def canonTri (t : List Int) : List Int :=
  match t with
  | [a0, a1, a2, b0, b1, b2, c0, c1, c2] =>
    let a := [a0, a1, a2]; let b := [b0, b1, b2]; let c := [c0, c1, c2]
    let lt (x y : List Int) : Bool := x < y
    if lt a b && lt a c then a ++ b ++ c else if lt b a && lt b c then b ++ c ++ a else c ++ a ++ b
  | _ => t

def listLt : List Int → List Int → Bool := fun a b => a < b

def Box.nearCells (g : Box) : List Pt :=
  (List.range (g.nx + 1)).flatMap fun (i : Nat) => (List.range (g.ny + 1)).flatMap fun (j : Nat) =>
    (List.range (g.nz + 1)).map fun (k : Nat) =>
      (g.o.1 - 1 + Int.ofNat i, g.o.2.1 - 1 + Int.ofNat j, g.o.2.2 - 1 + Int.ofNat k)

def Box.isNearCell (g : Box) (p : Pt) : Bool :=
  g.o.1 - 1 ≤ p.1 && p.1 < g.o.1 + g.nx && g.o.2.1 - 1 ≤ p.2.1 && p.2.1 < g.o.2.1 + g.ny &&
  g.o.2.2 - 1 ≤ p.2.2 && p.2.2 < g.o.2.2 + g.nz

/-- every cell with at least one corner in some sample box, once -/
def gridCells : Grid → List Pt
  | [] => []
  | b :: rest => b.nearCells ++ (gridCells rest).filter (fun p => !b.isNearCell p)

/-- the model's mesh: for every cell that can be non-trivial (a corner in a sample box; all other cells see
    only zeros = outside), in the block that owns it: `fetchCell` → case index → table triangles →
    `interpolateVerts` (engine T) + block offset; triangles with two coincident corners dropped (the weld). -/
def marchGrid (g : Grid) (cutoff : Float) : List (List Int) :=
  let n := marchingSectionSize
  let bl := gridBlocks g
  let tris := (gridCells g).flatMap fun p =>
    let b := chunkOf p
    let x := p.1 % n; let y := p.2.1 % n; let z := p.2.2 % n
    match (if gridAllocated g b then fetchCell bl b x y z else none) with
    | none => []
    | some cs =>
      let bits : List Bool := cs.map (fun v => decide (v < cutoff))
      let c := caseIndex bits
      let off : V3 Float := ⟨Float.ofInt (b.1 * n), Float.ofInt (b.2.1 * n), Float.ofInt (b.2.2 * n)⟩
      let cpos (i : Nat) : V3 Float :=
        let d := cornerPosOff i
        ⟨Float.ofInt x + Float.ofInt d.1, Float.ofInt y + Float.ofInt d.2.1, Float.ofInt z + Float.ofInt d.2.2⟩
      let vert (e : Nat) : List Int :=
        let a := cA e; let bb := cB e
        let v := (Gen.marching.interpolateVerts (cpos a) (cpos bb) (cs.getD a 0.0) (cs.getD bb 0.0) cutoff).Add off
        [(v.x * 4).round.toInt64.toInt, (v.y * 4).round.toInt64.toInt, (v.z * 4).round.toInt64.toInt]
      (caseTris c).filterMap fun t =>
        let v1 := vert t.1; let v2 := vert t.2.1; let v3 := vert t.2.2
        if v1 == v2 || v2 == v3 || v1 == v3 then none else some (canonTri (v1 ++ v2 ++ v3))
  (tris.toArray.qsort listLt).toList

def parseBoxes : Nat → List String → Option (List Box × List String)
  | 0, r => some ([], r)
  | k+1, ox :: oy :: oz :: nx :: ny :: nz :: rest => do
    let o : Pt := (← int? ox, ← int? oy, ← int? oz)
    let nx ← nat? nx; let ny ← nat? ny; let nz ← nat? nz
    let cnt := nx * ny * nz
    if rest.length < cnt then none
    let vals ← (rest.take cnt).mapM int?
    let (l, r) ← parseBoxes k (rest.drop cnt)
    pure (⟨o, nx, ny, nz, (vals.map Float.ofInt).toArray⟩ :: l, r)
  | _, _ => none

def intsStr (l : List Int) : String := " ".intercalate (l.map toString)

def takeNats (n : Nat) (ts : List String) : Option (Array Nat × List String) :=
  if ts.length < n then none else do
    let xs ← (ts.take n).mapM nat?
    pure (xs.toArray, ts.drop n)

def takeFloats (n : Nat) (ts : List String) : Option (Array Float × List String) :=
  if ts.length < n then none else do
    let xs ← (ts.take n).mapM hexF?
    pure (xs.toArray, ts.drop n)

/-- shape tokens: kind as decimal 0/1/2, parameters as hex floats -/
def shapeToks : Nat → List String → Option (List Float × List String)
  | 0, r => some ([], r)
  | n+1, k :: r => do
    let kind ← nat? k
    let cnt := if kind == 0 then 5 else if kind == 1 then 7 else 8
    let (fs, r') ← takeFloats cnt r
    let (l, r'') ← shapeToks n r'
    pure (Float.ofNat kind :: fs.toList ++ l, r'')
  | _, _ => none

/-- `nf` added fields: each `lo3 hi3 (decimal integers) ns shapes…` -/
def addedFields : Nat → List String → Option (List AddedField × List String)
  | 0, r => some ([], r)
  | n+1, a :: b :: c :: d :: e :: f :: ns :: r => do
    let lo ← [a, b, c].mapM int?; let hi ← [d, e, f].mapM int?
    let ns ← nat? ns
    let (sf, r') ← shapeToks ns r
    let (shapes, _) ← parseShapes ns sf
    let (l, r'') ← addedFields n r'
    pure (⟨(lo.map Float.ofInt).toArray, (hi.map Float.ofInt).toArray, shapes⟩ :: l, r'')
  | _, _ => none

def handle (op : String) (args : List String) : Option String := do
  match op with
  | "c09.march.grid" =>
    match args with
    | k :: rest => do
      let k ← nat? k
      let (g, r) ← parseBoxes k rest
      if !r.isEmpty then none
      let tris := marchGrid g 0.0
      -- no triangle at all: `March` returns the empty mesh (fix 0adf5e5; it used to panic on the sequential path)
      if tris.isEmpty then pure "empty"
      else pure (toString tris.length ++ " " ++ " ".intercalate (tris.map intsStr))
    | _ => none
  -- empty below-threshold region ⇒ empty mesh
  | "c09.holds.empty_surface" =>
    match args with
    | _nv :: nt :: _ => do
      let nt ← nat? nt
      pure (boolStr (nt == 0))
    | _ => none
  | "c09.holds.balanced" =>
    match args with
    | nv :: nt :: rest => do
      let nv ← nat? nv; let nt ← nat? nt
      let (idx, rest) ← takeNats (3 * nt) rest
      if !rest.isEmpty then none
      pure (balanced nv idx)
    | _ => none
  -- the strict predicate on the known-finding class (two inside regions separated only by samples equal to the cutoff)
  | "c09.holds.closed_touching_at_cutoff_witness" =>
    match args with
    | nv :: nt :: rest => do
      let nv ← nat? nv; let nt ← nat? nt
      let (idx, rest) ← takeNats (3 * nt) rest
      if !rest.isEmpty then none
      pure (closed nv idx)
    | _ => none
  -- the strict predicate on known-finding class 2 (a lattice line of samples within float noise of the cutoff)
  | "c09.holds.closed_cutoff_noise_line_witness" =>
    match args with
    | nv :: nt :: rest => do
      let nv ← nat? nv; let nt ← nat? nt
      let (idx, rest) ← takeNats (3 * nt) rest
      if !rest.isEmpty then none
      pure (closed nv idx)
    | _ => none
  -- the strict predicate on known-finding class 3 (weld pinch at fine resolution)
  | "c09.holds.closed_weld_pinch_witness" =>
    match args with
    | nv :: nt :: rest => do
      let nv ← nat? nv; let nt ← nat? nt
      let (idx, rest) ← takeNats (3 * nt) rest
      if !rest.isEmpty then none
      pure (closed nv idx)
    | _ => none
  -- random (non-catalogue) canvases: strict closed, or exactly that mechanism
  | "c09.holds.closed_or_weld_pinch" =>
    match args with
    | cpu :: nv :: nt :: rest => do
      let cpu ← hexF? cpu; let nv ← nat? nv; let nt ← nat? nt
      let (idx, rest) ← takeNats (3 * nt) rest
      let (pos, rest) ← takeFloats (3 * nv) rest
      if !rest.isEmpty then none
      pure (boolStr (closedOrWeldPinch cpu nv idx pos))
    | _ => none
  | "c09.holds.closed" =>
    match args with
    | nv :: nt :: rest => do
      let nv ← nat? nv; let nt ← nat? nt
      let (idx, rest) ← takeNats (3 * nt) rest
      if !rest.isEmpty then none
      pure (closed nv idx)
    | _ => none
  | "c09.holds.outward" =>
    match args with
    | nv :: nt :: rest => do
      let nv ← nat? nv; let nt ← nat? nt
      let (idx, rest) ← takeNats (3 * nt) rest
      let (pos, rest) ← takeFloats (3 * nv) rest
      if !rest.isEmpty then none
      let tris := trisOf idx
      if !(tris.all fun t => t.1 < nv && t.2.1 < nv && t.2.2 < nv) then pure "false"
      else pure (boolStr (signedVolume6 tris pos > 0))
    | _ => none
  | "c09.holds.tri_outward" =>
    match args with
    | cpu :: cutoff :: ns :: rest => do
      let cpu ← hexF? cpu; let cutoff ← hexF? cutoff; let ns ← nat? ns
      let (sf, rest) ← shapeToks ns rest
      let (shapes, _) ← parseShapes ns sf
      match rest with
      | nv :: nt :: rest => do
        let nv ← nat? nv; let nt ← nat? nt
        let (idx, rest) ← takeNats (3 * nt) rest
        let (pos, rest) ← takeFloats (3 * nv) rest
        if !rest.isEmpty then none
        let tris := trisOf idx
        if !(tris.all fun t => t.1 < nv && t.2.1 < nv && t.2.2 < nv) then pure "false"
        else pure (boolStr (triOutward (sampleUnion shapes cpu) cpu cutoff tris pos))
      | _ => none
    | _ => none
  -- the same two predicates against the ACCUMULATED field of several (overlapping) AddField / AddFieldParallel* calls
  | "c09.holds.near_iso_accumulated" =>
    match args with
    | cpu :: cutoff :: nf :: rest => do
      let cpu ← hexF? cpu; let cutoff ← hexF? cutoff; let nf ← nat? nf
      let (fs, rest) ← addedFields nf rest
      match rest with
      | nv :: rest => do
        let nv ← nat? nv
        let (pos, rest) ← takeFloats (3 * nv) rest
        if !rest.isEmpty then none
        pure (boolStr ((List.range nv).all fun i => nearIsoVertex (sampleAccumulated fs cpu) cpu cutoff ⟨pos[3*i]!, pos[3*i+1]!, pos[3*i+2]!⟩))
      | _ => none
    | _ => none
  | "c09.holds.tri_outward_accumulated" =>
    match args with
    | cpu :: cutoff :: nf :: rest => do
      let cpu ← hexF? cpu; let cutoff ← hexF? cutoff; let nf ← nat? nf
      let (fs, rest) ← addedFields nf rest
      match rest with
      | nv :: nt :: rest => do
        let nv ← nat? nv; let nt ← nat? nt
        let (idx, rest) ← takeNats (3 * nt) rest
        let (pos, rest) ← takeFloats (3 * nv) rest
        if !rest.isEmpty then none
        let tris := trisOf idx
        if !(tris.all fun t => t.1 < nv && t.2.1 < nv && t.2.2 < nv) then pure "false"
        else pure (boolStr (triOutward (sampleAccumulated fs cpu) cpu cutoff tris pos))
      | _ => none
    | _ => none
  | "c09.holds.near_iso" =>
    match args with
    | cpu :: cutoff :: ns :: rest => do
      let cpu ← hexF? cpu; let cutoff ← hexF? cutoff; let ns ← nat? ns
      let (sf, rest) ← shapeToks ns rest
      let (shapes, _) ← parseShapes ns sf
      match rest with
      | nv :: rest => do
        let nv ← nat? nv
        let (pos, rest) ← takeFloats (3 * nv) rest
        if !rest.isEmpty then none
        pure (boolStr ((List.range nv).all fun i => nearIsoVertex (sampleUnion shapes cpu) cpu cutoff ⟨pos[3*i]!, pos[3*i+1]!, pos[3*i+2]!⟩))
      | _ => none
    | _ => none
  | _ => none

end Driver.C09

def main : IO Unit := Driver.runLoop Driver.C09.handle
