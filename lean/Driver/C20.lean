import Driver.Proto
import PolyVerif.Model.Delaunay

namespace Driver.C20
open PolyVerif PolyVerif.Delaunay

/-- a float64 decoded exactly: value = `m · 2^e` (`m = 0` ⇒ `e = 0`) -/
structure Dy where
  m : Int
  e : Int

/-- strip trailing zero bits of the mantissa (at most 64 rounds) -/
def normDy : Nat → Nat → Int → (Nat × Int)
  | 0, m, e => (m, e)
  | fuel + 1, m, e => if m != 0 && m % 2 == 0 then normDy fuel (m / 2) (e + 1) else (m, e)

/-- exact decoding of an IEEE-754 binary64 bit pattern; NaN / ±Inf are rejected -/
def decode (bits : Nat) : Option Dy :=
  let sign := bits >>> 63
  let ex := (bits >>> 52) % 2048
  let frac := bits % (2 ^ 52)
  if ex == 2047 then none
  else
    let (m, e) : Nat × Int := if ex == 0 then (frac, -1074) else (frac + 2 ^ 52, (ex : Int) - 1075)
    if m == 0 then some ⟨0, 0⟩ else
    let (m, e) := normDy 64 m e
    some ⟨if sign == 1 then -(m : Int) else (m : Int), e⟩

def dyOfHex (s : String) : Option Dy :=
  if s.length ≠ 16 then none else (parseHex s) >>= decode

/-- all values of one case on the common scale `2^eMin`: integer `m · 2^(e - eMin)` -/
def scaleInts (ds : List Dy) : List Int :=
  let es := (ds.filter (fun d => d.m != 0)).map (·.e)
  match es with
  | [] => ds.map (fun _ => 0)
  | e0 :: rest =>
    let eMin := rest.foldl (fun a b => if b < a then b else a) e0
    ds.map (fun d => if d.m == 0 then 0 else d.m * (2 : Int) ^ (d.e - eMin).toNat)

def dyToRat (d : Dy) : Rat :=
  if d.e ≥ 0 then (d.m * (2 : Int) ^ d.e.toNat : Int) else (d.m : Rat) / ((2 : Int) ^ (-d.e).toNat : Int)

def pairUp {β : Type} : List β → List (β × β)
  | a :: b :: rest => (a, b) :: pairUp rest
  | _ => []

def tripleUp {β : Type} : List β → List (β × β × β)
  | a :: b :: c :: rest => (a, b, c) :: tripleUp rest
  | _ => []

def showTris (ts : List Tri) : String :=
  " ".intercalate (toString ts.length :: ts.map (fun t => s!"{t.1} {t.2.1} {t.2.2}"))

/-- args after the class token: `n  x0 y0 … x(n-1) y(n-1)  rest…` -/
def takePoints (args : List String) : Option (Nat × List String × List String) := do
  let n ← nat? (← args.head?)
  let rest := args.drop 1
  if rest.length < 2 * n then none
  pure (n, rest.take (2 * n), rest.drop (2 * n))

def takeTris (args : List String) : Option (List Tri) := do
  let m ← nat? (← args.head?)
  let idx ← (args.drop 1).mapM nat?
  if idx.length ≠ 3 * m then none
  pure (tripleUp idx)

/-- exact integer point lookup for the oracle checkers -/
def intPoints (hex : List String) : Option (Nat → Pt Int) := do
  let ds ← hex.mapM dyOfHex
  let arr := (pairUp (scaleInts ds)).toArray
  pure (fun i => arr.getD i (0, 0))

/-- the `n + 3` points of a run (inputs and the model's super-triangle, computed at `Rat`) on a common integer scale:
    every coordinate is a dyadic rational, so multiplying by the largest denominator makes them integers; the
    predicates are homogeneous (`orient_smul`, `inCircleDet_smul`), so every sign and hence the whole run is unchanged -/
def fanPoints (hex : List String) : Option (Option ((Nat → Pt Int) × Nat)) := do
  let ds ← hex.mapM dyOfHex
  match pairUp (ds.map dyToRat) with
  | p :: q :: r :: rest =>
    let pts := p :: q :: r :: rest
    let all := pts ++ superTriangle p (q :: r :: rest)
    let d : Nat := all.foldl (fun a v => Nat.max a (Nat.max v.1.den v.2.den)) 1
    let arr := (all.map (fun v => ((v.1 * (d : Rat)).num, (v.2 * (d : Rat)).num))).toArray
    pure (some (fun i => arr.getD i (0, 0), pts.length))
  | _ => pure none

def handle (op : String) (args0 : List String) : Option String := do
  let args := args0.drop 1       -- first token: generator class (only for known-finding matching)
  match op with
  | "c20.bw" => do
      let (_, hex, _) ← takePoints args
      let ds ← hex.mapM dyOfHex
      let pts : List (Pt Rat) := pairUp (ds.map dyToRat)
      match bowyerWatson id pts with
      | none => pure "panic"
      | some ts => pure (showTris (canonTris ts))
  | "c20.super" => do              -- n pts  →  the six super-triangle coordinates, doubled (exact integers on integer input)
      let (_, hex, _) ← takePoints args
      let ds ← hex.mapM dyOfHex
      let pts : List (Pt Rat) := pairUp (ds.map dyToRat)
      match pts with
      | [] => pure "empty"
      | p :: ps =>
        let out := (superTriangle p ps).flatMap (fun v => [v.1 * 2, v.2 * 2])
        if out.all (fun q => q.den == 1) then pure (" ".intercalate (out.map (fun q => toString q.num)))
        else pure "non-integer"
  | "c20.holds.fan_positive" => do -- n pts : the hypothesis FanPositive on the model's own run (exact arithmetic)
      let (_, hex, _) ← takePoints args
      match ← fanPoints hex with
      | none => pure "true"
      | some (P, n) => pure (boolStr (fanPositiveOk P n))
  | "c20.holds.cavity_disc" => do  -- n pts : the ONE remaining hypothesis CavityDisc on the model's own run
      let (_, hex, _) ← takePoints args
      match ← fanPoints hex with
      | none => pure "true"
      | some (P, n) => pure (boolStr (cavityDiscOk P n))
  | "c20.holds.fan_empty" => do    -- n pts : the hypothesis FanEmpty on the model's own run
      let (_, hex, _) ← takePoints args
      match ← fanPoints hex with
      | none => pure "true"
      | some (P, n) => pure (boolStr (fanEmptyOk P n))
  | "c20.holds.same_as_sequential" => do -- m tris m' tris' : a concurrent result is the same triangle SET as the sequential one
      let m ← nat? (← args.head?)
      let a ← takeTris (args.take (1 + 3 * m))
      let b ← takeTris (args.drop (1 + 3 * m))
      pure (boolStr (canonTris a == canonTris b))
  | "c20.holds.input_unchanged" => do -- n pts n' pts' : the caller's slice re-read after the call is bit-identical
      let (n, hex, rest) ← takePoints args
      let (n', hex', rest') ← takePoints rest
      pure (boolStr (n == n' && hex == hex' && rest'.isEmpty))
  | "c20.holds.vertices" => do     -- n pts k out(3k)
      let (_, hex, rest) ← takePoints args
      let k ← nat? (← rest.head?)
      let out := rest.drop 1
      if out.length ≠ 3 * k then none
      let pb ← hex.mapM parseHex
      let ob ← out.mapM parseHex
      pure (boolStr (verticesOk (pairUp pb) (tripleUp ob)))
  | "c20.holds.indices" => do      -- n m idx
      let n ← nat? (← args.head?)
      let ts ← takeTris (args.drop 1)
      pure (boolStr (indicesOk n ts))
  | "c20.holds.winding" => do      -- n pts m idx
      let (_, hex, rest) ← takePoints args
      let P ← intPoints hex
      let ts ← takeTris rest
      pure (boolStr (windingOk P ts))
  | "c20.holds.delaunay" => do
      let (n, hex, rest) ← takePoints args
      let P ← intPoints hex
      let ts ← takeTris rest
      pure (boolStr (delaunayOk P n ts))
  /- the fixed witness of the known finding C20-float-incircle-tight-cluster: same verified checkers; on failure the answer
     names the first violating triangle and point / pair of triangles -/
  | "c20.holds.delaunay_tight_cluster_witness" => do
      let (n, hex, rest) ← takePoints args
      let P ← intPoints hex
      let ts ← takeTris rest
      if delaunayOk P n ts then pure "true" else
      let bad := ts.filterMap fun t => ((List.range n).find? fun i => insideCirc P t (P i)).map fun i => (t, i)
      match bad.head? with
      | some (t, i) => pure s!"false triangle=({t.1},{t.2.1},{t.2.2}) point={i}-strictly-inside-its-circumcircle violations={bad.length}"
      | none => pure "false"
  | "c20.holds.no_overlap_tight_cluster_witness" => do
      let (_, hex, rest) ← takePoints args
      let P ← intPoints hex
      let ts ← takeTris rest
      if noOverlapOk P ts then pure "true" else
      let pairs := ts.flatMap fun t => (ts.filter fun u => t != u && !sepOk P t u).map fun u => (t, u)
      match pairs.head? with
      | some (t, u) => pure s!"false triangles=({t.1},{t.2.1},{t.2.2})&({u.1},{u.2.1},{u.2.2})-not-separated-by-any-edge-line pairs={pairs.length / 2}"
      | none => pure "false"
  /- large outputs: the same verified checkers on a SAMPLE of the triangles (every ⌈m/k⌉-th), each sampled triangle tested
     against ALL input points / ALL triangles — sound for the sampled triangles -/
  | "c20.holds.delaunay_sampled" => do
      let (n, hex, rest) ← takePoints args
      let P ← intPoints hex
      let ts ← takeTris rest
      let step := Nat.max 1 (ts.length / 300)
      let sample := (ts.zip (List.range ts.length)).filterMap fun (t, i) => if i % step == 0 then some t else none
      pure (boolStr (delaunayOk P n sample))
  | "c20.holds.no_overlap_sampled" => do
      let (_, hex, rest) ← takePoints args
      let P ← intPoints hex
      let ts ← takeTris rest
      let step := Nat.max 1 (ts.length / 120)
      let sample := (ts.zip (List.range ts.length)).filterMap fun (t, i) => if i % step == 0 then some (t, i) else none
      let all := ts.zip (List.range ts.length)
      pure (boolStr (sample.all fun (t, i) => all.all fun (u, j) => i == j || sepOk P t u))
  | "c20.holds.no_overlap" => do
      let (_, hex, rest) ← takePoints args
      let P ← intPoints hex
      let ts ← takeTris rest
      pure (boolStr (noOverlapOk P ts))
  | _ => none

end Driver.C20

def main : IO Unit := Driver.runLoop Driver.C20.handle
