import Driver.Proto
import PolyVerif.Model.Readers
import PolyVerif.Model.PlyFile
import PolyVerif.Model.C14Large

namespace Driver.C14
open PolyVerif PolyVerif.Readers

/-! protocol helpers -/

def hexBytesAux : List Char → List UInt8 → Option (List UInt8)
  | [], acc => some acc.reverse
  | [_], _ => none
  | a :: b :: rest, acc => do
      let x ← hexDigit a; let y ← hexDigit b
      hexBytesAux rest (UInt8.ofNat (x * 16 + y) :: acc)

/-- lower-case hex byte string; "-" is the empty string -/
def hexBytes? (s : String) : Option (List UInt8) :=
  if s == "-" then some [] else hexBytesAux s.toList []

/-- cut specification: "all" = every k in 0..len, otherwise a comma-separated list;
    an entry "k" cuts at k, an entry "k=d" (SPZ) means: compressed cut k delivered d decompressed bytes,
    "k=x": gzip rejected the stream itself -/
def cuts? (spec : String) (len : Nat) : Option (List (Nat × Option Nat)) :=
  if spec == "all" then some ((List.range (len + 1)).map fun k => (k, some k))
  else (spec.splitOn ",").mapM fun e =>
    match e.splitOn "=" with
    | [k] => do let k ← k.toNat?; pure (k, some k)
    | [k, "x"] => do let k ← k.toNat?; pure (k, none)
    | [k, d] => do let k ← k.toNat?; let d ← d.toNat?; pure (k, some d)
    | _ => none

/-- run-length encoding of (k, class) in request order -/
def rle (xs : List (Nat × String)) : String :=
  let rec go : List (Nat × String) → Option (Nat × Nat × String) → List String → List String
    | [], none, acc => acc.reverse
    | [], some (a, b, c), acc => ((if a == b then s!"{a}:{c}" else s!"{a}-{b}:{c}") :: acc).reverse
    | (k, c) :: rest, none, acc => go rest (some (k, k, c)) acc
    | (k, c) :: rest, some (a, b, c'), acc =>
      if c == c' then go rest (some (a, k, c')) acc
      else go rest (some (k, k, c)) ((if a == b then s!"{a}:{c'}" else s!"{a}-{b}:{c'}") :: acc)
  " ".intercalate (go xs none [])

/-! classes -/

def stlClass (bs : List UInt8) : String :=
  match readStl bs with
  | .ok tris => s!"ok:{tris.length}"
  | .error _ => "err"

def splatClass (bs : List UInt8) : String :=
  let o := Splat.readRecs bs
  s!"ok:{o.recs.length}:{if o.short then 1 else 0}"

def spzClass (bs : List UInt8) : String :=
  match Spz.readRaw bs with
  | .ok a => s!"ok:{a.header.numPoints}:{Spz.shDim a.header.shDegree}"
  | .error _ => "err"

def ptsClass (bs : List UInt8) : String :=
  match readPts goLex bs with
  | .ok ps =>
    let hasI := ps.any (fun p => p.intensity.isSome)
    let hasC := ps.any (fun p => p.color.isSome)
    s!"ok:{ps.length}:{if hasI then 1 else 0}:{if hasC then 1 else 0}"
  | .error _ => "err"

/-- vertices and indices of the mesh `MeshReader.Read` builds (reader.go:537-549: with per-corner
    texture coordinates — at least one — the mesh is unwelded, one vertex per index) -/
def plyCounts (h : Hdr) (nverts : Nat) (pts : Option (List Nat)) : String :=
  match pts with
  | none => s!"ok:{nverts}:{nverts}"
  | some ps =>
    let nidx := (ps.map fun p => if p == 4 then 6 else 3).sum
    let nuv := match h.face.bind (·.tex) with | some _ => nidx | none => 0
    s!"ok:{if nuv > 0 && nuv == nidx then nidx else nverts}:{nidx}"

def plyClass (h : Hdr) (bs : List UInt8) : String :=
  match readPly goLex h bs with
  | .error _ => "err"
  | .ok (.bin m) => plyCounts h m.verts.length (h.face.map fun _ => m.faces.map (·.points))
  | .ok (.ascii m) => plyCounts h m.verts.length (h.face.map fun _ => m.faces.map (·.1))

/-- class of `MeshReader.Read` computed from the FILE BYTES alone: header text parser (Model/Ply.lean), bridge
    `PlyFile.hdrOf`, body reader -/
def plyFileClass (bs : List UInt8) : String :=
  match Ply.parseHeader bs with
  | .error .panic => "panic"
  | .error .err => "err"
  | .ok (h, _) =>
    match PlyFile.hdrOf h, PlyFile.readPlyFile goLex bs with
    | some hd, .ok (.bin m) => plyCounts hd m.verts.length (hd.face.map fun _ => m.faces.map (·.points))
    | some hd, .ok (.ascii m) => plyCounts hd m.verts.length (hd.face.map fun _ => m.faces.map (·.1))
    | _, _ => "err"

/-- the header description the harness derives from the real `ply.ReadHeader`, here derived from the bytes -/
def plyDescOf (bs : List UInt8) : String :=
  match Ply.parseHeader bs with
  | .error _ => "unparsed"
  | .ok (h, _) =>
    match PlyFile.hdrOf h with
    | none => "unsupported"
    | some hd =>
      let f := match hd.fmt with | .ascii => "ascii" | .le => "le" | .be => "be"
      let base := s!"{f} {hd.vcount} {hd.vsize} {hd.nprops}"
      match hd.face with
      | none => base ++ " 0"
      | some fh =>
        let tex : Int := match fh.tex with | some t => t | none => -1
        base ++ s!" 1 {fh.count} {fh.idx} {tex} {fh.lists.length}" ++
          String.join (fh.lists.map fun l => s!" {l.countSize} {l.elemSize}")

/-- header description: fmt vcount vsize nprops hasface [fcount idx tex nlists (countSize elemSize)*] -/
def hdr? : List String → Option (Hdr × List String)
  | fmt :: vc :: vs :: np :: "0" :: rest => do
      let f ← match fmt with | "ascii" => some Fmt.ascii | "le" => some Fmt.le | "be" => some Fmt.be | _ => none
      pure (⟨f, ← vc.toNat?, ← vs.toNat?, ← np.toNat?, none⟩, rest)
  | fmt :: vc :: vs :: np :: "1" :: fc :: idx :: tex :: nl :: rest => do
      let f ← match fmt with | "ascii" => some Fmt.ascii | "le" => some Fmt.le | "be" => some Fmt.be | _ => none
      let nl ← nl.toNat?
      let nums ← (rest.take (2 * nl)).mapM String.toNat?
      if nums.length ≠ 2 * nl then none
      let rec pairs : List Nat → List ListProp
        | a :: b :: r => ⟨a, b⟩ :: pairs r
        | _ => []
      let texI ← tex.toInt?
      pure (⟨f, ← vc.toNat?, ← vs.toNat?, ← np.toNat?,
             some ⟨← fc.toNat?, pairs nums, ← idx.toNat?, if texI < 0 then none else some texI.toNat⟩⟩, rest.drop (2 * nl))
  | _ => none

def runCuts (cls : List UInt8 → String) (hex spec : String) : Option String := do
  let bs ← hexBytes? hex
  let cs ← cuts? spec bs.length
  pure (rle (cs.map fun (k, d) => (k, match d with | some d => cls (bs.take d) | none => "err")))

/-! oracle: `Readers.prefixOf` (Model/Readers.lean) — the predicate the `no_placeholder_*` theorems of
    Props/C14 are stated with — evaluated on the implementation's own outputs -/

abbrev Summary := Readers.Summary String String

/-- "A name n d1..dn" blocks then "I n i1..in", up to a "|" separator -/
partial def summary? : List String → Summary → Option (Summary × List String)
  | [], s => some (s, [])
  | "|" :: rest, s => some (s, rest)
  | "A" :: name :: n :: rest, s => do
      let n ← n.toNat?
      if rest.length < n then none
      summary? (rest.drop n) { s with attrs := s.attrs ++ [(name, rest.take n)] }
  | "I" :: n :: rest, s => do
      let n ← n.toNat?
      if rest.length < n then none
      summary? (rest.drop n) { s with prims := s.prims ++ rest.take n }
  | _, _ => none


/-! oracle: the SIZE-ONLY cut laws of Model/C14Large.lean (proved from the full reader models in Props/C14Large.lean)
    evaluated on the sizes of a cut of a LARGE file and the implementation's verdict class; a class that is neither
    `err` nor a well-formed `ok:` (panic, timeout, ok:nil-mesh, …) makes the predicate false -/

/-- "err" ↦ some none; "ok:a:b:…" ↦ some (some [a, b, …]); anything else ↦ none -/
def largeClass? (cls : String) : Option (Option (List Nat)) :=
  if cls == "err" then some none
  else match cls.splitOn ":" with
    | "ok" :: rest => (rest.mapM String.toNat?).map some
    | _ => none

def bit? (s : String) : Option Bool := if s == "1" then some true else if s == "0" then some false else none

def largeCut (fmt : String) (args : List String) : Option Bool := do
  let nums ← (args.dropLast).mapM String.toNat?
  let cls ← args.getLast?
  match largeClass? cls with
  | none => pure false
  | some v =>
    match fmt, nums with
    | "stl", [n, len, k] =>
      match v with
      | none => pure (C14Large.stlCutOk n len k none)
      | some [c] => pure (C14Large.stlCutOk n len k (some c))
      | _ => pure false
    | "splat", [n, len, k] =>
      match v with
      | some [c, f] => pure (decide (f ≤ 1) && C14Large.splatCutOk n len k c (f == 1))
      | _ => pure false
    | "ply", [hlen, vcount, vsize, fcount, fbytes, len, k] =>
      -- class ok:<vertices>:<indices>; a point cloud has one index per vertex, a triangle mesh three per face
      match v with
      | none => pure (C14Large.plyCutOk hlen vcount vsize fcount fbytes len k none)
      | some [a, b] =>
        if fcount == 0 then pure (b == a && C14Large.plyCutOk hlen vcount vsize fcount fbytes len k (some (a, 0)))
        else pure (b % 3 == 0 && C14Large.plyCutOk hlen vcount vsize fcount fbytes len k (some (a, b / 3)))
      | _ => pure false
    | "pts", [n, fpp, clen, tw, len, j, t, sp, k] =>
      -- class ok:<points>:<has intensity>:<has colour>
      let vv : Option C14Large.Verdict := match v with
        | none => some none
        | some [c, i, col] => if i == (if fpp > 3 then 1 else 0) && col == (if fpp > 6 then 1 else 0) then some (some c) else none
        | _ => none
      match vv with
      | none => pure false
      | some vv => pure (decide (sp ≤ 1) && C14Large.ptsCutOk n fpp clen tw len j t (sp == 1) k vv)
    | _, _ => none

def handle (op : String) (args : List String) : Option String :=
  match op, args with
  | "c14.stl.cuts", [hex, spec] => runCuts stlClass hex spec
  | "c14.stl.cut", [hex] => (hexBytes? hex).map stlClass
  | "c14.splat.cuts", [hex, spec] => runCuts splatClass hex spec
  | "c14.splat.cut", [hex] => (hexBytes? hex).map splatClass
  | "c14.spz.cuts", [hex, spec] => runCuts spzClass hex spec
  | "c14.spz.cut", [hex] => (hexBytes? hex).map spzClass
  | "c14.pts.cuts", [hex, spec] => runCuts ptsClass hex spec
  | "c14.pts.cut", [hex] => (hexBytes? hex).map ptsClass
  | "c14.plyfile.cut", [hex] => (hexBytes? hex).map plyFileClass
  | "c14.ply.hdr", [hex] => (hexBytes? hex).map plyDescOf
  | "c14.ply.cuts", _ => do
      let (h, rest) ← hdr? args
      match rest with
      | [hex, spec] => runCuts (plyClass h) hex spec
      | _ => none
  | "c14.ply.cut", _ => do
      let (h, rest) ← hdr? args
      match rest with
      | [hex] => (hexBytes? hex).map (plyClass h)
      | _ => none
  | "c14.holds.large_cut_stl", _entry :: rest => (largeCut "stl" rest).map boolStr
  | "c14.holds.large_cut_splat", _entry :: rest => (largeCut "splat" rest).map boolStr
  | "c14.holds.large_cut_ply", _entry :: rest => (largeCut "ply" rest).map boolStr
  | "c14.holds.large_cut_pts", _entry :: rest => (largeCut "pts" rest).map boolStr
  | "c14.holds.disk_agrees", [_fmt, _entry, _k, memCls, diskCls] =>
      -- the format's on-disk Load helper on a temp file holding the same bytes: same verdict class as the in-memory reader
      some (boolStr (memCls == diskCls))
  | "c14.holds.pts_one_point", [t, cls] => do
      -- a one-point PTS file cut inside its point line after `t` tokens, accepted by the implementation with class
      -- `cls`: by `pts_one_point_exact` the record has intensity iff t > 3 and colour iff t > 6 (absent otherwise)
      let t ← t.toNat?
      pure (boolStr (cls == s!"ok:1:{if t > 3 then 1 else 0}:{if t > 6 then 1 else 0}" && t ≥ 3))
  | "c14.holds.readers_agree", _fmt :: _k :: rest =>
      -- the same bytes through a family of io.Readers: (reader-name digest)*, true iff all digests are equal
      match rest with
      | _ :: d :: more =>
        let rec go : List String → Option Bool
          | [] => some true
          | [_] => none
          | _ :: d' :: r => (go r).map (fun b => b && d' == d)
        (go more).map boolStr
      | _ => none
  | "c14.holds.rejects_token_losing_cut", fmt :: _k :: rest => do
      -- a strict prefix (ASCII: cut at a token boundary) on which the implementation returned `implClass`:
      -- true iff that is the verdict of the model reader on the same bytes — an error whenever the theorems of
      -- Props/C14 say the cut is rejected, the complete result (same counts) only where they allow it
      let clsOf ← match fmt with
        | "stl" => some (fun (_ : List String) => some (stlClass, ([] : List String)))
        | "pts" => some (fun _ => some (ptsClass, []))
        | "spz" => some (fun _ => some (spzClass, []))
        | "ply" => some (fun r => (hdr? r).map fun (h, rest) => (plyClass h, rest))
        | _ => none
      let (cls, rest') ← clsOf rest
      let rest' := if fmt == "ply" then rest' else rest
      match rest' with
      | [hex, implClass] => do
          let bs ← hexBytes? hex
          pure (boolStr (cls bs == implClass))
      | _ => none
  | "c14.holds.prefix_only", _fmt :: streamed :: _k :: rest => do
      let (x, rest) ← summary? rest ⟨[], []⟩
      let (m, _) ← summary? rest ⟨[], []⟩
      let mode := if streamed == "1" then Mode.streamed else if streamed == "2" then Mode.restricted else Mode.complete
      pure (boolStr (prefixOf mode m x))
  | _, _ => none

end Driver.C14

def main : IO Unit := Driver.runLoop Driver.C14.handle
