/-
  Round 2: request → model evaluation for the operations of `PolyVerif/Model/MeshMore.lean`
  (shared by the C02 and C03 drivers, core Lean only).  Outer `none` = not one of these ops / malformed.
-/
import Driver.MeshOpsDrv
import PolyVerif.Model.MeshMore

namespace Driver.MeshIO
open PolyVerif PolyVerif.Mesh PolyVerif.Gen

def pV2 : Parser (V2 Float) := fun ts => do
  let (a, ts) ← pFloat ts
  let (b, ts) ← pFloat ts
  pure (⟨a, b⟩, ts)

def moreOps : List String := ["scalealongnormal", "scale2d", "normalize2d", "copyattr"]

def applyMore (op : String) (ts : List String) : Option (Option (List MV)) :=
  match op with
  | "scalealongnormal" => do
      let (a, ts) ← pTok ts; let (n, ts) ← pTok ts; let (amount, ts) ← pFloat ts
      let (m, _) ← pMesh ts
      oneO (m.scaleAlongNormal a n amount)
  | "scale2d" => do
      let (name, ts) ← pTok ts; let (o, ts) ← pV2 ts; let (a, ts) ← pV2 ts
      let (m, _) ← pMesh ts
      oneO (m.scale2D name o a)
  | "normalize2d" => do
      let (name, ts) ← pTok ts
      let (m, _) ← pMesh ts
      oneO (MeshVal.normalize2D negMaxFloat goMax m name)
  | "copyattr" => do
      let (w, ts) ← pNat ts; let (name, ts) ← pTok ts
      let (m, ts) ← pMesh ts
      let (src, _) ← pMesh ts
      one (m.copyAttr src ⟨w, name⟩)
  | _ => none

end Driver.MeshIO
