/-
  Round 2: request → model evaluation for the operations of `PolyVerif/Model/MeshMore.lean`
  (shared by the C02 and C03 drivers, core Lean only).  Outer `none` = not one of these ops / malformed.
-/
import Driver.MeshOpsDrv
import PolyVerif.Model.MeshMore

namespace Driver.MeshIO
open PolyVerif PolyVerif.Mesh PolyVerif.Gen

def pV2 : Parser (V2 Float) := fun ts => do
  let (a, ts) ← pFloat ts
  let (b, ts) ← pFloat ts
  pure (⟨a, b⟩, ts)

def moreOps : List String := ["scalealongnormal", "scale2d", "normalize2d", "copyattr", "cropnode", "alongnormalnode", "translatenode", "rotatenode", "scalenode", "vertexcolorspace", "vertexcolorspacet"]

/-- an optional token: `-` = the node input is not wired (nil) -/
def pOptTok : Parser (Option String)
  | "-" :: ts => some (none, ts)
  | t :: ts => some (some t, ts)
  | [] => none

/-- `colors.SRGBToLinear` (math/colors/space.go:7) at Float; `Float.pow` is libm's pow, Go's `math.Pow` is its own
    implementation: the two ops using these are compared within a few ulps (cfg `ulps`) -/
def srgbToLinear (c : Float) : Float :=
  if c < 0.04045 then c * 0.0773993808 else Float.pow (c * 0.9478672986 + 0.0521327014) 2.4
/-- `colors.LinearToSRGB` (space.go:16) -/
def linearToSRGB (c : Float) : Float :=
  if c < 0.0031308 then c * 12.92 else 1.055 * (Float.pow c 0.41666) - 0.055

def applyMore (op : String) (ts : List String) : Option (Option (List MV)) :=
  match op with
  | "scalealongnormal" => do
      let (a, ts) ← pTok ts; let (n, ts) ← pTok ts; let (amount, ts) ← pFloat ts
      let (m, _) ← pMesh ts
      oneO (m.scaleAlongNormal a n amount)
  | "scale2d" => do
      let (name, ts) ← pTok ts; let (o, ts) ← pV2 ts; let (a, ts) ← pV2 ts
      let (m, _) ← pMesh ts
      oneO (m.scale2D name o a)
  | "normalize2d" => do
      let (name, ts) ← pTok ts
      let (m, _) ← pMesh ts
      oneO (MeshVal.normalize2D negMaxFloat goMax m name)
  | "copyattr" => do
      let (w, ts) ← pNat ts; let (name, ts) ← pTok ts
      let (m, ts) ← pMesh ts
      let (src, _) ← pMesh ts
      one (m.copyAttr src ⟨w, name⟩)
  | "cropnode" => do      -- CropAttribute3DNodeData.Process: attr|- (cx cy cz ex ey ez)|- mesh
      let (attr, ts) ← pOptTok ts
      match ts with
      | "-" :: ts => do
          let (m, _) ← pMesh ts
          oneO (m.cropNode attr none)
      | _ => do
          let (c, ts) ← pV3 ts; let (e, ts) ← pV3 ts
          let (m, _) ← pMesh ts
          let box : geometry.AABB Float := ⟨c, e⟩
          oneO (m.cropNode attr (some fun p => match v3? p with | some v => box.Contains v | none => false))
  | "alongnormalnode" => do   -- ScaleAttributeAlongNormalNodeData.Process: attr|- normal|- amount|- mesh|-
      let (attr, ts) ← pOptTok ts; let (nrm, ts) ← pOptTok ts
      let (amount, ts) ← (match ts with
        | "-" :: ts => some (none, ts)
        | _ => (pFloat ts).map fun xt => (some xt.1, xt.2))
      match ts with
      | ["-"] => oneO (MeshVal.scaleAlongNormalNode none attr nrm amount)
      | _ => do
          let (m, _) ← pMesh ts
          oneO (MeshVal.scaleAlongNormalNode (some m) attr nrm amount)
  | "translatenode" => do    -- attr|- t mesh
      let (attr, ts) ← pOptTok ts; let (t, ts) ← pV3 ts
      let (m, _) ← pMesh ts
      oneO (m.translateNode attr t)
  | "rotatenode" => do       -- attr|- q mesh|-
      let (attr, ts) ← pOptTok ts
      let (qv, ts) ← pV3 ts; let (qw, ts) ← pFloat ts
      match ts with
      | ["-"] => oneO (MeshVal.rotateNode none attr ⟨qv, qw⟩)
      | _ => do
          let (m, _) ← pMesh ts
          oneO (MeshVal.rotateNode (some m) attr ⟨qv, qw⟩)
  | "scalenode" => do        -- attr|- (origin)|- amount mesh
      let (attr, ts) ← pOptTok ts
      let (o, ts) ← (match ts with
        | "-" :: ts => some (none, ts)
        | _ => (pV3 ts).map fun xt => (some xt.1, xt.2))
      let (a, ts) ← pV3 ts
      let (m, _) ← pMesh ts
      oneO (m.scaleNode attr o a)
  | "vertexcolorspace" => do     -- name mode mesh
      let (name, ts) ← pTok ts; let (mode, ts) ← pNat ts
      let (m, _) ← pMesh ts
      oneO (m.vertexColorSpace srgbToLinear linearToSRGB name mode)
  | "vertexcolorspacet" => do    -- name skip mode mesh
      let (name, ts) ← pTok ts; let (skip, ts) ← pNat ts; let (mode, ts) ← pNat ts
      let (m, _) ← pMesh ts
      oneO (m.vertexColorSpaceT srgbToLinear linearToSRGB name (skip != 0) mode)
  | _ => none

end Driver.MeshIO
