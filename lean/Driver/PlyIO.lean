/-
  Shared by the C04 and C08 drivers: the `Coding Float` instance (Lean's Float32 / bit casts, exact decimal printer for
  dyadic values, decimal parser) and the token codec for meshes, writer configurations and headers.
-/
import Driver.Proto
import PolyVerif.Model.Ply

namespace Driver.PlyIO
open PolyVerif.Ply

/-! ## `Coding Float` -/

def pad0 (n : Nat) (s : Bytes) : Bytes := List.replicate (n - s.length) 48 ++ s

def stripTrail0 (s : Bytes) : Bytes := (s.reverse.dropWhile (· = 48)).reverse

/-- exact decimal expansion of a finite double, no exponent, no trailing zeros: what
`strconv.AppendFloat(v,'f',-1,64)` prints whenever that expansion has at most 15 significant digits -/
def showFloat (x : Float) : Bytes :=
  let bits : Nat := x.toBits.toNat
  let neg := bits / 2 ^ 63 = 1
  let ex : Nat := (bits / 2 ^ 52) % 2048
  let frac : Nat := bits % 2 ^ 52
  if ex = 2047 then (if frac ≠ 0 then nm "NaN" else if neg then nm "-Inf" else nm "+Inf") else
  let a : Nat := if ex = 0 then frac else frac + 2 ^ 52
  let e : Int := if ex = 0 then -1074 else (ex : Int) - 1075
  let body : Bytes :=
    if e ≥ 0 then showNat (a * 2 ^ e.toNat)
    else
      let k := (-e).toNat
      let num := a * 5 ^ k
      let ip := num / 10 ^ k
      let fp := stripTrail0 (pad0 k (showNat (num % 10 ^ k)))
      if fp.isEmpty then showNat ip else showNat ip ++ [46] ++ fp
  if neg then 45 :: body else body

def takeDigits : Bytes → Bytes × Bytes
  | [] => ([], [])
  | b :: rest => if 48 ≤ b ∧ b ≤ 57 then let (d, r) := takeDigits rest; (b :: d, r) else ([], b :: rest)

def digitsVal (ds : Bytes) : Nat := ds.foldl (fun acc b => acc * 10 + (b.toNat - 48)) 0

/-- `[+-]digits[.digits][(e|E)[+-]digits]` → (negative?, digits as a number, decimal exponent) -/
def decimalParts (s : Bytes) : Option (Bool × Nat × Int) :=
  let (neg, s) := match s with
    | 45 :: r => (true, r)
    | 43 :: r => (false, r)
    | r => (false, r)
  let (ip, s) := takeDigits s
  let (fp, s) := match s with
    | 46 :: r => takeDigits r
    | r => ([], r)
  if ip.isEmpty && fp.isEmpty then none else
  let expo : Option Int := match s with
    | [] => some 0
    | b :: r =>
      if b = 101 || b = 69 then
        let (eneg, r) := match r with
          | 45 :: r => (true, r)
          | 43 :: r => (false, r)
          | r => (false, r)
        let (ed, rest) := takeDigits r
        if ed.isEmpty || !rest.isEmpty then none
        else some (if eneg then - (digitsVal ed : Int) else (digitsVal ed : Int))
      else none
  match expo with
  | none => none
  | some ex => some (neg, digitsVal (ip ++ fp), ex - fp.length)

/-- nearest double of `mant · 10^e10` -/
def floatOfParts (mant : Nat) (e10 : Int) : Float :=
  if e10 < 0 then Float.ofScientific mant true e10.natAbs else Float.ofScientific mant false e10.toNat

/-- `strconv.ParseFloat(s, 64)` on plain decimal texts -/
def parseDecimal (s : Bytes) : Option Float :=
  (decimalParts s).map (fun (neg, mant, e10) => let v := floatOfParts mant e10; if neg then -v else v)

/-- exact comparison of `mant · 10^e10` with the finite double `d ≥ 0` -/
def cmpDecimal (mant : Nat) (e10 : Int) (d : Float) : Ordering :=
  let bits : Nat := d.toBits.toNat
  let ex : Nat := (bits / 2 ^ 52) % 2048
  let frac : Nat := bits % 2 ^ 52
  let a : Nat := if ex = 0 then frac else frac + 2 ^ 52
  let e : Int := if ex = 0 then -1074 else (ex : Int) - 1075
  compare (mant * 10 ^ e10.toNat * 2 ^ (-e).toNat) (a * 2 ^ e.toNat * 10 ^ (-e10).toNat)

/-- `mant · 10^e10` rounded ONCE to the nearest float32 (ties to even), as `strconv.ParseFloat(s, 32)` does; `none` when the
result overflows (`ParseFloat` reports "value out of range", the PLY readers return that error).  Narrowing the nearest
double is the same except when that double lies exactly half-way between two adjacent float32 values (or between
MaxFloat32 and 2¹²⁸) while the decimal itself does not: then the side the decimal lies on decides. -/
def round32OfParts (mant : Nat) (e10 : Int) : Option Float :=
  let d := floatOfParts mant e10
  let c := d.toFloat32
  if d.isNaN then none else
  if c.toFloat.isInf then
    let maxF : Float := (Float32.ofBits 0x7f7fffff).toFloat
    let half : Float := (maxF - (Float32.ofBits 0x7f7ffffe).toFloat) / 2
    if !d.isInf && d == maxF + half && cmpDecimal mant e10 d == .lt then some maxF else none
  else
  if c.toFloat == d then some c.toFloat else
  let (f1, f2) : Float32 × Float32 :=
    if c.toFloat < d then (c, Float32.ofBits (c.toBits + 1)) else (Float32.ofBits (c.toBits - 1), c)
  if f2.toFloat.isInf || !(d - f1.toFloat == f2.toFloat - d) then some c.toFloat else
  match cmpDecimal mant e10 d with
  | .gt => some f2.toFloat
  | .lt => some f1.toFloat
  | .eq => some c.toFloat

/-- `strconv.ParseFloat(s, 32)` on plain decimal texts, widened to a double -/
def parseDecimal32 (s : Bytes) : Option Float :=
  (decimalParts s).bind (fun (neg, mant, e10) => (round32OfParts mant e10).map (fun v => if neg then -v else v))

def fmax (a b : Float) : Float := if a > b then a else b
def fmin (a b : Float) : Float := if a < b then a else b

def codingF : Coding Float where
  f32 x := x.toFloat32.toBits
  unf32 b := (Float32.ofBits b).toFloat
  f64 x := x.toBits
  unf64 b := Float.ofBits b
  u8 x := (Float.round (fmax 0 (fmin 1 x) * 255)).toUInt8
  i32 x := ofInt32 x.toInt64.toInt
  ofInt i := Float.ofInt i
  div255 x := x / 255
  mulInv255 x := x * (1.0 / 255)
  showF := showFloat
  showI x := showInt x.toInt64.toInt
  parseF := parseDecimal32
  parseF64 := parseDecimal

/-! ## token codec -/

abbrev P := StateT (List String) Option

def tok : P String := fun ts => match ts with | [] => none | t :: r => some (t, r)
def pNat : P Nat := do let t ← tok; (t.toNat? : Option Nat)
def pInt : P Int := do let t ← tok; (t.toInt? : Option Int)
def pFloat : P Float := do let t ← tok; (hexF? t : Option Float)
def rep {β : Type} (n : Nat) (p : P β) : P (List β) := (List.range n).mapM (fun _ => p)

def hexBytes? (s : String) : Option Bytes :=
  if s = "-" then some [] else
  let cs := s.toList
  let rec go : List Char → Option Bytes
    | [] => some []
    | a :: b :: rest => do
      let x ← hexDigit a; let y ← hexDigit b; let r ← go rest
      pure (UInt8.ofNat (x * 16 + y) :: r)
    | _ => none
  go cs

def pBytes : P Bytes := do let t ← tok; (hexBytes? t : Option Bytes)

def hexOf (bs : Bytes) : String :=
  if bs.isEmpty then "-" else
  String.ofList (bs.flatMap (fun b => [Nat.digitChar (b.toNat / 16), Nat.digitChar (b.toNat % 16)]))

def pFormat : P Format := do
  match ← tok with
  | "ascii" => pure .ascii
  | "le" => pure .le
  | "be" => pure .be
  | _ => failure

def stypeOf? : String → Option SType
  | "char" => some .char | "uchar" => some .uchar | "short" => some .short | "ushort" => some .ushort
  | "int" => some .int | "uint" => some .uint | "float" => some .float | "double" => some .double
  | _ => none

def stypeStr : SType → String
  | .char => "char" | .uchar => "uchar" | .short => "short" | .ushort => "ushort"
  | .int => "int" | .uint => "uint" | .float => "float" | .double => "double"

def pSType : P SType := do let t ← tok; (stypeOf? t : Option SType)

/-- mesh: `topo texuri nidx idx… nattrs (dim name len v…)…` -/
def pMesh : P (MeshVal Float) := do
  let topo ← (do match ← tok with | "point" => pure Topo.point | "tri" => pure Topo.triangle | _ => failure)
  let uriTok ← tok
  let uri : Option Bytes ← (if uriTok = "none" then pure none else match hexBytes? uriTok with | some b => pure (some b) | none => failure)
  let ni ← pNat
  let idx ← rep ni pInt
  let na ← pNat
  let attrs ← rep na (do
    let dim ← pNat
    let name ← pBytes
    let len ← pNat
    let data ← rep len (rep dim pFloat)
    pure (⟨dim, name, data⟩ : Attr Float))
  pure ⟨topo, idx, attrs, uri⟩

def meshStr (m : MeshVal Float) : String :=
  let m := m.canon
  let topo := match m.topo with | .point => "point" | .triangle => "tri"
  let attrs := m.attrs.map (fun a =>
    s!"{a.dim} {hexOf a.name} {a.data.length}" ++ String.join (a.data.map (fun comps => String.join (comps.map (fun v => " " ++ fHex v)))))
  s!"ok {topo} {m.indices.length}" ++ String.join (m.indices.map (fun i => s!" {i}")) ++ s!" {m.attrs.length}" ++
    String.join (attrs.map (" " ++ ·))

/-- writer configuration: `fmt default` or `fmt custom unspecified(0|1) n (attr k name… type)…` -/
def pCfg : P WriterCfg := do
  let f ← pFormat
  match ← tok with
  | "default" => pure (defaultWriter f)
  | "custom" => do
    let wu ← pNat
    let n ← pNat
    let props ← rep n (do
      let attr ← pBytes
      let k ← pNat
      let names ← rep k pBytes
      let ty ← pSType
      pure (⟨attr, names, ty⟩ : WProp))
    pure ⟨f, props, wu = 1⟩
  | _ => failure

def resStr {β : Type} (f : β → String) : R β → String
  | .ok x => f x
  | .error .err => "err"
  | .error .panic => "panic"

def fmtStr : Format → String
  | .ascii => "ascii" | .le => "le" | .be => "be"

def propStr : PProp → String
  | .scalar n t => s!"s {hexOf n} {stypeStr t}"
  | .list n c t => s!"l {hexOf n} {stypeStr c} {stypeStr t}"

def headerStr (h : Header) : String :=
  s!"ok {fmtStr h.format} {h.comments.length}" ++ String.join (h.comments.map (fun c => " " ++ hexOf c)) ++
  s!" {h.elements.length}" ++ String.join (h.elements.map (fun e =>
    s!" {hexOf e.name} {e.count} {e.props.length}" ++ String.join (e.props.map (fun p => " " ++ propStr p))))

/-- oracle `…holds.entrypoints_agree` / `…holds.save_agrees`: the argument list is a sequence of results separated by
the token `|`; true iff there are at least two and all are identical (the result of loading a file does not depend on
the entry point / reader type it came through) -/
def splitBar (args : List String) : List (List String) :=
  let rec go : List String → List String → List (List String)
    | [], cur => [cur.reverse]
    | t :: rest, cur => if t = "|" then cur.reverse :: go rest [] else go rest (t :: cur)
  go args []

def allSegmentsEqual (args : List String) : Bool :=
  match splitBar args with
  | [] => false
  | [_] => false
  | s :: rest => rest.all (· == s)

def run {β : Type} (p : P β) (args : List String) : Option β :=
  match p args with
  | some (x, []) => some x
  | _ => none

end Driver.PlyIO
