import Driver.Proto
import PolyVerif.Model.Splat

namespace Driver.C15
open PolyVerif PolyVerif.Splat

/-! protocol helpers (NaN is canonicalised on both sides) -/

def canonNaN : String := "7ff8000000000001"
def fHexC (f : Float) : String := if f.isNaN then canonNaN else fHex f
def fsHexC (fs : List Float) : String := " ".intercalate (fs.map fHexC)

def hexBytesAux : List Char → List UInt8 → Option (List UInt8)
  | [], acc => some acc.reverse
  | [_], _ => none
  | a :: b :: rest, acc => do
      let x ← hexDigit a; let y ← hexDigit b
      hexBytesAux rest (UInt8.ofNat (x * 16 + y) :: acc)

/-- lower-case hex byte string; "-" is the empty string -/
def hexBytes? (s : String) : Option (List UInt8) :=
  if s == "-" then some [] else hexBytesAux s.toList []

def bytesHex (bs : List UInt8) : String :=
  if bs.isEmpty then "-" else
  String.ofList (bs.foldr (fun b acc => Nat.digitChar (b.toNat / 16) :: Nat.digitChar (b.toNat % 16) :: acc) [])

/-! the execution environment: IEEE double, exp given as a table by the implementation side
    (it is an opaque function of the model), everything else Lean's IEEE operations -/

def shC0Float : Float := Float.ofBits 0x3fd20dd750429b6d

def floatEnv (expTbl : List (UInt64 × Float)) : Env Float :=
  { trunc := fun x => x.toUInt8.toNat,
    exp := fun x => match expTbl.lookup x.toBits with
      | some y => y
      | none => Float.exp x,
    log := Float.log,
    to32 := fun x => x.toFloat32.toBits,
    of32 := fun w => (Float32.ofBits w).toFloat,
    shC0 := shC0Float }

def splatOf : List Float → Option (Splat Float)
  | [px, py, pz, sx, sy, sz, cx, cy, cz, op, r0, r1, r2, r3] =>
    some ⟨px, py, pz, sx, sy, sz, cx, cy, cz, op, r0, r1, r2, r3⟩
  | _ => none

def splatTo (s : Splat Float) : List Float :=
  [s.px, s.py, s.pz, s.sx, s.sy, s.sz, s.cx, s.cy, s.cz, s.op, s.r0, s.r1, s.r2, s.r3]

/-- 18 floats per splat: the 14 attributes, then exp(sx) exp(sy) exp(sz) exp(-op) as the implementation's
    math.Exp computes them -/
def splatsWithExp : Nat → List Float → Option (List (Splat Float) × List (UInt64 × Float) × List Float)
  | 0, rest => some ([], [], rest)
  | n + 1, fs => do
      let s ← splatOf (fs.take 14)
      let ex := (fs.drop 14).take 4
      if ex.length ≠ 4 then none
      let tbl := [(s.sx.toBits, ex.getD 0 0), (s.sy.toBits, ex.getD 1 0), (s.sz.toBits, ex.getD 2 0),
                  ((-s.op).toBits, ex.getD 3 0)]
      let (ss, t, rest) ← splatsWithExp n (fs.drop 18)
      pure (s :: ss, tbl ++ t, rest)

def splatsPlain : Nat → List Float → Option (List (Splat Float))
  | 0, [] => some []
  | 0, _ => none
  | n + 1, fs => do
      let s ← splatOf (fs.take 14)
      let ss ← splatsPlain n (fs.drop 14)
      pure (s :: ss)

def fle (a b : Float) : Bool := a ≤ b

/-- the statements of Props/C15 (splat part) evaluated at Float on one (original, read-back) pair;
    `eps` absorbs the float64 rounding of the evaluation itself -/
def stepOk (E : Env Float) (s t : Splat Float) : Bool :=
  let eps : Float := 1e-9
  let colOk := fun (c c' : Float) => fle (((c' * E.shC0 + 0.5) - colStored E c).abs) (1.0 / 255.0 + eps)
  let sig := fun (o : Float) => 1.0 / (1.0 + Float.exp (-o))
  let rotOk := fun (r r' : Float) =>
    if r < -1.0 then r' == -1.0 else if r > 1.0 then r' == 127.0 / 128.0
    else fle ((r' - r).abs) (1.0 / 128.0 + eps)
  let sclOk := fun (x x' : Float) =>
    -- float32 rounding of exp(x): relative 2^-24 of exp x, i.e. absolute 2^-24 of x (+ rounding of exp/log)
    fle ((x' - x).abs) (Float.ofScientific 12 true 8)
  t.px == E.of32 (E.to32 s.px) && t.py == E.of32 (E.to32 s.py) && t.pz == E.of32 (E.to32 s.pz)
  && sclOk s.sx t.sx && sclOk s.sy t.sy && sclOk s.sz t.sz
  && colOk s.cx t.cx && colOk s.cy t.cy && colOk s.cz t.cz
  && fle ((sig t.op - alphaStored E s.op).abs) (1.0 / 255.0 + eps)
  && rotOk s.r0 t.r0 && rotOk s.r1 t.r1 && rotOk s.r2 t.r2 && rotOk s.r3 t.r3

def handle (op : String) (args : List String) : Option String :=
  match op, args with
  | "c15.const.shc0", [] => some (fHex shC0Float)
  | "c15.splat.write", pt :: att :: n :: rest => do
      let n ← nat? n
      let fs ← floats? rest
      let (cloud, tbl, tail) ← splatsWithExp n fs
      if !tail.isEmpty then none
      match writeMesh (floatEnv tbl) (pt == "1") (att == "1") cloud with
      | .ok bs => pure ("ok " ++ bytesHex bs)
      | .error _ => pure "err"
  | "c15.splat.read", [hex] => do
      let bs ← hexBytes? hex
      let (ss, short) := Splat.read (floatEnv []) bs
      let fs := ss.flatMap fun s => [s.px, s.py, s.pz, s.cx, s.cy, s.cz, s.r0, s.r1, s.r2, s.r3]
      pure (s!"{if short then 1 else 0} {ss.length} " ++ fsHexC fs)
  | "c15.splat.readlog", [hex] => do
      let bs ← hexBytes? hex
      let (ss, _) := Splat.read (floatEnv []) bs
      let fs := ss.flatMap fun s => [s.sx, s.sy, s.sz, s.op]
      pure (s!"{ss.length} " ++ fsHexC fs)
  | "c15.holds.step_bounds", n :: rest => do
      -- n, 18 floats per original splat, then: short flag, m, 14 floats per read-back splat
      let n ← nat? n
      let fs ← floats? (rest.take (18 * n))
      let (cloud, tbl, _) ← splatsWithExp n fs
      match rest.drop (18 * n) with
      | short :: m :: back => do
          let m ← nat? m
          let bk ← floats? back
          let got ← splatsPlain m bk
          let E := floatEnv tbl
          pure (boolStr (short == "0" && m == n && (cloud.zip got).all (fun (s, t) => stepOk E s t)))
      | _ => none
  | _, _ => none

end Driver.C15

def main : IO Unit := Driver.runLoop Driver.C15.handle
