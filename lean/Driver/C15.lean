import Driver.Proto
import PolyVerif.Model.Splat
import PolyVerif.Model.Spz
import PolyVerif.Model.SpzHalf

namespace Driver.C15
open PolyVerif PolyVerif.Splat

/-! protocol helpers (NaN is canonicalised on both sides) -/

def canonNaN : String := "7ff8000000000001"
def fHexC (f : Float) : String := if f.isNaN then canonNaN else fHex f
def fsHexC (fs : List Float) : String := " ".intercalate (fs.map fHexC)

def hexBytesAux : List Char → List UInt8 → Option (List UInt8)
  | [], acc => some acc.reverse
  | [_], _ => none
  | a :: b :: rest, acc => do
      let x ← hexDigit a; let y ← hexDigit b
      hexBytesAux rest (UInt8.ofNat (x * 16 + y) :: acc)

/-- lower-case hex byte string; "-" is the empty string -/
def hexBytes? (s : String) : Option (List UInt8) :=
  if s == "-" then some [] else hexBytesAux s.toList []

def bytesHex (bs : List UInt8) : String :=
  if bs.isEmpty then "-" else
  String.ofList (bs.foldr (fun b acc => Nat.digitChar (b.toNat / 16) :: Nat.digitChar (b.toNat % 16) :: acc) [])

/-! the execution environment: IEEE double, exp given as a table by the implementation side
    (it is an opaque function of the model), everything else Lean's IEEE operations -/

def shC0Float : Float := Float.ofBits 0x3fd20dd750429b6d

def floatEnv (expTbl : List (UInt64 × Float)) : Env Float :=
  { trunc := fun x => x.toUInt8.toNat,
    exp := fun x => match expTbl.lookup x.toBits with
      | some y => y
      | none => Float.exp x,
    log := Float.log,
    to32 := fun x => x.toFloat32.toBits,
    of32 := fun w => (Float32.ofBits w).toFloat,
    shC0 := shC0Float }

def splatOf : List Float → Option (Splat Float)
  | [px, py, pz, sx, sy, sz, cx, cy, cz, op, r0, r1, r2, r3] =>
    some ⟨px, py, pz, sx, sy, sz, cx, cy, cz, op, r0, r1, r2, r3⟩
  | _ => none

def splatTo (s : Splat Float) : List Float :=
  [s.px, s.py, s.pz, s.sx, s.sy, s.sz, s.cx, s.cy, s.cz, s.op, s.r0, s.r1, s.r2, s.r3]

/-- 18 floats per splat: the 14 attributes, then exp(sx) exp(sy) exp(sz) exp(-op) as the implementation's
    math.Exp computes them -/
def splatsWithExp : Nat → List Float → Option (List (Splat Float) × List (UInt64 × Float) × List Float)
  | 0, rest => some ([], [], rest)
  | n + 1, fs => do
      let s ← splatOf (fs.take 14)
      let ex := (fs.drop 14).take 4
      if ex.length ≠ 4 then none
      let tbl := [(s.sx.toBits, ex.getD 0 0), (s.sy.toBits, ex.getD 1 0), (s.sz.toBits, ex.getD 2 0),
                  ((-s.op).toBits, ex.getD 3 0)]
      let (ss, t, rest) ← splatsWithExp n (fs.drop 18)
      pure (s :: ss, tbl ++ t, rest)

def splatsPlain : Nat → List Float → Option (List (Splat Float))
  | 0, [] => some []
  | 0, _ => none
  | n + 1, fs => do
      let s ← splatOf (fs.take 14)
      let ss ← splatsPlain n (fs.drop 14)
      pure (s :: ss)

def fle (a b : Float) : Bool := a ≤ b

/-- the statements of Props/C15 (splat part) evaluated at Float on one (original, read-back) pair;
    `eps` absorbs the float64 rounding of the evaluation itself -/
def stepOk (E : Env Float) (s t : Splat Float) : Bool :=
  let eps : Float := 1e-9
  let colOk := fun (c c' : Float) => fle (((c' * E.shC0 + 0.5) - colStored E c).abs) (1.0 / 255.0 + eps)
  let sig := fun (o : Float) => 1.0 / (1.0 + Float.exp (-o))
  let rotOk := fun (r r' : Float) =>
    if r < -1.0 then r' == -1.0 else if r > 1.0 then r' == 127.0 / 128.0
    else fle ((r' - r).abs) (1.0 / 128.0 + eps)
  let sclOk := fun (x x' : Float) =>
    -- float32 rounding of exp(x): relative 2^-24 of exp x, i.e. absolute 2^-24 of x (+ rounding of exp/log)
    fle ((x' - x).abs) (Float.ofScientific 12 true 8)
  t.px == E.of32 (E.to32 s.px) && t.py == E.of32 (E.to32 s.py) && t.pz == E.of32 (E.to32 s.pz)
  && sclOk s.sx t.sx && sclOk s.sy t.sy && sclOk s.sz t.sz
  && colOk s.cx t.cx && colOk s.cy t.cy && colOk s.cz t.cz
  && fle ((sig t.op - alphaStored E s.op).abs) (1.0 / 255.0 + eps)
  && (let b := (alphaByte E s.op).toNat
      -- splat_opacity_step_logit: logit(b/255) ≤ o < logit((b+1)/255) where that is finite
      if 1 ≤ b && b ≤ 253 then
        let nxt := (Float.ofNat (b + 1)) / 255.0
        fle (t.op - eps) s.op && fle s.op (Float.log (nxt / (1.0 - nxt)) + eps)
      else true)
  && rotOk s.r0 t.r0 && rotOk s.r1 t.r1 && rotOk s.r2 t.r2 && rotOk s.r3 t.r3


/-! ### SPZ -/

def spzEnv : Spz.Env Float :=
  { ofInt := Float.ofInt, pow2 := fun k => Float.scaleB 1.0 k, inf := 1.0 / 0.0, nan := 0.0 / 0.0 }

def v3s (l : List (V3 Float)) : List Float := l.flatMap fun v => [v.x, v.y, v.z]
def v4s (l : List (V4 Float)) : List Float := l.flatMap fun v => [v.x, v.y, v.z, v.w]

def cloudFloats (c : Spz.Cloud Float) : List Float :=
  v3s c.positions ++ c.alphas ++ v3s c.colors ++ v3s c.scales ++ v4s c.rotations ++ c.sh.flatMap v3s

def spzReadAnswer (bs : List UInt8) : String :=
  match Spz.read spzEnv bs with
  | .error _ => "err"
  | .ok c => s!"ok {c.positions.length} {c.sh.length} " ++ fsHexC (cloudFloats c)

def splitAt? (n : Nat) (l : List UInt8) : Option (List UInt8 × List UInt8) :=
  if n ≤ l.length then some (l.take n, l.drop n) else none

/-- one packed record: pos | alpha | color | scale | rot | sh -/
def packed? (h : Spz.Header) (bs : List UInt8) : Option Spz.Packed := do
  let (pos, r) ← splitAt? (Spz.posBytes h) bs
  let (al, r) ← splitAt? 1 r
  let (col, r) ← splitAt? 3 r
  let (scl, r) ← splitAt? 3 r
  let (rot, r) ← splitAt? 3 r
  let (sh, r) ← splitAt? (3 * Spz.shDim h.shDegree) r
  if !r.isEmpty then none
  pure ⟨pos, al.getD 0 0, col, scl, rot, sh⟩

def bitsEq (a b : List Float) : Bool :=
  a.length == b.length && (a.zip b).all fun (x, y) => (x.isNaN && y.isNaN) || x.toBits == y.toBits

def pointFloats (p : Spz.Point Float) : List Float :=
  [p.pos.x, p.pos.y, p.pos.z, p.alpha, p.color.x, p.color.y, p.color.z, p.scale.x, p.scale.y, p.scale.z,
   p.rot.x, p.rot.y, p.rot.z, p.rot.w] ++ v3s p.sh

/-- the statement of `spz_decode_refEncode` on the implementation's output: splat `i` of the cloud is the
    dequantisation of record `i`; every attribute array has `n` entries and there are `dim` SH arrays.
    `fs` = the cloud in `cloudFloats` order. -/
def spzHolds (h : Spz.Header) (recs : List Spz.Packed) (n dim : Nat) (fsL : List Float) : Bool :=
  let N := h.numPoints
  let D := Spz.shDim h.shDegree
  let fs := fsL.toArray          -- constant-time indexing: the oracle also runs on clouds of thousands of points
  let ra := recs.toArray
  let at3 := fun (off i : Nat) => [fs.getD (off + 3 * i) 0, fs.getD (off + 3 * i + 1) 0, fs.getD (off + 3 * i + 2) 0]
  n == N && dim == D && ra.size == N && fs.size == N * (14 + 3 * D) &&
  (List.range N).all fun i =>
    let got := at3 0 i ++ [fs.getD (3 * N + i) 0] ++ at3 (4 * N) i ++ at3 (7 * N) i ++
      [fs.getD (10 * N + 4 * i) 0, fs.getD (10 * N + 4 * i + 1) 0, fs.getD (10 * N + 4 * i + 2) 0, fs.getD (10 * N + 4 * i + 3) 0] ++
      (List.range D).flatMap (fun d => at3 (14 * N + 3 * N * d) i)
    match ra[i]? with
    | some r => bitsEq got (pointFloats (Spz.dequant spzEnv h r))
    | none => false

/-- the predicate `PointWithinStep` of theorem `spz_write_read` (Props/C15SpzFile.lean) evaluated at `Float` on the
    implementation's read-back of a cloud packed by the reference packer: per field, guard ⇒ bound (relative slack
    1e-9 for the Float evaluation of the comparison itself); `w` = `rotW` of the decoded `x y z`, bit for bit;
    every array has `n` entries, `dim` SH arrays.  `orig` and `fs`: `pointFloats` order per splat / `cloudFloats` order. -/
def spzStepHolds (h : Spz.Header) (origL : List Float) (n dim : Nat) (fsL : List Float) : Bool :=
  let N := h.numPoints
  let D := Spz.shDim h.shDegree
  let fs := fsL.toArray
  let orig := origL.toArray
  let P := 14 + 3 * D
  let slack : Float := 1.0 + 1e-9
  let within := fun (x x' b : Float) => Float.abs (x' - x) ≤ b * slack
  let at3 := fun (off i : Nat) => [fs.getD (off + 3 * i) 0, fs.getD (off + 3 * i + 1) 0, fs.getD (off + 3 * i + 2) 0]
  let posOk := fun (x x' : Float) =>
    if h.version = 1 then
      !(Float.abs x ≤ 65504.0) || within x x' (max (Float.abs x / 2048.0) (Float.scaleB 1.0 (-25)))
    else
      let z := Float.floor (x * Float.scaleB 1.0 (Int.ofNat h.fractionalBits) + 0.5)
      !(-8388608.0 ≤ z && z < 8388608.0) || within x x' (Float.scaleB 0.5 (-(Int.ofNat h.fractionalBits)))
  let rng := fun (lo hi b : Float) (x x' : Float) => !(lo ≤ x && x ≤ hi) || within x x' b
  n == N && dim == D && orig.size == N * P && fs.size == N * P && h.fractionalBits ≤ 62 &&
  (List.range N).all fun i =>
    let got := (at3 0 i ++ [fs.getD (3 * N + i) 0] ++ at3 (4 * N) i ++ at3 (7 * N) i ++
      [fs.getD (10 * N + 4 * i) 0, fs.getD (10 * N + 4 * i + 1) 0, fs.getD (10 * N + 4 * i + 2) 0, fs.getD (10 * N + 4 * i + 3) 0] ++
      (List.range D).flatMap (fun d => at3 (14 * N + 3 * N * d) i)).toArray
    let o := fun j => orig.getD (i * P + j) 0
    let g := fun j => got.getD j 0
    got.size == P &&
    (List.range P).all fun j =>
      if j < 3 then posOk (o j) (g j)
      else if j == 3 then rng 0.0 1.0 (1.0 / 510.0) (o j) (g j)
      else if j < 7 then rng (-(10.0 / 3.0)) (10.0 / 3.0) (2.0 / 153.0) (o j) (g j)
      else if j < 10 then rng (-10.0) (95.0 / 16.0) (1.0 / 32.0) (o j) (g j)
      else if j < 13 then rng (-1.0) 1.0 (1.0 / 255.0) (o j) (g j)
      else if j == 13 then (g 13).toBits == (Spz.rotW (g 10) (g 11) (g 12)).toBits
      else rng (-1.0) (127.0 / 128.0) (1.0 / 256.0) (o j) (g j)

/-- `… holds.readers_agree`: the decoder was fed the same bytes through a family of io.Readers (different chunkings);
    args: (reader-name digest)* — true iff every digest equals the first (the decode is a function of the bytes) -/
def readersAgree : List String → Option Bool
  | [] => some true
  | [_] => none
  | _ :: d :: rest =>
    let rec go : List String → Option Bool
      | [] => some true
      | [_] => none
      | _ :: d' :: r => (go r).map (fun b => b && d' == d)
    go rest

def handleSpz (op : String) (args : List String) : Option String :=
  match op, args with
  | "c15.spz.read", [hex] => (hexBytes? hex).map spzReadAnswer
  | "c15.holds.spz_pack_step", ver :: np :: deg :: fb :: rest => do
      let h : Spz.Header := ⟨Spz.magicNum, ← ver.toNat?, ← np.toNat?, ← deg.toNat?, ← fb.toNat?, 0, 0⟩
      let cnt := h.numPoints * (14 + 3 * Spz.shDim h.shDegree)
      let orig ← floats? (rest.take cnt)
      match rest.drop cnt with
      | "ok" :: n :: dim :: fl => do
          let fs ← floats? fl
          pure (boolStr (spzStepHolds h orig (← n.toNat?) (← dim.toNat?) fs))
      | _ => pure "false"
  | "c15.spz.halfall", [base, count] => do
      -- version-1 positions, EVERY pattern: the operator form of util.go halfToFloat on `BitVec 16`
      -- (Half.halfToFloatBits, proved equal to Spz.halfToFloat and to IEEE binary16 in Props/C15Half.lean)
      let b ← base.toNat?; let n ← count.toNat?
      pure (fsHexC ((List.range n).map fun i => Half.halfToFloatBits spzEnv (BitVec.ofNat 16 (b + i))))
  | "c15.holds.half_binary16", base :: count :: vals => do
      -- the closed form of half_is_binary16 on the implementation's values: NaN / signed infinity /
      -- ± num h / 2^25 bit for bit, and (half_step) consecutive non-negative finite patterns one ulp apart
      let b ← base.toNat?; let n ← count.toNat?
      let vs ← floats? vals
      if vs.length ≠ n then pure "false"
      else
        let each := ((List.range n).zip vs).all fun (i, v) => Half.isBinary16 ((b + i) % 65536) v
        let rec steps : Nat → List Float → Bool
          | h, v :: w :: r =>
              (!(decide (h + 1 < 31744)) || (w - v == Float.scaleB 1.0 (Int.ofNat (max (Half.expOf h) 1) - 25) && v < w))
                && steps (h + 1) (w :: r)
          | _, _ => true
        pure (boolStr (each && steps b vs))
  | "c15.spz.validate", [magic, ver, np, deg] => do
      -- Header.Validate alone, on the boundaries of every guard
      let h : Spz.Header := ⟨← magic.toNat?, ← ver.toNat?, ← np.toNat?, ← deg.toNat?, 0, 0, 0⟩
      pure (if h.valid then "ok" else "err")
  | "c15.holds.spz_validate", [magic, ver, np, deg, impl] => do
      -- the implementation's Validate verdict on a boundary header is the model's (= the regenerated guards', by
      -- spz_validate_matches_source): exactly 10 000 000 points are accepted
      let h : Spz.Header := ⟨← magic.toNat?, ← ver.toNat?, ← np.toNat?, ← deg.toNat?, 0, 0, 0⟩
      pure (boolStr ((if h.valid then "ok" else "err") == impl))
  | "c15.holds.spz_errkind", [hex, impl] => do
      let bs ← hexBytes? hex
      pure (boolStr ((match Spz.readRaw bs with
        | .ok _ => "ok"
        | .error .short => "short"
        | .error .invalid => "invalid") == impl))
  | "c15.spz.errkind", [hex] => do
      -- the KIND of rejection of a stream (header-only streams: short read vs invalid header)
      let bs ← hexBytes? hex
      pure (match Spz.readRaw bs with
        | .ok _ => "ok"
        | .error .short => "short"
        | .error .invalid => "invalid")
  | "c15.holds.spz_dequant", ver :: np :: deg :: fb :: rest => do
      let h : Spz.Header := ⟨Spz.magicNum, ← ver.toNat?, ← np.toNat?, ← deg.toNat?, ← fb.toNat?, 0, 0⟩
      let recHex := rest.take h.numPoints
      let recs ← recHex.mapM fun x => do let b ← hexBytes? x; packed? h b
      match rest.drop h.numPoints with
      | "ok" :: n :: dim :: fl => do
          let fs ← floats? fl
          pure (boolStr (spzHolds h recs (← n.toNat?) (← dim.toNat?) fs))
      | _ => pure "false"
  | _, _ => none

def handle (op : String) (args : List String) : Option String :=
  match op, args with
  | "c15.const.shc0", [] => some (fHex shC0Float)
  | "c15.splat.write", pt :: att :: n :: rest => do
      let n ← nat? n
      let fs ← floats? rest
      let (cloud, tbl, tail) ← splatsWithExp n fs
      if !tail.isEmpty then none
      match writeMesh (floatEnv tbl) (pt == "1") (att == "1") cloud with
      | .ok bs => pure ("ok " ++ bytesHex bs)
      | .error _ => pure "err"
  | "c15.splat.read", [hex] => do
      let bs ← hexBytes? hex
      let (ss, short) := Splat.read (floatEnv []) bs
      let fs := ss.flatMap fun s => [s.px, s.py, s.pz, s.cx, s.cy, s.cz, s.r0, s.r1, s.r2, s.r3]
      pure (s!"{if short then 1 else 0} {ss.length} " ++ fsHexC fs)
  | "c15.splat.readlog", [hex] => do
      let bs ← hexBytes? hex
      let (ss, _) := Splat.read (floatEnv []) bs
      let fs := ss.flatMap fun s => [s.sx, s.sy, s.sz, s.op]
      pure (s!"{ss.length} " ++ fsHexC fs)
  | "c15.holds.step_bounds", n :: rest => do
      -- n, 18 floats per original splat, then: short flag, m, 14 floats per read-back splat
      let n ← nat? n
      let fs ← floats? (rest.take (18 * n))
      let (cloud, tbl, _) ← splatsWithExp n fs
      match rest.drop (18 * n) with
      | short :: m :: back => do
          let m ← nat? m
          let bk ← floats? back
          let got ← splatsPlain m bk
          let E := floatEnv tbl
          pure (boolStr (short == "0" && m == n && (cloud.zip got).all (fun (s, t) => stepOk E s t)))
      | _ => none
  | "c15.holds.splatply", n :: rest => do
      -- PLY splat export: every attribute comes back as its float32 rounding, same count and order
      let n ← nat? n
      let fs ← floats? (rest.take (14 * n))
      let orig ← splatsPlain n fs
      match rest.drop (14 * n) with
      | m :: back => do
          let m ← nat? m
          let got ← splatsPlain m (← floats? back)
          let E := floatEnv []
          pure (boolStr (m == n && (orig.zip got).all fun (s, t) =>
            (splatTo s).map (fun x => (E.of32 (E.to32 x)).toBits) == (splatTo t).map Float.toBits))
      | _ => none
  | "c15.holds.write_after_failure", [lim, total, failed, afterOk, hexBefore, hexAfter] => do
      -- a Write into a destination that fails after `lim` of `total` bytes, then an ordinary Write of the SAME cloud that
      -- was written before the failure: the failing write reports an error iff lim < total, the next one succeeds and its
      -- bytes are those written before (Write is a function of the cloud: `Splat.write` has no state)
      let lim ← nat? lim; let total ← nat? total
      pure (boolStr ((failed == "true") == (lim < total) && afterOk == "true" && hexBefore == hexAfter))
  | "c15.holds.readers_agree", _fmt :: rest => (readersAgree rest).map boolStr
  | "c15.holds.splatply_rest", n :: cnt :: rest => do
      -- PLY splat export of the higher-order harmonics: EVERY f_rest_k (k < cnt) of the cloud must come back,
      -- each value as its float32 rounding.  args: n cnt <cnt*n original values, k-major> m p (k <m values>)*p
      let n ← nat? n; let cnt ← nat? cnt
      let orig ← floats? (rest.take (cnt * n))
      if orig.length ≠ cnt * n then none
      match rest.drop (cnt * n) with
      | m :: p :: back => do
          let m ← nat? m; let p ← nat? p
          let E := floatEnv []
          let rec go : Nat → List String → Option Bool
            | 0, [] => some true
            | 0, _ => some false
            | j + 1, k :: vals => do
                let k ← nat? k
                let vs ← floats? (vals.take m)
                if vs.length ≠ m then some false
                else
                  let want := ((orig.drop (k * n)).take n).map fun x => (E.of32 (E.to32 x)).toBits
                  let ok := k == p - (j + 1) && k < cnt && want == vs.map Float.toBits
                  (go j (vals.drop m)).map (ok && ·)
            | _ + 1, [] => some false
          let r ← go p back
          pure (boolStr (m == n && p == cnt && r))
      | _ => pure "false"
  | _, _ => handleSpz op args

end Driver.C15

def main : IO Unit := Driver.runLoop Driver.C15.handle
