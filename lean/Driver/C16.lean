import Driver.Proto
import PolyVerif.Model.Tree
import PolyVerif.Model.RenderPrims
import PolyVerif.Model.RenderTree

namespace Driver.C16
open PolyVerif PolyVerif.Tree PolyVerif.Gen.geometry

abbrev P := Prim Float
abbrev T := Oct (AABB Float) (Elem Float)

def v3Of : List Float → Option (V3 Float)
  | [a, b, c] => some ⟨a, b, c⟩
  | _ => none

def chunks (k : Nat) : Nat → List Float → List (List Float)
  | 0, _ => []
  | n + 1, fs => fs.take k :: chunks k n (fs.drop k)

def primOf (kind : String) (fs : List Float) : Option P :=
  match kind, fs with
  | "pt", [a, b, c] => some (.point ⟨a, b, c⟩)
  | "seg", [a, b, c, d, e, f] => some (.seg ⟨a, b, c⟩ ⟨d, e, f⟩)
  | "box", [a, b, c, d, e, f] => some (.box ⟨⟨a, b, c⟩, ⟨d, e, f⟩⟩)
  | "tri", [a, b, c, d, e, f, g, h, i] => some (.tri ⟨a, b, c⟩ ⟨d, e, f⟩ ⟨g, h, i⟩)
  | _, _ => none

def arity (kind : String) : Nat := if kind == "pt" then 3 else if kind == "tri" then 9 else 6

/-- parse `<depth|auto> <kind> <n> <n·arity floats> <rest floats>` -/
def parseTree (args : List String) : Option (Option T × List Float) := do
  match args with
  | dtok :: kind :: ntok :: rest =>
    let n ← nat? ntok
    let fs ← floats? rest
    let k := arity kind
    if fs.length < n * k then none
    let prims ← (chunks k n fs).mapM (primOf kind)
    let depth ← if dtok == "auto" then some (octreeDepthFromCount n) else nat? dtok
    pure (newOctreeWithDepth prims depth, fs.drop (n * k))
  | _ => none

def ids (l : List Nat) : String :=
  if l.isEmpty then "-" else " ".intercalate (l.map toString)

/-- parse `<n> id…` from the front of a token list -/
def natList (ts : List String) : Option (List Nat × List String) := do
  match ts with
  | ntok :: rest =>
    let n ← nat? ntok
    if rest.length < n then none
    let xs ← (rest.take n).mapM nat?
    pure (xs, rest.drop n)
  | _ => none

def sortNat (l : List Nat) : List Nat := (l.toArray.qsort (· < ·)).toList

def bbTo (b : AABB Float) : List Float := [b.center.x, b.center.y, b.center.z, b.extents.x, b.extents.y, b.extents.z]

/-! round 2: the rendering primitives (`Model/RenderPrims.lean`) -/
open PolyVerif.RPrims PolyVerif.Gen.rendering in
def hitStr (h : Option (HitOut Float)) : String :=
  match h with
  | none => "false"
  | some h => "true " ++ fHex h.dist ++ " " ++ fsHex [h.point.x, h.point.y, h.point.z]

def distStr (h : Option Float) : String :=
  match h with
  | none => "false"
  | some d => "true " ++ fHex d

open PolyVerif.RPrims PolyVerif.Gen.rendering in
/-- one-object `NewBVHTree` (span 1: the object is both children; box = empty + 2 × EncapsulateBounds) -/
def oneNode (p : RPrim Float) : Bvh (AABB Float) (RPrim Float) :=
  .node (nodeBox p.box p.box) (.leaf p) (.leaf p)

open PolyVerif.RPrims PolyVerif.Gen.rendering in
/-- the record `BVHNode.Hit` leaves for a one-object node: flag/distance from the model's `bvhHit`; the point is
    that of the last successful primitive `Hit` (right child on the shortened range, else left) -/
def oneNodeRec (ray : TemporalRay Float) (p : RPrim Float) (mn mx : Float) : Option (HitOut Float) :=
  match bvhHit ray (oneNode p) mn mx with
  | none => none
  | some d =>
    let l := p.hit ray mn mx
    let rT := match l with | some h => h.dist | none => mx
    let pt := match p.hit ray mn rT with
      | some h => h.point
      | none => match l with | some h => h.point | none => ⟨0, 0, 0⟩
    some ⟨d, pt⟩

open PolyVerif.RPrims PolyVerif.Gen.rendering in
def primLine (kind : String) (fs : List Float) : Option String :=
  match kind, fs with
  | "sphere", [a1, a2, a3, b1, b2, b3, c1, c2, c3, r, ox, oy, oz, dx, dy, dz, time, mn, mx] =>
    let p : RPrim Float := .sphere ⟨a1, a2, a3⟩ ⟨b1, b2, b3⟩ ⟨c1, c2, c3⟩ r
    let ray : TemporalRay Float := ⟨⟨ox, oy, oz⟩, ⟨dx, dy, dz⟩, time⟩
    some (fsHex (bbTo p.box) ++ " " ++ hitStr (p.hit ray mn mx) ++ " " ++ distStr (bvhHit ray (oneNode p) mn mx))
  | "rect", [blx, bly, trx, try', depth, ox, oy, oz, dx, dy, dz, time, mn, mx] =>
    let p : RPrim Float := .rect ⟨blx, bly⟩ ⟨trx, try'⟩ depth
    let ray : TemporalRay Float := ⟨⟨ox, oy, oz⟩, ⟨dx, dy, dz⟩, time⟩
    some (fsHex (bbTo p.box) ++ " " ++ hitStr (p.hit ray mn mx) ++ " " ++ distStr (bvhHit ray (oneNode p) mn mx))
  | "tri", [a1, a2, a3, b1, b2, b3, c1, c2, c3, ox, oy, oz, dx, dy, dz, time, mn, mx] =>
    let p : RPrim Float := .tri ⟨a1, a2, a3⟩ ⟨b1, b2, b3⟩ ⟨c1, c2, c3⟩
    let ray : TemporalRay Float := ⟨⟨ox, oy, oz⟩, ⟨dx, dy, dz⟩, time⟩
    some (fsHex (bbTo (nodeBox p.box p.box)) ++ " " ++ hitStr (oneNodeRec ray p mn mx))
  | _, _ => none

open PolyVerif.RPrims in
/-- `<n> (s cs ce ct r | r blx bly trx try depth)…` -/
def parseObjs : Nat → List String → Option (List (RPrim Float) × List String)
  | 0, ts => some ([], ts)
  | k + 1, "s" :: ts => do
    let fs ← floats? (ts.take 10)
    match fs with
    | [a1, a2, a3, b1, b2, b3, c1, c2, c3, r] =>
      let (rest, ts') ← parseObjs k (ts.drop 10)
      pure (RPrim.sphere ⟨a1, a2, a3⟩ ⟨b1, b2, b3⟩ ⟨c1, c2, c3⟩ r :: rest, ts')
    | _ => none
  | k + 1, "r" :: ts => do
    let fs ← floats? (ts.take 5)
    match fs with
    | [blx, bly, trx, try', depth] =>
      let (rest, ts') ← parseObjs k (ts.drop 5)
      pure (RPrim.rect ⟨blx, bly⟩ ⟨trx, try'⟩ depth :: rest, ts')
    | _ => none
  | _, _ => none

/-- oracle: point inside the box up to rounding (relative slack 1e-9) -/
def inBoxTol (b : AABB Float) (p : V3 Float) : Bool :=
  let tol (x : Float) : Float := 1e-9 * (1 + x.abs)
  let mn := b.Min
  let mx := b.Max
  mn.x - tol p.x ≤ p.x && p.x ≤ mx.x + tol p.x &&
  mn.y - tol p.y ≤ p.y && p.y ≤ mx.y + tol p.y &&
  mn.z - tol p.z ≤ p.z && p.z ≤ mx.z + tol p.z


def handle (op : String) (args : List String) : Option String := do
  match op with
  | "c16.depth" => do
      let n ← nat? (← args.head?)
      pure (toString (octreeDepthFromCount n))
  | "c16.aabb.ray" => do
      let fs ← floats? args
      match fs with
      | [a, b, c, d, e, f, ox, oy, oz, dx, dy, dz, mn, mx] =>
        -- answered by BOTH the hand model (Model/Tree.lean) and the REGENERATED AABB.IntersectsRayInRange (Gen/Render.lean,
        -- Props/C16Slab.lean): a disagreement at Float (zero direction components, the two readings of kEpsilon) shows as a diff
        let hand := intersectsRayInRange (⟨⟨a, b, c⟩, ⟨d, e, f⟩⟩ : AABB Float) ⟨ox, oy, oz⟩ ⟨dx, dy, dz⟩ mn mx
        let gen := PolyVerif.Gen.geometry.AABB.IntersectsRayInRange (⟨⟨a, b, c⟩, ⟨d, e, f⟩⟩ : AABB Float) ⟨⟨ox, oy, oz⟩, ⟨dx, dy, dz⟩⟩ mn mx
        pure (if hand == gen then boolStr hand else "hand-model≠regenerated")
      | _ => none
  | "c16.oct.bounds" => do
      let (t, _) ← parseTree args
      match t with
      | none => pure "nil"
      | some t => pure (fsHex (bbTo t.bounds))
  | "c16.oct.containing" => do
      let (t, q) ← parseTree args
      let v ← v3Of q
      match t with
      | none => pure "nil"
      | some t => pure (ids (elementsContainingPoint t v))
  | "c16.oct.within" => do
      let (t, q) ← parseTree args
      let v ← v3Of (q.take 3)
      let r ← (q.drop 3).head?
      match t with
      | none => pure "nil"
      | some t => pure (ids (elementsWithinRange t v r))
  | "c16.oct.ray" => do
      let (t, q) ← parseTree args
      match t, q with
      | none, _ => pure "nil"
      | some t, [ox, oy, oz, dx, dy, dz, mn, mx] => pure (ids (elementsIntersectingRay t ⟨ox, oy, oz⟩ ⟨dx, dy, dz⟩ mn mx))
      | _, _ => none
  | "c16.oct.traverse" => do
      let (t, q) ← parseTree args
      match t, q with
      | none, _ => pure "nil"
      | some t, [ox, oy, oz, dx, dy, dz, mn, mx] => pure (ids (traverseIntersectingRay t ⟨ox, oy, oz⟩ ⟨dx, dy, dz⟩ mn mx))
      | _, _ => none
  | "c16.oct.closest" => do       -- answer: squared distance only (ties: any of the nearest elements)
      let (t, q) ← parseTree args
      let v ← v3Of q
      match t with
      | none => pure "nil"
      | some t =>
        match closestPoint t v with
        | none => pure "none"
        | some (_, pt) => pure (fHex (pt.DistanceSquared v))
  | "c16.oct.closestu" => do      -- the nearest element is unique: id, squared distance, point
      let (t, q) ← parseTree args
      let v ← v3Of q
      match t with
      | none => pure "nil"
      | some t =>
        match closestPoint t v with
        | none => pure "none"
        | some (i, pt) => pure (s!"{i} " ++ fsHex [pt.DistanceSquared v, pt.x, pt.y, pt.z])
  /- oracles: the statement "the index answers what the exhaustive scan answers", evaluated on the
     implementation's own answers -/
  | "c16.holds.eq_scan" => do     -- args: <what> <n1> tree-ids… <n2> scan-ids…   equal as multisets
      let (a, rest) ← natList (args.drop 1)
      let (b, rest') ← natList rest
      if !rest'.isEmpty then none
      pure (boolStr (sortNat a == sortNat b))
  | "c16.holds.ray_scan" => do    -- args: <what> n (box: 6 floats)×n o(3) d(3) mn mx k id…  — the index answer against the
      -- Lean slab model evaluated on every element box (independent of the library's box test)
      match args.drop 1 with
      | ntok :: rest =>
        let n ← nat? ntok
        if rest.length < 6 * n + 8 then none
        let fs ← floats? (rest.take (6 * n + 8))
        let (got, rest') ← natList (rest.drop (6 * n + 8))
        if !rest'.isEmpty then none
        match fs.drop (6 * n) with
        | [ox, oy, oz, dx, dy, dz, mn, mx] =>
          let boxes := chunks 6 n fs
          let want := (boxes.zip (List.range n)).filterMap fun (b, i) =>
            match b with
            | [a, b', c, d, e, f] =>
              if intersectsRayInRange (⟨⟨a, b', c⟩, ⟨d, e, f⟩⟩ : AABB Float) ⟨ox, oy, oz⟩ ⟨dx, dy, dz⟩ mn mx then some i else none
            | _ => none
          pure (boolStr (sortNat got == sortNat want))
        | _ => none
      | _ => none
  | "c16.holds.closest_scan" => do -- args: <class> id <depth> <kind> n prims… v(3) d2 : the index answer against the Lean model's
      -- own closest distances of ALL elements (independent of the library's Scope / ClosestPoint); distance tolerance 1e-9
      match args.drop 1 with
      | idt :: rest =>
        let i ← nat? idt
        let (t, q) ← parseTree rest
        match t, q with
        | some t, [vx, vy, vz, d2] =>
          let v : V3 Float := ⟨vx, vy, vz⟩
          let ds := t.allElems.map fun e => (e.id, Float.sqrt ((e.prim.closestPoint v).DistanceSquared v))
          let d := Float.sqrt d2
          let tol := 1e-9 * (if 1.0 < d then d else 1.0)
          let isMin := ds.all fun (_, di) => d ≤ di + tol
          let own := ds.any fun (j, di) => j == i && (di - d).abs ≤ tol
          pure (boolStr (isMin && own))
        | _, _ => none
      | _ => none
  | "c16.holds.closest" => do     -- args: <class> id d2 px py pz cx cy cz n d2_0 … d2_{n-1}
      match args.drop 1 with
      | idt :: rest =>
        let i ← nat? idt
        let fs ← floats? (rest.take 7)
        let n ← nat? (← (rest.drop 7).head?)
        let ds ← floats? (rest.drop 8)
        if ds.length ≠ n then none
        match fs with
        | [d2, px, py, pz, cx, cy, cz] =>
          -- nearest by distance, "ties aside": within 1e-9·max(1,d) of every element's distance
          let d := Float.sqrt d2
          let tol := 1e-9 * (if 1.0 < d then d else 1.0)
          let isMin := ds.all (fun di => d ≤ Float.sqrt di + tol)
          let own := match ds[i]? with | some d => d == d2 | none => false
          pure (boolStr (isMin && own && px == cx && py == cy && pz == cz))
        | _ => none
      | _ => none
  | "c16.holds.bvh_point_range_witness" => do   -- known finding C16-bvh-point-range: same predicate as c16.holds.bvh
      match args.drop 1 with
      | [fa, da, fb, db] =>
        let da ← hexF? da; let db ← hexF? db
        pure (boolStr (fa == fb && (fa == "false" || da == db)))
      | _ => none
  | "c16.holds.bvh" => do         -- args: <which> flagIndex distIndex flagList distList
      match args.drop 1 with
      | [fa, da, fb, db] =>
        let da ← hexF? da; let db ← hexF? db
        pure (boolStr (fa == fb && (fa == "false" || da == db)))
      | _ => none
  | "c16.holds.bvh_scan" => do    -- args: <which> flag dist n (flag_i dist_i)…  : nearest of the individual hits
      match args.drop 1 with
      | fa :: da :: ntok :: rest =>
        let da ← hexF? da
        let n ← nat? ntok
        if rest.length ≠ 2 * n then none
        let rec go : List String → Option (List Float)
          | f :: d :: more => do
            let d ← hexF? d
            let tl ← go more
            pure (if f == "true" then d :: tl else tl)
          | [] => some []
          | _ => none
        let hits ← go rest
        if hits.isEmpty then pure (boolStr (fa == "false"))
        else pure (boolStr (fa == "true" && hits.all (fun d => da ≤ d) && hits.any (fun d => d == da)))
      | _ => none
  | "c16.prim.sphere" => do primLine "sphere" (← floats? args)
  | "c16.prim.rect" => do primLine "rect" (← floats? args)
  | "c16.prim.tri" => do primLine "tri" (← floats? args)
  | "c16.mesh.hit" => do
      let (t, rest) ← parseTree args
      match t, rest with
      | some t, [ox, oy, oz, dx, dy, dz, time, mn, mx] =>
        let ray : PolyVerif.Gen.rendering.TemporalRay Float := ⟨⟨ox, oy, oz⟩, ⟨dx, dy, dz⟩, time⟩
        pure (distStr (PolyVerif.RPrims.meshHit t ray mn mx) ++ " " ++ distStr (PolyVerif.RPrims.meshHit2 t ray mn mx))
      | _, _ => none
  | "c16.tree.hit" => do
      match args with
      | ntok :: rest =>
        let n ← nat? ntok
        let (objs, ts) ← parseObjs n rest
        let fs ← floats? ts
        match fs with
        | [ox, oy, oz, dx, dy, dz, time, mn, mx] =>
          let ray : PolyVerif.Gen.rendering.TemporalRay Float := ⟨⟨ox, oy, oz⟩, ⟨dx, dy, dz⟩, time⟩
          match PolyVerif.RPrims.treeOf objs (octreeDepthFromCount n) with
          | some t => pure (distStr (PolyVerif.RPrims.treeHit objs t ray mn mx))
          | none => pure "nil"
        | _ => none
      | _ => none
  | "c16.holds.box_history" => do   -- args: <where> box(6) cs(3) ce(3) r : the box a sphere returned for THIS interval = model
      let fs ← floats? (args.drop 1)
      match fs with
      | [a, b, c, d, e, f, s1, s2, s3, e1, e2, e3, r] =>
        pure (boolStr (fsHex (bbTo (PolyVerif.RPrims.sphereBox (⟨s1, s2, s3⟩ : V3 Float) ⟨e1, e2, e3⟩ r)) == fsHex [a, b, c, d, e, f]))
      | _ => none
  | "c16.holds.prim_in_box" => do
      let fs ← floats? (args.drop 1)
      match fs with
      | [a, b, c, d, e, f, x, y, z] => pure (boolStr (inBoxTol (⟨⟨a, b, c⟩, ⟨d, e, f⟩⟩ : AABB Float) ⟨x, y, z⟩))
      | _ => none
  | _ => none

end Driver.C16

def main : IO Unit := Driver.runLoop Driver.C16.handle
