/-
  C11 driver: answers the request lines of harness stream "c11" from the model
  PolyVerif/Model/Nodes.lean (core Lean only).

  Request   `c11.hist N <node>*N M <op>*M`
     node := `P v` | `Q v`  (parameter, initial value v)
           | `S salt ns sc*ns na (len id*len)*na`      sc := `-` | id
     op   := `sp p v` | `si i k src` (src `-` | id) | `aa i a src` | `ar i a idx` | `rd i`
  Answer: blank-joined concatenation over the ops of the block
     `ok|panic [r v1 v2] v <N cached> n <N versions> s <N states> x k ids y k2 ids |`
  computed by folding `PolyVerif.Nodes.step?` (V := Nat) over the ops; `rd` = two consecutive reads.

  Oracle lines `c11.holds.<clause> <same request> @ <the implementation's answer>` evaluate the
  clause on the implementation's observations; `c11.holds.deporder <wiring> @ reps k names…`.
-/
import Driver.Proto
import PolyVerif.Model.Nodes

namespace Driver.C11
open PolyVerif.Nodes

/-! ### the concrete `Process()` of every struct node of the harness -/

def M : Nat := 2147483647

def mixScalars (h : Nat) : List (Option Nat) → List Nat → Nat × List Nat
  | [], vs => (h, vs)
  | none :: ps, vs => mixScalars ((h * 31 + 7) % M) ps vs
  | some _ :: ps, v :: vs => mixScalars ((h * 31 + 11 + v) % M) ps vs
  | some _ :: ps, [] => mixScalars ((h * 31 + 11) % M) ps []

def mixElems (h : Nat) : Nat → List Nat → Nat × List Nat
  | 0, vs => (h, vs)
  | n+1, v :: vs => mixElems ((h * 31 + 13 + v) % M) n vs
  | n+1, [] => mixElems ((h * 31 + 13) % M) n []

def mixArrays (h : Nat) : List (List Nat) → List Nat → Nat
  | [], _ => h
  | a :: as, vs =>
    let r := mixElems ((h * 37 + 5 + a.length) % M) a.length vs
    mixArrays r.1 as r.2

/-- `mix(salt, shape, values)`: walks the scalar ports consuming one value per connected port,
    then the arrays consuming `len` values each -/
def mix (salt : Nat) (sc : List (Option Nat)) (ar : List (List Nat)) (vs : List Nat) : Nat :=
  let r := mixScalars salt sc vs
  mixArrays r.1 ar r.2

/-! ### the skipping processors of the harness (K, W, N): pull strategy + value function.
    `deps` = the non-nil ports in order A, B, (C); entries are positional over `deps`. -/

/-- is port `j` wired, and if so which entry slot does it have -/
def slot (sc : List (Option Nat)) (j : Nat) : Option Nat :=
  match sc[j]? with
  | some (some _) => some ((sc.take j).filterMap id).length
  | _ => none

def entry (es : List (Option Nat)) (k : Nat) : Option Nat := es.getD k none

/-- the value entry of port `j` (none: port nil or not pulled) -/
def portVal (sc : List (Option Nat)) (es : List (Option Nat)) (j : Nat) : Option Nat :=
  match slot sc j with
  | some k => entry es k
  | none => none

/-- first wired port among `js` (in that order) whose entry is still missing -/
def firstMissing (sc : List (Option Nat)) (es : List (Option Nat)) : List Nat → Option Nat
  | [] => none
  | j :: js =>
    match slot sc j with
    | some k => if (entry es k).isNone then some k else firstMissing sc es js
    | none => firstMissing sc es js

/-- K (ports A, B): A nil → reads nothing; x := A; x ≤ 0 → B not read; x > 0 → B read if wired -/
def nextK (sc : List (Option Nat)) (_ar : List (List Nat)) (es : List (Option Nat)) : Option Nat :=
  match slot sc 0 with
  | none => none
  | some ka =>
    match entry es ka with
    | none => some ka
    | some x => if x > 0 then firstMissing sc es [1] else none

def mixK (salt : Nat) (sc : List (Option Nat)) (_ar : List (List Nat)) (es : List (Option Nat)) : Nat :=
  match portVal sc es 0 with
  | none => (salt * 31 + 2) % M
  | some x =>
    let h := (salt * 31 + 11 + x) % M
    if x > 0 then
      match portVal sc es 1 with
      | some y => (h * 31 + 11 + y) % M
      | none => (h * 31 + 7) % M
    else (h * 31 + 3) % M

/-- W (screw-like, ports A, B, C): B nil → reads nothing; pulls B, then C if wired, then A only if
    wired and b is odd — A is EARLIER in `Dependencies()` order -/
def nextW (sc : List (Option Nat)) (_ar : List (List Nat)) (es : List (Option Nat)) : Option Nat :=
  match slot sc 1 with
  | none => none
  | some kb =>
    match entry es kb with
    | none => some kb
    | some b =>
      match firstMissing sc es [2] with
      | some kc => some kc
      | none => if b % 2 == 1 then firstMissing sc es [0] else none

def mixW (salt : Nat) (sc : List (Option Nat)) (_ar : List (List Nat)) (es : List (Option Nat)) : Nat :=
  match portVal sc es 1 with
  | none => (salt * 31 + 1) % M
  | some b =>
    let h := (salt * 31 + 11 + b) % M
    let h := match portVal sc es 2 with
      | some c => (h * 31 + 13 + c) % M
      | none => (h * 31 + 5) % M
    match (if b % 2 == 1 then portVal sc es 0 else none) with
    | some a => (h * 31 + 17 + a) % M
    | none => (h * 31 + 3) % M

/-- N (nil-port early return, ports A, B, C): A nil → reads nothing although B, C may be wired;
    otherwise reads A, B, C in order -/
def nextN (sc : List (Option Nat)) (_ar : List (List Nat)) (es : List (Option Nat)) : Option Nat :=
  match slot sc 0 with
  | none => none
  | some _ => firstMissing sc es [0, 1, 2]

def mixN (salt : Nat) (sc : List (Option Nat)) (_ar : List (List Nat)) (es : List (Option Nat)) : Nat :=
  match portVal sc es 0 with
  | none => (salt * 31 + 2) % M
  | some a =>
    let h := (salt * 31 + 11 + a) % M
    [1, 2].foldl (fun h j => match portVal sc es j with
      | some x => (h * 31 + 11 + x) % M
      | none => (h * 31 + 7) % M) h

/-! ### composite parameter values (`parameter.Value[[]int]`, `[struct{A,B int}]`, `[map[string]int]`):
    the model keeps the canonical code `enc` of the value, the harness prints `enc(param.Value())` -/

def encList (es : List Nat) : Nat :=
  ((es.foldl (fun h e => (h * 31 + 17 + e) % M) 7) * 31 + es.length) % M

def encStruct (a b : Nat) : Nat := (((5 * 31 + 19 + a) % M) * 31 + 23 + b) % M

/-- pairs `(key index, value)` in increasing key order -/
def encMap (kvs : List (Nat × Nat)) : Nat :=
  ((kvs.foldl (fun h kv => (((h * 31 + 29 + kv.1) % M) * 31 + kv.2) % M) 11) * 31 + kvs.length) % M

/-! ### parsing -/

abbrev P := StateT (List String) Option

def tok : P String := fun ts => match ts with
  | [] => none
  | t :: r => some (t, r)

def pNat : P Nat := do
  let t ← tok
  match t.toNat? with
  | some n => pure n
  | none => failure

def pOptNat : P (Option Nat) := do
  let t ← tok
  if t == "-" then pure none else
  match t.toNat? with
  | some n => pure (some n)
  | none => failure

def rep {α : Type} (p : P α) : Nat → P (List α)
  | 0 => pure []
  | n+1 => do let a ← p; let r ← rep p n; pure (a :: r)

def pList {α : Type} (p : P α) : P (List α) := do let n ← pNat; rep p n

def expect (s : String) : P Unit := do let t ← tok; if t == s then pure () else failure

def pWiring : P (List (Option Nat) × List (List Nat)) := do
  let sc ← pList pOptNat
  let ar ← pList (pList pNat)
  pure (sc, ar)

def pPair : P (Nat × Nat) := do let a ← pNat; let b ← pNat; pure (a, b)

def pNode : P (Node Nat) := do
  let t ← tok
  if t == "P" || t == "Q" then
    let v ← pNat
    pure (.param v 0)
  else if t == "QL" then
    let es ← pList pNat
    pure (.param (encList es) 0)
  else if t == "QS" then
    let a ← pNat; let b ← pNat
    pure (.param (encStruct a b) 0)
  else if t == "QM" then
    let kvs ← pList pPair
    pure (.param (encMap kvs) 0)
  else if t == "E" then
    -- adapter node of the harness: returns enc(value) of the composite parameter it is wired to;
    -- the model's parameter value already is that code, so the node is the identity
    let _salt ← pNat
    let w ← pWiring
    pure (.struct { fn := fun _ _ ovs => (ovs.headD none).getD 0, scalars := w.1, arrays := w.2, cache := 0,
                    version := 0, remembered := none, flag := false })
  else if t == "S" then
    let salt ← pNat
    let w ← pWiring
    pure (.struct { fn := fun sc ar ovs => mix salt sc ar (ovs.map (·.getD 0)), scalars := w.1, arrays := w.2, cache := 0, version := 0,
                    remembered := none, flag := false })
  else if t == "K" then
    -- the skipping processor of the harness (c11K): reads A, and reads B only when A's value is > 0
    let salt ← pNat
    let w ← pWiring
    pure (.struct { fn := mixK salt, next := nextK, scalars := w.1, arrays := w.2, cache := 0, version := 0,
                    remembered := none, flag := false })
  else if t == "W" then
    let salt ← pNat
    let w ← pWiring
    pure (.struct { fn := mixW salt, next := nextW, scalars := w.1, arrays := w.2, cache := 0, version := 0,
                    remembered := none, flag := false })
  else if t == "N" then
    let salt ← pNat
    let w ← pWiring
    pure (.struct { fn := mixN salt, next := nextN, scalars := w.1, arrays := w.2, cache := 0, version := 0,
                    remembered := none, flag := false })
  else failure

def pOp1 : P (Op Nat) := do
  let t ← tok
  match t with
  | "sp" => do let p ← pNat; let v ← pNat; pure (.setParam p v)
  | "si" => do let i ← pNat; let k ← pNat; let s ← pOptNat; pure (.setInput i k s)
  | "aa" => do let i ← pNat; let a ← pNat; let s ← pNat; pure (.arrayAdd i a s)
  | "ar" => do let i ← pNat; let a ← pNat; let x ← pNat; pure (.arrayRemove i a x)
  | "rd" => do let i ← pNat; pure (.read i)
  -- accepted messages to composite parameters REPLACE the value
  | "sl" => do let p ← pNat; let es ← pList pNat; pure (.setParam p (encList es))
  | "so" => do
      let p ← pNat; let fa ← pNat; let a ← pNat; let fb ← pNat; let b ← pNat
      pure (.setParam p (encStruct (if fa == 1 then a else 0) (if fb == 1 then b else 0)))
  | "sm" => do let p ← pNat; let kvs ← pList pPair; pure (.setParam p (encMap kvs))
  -- a message the decoder rejects (malformed / wrong type / partially valid): nothing is written
  | "sb" => do let p ← pNat; let _kind ← pNat; pure (.rejectedMessage p)
  | _ => failure

/-- an op with its repetition count: `sn p v k` = k consecutive updates of parameter `p` with the
    same value `v` (Set / ApplyMessage), observed once after the last one -/
def pOp : P (Op Nat × Nat) := do
  let ts ← get
  match ts with
  | "sn" :: _ => do
      let _ ← tok
      let p ← pNat; let v ← pNat; let k ← pNat
      pure (.setParam p v, k)
  | _ => do let op ← pOp1; pure (op, 1)

structure Case where
  nodes : Array (Node Nat)
  ops : List (Op Nat)
  /-- repetition count of each op (1 except for `sn`) -/
  reps : List Nat := []
  /-- the description contains a skipping processor (`K`): allowed only in the skip ops -/
  hasK : Bool := false

def pCase : P Case := do
  let before ← get
  let ns ← pList pNode
  let after ← get
  let pairs ← pList pOp
  let ops := pairs.map (·.1)
  pure { nodes := ns.toArray, ops := ops, reps := pairs.map (·.2), hasK := (before.take (before.length - after.length)).any (fun t => t == "K" || t == "W" || t == "N") }

/-- one observation block of the implementation's answer -/
structure Block where
  ok : Bool
  r : Option (Nat × Nat)
  v : Array Nat
  n : Array Nat
  s : Array Nat
  x : List Nat
  y : List Nat

def pBlock (N : Nat) : P Block := do
  let st ← tok
  let ok ← (if st == "ok" then pure true else if st == "panic" || st == "rej" then pure false else failure : P Bool)
  let t ← tok
  let r ← (if t == "r" then do
              let a ← pNat; let b ← pNat; expect "v"; pure (some (a, b))
           else if t == "v" then pure none else failure : P (Option (Nat × Nat)))
  let v ← rep pNat N
  expect "n"; let n ← rep pNat N
  expect "s"; let s ← rep pNat N
  expect "x"; let x ← pList pNat
  expect "y"; let y ← pList pNat
  expect "|"
  pure { ok := ok, r := r, v := v.toArray, n := n.toArray, s := s.toArray, x := x, y := y }

/-! ### the model graph as a table -/

/-- the graph function of a table (padding: parameter nodes) -/
def ofArr (arr : Array (Node Nat)) : Graph Nat := fun j => arr[j]?.getD (.param 0 0)

/-- re-tabulate a graph function (keeps lookups O(1) after a chain of `Graph.set`) -/
def toArr (N : Nat) (g : Graph Nat) : Array (Node Nat) := Array.ofFn (n := N) fun j => g j.val

def natsStr (l : List Nat) : String := " ".intercalate (l.map toString)

def idsStr (tag : String) (l : List Nat) : String :=
  if l.isEmpty then s!"{tag} 0" else s!"{tag} {l.length} {natsStr l}"

def observe (arr : Array (Node Nat)) : String :=
  let g := ofArr arr
  let js := List.range arr.size
  s!"v {natsStr (js.map (val g))} n {natsStr (js.map (ver g))} s {natsStr (js.map fun j => if Outdated (arr.size+1) g j then 0 else 1)}"

/-- one op on the model: new table and the block printed for it -/
def stepBlock (arr : Array (Node Nat)) (op : Op Nat) : Array (Node Nat) × String :=
  let N := arr.size
  match op with
  | .read i =>
    match step? (arr.size+1) (ofArr arr) (.read i) with
    | none => (arr, s!"panic {observe arr} x 0 y 0 |")
    | some (g1, l1) =>
      let a1 := toArr N g1
      let v1 := val (ofArr a1) i
      match step? (arr.size+1) (ofArr a1) (.read i) with
      | none => (arr, s!"panic {observe arr} x 0 y 0 |")
      | some (g2, l2) =>
        let a2 := toArr N g2
        let v2 := val (ofArr a2) i
        (a2, s!"ok r {v1} {v2} {observe a2} {idsStr "x" (l1.map (·.1))} {idsStr "y" (l2.map (·.1))} |")
  | .rejectedMessage _ => (arr, s!"rej {observe arr} x 0 y 0 |")
  | op =>
    match step? (arr.size+1) (ofArr arr) op with
    | none => (arr, s!"panic {observe arr} x 0 y 0 |")
    | some (g1, _) =>
      let a1 := toArr N g1
      (a1, s!"ok {observe a1} x 0 y 0 |")

/-- apply the model's `step?` `k` more times (the repeated updates of `sn`; no block printed) -/
def stepN (arr : Array (Node Nat)) (op : Op Nat) : Nat → Array (Node Nat)
  | 0 => arr
  | k+1 =>
    match step? (arr.size+1) (ofArr arr) op with
    | some (g1, _) => stepN (toArr arr.size g1) op k
    | none => arr

def runHist (c : Case) : String :=
  let r := (c.ops.zip c.reps).foldl (fun (acc : Array (Node Nat) × List String) (op, k) =>
    let r := stepBlock (stepN acc.1 op (k - 1)) op
    (r.1, r.2 :: acc.2)) (c.nodes, [])
  " ".intercalate r.2.reverse

/-! ### oracles -/

def isRead : Op Nat → Option Nat
  | .read i => some i
  | _ => none

/-- `Spec F g j` for every node (a literal call of `PolyVerif.Nodes.Spec` with fuel `N+1`; the
    harness keeps the number of dependency paths of a graph ≤ 1500, the real `Outdated()` walks
    every path too) -/
def specTable (_lim : Nat) (arr : Array (Node Nat)) : Array Nat :=
  let g := ofArr arr
  ((List.range arr.size).map fun j => Spec (arr.size+1) g j).toArray

def specLim : Nat := 2000

/-- clause "never stale": every read returns `Spec` of the graph as wired at that moment, and
    every node the implementation reports as `Processed` holds `Spec` in its cache -/
def holdsFresh (c : Case) (bs : List Block) : Bool :=
  let N := c.nodes.size
  let rec go (gw : Array (Node Nat)) (sp : Array Nat) : List (Op Nat) → List Block → Bool
    | [], [] => true
    | op :: ops, b :: bs =>
      let shape := b.v.size == N && b.s.size == N
      match isRead op with
      | some i =>
        let okRead := b.ok && (match b.r with
          | some (v1, v2) => i < N && v1 == sp[i]?.getD 0 && v2 == sp[i]?.getD 0
          | none => false)
        shape && okRead && cached sp b && go gw sp ops bs
      | none =>
        if b.ok then
          match step? (N+1) (ofArr gw) op with
          | some (g1, _) =>
            let gw1 := toArr N g1
            let sp1 := specTable specLim gw1
            shape && cached sp1 b && go gw1 sp1 ops bs
          | none => false          -- implementation accepted a call the model rejects
        else shape && cached sp b && go gw sp ops bs
    | _, _ => false
  go c.nodes (specTable specLim c.nodes) c.ops bs
where
  cached (sp : Array Nat) (b : Block) : Bool :=
    (List.range b.s.size).all fun j => b.s[j]?.getD 0 != 1 || b.v[j]?.getD 0 == sp[j]?.getD 1

def isStruct (arr : Array (Node Nat)) (j : Nat) : Bool :=
  match arr[j]? with
  | some (.struct _) => true
  | _ => false

def noDup : List Nat → Bool
  | [] => true
  | a :: l => !l.contains a && noDup l

/-- clause "recompute only on change": the second of two consecutive reads executes nothing; the
    first executes only nodes that are dirty = never executed, or downstream of a parameter /
    wiring change since their last execution; nothing is executed twice in one read -/
def holdsNoSpurious (c : Case) (bs : List Block) : Bool :=
  let N := c.nodes.size
  let rec go (gw : Array (Node Nat)) (dirty : List Nat) : List (Op Nat) → List Block → Bool
    | [], [] => true
    | op :: ops, b :: bs =>
      match op with
      | .read _ =>
        b.y.isEmpty && b.x.all (dirty.contains ·) && noDup b.x &&
          go gw (dirty.filter (!b.x.contains ·)) ops bs
      | .setParam p _ =>
        let quiet := b.x.isEmpty && b.y.isEmpty
        if b.ok then
          match step? (N+1) (ofArr gw) op with
          | some (g1, _) =>
            let gw1 := toArr N g1
            let add := (List.range N).filter fun j => isStruct gw1 j && inCone (N+1) (ofArr gw1) j p
            quiet && go gw1 (dirty ++ add.filter (!dirty.contains ·)) ops bs
          | none => false
        else quiet && go gw dirty ops bs
      | op =>
        let k := match op with
          | .setInput i _ _ => i
          | .arrayAdd i _ _ => i
          | .arrayRemove i _ _ => i
          | _ => 0
        let quiet := b.x.isEmpty && b.y.isEmpty
        if b.ok then
          match step? (N+1) (ofArr gw) op with
          | some (g1, _) =>
            let gw1 := toArr N g1
            let add := (List.range N).filter fun j => isStruct gw1 j && inCone (N+1) (ofArr gw1) j k
            quiet && go gw1 (dirty ++ add.filter (!dirty.contains ·)) ops bs
          | none => false
        else quiet && go gw dirty ops bs
    | _, _ => false
  go c.nodes ((List.range N).filter (isStruct c.nodes)) c.ops bs

/-- clause "version +1 per execution": version_after j = version_before j + #executions of j
    during the op (+1 for an accepted `sp j _`) -/
def holdsVersion (c : Case) (bs : List Block) : Bool :=
  let N := c.nodes.size
  let rec go (before : Array Nat) : List (Op Nat × Nat) → List Block → Bool
    | [], [] => true
    | (op, k) :: ops, b :: bs =>
      let bump (j : Nat) : Nat := match op with
        | .setParam p _ => if b.ok && p == j then k else 0
        | _ => 0
      b.n.size == N &&
      ((List.range N).all fun j =>
        b.n[j]?.getD 0 == before[j]?.getD 0 + b.x.count j + b.y.count j + bump j) &&
      go b.n ops bs
    | _, _ => false
  go (Array.replicate N 0) (c.ops.zip c.reps) bs

def portNames : List String := ["A", "B", "C", "D", "E", "F"]
def arrNames : List String := ["Xs", "Ys", "Zs", "Ws"]

/-- the model's `Dependencies()` order as port names: connected scalar ports in port order, then
    the arrays in port order, each by index -/
def depNames (sc : List (Option Nat)) (ar : List (List Nat)) : List String :=
  ((sc.zip portNames).filterMap fun (p, nm) => p.map fun _ => nm) ++
  ((ar.zip arrNames).map fun (a, nm) => (List.range a.length).map fun e => s!"{nm}.{e}").flatten

def chunks {α : Type} (k : Nat) : Nat → List α → List (List α)
  | 0, _ => []
  | n+1, l => l.take k :: chunks k n (l.drop k)

def holdsDepOrder : P Bool := do
  let w ← pWiring
  expect "@"
  let reps ← pNat
  let k ← pNat
  let names ← get
  let want := depNames w.1 w.2
  -- the scalar part must agree with the model's `SNode.deps` (same filter on the same list)
  let s : SNode Nat := { fn := fun _ _ _ => 0, scalars := w.1, arrays := w.2, cache := 0,
                         version := 0, remembered := none, flag := false }
  pure (reps > 0 && k == want.length && s.deps.length == want.length && names.length == reps * k &&
        (chunks k reps names).all (· == want))

/-- parse `<case> @ <blocks>` -/
def pCaseBlocks : P (Case × List Block) := do
  let c ← pCase
  expect "@"
  let bs ← rep (pBlock c.nodes.size) c.ops.length
  let rest ← get
  if rest.isEmpty then pure (c, bs) else failure

/-- one request -> one answer line; `none` = unknown op / malformed -/
def handle (op : String) (args : List String) : Option String :=
  match op with
  | "c11.hist" => do
    let (c, rest) ← pCase.run args
    if rest.isEmpty && !c.hasK then pure (runHist c) else none
  | "c11.msg.hist" => do
    -- messages through parameter.Value.ApplyMessage (composite types, rejected / partial messages)
    let (c, rest) ← pCase.run args
    if rest.isEmpty && !c.hasK then pure (runHist c) else none
  | "c11.skip.hist" => do
    let (c, rest) ← pCase.run args
    if rest.isEmpty && c.hasK then pure (runHist c) else none
  | "c11.holds.no_spurious_skipping_processor_witness" => do
    -- the same predicate as c11.holds.no_spurious, on a fixed witness history with a skipping
    -- processor: FALSE of the implementation (known finding C11-skipping-processor)
    let ((c, bs), _) ← pCaseBlocks.run args
    if c.hasK then pure (boolStr (holdsNoSpurious c bs)) else none
  | "c11.holds.fresh" => do
    let ((c, bs), _) ← pCaseBlocks.run args
    pure (boolStr (holdsFresh c bs))
  | "c11.holds.no_spurious" => do
    let ((c, bs), _) ← pCaseBlocks.run args
    if c.hasK then none else pure (boolStr (holdsNoSpurious c bs))
  | "c11.holds.version" => do
    let ((c, bs), _) ← pCaseBlocks.run args
    pure (boolStr (holdsVersion c bs))
  | "c11.holds.deporder" => do
    let (b, _) ← holdsDepOrder.run args
    pure (boolStr b)
  | _ => none

end Driver.C11

def main : IO Unit := Driver.runLoop Driver.C11.handle
