import Driver.MeshOpsDrv
import PolyVerif.Model.MeshSpec

namespace Driver.C03
open Driver.MeshIO PolyVerif PolyVerif.Mesh PolyVerif.Mesh.MeshVal PolyVerif.Gen

def showResults (op : String) : Option (List MV) → String
  | none => "rejected"
  | some ms =>
    if op == "split" then " ".intercalate (toString ms.length :: ms.map showMesh)
    else " ".intercalate (ms.map showMesh)

def pB : Parser MB := fun ts => do let (m, ts) ← pMesh ts; pure (toBitsMesh m, ts)

def unbits (p : PB) : P := p.map Float.ofBits
def zeroB (w : Nat) : PB := pBits (zeroP w)

/-- the theorem predicates of Props/C03 evaluated on (input, implementation output) -/
def oracle (name : String) (ts : List String) : Option Bool :=
  match name with
  | "unweld_spec" => do
      let (m, ts) ← pB ts; let (o, _) ← pB ts
      pure (decide (UnweldSpec m o))
  | "removeunref_spec" => do
      let (m, ts) ← pB ts; let (o, _) ← pB ts
      pure (decide (RemoveUnrefSpec m o ∧ AllReferenced o))
  | "flip_spec" => do
      let (m, ts) ← pB ts; let (o, _) ← pB ts
      pure (decide (FlipSpec m o))
  | "topointcloud_spec" => do
      let (m, ts) ← pB ts; let (o, _) ← pB ts
      pure (decide (ToPointCloudSpec m o))
  | "append_spec" => do
      let (a, ts) ← pB ts; let (b, ts) ← pB ts; let (o, _) ← pB ts
      pure (decide (AppendSpec zeroB a b o))
  | "frame_spec" => do
      let (w, ts) ← pNat ts; let (nm, ts) ← pTok ts
      let (m, ts) ← pB ts; let (o, _) ← pB ts
      pure (decide (FrameSpec ⟨w, nm⟩ m o))
  | "filter_spec" => do
      let (w, ts) ← pNat ts; let (nm, ts) ← pTok ts; let (thr, ts) ← pFloat ts
      let (m, ts) ← pB ts; let (o, _) ← pB ts
      pure (decide (FilterSpec ⟨w, nm⟩ (fun x => firstLt thr (unbits x)) m o ∧ AllReferenced o))
  | "removenull_spec" => do
      let (_, ts) ← pTok ts
      let (flags, ts) ← pCounted pNat ts
      let (m, ts) ← pB ts; let (o, _) ← pB ts
      pure (decide (RemoveNullFacesSpec (keepFromFlags m.indices (flags.map (· != 0))) m o))
  | "weld_spec" => do
      let (nm, ts) ← pTok ts; let (pw, ts) ← pNat ts
      let (m, ts) ← pB ts; let (o, _) ← pB ts
      pure (decide (WeldSpec ⟨3, nm⟩ (fun x => weldKey pw (unbits x)) m o))
  | "split_spec" => do
      let (m, ts) ← pB ts
      let (n, ts) ← pNat ts
      let (parts, _) ← pMany pB n ts
      pure (decide (SplitSpec m parts))
  | "same_mesh" => do
      let (m, ts) ← pB ts; let (o, _) ← pB ts
      pure (decide (m = o))
  | "crop_spec" => do
      let (nm, ts) ← pTok ts; let (c, ts) ← pV3 ts; let (e, ts) ← pV3 ts
      let (m, ts) ← pB ts; let (o, _) ← pB ts
      let box : geometry.AABB Float := ⟨c, e⟩
      let inside : PB → Bool := fun x => match v3? (unbits x) with | some v => box.Contains v | none => false
      pure (decide (CropSpec ⟨3, nm⟩ inside m o))
  | _ => none

/-- `Changed k f input output` of Props/C03 (`translate_spec` … `normalize_spec`; for the normals the
    definition of `smoothNormals` / `flatNormals`): frame untouched AND attribute `k` is exactly the stated
    function of the old array. Given the frame this is: output = the mesh the stated map produces. -/
def changedOracle (args : List String) : Option Bool :=
  match args with
  | name :: rest => do
    let res ← applyOp name rest
    -- the implementation's output is the last mesh on the line
    let n := (rest.reverse.dropWhile (· ≠ "M")).length
    let (o, _) ← pMesh (rest.drop (n - 1))
    match res with
    | some [m] => pure (showMesh m == showMesh o)
    | _ => pure false
  | [] => none

/-- one request -> one answer line; `none` = unknown op / malformed -/
def handle (op : String) (args : List String) : Option String :=
  if op == "c03.holds.changed_spec" then
    match changedOracle args with
    | some b => some (boolStr b)
    | none => some "false"
  else if op.startsWith "c03.holds." then
    let name := (op.drop 10).toString
    match oracle name args with
    | some b => some (boolStr b)
    | none => some "false"      -- an output that does not even parse as a mesh violates the contract
  else if op.startsWith "c03.op." then
    let name := (op.drop 7).toString
    (applyOp name args).map (showResults name)
  else none

end Driver.C03

def main : IO Unit := Driver.runLoop Driver.C03.handle
