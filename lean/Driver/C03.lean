import Driver.MeshOpsDrv
import Driver.MeshMoreDrv
import PolyVerif.Model.MeshSpec

namespace Driver.C03
open Driver.MeshIO PolyVerif PolyVerif.Mesh PolyVerif.Mesh.MeshVal PolyVerif.Gen

def showResults (op : String) : Option (List MV) → String
  | none => "rejected"
  | some ms =>
    if op == "split" then " ".intercalate (toString ms.length :: ms.map showMesh)
    else " ".intercalate (ms.map showMesh)

def pB : Parser MB := fun ts => do let (m, ts) ← pMesh ts; pure (toBitsMesh m, ts)

def unbits (p : PB) : P := p.map Float.ofBits
def zeroB (w : Nat) : PB := pBits (zeroP w)

/-- the theorem predicates of Props/C03 evaluated on (input, implementation output) -/
def oracle (name : String) (ts : List String) : Option Bool :=
  match name with
  | "unweld_spec" => do
      let (m, ts) ← pB ts; let (o, _) ← pB ts
      pure (decide (UnweldSpec m o))
  | "removeunref_spec" => do
      let (m, ts) ← pB ts; let (o, _) ← pB ts
      pure (decide (RemoveUnrefSpec m o ∧ AllReferenced o))
  | "flip_spec" => do
      let (m, ts) ← pB ts; let (o, _) ← pB ts
      pure (decide (FlipSpec m o))
  | "topointcloud_spec" => do
      let (m, ts) ← pB ts; let (o, _) ← pB ts
      pure (decide (ToPointCloudSpec m o))
  | "append_spec" => do
      let (a, ts) ← pB ts; let (b, ts) ← pB ts; let (o, _) ← pB ts
      pure (decide (AppendSpec zeroB a b o))
  | "frame_spec" => do
      let (w, ts) ← pNat ts; let (nm, ts) ← pTok ts
      let (m, ts) ← pB ts; let (o, _) ← pB ts
      pure (decide (FrameSpec ⟨w, nm⟩ m o))
  | "filter_spec" => do
      let (w, ts) ← pNat ts; let (nm, ts) ← pTok ts; let (thr, ts) ← pFloat ts
      let (m, ts) ← pB ts; let (o, _) ← pB ts
      pure (decide (FilterSpec ⟨w, nm⟩ (fun x => firstLt thr (unbits x)) m o ∧ AllReferenced o))
  | "removenull_spec" => do
      let (_, ts) ← pTok ts
      let (flags, ts) ← pCounted pNat ts
      let (m, ts) ← pB ts; let (o, _) ← pB ts
      pure (decide (RemoveNullFacesSpec (keepFromFlags m.indices (flags.map (· != 0))) m o))
  | "weld_spec" => do
      let (nm, ts) ← pTok ts; let (pw, ts) ← pNat ts
      let (m, ts) ← pB ts; let (o, _) ← pB ts
      pure (decide (WeldSpec ⟨3, nm⟩ (fun x => weldKey pw (unbits x)) m o))
  | "split_spec" => do
      let (m, ts) ← pB ts
      let (n, ts) ← pNat ts
      let (parts, _) ← pMany pB n ts
      pure (decide (SplitSpec m parts))
  | "weld_unweld" => do     -- theorem weld_unweld: same per-corner keys, in order, for weld m and weld (unweld m)
      let (nm, ts) ← pTok ts; let (pw, ts) ← pNat ts
      let (w, ts) ← pB ts; let (w', _) ← pB ts
      let keys := fun (x : MB) => (x.cornersOf ⟨3, nm⟩).map (List.map (Option.map fun p => weldKey pw (unbits p)))
      pure (decide (keys w' = keys w) && (keys w).isSome)
  | "repeat_spec" => do      -- theorem repeatMesh_corners, for every key of the input and of the output
      let (k, ts) ← pNat ts
      let pT : Parser (trs.TRS Float) := fun ts => do
        let (p, ts) ← pV3 ts; let (qv, ts) ← pV3 ts; let (qw, ts) ← pFloat ts; let (sc, ts) ← pV3 ts
        pure (trs.New p ⟨qv, qw⟩ sc, ts)
      let (tl, ts) ← pMany pT k ts
      let (m, ts) ← pB ts; let (o, _) ← pB ts
      let phis : List (PB → PB) := tl.map fun t => fun p => pBits (liftV3 (fun v => t.Transform v) (unbits p))
      pure ((m.keys ++ o.keys).all fun key =>
        decide (cornersOrZero zeroB o key = phis.flatMap (copyCorners zeroB posKey m key)))
  | "scan_visits" => do     -- theorem scanVisits_spec: one call per vertex, in index order (parallel: harness sorts by index)
      let (w, ts) ← pNat ts; let (nm, ts) ← pTok ts
      let (n, ts) ← pNat ts
      let pVisit : Parser (Nat × Float) := fun ts => do let (i, ts) ← pNat ts; let (x, ts) ← pFloat ts; pure ((i, x), ts)
      let (vs, ts) ← pMany pVisit n ts
      let (m, _) ← pMesh ts
      match m.scanVisits ⟨w, nm⟩ with
      | some exp => pure (exp.map (fun ix => (ix.1, (ix.2.headD 0.0).toBits)) == vs.map (fun ix => (ix.1, ix.2.toBits)))
      | none => pure false
  | "same_mesh" => do
      let (m, ts) ← pB ts; let (o, _) ← pB ts
      pure (decide (m = o))
  | "crop_contract" => do   -- theorem crop_contract (Props/C03More): the vertex-level contract, ANY incoming index buffer
      let (nm, ts) ← pTok ts; let (c, ts) ← pV3 ts; let (e, ts) ← pV3 ts
      let (m, ts) ← pB ts; let (o, _) ← pB ts
      let box : geometry.AABB Float := ⟨c, e⟩
      let inside : PB → Bool := fun x => match v3? (unbits x) with | some v => box.Contains v | none => false
      pure (decide (CropContract ⟨3, nm⟩ inside m o))
  | "crop_spec" => do
      let (nm, ts) ← pTok ts; let (c, ts) ← pV3 ts; let (e, ts) ← pV3 ts
      let (m, ts) ← pB ts; let (o, _) ← pB ts
      let box : geometry.AABB Float := ⟨c, e⟩
      let inside : PB → Bool := fun x => match v3? (unbits x) with | some v => box.Contains v | none => false
      pure (decide (CropSpec ⟨3, nm⟩ inside m o))
  | _ => none

/-! ### value post-conditions of Props/C03Values evaluated on the implementation's output (Float, relative
tolerance 1e-9 of the magnitudes involved; a case with a non-finite value is skipped = `true`) -/

def fin (x : Float) : Bool := x == x && x.abs < 1e150
def finV (v : V3 Float) : Bool := fin v.x && fin v.y && fin v.z
def mag (v : V3 Float) : Float := max v.x.abs (max v.y.abs v.z.abs)
def closeS (a b scale : Float) : Bool := (a - b).abs ≤ 1e-9 * max 1e-300 scale
def closeV (a b : V3 Float) (scale : Float) : Bool := closeS a.x b.x scale && closeS a.y b.y scale && closeS a.z b.z scale

def v3sOf (m : MV) (name : String) : List (V3 Float) :=
  match m.attr? ⟨3, name⟩ with
  | some d => d.filterMap v3?
  | none => []

def pairs {β : Type} (l : List β) : List (β × β) := l.zip l.tail

/-- every (input, output) vertex pair and every consecutive pair of pairs -/
def forallIO (ins outs : List (V3 Float)) (p1 : V3 Float → V3 Float → Bool)
    (p2 : V3 Float → V3 Float → V3 Float → V3 Float → Bool) : Bool :=
  ins.length == outs.length &&
  (ins.zip outs).all (fun io => !(finV io.1 && finV io.2) || p1 io.1 io.2) &&
  (pairs (ins.zip outs)).all (fun ab =>
    !(finV ab.1.1 && finV ab.1.2 && finV ab.2.1 && finV ab.2.2) || p2 ab.1.1 ab.1.2 ab.2.1 ab.2.2)

def dot (a b : V3 Float) : Float := a.Dot b

/-! normals and Laplacian: recomputed from their value statements (Props/C03Normals, C03Laplacian) in an order
DIFFERENT from the code's — triangles visited in reverse for the corner sums, neighbours enumerated descending — so the
predicates do not re-run the model's loops -/

def cornerCnt (t : Nat × Nat × Nat) (v : Nat) : Float :=
  (if t.1 == v then 1.0 else 0.0) + (if t.2.1 == v then 1.0 else 0.0) + (if t.2.2 == v then 1.0 else 0.0)

def crossOf (pos : Array (V3 Float)) (t : Nat × Nat × Nat) : Option (V3 Float) :=
  match pos[t.1]?, pos[t.2.1]?, pos[t.2.2]? with
  | some a, some b, some c => some ((b.Sub a).Cross (c.Sub a))
  | _, _, _ => none

def sameOrBothNaN (a b tol : Float) : Bool := a == b || (a != a && b != b) || (a - b).abs ≤ tol
def sameV (a b : V3 Float) (tol : Float) : Bool := sameOrBothNaN a.x b.x tol && sameOrBothNaN a.y b.y tol && sameOrBothNaN a.z b.z tol

/-- smooth normal of `v`: normalised sum over incident corners (reverse visiting order); `none` = skip the vertex
    (cancellation makes the direction of a tiny sum order-sensitive in floating point) -/
def smoothExpect (pos : Array (V3 Float)) (ts : List (Nat × Nat × Nat)) (v : Nat) : Option (V3 Float) :=
  let step := fun (acc : V3 Float × Float) (t : Nat × Nat × Nat) =>
    match crossOf pos t with
    | some c => if c.x != c.x then acc else
        let k := cornerCnt t v
        (acc.1.Add (c.Scale k), acc.2 + k * c.Length)
    | none => acc
  let (S, A) := ts.reverse.foldl step (V3.Zero, 0.0)
  if S.x == 0.0 && S.y == 0.0 && S.z == 0.0 then (if A == 0.0 then some S else none)
  else if S.Length < 1e-6 * A then none else some S.Normalized

def flatExpect (pos : Array (V3 Float)) (ts : List (Nat × Nat × Nat)) (v : Nat) : V3 Float :=
  match ts.reverse.find? (fun t => (t.1 == v || t.2.1 == v || t.2.2 == v) && (crossOf pos t).isSome) with
  | some t => match crossOf pos t with
      | some c => c.Normalized.Normalized
      | none => (V3.One : V3 Float).Normalized
  | none => (V3.One : V3 Float).Normalized

def lapSweepDesc (es : List (Nat × Nat)) (factor : Float) (vs : Array (V3 Float)) : Array (V3 Float) :=
  (List.range vs.size).foldl (fun cur vi =>
    match cur[vi]? with
    | none => cur
    | some vertex =>
      let nb := (MeshVal.neighbours es vi).reverse
      let sum := nb.foldl (fun acc vn => match cur[vn]? with | some x => x.Add acc | none => acc) V3.Zero
      cur.set! vi (vertex.Add (((sum.DivByConstant nb.length.toFloat).Sub vertex).Scale factor))) vs

def postOracle (args : List String) : Option Bool :=
  match args with
  | "smoothnormals" :: ts => do
      let (m, ts) ← pMesh ts; let (o, _) ← pMesh ts
      let pos := (v3sOf m "Position").toArray; let outs := v3sOf o "Normal"
      if !(pos.toList.all finV) then pure true else
      let tris := triples m.indices
      pure (outs.length == pos.size && (outs.zipIdx.all fun ov =>
        let n := ov.1
        -- unit length or exactly zero, and equal to the normalised corner sum
        ((n.x == 0.0 && n.y == 0.0 && n.z == 0.0) || (n.Length - 1.0).abs ≤ 1e-9) &&
        (match smoothExpect pos tris ov.2 with
         | some e => sameV n e 1e-7
         | none => true)))
  | "flatnormals" :: ts => do
      let (m, ts) ← pMesh ts; let (o, _) ← pMesh ts
      let pos := (v3sOf m "Position").toArray; let outs := v3sOf o "Normal"
      if !(pos.toList.all finV) then pure true else
      let tris := triples m.indices
      pure (outs.length == pos.size && (outs.zipIdx.all fun ov => sameV ov.1 (flatExpect pos tris ov.2) 1e-12))
  | "laplacian" :: ts => do
      let (name, ts) ← pTok ts; let (iters, ts) ← pNat ts; let (f, ts) ← pFloat ts
      let (m, ts) ← pMesh ts; let (o, _) ← pMesh ts
      let pos := (v3sOf m name).toArray; let outs := v3sOf o name
      match m.edges with
      | none => pure false
      | some es =>
        let res := (List.range iters).foldl (fun cur _ => lapSweepDesc es f cur) pos
        let scale := pos.toList.foldl (fun acc v => if finV v then max acc (mag v) else acc) 1.0
        pure (outs.length == pos.size && ((outs.zip res.toList).all fun oe => sameV oe.1 oe.2 (1e-9 * scale)))
  | "translate" :: ts => do
      let (name, ts) ← pTok ts; let (t, ts) ← pV3 ts
      let (m, ts) ← pMesh ts; let (o, _) ← pMesh ts
      if !finV t then pure true else
      pure (forallIO (v3sOf m name) (v3sOf o name)
        (fun i o' => closeV (o'.Sub i) t (mag i + mag t))                                  -- moved by exactly t
        (fun i1 o1 i2 o2 => closeV (o1.Sub o2) (i1.Sub i2) (mag i1 + mag i2 + mag t)))       -- differences unchanged
  | "scale" :: ts => do
      let (name, ts) ← pTok ts; let (c, ts) ← pV3 ts; let (a, ts) ← pV3 ts
      let (m, ts) ← pMesh ts; let (o, _) ← pMesh ts
      if !(finV c && finV a) then pure true else
      pure (forallIO (v3sOf m name) (v3sOf o name)
        (fun i o' => closeV (o'.Sub c) ((i.Sub c).MultByVector a) ((mag i + mag c) * max 1 (mag a)))
        (fun _ _ _ _ => true))
  | "meshscale" :: ts => do
      let (a, ts) ← pV3 ts
      let (m, ts) ← pMesh ts; let (o, _) ← pMesh ts
      if !finV a then pure true else
      pure (forallIO (v3sOf m "Position") (v3sOf o "Position")
        (fun i o' => closeV o' (i.MultByVector a) (mag i * max 1 (mag a))) (fun _ _ _ _ => true))
  | "rotate" :: ts => do
      let (name, ts) ← pTok ts; let (qv, ts) ← pV3 ts; let (qw, ts) ← pFloat ts
      let (m, ts) ← pMesh ts; let (o, _) ← pMesh ts
      let n := dot qv qv + qw * qw
      if !(fin n) then pure true else
      pure (forallIO (v3sOf m name) (v3sOf o name)
        (fun i o' => closeS (dot o' o') (n * n * dot i i) (n * n * dot i i))               -- |q|⁴·|v|²
        (fun i1 o1 i2 o2 =>                              -- distances, with room for the cancellation in o1 - o2
          let e := Float.sqrt (n * n * dot (i1.Sub i2) (i1.Sub i2))
          closeS (Float.sqrt (dot (o1.Sub o2) (o1.Sub o2))) e (e + 1e-3 * (mag o1 + mag o2))))
  | "applytrs" :: ts => do
      let (_, ts) ← pV3 ts; let (qv, ts) ← pV3 ts; let (qw, ts) ← pFloat ts; let (sc, ts) ← pV3 ts
      let (m, ts) ← pMesh ts; let (o, _) ← pMesh ts
      let n := dot qv qv + qw * qw
      if !(fin n && finV sc) then pure true else
      pure (forallIO (v3sOf m "Position") (v3sOf o "Position") (fun _ _ => true)
        (fun i1 o1 i2 o2 =>
          let dv := sc.MultByVector (i1.Sub i2)
          let e := Float.sqrt (n * n * dot dv dv)
          -- the translation cancels in o1 - o2: allow 1e-12 of the output magnitudes
          closeS (Float.sqrt (dot (o1.Sub o2) (o1.Sub o2))) e (e + 1e-3 * (mag o1 + mag o2))))
  | "center" :: ts => do
      let (name, ts) ← pTok ts
      let (m, ts) ← pMesh ts; let (o, _) ← pMesh ts
      let ins := v3sOf m name; let outs := v3sOf o name
      if ins.isEmpty || !(ins.all finV) then pure true else
      let scale := ins.foldl (fun acc v => max acc (mag v)) 0.0
      let axis (f : V3 Float → Float) : Bool :=
        match outs.map f with
        | [] => false
        | x :: xs => closeS ((xs.foldl min x + xs.foldl max x) / 2) 0 scale
      pure (ins.length == outs.length && axis (·.x) && axis (·.y) && axis (·.z))         -- bounding-box midpoint = 0
  | "normalize" :: ts => do
      let (name, ts) ← pTok ts
      let (m, ts) ← pMesh ts; let (o, _) ← pMesh ts
      let ins := v3sOf m name; let outs := v3sOf o name
      let L := ins.foldl (fun acc v => max acc v.Length) 0.0
      if ins.isEmpty || !(ins.all finV) || !(L > 1e-150) then pure true else
      let Lo := outs.foldl (fun acc v => max acc v.Length) 0.0
      pure (ins.length == outs.length && closeS Lo 1 1)                                     -- longest vector has length 1
  | _ => none

/-- `Changed k f input output` of Props/C03 (`translate_spec` … `normalize_spec`; for the normals the
    definition of `smoothNormals` / `flatNormals`): frame untouched AND attribute `k` is exactly the stated
    function of the old array. Given the frame this is: output = the mesh the stated map produces. -/
def changedOracle (args : List String) : Option Bool :=
  match args with
  | name :: rest => do
    let res ← applyOp name rest
    -- the implementation's output is the last mesh on the line
    let n := (rest.reverse.dropWhile (· ≠ "M")).length
    let (o, _) ← pMesh (rest.drop (n - 1))
    match res with
    | some [m] => pure (showMesh m == showMesh o)
    | _ => pure false
  | [] => none

/-- one request -> one answer line; `none` = unknown op / malformed -/
def handle (op : String) (args : List String) : Option String :=
  if op == "c03.holds.post_spec" then
    match postOracle args with
    | some b => some (boolStr b)
    | none => some "false"
  else if op == "c03.holds.changed_spec" then
    match changedOracle args with
    | some b => some (boolStr b)
    | none => some "false"
  else if op.startsWith "c03.holds." then
    let name := (op.drop 10).toString
    match oracle name args with
    | some b => some (boolStr b)
    | none => some "false"      -- an output that does not even parse as a mesh violates the contract
  else if (op == "c03.op.laplacian" || op == "c03.op.laplacian_shape") && knownPanic "laplacian" args then
    some "panic"
  else if op == "c03.op.laplacian" || op == "c03.op.laplacian_shape" then
    -- the Laplacian line is split: `laplacian_shape` = topology, indices, materials, attribute names and lengths (EXACT);
    -- `laplacian` = the values of the smoothed attribute only (compared within the stated tolerance: Go sums the
    -- neighbours in map order); every other attribute is compared exactly by the frame_spec oracle
    match applyOp "laplacian" args, args with
    | some (some [m]), name :: _ =>
      if op == "c03.op.laplacian_shape" then some (showShape m)
      else
        let d := (m.attr? ⟨3, name⟩).getD []
        some (" ".intercalate (("A" :: toString d.length :: d.flatMap (fun v => v.map fHexN))))
    | some _, _ => some "rejected"
    | none, _ => none
  else if op.startsWith "c03.op." then
    let name := (op.drop 7).toString
    if moreOps.contains name then (applyMore name args).map (showResults name)   -- Model/MeshMore.lean (round 2)
    else (applyOp name args).map (showResults name)
  else none

end Driver.C03

def main : IO Unit := Driver.runLoop Driver.C03.handle
