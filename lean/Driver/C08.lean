import Driver.Proto
import Driver.PlyIO
import PolyVerif.Model.Ply
import PolyVerif.Model.PlySpec
import PolyVerif.Model.PlySpecKeys

namespace Driver.C08
open PolyVerif.Ply PolyVerif.PlySpec Driver.PlyIO

def pBool : P Bool := do let n ← pNat; pure (n = 1)

def pItems : P (List HItem) := do
  let n ← pNat
  rep n (do
    let k ← tok
    let t ← pBytes
    match k with
    | "c" => pure (HItem.comment t)
    | "o" => pure (HItem.objInfo t)
    | _ => failure)

def pDatum (t : SType) : P (Datum Float) :=
  match t with
  | .uchar => do let n ← pNat; pure (.u8 (UInt8.ofNat n))
  | .int => do let i ← pInt; pure (.i32 i)
  | .float => do let x ← pFloat; pure (.f32 x)
  | .double => do let x ← pFloat; pure (.f64 x)
  | _ => failure

/-- SpecFile token form (see go/harness/c08.go `plySpecTok`) -/
def pSpec : P (SpecFile Float) := do
  let fmt ← pFormat
  let crlf ← pBool
  let pre ← pItems
  let nvp ← pNat
  let vprops ← rep nvp (do
    let n ← pBytes; let t ← pSType; let a ← pBool
    pure (⟨n, t, a⟩ : SpecProp))
  let mid ← pItems
  let post ← pItems
  let nv ← pNat
  let verts ← rep nv (vprops.mapM (fun p => pDatum p.ty))
  let hasFace ← pBool
  let face : Option (SpecFaceElem Float) ← (if hasFace then do
      let short ← pBool
      let ct ← pSType
      let it ← pSType
      let ia ← pBool
      let hasTex ← pBool
      let tex ← (if hasTex then do let a ← pSType; let b ← pSType; pure (some (a, b)) else pure none)
      let texFirst ← pBool
      let ex ← pNat
      let nf ← pNat
      let faces ← rep nf (do
        let k ← pNat
        let vs ← rep k pNat
        let nuv ← pNat
        let uv ← rep nuv pFloat
        let nex ← pNat
        let exs ← rep nex pInt
        pure (⟨vs, uv, exs⟩ : SpecFace Float))
      pure (some ⟨short, ct, it, ia, tex, texFirst, (if ex = 0 then none else some (ex = 1)), faces⟩)
    else pure none)
  pure ⟨fmt, crlf, pre, vprops, mid, post, verts, face⟩

def handle (op : String) (args : List String) : Option String :=
  match op with
  | "c08.encode" => do
      let f ← run pSpec args
      pure (hexOf (refEncode codingF f))
  | "c08.read" => do
      let bs ← run pBytes args
      pure (resStr meshStr (readMesh codingF defaultReader bs))
  | "c08.header" => do
      let bs ← run pBytes args
      pure (resStr (fun (p : Header × Bytes) => headerStr p.1 ++ s!" rest {p.2.length}") (parseHeader bs))
  | "c08.holds.meaning" | "c08.holds.uchar_scalar_ascii_witness" | "c08.holds.mixed_type_group_witness"
  | "c08.holds.ascii_precision_witness" | "c08.holds.zero_faces_witness" => do
      -- args: <spec> then the implementation's canonical result
      let (f, rest) ← pSpec args
      match meaning codingF f with
      | none => pure "false"
      | some m => pure (boolStr (meshStr m == " ".intercalate rest))
  | "c08.holds.mesh_other_size_rejected" => do
      -- args: <spec> then the implementation's result; theorem ply_spec_mesh_other_size_rejected: a face element of the
      -- covered grammar holding a face whose size is neither 3 nor 4 makes the reader return an error
      let (f, rest) ← pSpec args
      match f.face with
      | none => pure "false"
      | some fe =>
        let hasOther := fe.faces.any (fun fc => fc.verts.length != 3 && fc.verts.length != 4)
        pure (boolStr (hasOther && rest == ["err"]))
  | "c08.holds.claim_keys" => do
      -- theorem ply_spec_claim_keys_oracle / ply_spec_attribute_keys_are_meaning: the readers the claim stage builds on the
      -- header have exactly the (arity, attribute) keys `meaning` installs
      let f ← run pSpec args
      pure (boolStr (builtKeys f == meaningKeys f))
  | "c08.holds.header_cut_rejected" =>
      -- args: cut position, result class of ply.ReadHeader on the strict prefix; theorem ply_header_cut_bytes: an error
      some (boolStr (match args with | [_, "err"] => true | _ => false))
  | "c08.holds.entrypoints_agree" | "c08.holds.header_entrypoints_agree" | "c08.holds.save_agrees" =>
      some (boolStr (allSegmentsEqual args))
  | _ => none

end Driver.C08

def main : IO Unit := Driver.runLoop Driver.C08.handle
