import Driver.Proto

namespace Driver.C01

/-- one request -> one answer line; `none` = unknown op / malformed -/
def handle (_op : String) (_args : List String) : Option String := none

end Driver.C01

def main : IO Unit := Driver.runLoop Driver.C01.handle
