import Driver.Proto
import PolyVerif.Model.MeshHeap
import PolyVerif.Model.MeshPure
import PolyVerif.Model.MeshClasses

/-!
  C01 driver.  Three kinds of request:

  * `c01.shape <op class + parameters> ARGS <k> <mesh representation>…` — the harness observed, with reflect, the
    slices (array id, off, len, cap) and map identities of the argument meshes.  The driver builds a model heap
    holding exactly those arrays and maps, runs the model's operation class (`Op.apply`) and prints the SHARING
    GRAPH of the result: every slice as `a<id>+off:len` (an array that existed before), `n<k>+off:len` (the k-th
    array allocated by the operation, numbered by first appearance) or `z` (no capacity); every map as `m<id>`,
    `f<k>` or `nil`.  The harness prints the same description of what the implementation really returned.
  * `c01.holds.immutable h step mesh lastop d0 d1` — digests of one mesh's observable value at entry and now.
  * `c01.holds.immutable_full h mesh <snapshot> | <snapshot>` — both complete snapshots; parsed into the model's
    `MeshObs` and compared with its decidable equality (the predicate `history_immutable` is stated about).
-/
namespace Driver.C01
open PolyVerif.MeshHeap

abbrev P := StateT (List String) Option

def tok : P String := do
  match (← get) with
  | [] => failure
  | t :: r => set r; pure t

def nat : P Nat := do
  match (← tok).toNat? with
  | some n => pure n
  | none => failure

def expect (s : String) : P Unit := do
  if (← tok) == s then pure () else failure

def times {β : Type} : Nat → P β → P (List β)
  | 0, _ => pure []
  | n + 1, p => do let x ← p; let xs ← times n p; pure (x :: xs)

def slice : P Slice := do
  let a ← tok; let o ← nat; let l ← nat; let c ← nat
  if a == "x" then pure Slice.nil else
  match a.toNat? with
  | some i => pure ⟨i, o, l, c⟩
  | none => failure

abbrev MapLit := Option (Nat × List (String × Slice))

def mapLit : P MapLit := do
  let t ← tok
  if t == "x" then pure none else
  match t.toNat? with
  | none => failure
  | some id =>
    let n ← nat
    let es ← times n (do let nm ← tok; let s ← slice; pure (nm, s))
    pure (some (id, es))

structure MeshLit where
  rep : MeshRep
  maps : List MapLit

def meshLit : P MeshLit := do
  let topo ← nat; let i ← slice; let m ← slice
  let ms ← times 4 mapLit
  pure ⟨⟨topo, i, m, ms.map (fun x => x.map (·.1))⟩, ms⟩

def E : Env Nat := ⟨0, fun n x => x + n, id, fun _ _ => 0⟩

/-- the heap holding exactly the arrays and maps the argument meshes refer to (cell contents are irrelevant
    for the sharing graph: zeros) -/
def buildHeap (ms : List MeshLit) : Heap String Nat :=
  let maps : List (Nat × List (String × Slice)) := ms.flatMap fun m => m.maps.filterMap id
  let slices : List Slice := (ms.flatMap fun m => [m.rep.indices, m.rep.materials]) ++ maps.flatMap fun m => m.2.map (·.2)
  let live := slices.filter fun s => s.cap != 0
  let nArr := live.foldl (fun acc s => max acc (s.arr + 1)) 0
  let nMap := maps.foldl (fun acc m => max acc (m.1 + 1)) 0
  { arrays := (List.range nArr).map fun i =>
      List.replicate ((live.filter fun s => s.arr == i).foldl (fun acc s => max acc (s.off + s.cap)) 0) 0
    maps := (List.range nMap).map fun i =>
      match maps.find? (fun m => m.1 == i) with
      | some m => m.2
      | none => [] }

structure Namer where
  arrs : List Nat := []
  maps : List Nat := []

def indexOf (l : List Nat) (x : Nat) : Option Nat :=
  let rec go : List Nat → Nat → Option Nat
    | [], _ => none
    | y :: ys, i => if y == x then some i else go ys (i + 1)
  go l 0

def showSlice (base : Nat) (s : Slice) : StateM Namer String := do
  if s.cap == 0 then return "z"
  if s.arr < base then return s!"a{s.arr}+{s.off}:{s.len}"
  let st ← get
  match indexOf st.arrs s.arr with
  | some k => return s!"n{k}+{s.off}:{s.len}"
  | none =>
    set { st with arrs := st.arrs ++ [s.arr] }
    return s!"n{st.arrs.length}+{s.off}:{s.len}"

def showMap (h : Heap String Nat) (base mbase : Nat) (k : Nat) (m : Option Nat) : StateM Namer String := do
  match m with
  | none => return s!"K{k}=nil"
  | some id =>
    let head ←
      if id < mbase then pure s!"m{id}" else do
        let st ← get
        match indexOf st.maps id with
        | some j => pure s!"f{j}"
        | none =>
          set { st with maps := st.maps ++ [id] }
          pure s!"f{st.maps.length}"
    let es := (h.mapEntries (some id)).mergeSort (fun a b => !(decide (b.1 < a.1)))
    let parts ← es.mapM fun e => do let s ← showSlice base e.2; pure (e.1 ++ "=" ++ s)
    return s!"K{k}={head}[" ++ ";".intercalate parts ++ "]"

def showMesh (h : Heap String Nat) (base mbase : Nat) (r : MeshRep) : String :=
  let act : StateM Namer String := do
    let i ← showSlice base r.indices
    let m ← showSlice base r.materials
    let ks ← (r.maps.zipIdx).mapM fun (mp, k) => showMap h base mbase k mp
    return s!"T{r.topo} I={i} M={m} " ++ " ".intercalate ks
  (act.run {}).1

def zeros (n : Nat) : List Nat := List.replicate n 0

def entryLit : P (String × List Nat × Nat) := do
  let nm ← tok; let n ← nat; let sp ← nat; pure (nm, zeros n, sp)

def entryLit0 : P (String × List Nat × Nat) := do
  let nm ← tok; let n ← nat; pure (nm, zeros n, 0)

/-- the operations a request may name, as model programs over the pool of argument meshes;
    the result is the LAST mesh of the pool afterwards -/
def opProgram : P (List (Op String Nat) × Bool) := do
  let name ← tok
  match name with
  | "append" => do let aLen ← nat; let bLen ← nat; pure ([.append 0 1 aLen bLen], false)
  | "setindices" => do let n ← nat; let sp ← nat; pure ([.setIndices 0 (zeros n) sp], false)
  | "setmaterials" => do let n ← nat; let sp ← nat; pure ([.setMaterials 0 (zeros n) sp], false)
  | "sharematerials" => pure ([.shareMaterials 0 1], false)
  | "topointcloud" => do let n ← nat; pure ([.toPointCloud 0 1 n], false)
  | "clearattrs" => pure ([.clearAttrs 0], false)
  | "setdata" => do
      let kind ← nat; let n ← nat; let es ← times n entryLit
      pure ([.setData 0 kind es], false)
  | "setattr" => do
      let kind ← nat; let nm ← tok; let n ← nat; let sp ← nat
      pure ([.setAttr 0 kind nm (zeros n) sp], false)
  | "copyattr" => do let kind ← nat; let nm ← tok; pure ([.copyAttr 0 1 kind nm], false)
  | "rebuild" => do
      let topo ← nat; let n ← nat; let mm ← nat
      let attrs ← times 4 (do let k ← nat; times k entryLit0)
      pure ([.rebuild 0 topo (zeros n) 0 attrs (if mm == 0 then .share else .drop)], false)
  | "repeat" => do
      -- repeat.Mesh: result := EmptyMesh(topo); for each transform: result = result.Append(mesh.ApplyTRS(t))
      let k ← nat; let n ← nat
      let body := (List.range k).flatMap fun i =>
        [Op.setAttr 0 2 "Position" (zeros n) 0, Op.append (1 + 2 * i) (2 + 2 * i) (i * n) n]
      pure (body, true)
  | "identity" => pure ([], false)
  | _ => failure

def shapeRequest : P String := do
  let (prog, isRepeat) ← opProgram
  expect "ARGS"
  let k ← nat
  let ms ← times k meshLit
  let h := buildHeap ms
  let pool := ms.map (·.rep)
  let s0 : State String Nat := ⟨h, pool⟩
  -- `repeat` starts from EmptyMesh(topology of the argument)
  let s1 : Option (State String Nat) :=
    if isRepeat then
      match pool.head? with
      | some r => some (step E s0 (.newMesh r.topo [] 0 [] 0 [[], [], [], []]))
      | none => none
    else some s0
  match s1 with
  | none => failure
  | some s1 =>
    -- every step must succeed (the implementation returned a mesh)
    let rec go (s : State String Nat) : List (Op String Nat) → Option (State String Nat)
      | [] => some s
      | op :: rest =>
        match op.apply E s with
        | none => none
        | some (h', rs) => go ⟨h', s.pool ++ rs⟩ rest
    match go s1 prog with
    | none => pure "model-rejects"
    | some s2 =>
      match s2.pool.getLast? with
      | none => failure
      | some r => pure (showMesh s2.heap h.arrays.length h.maps.length r)

/-! ### value level -/

def cells (n : Nat) : P (List String) := times n tok

partial def attrsP (acc : List (Nat × String × List String)) : P (List (Nat × String × List String)) := do
  match (← get) with
  | "A" :: _ => do
      expect "A"
      let kind ← nat; let nm ← tok; let n ← nat; let cs ← cells n
      attrsP (acc ++ [(kind, nm, cs)])
  | _ => pure acc

/-- a snapshot as the harness prints it, into the model's observable-value type -/
def obsP : P (MeshObs String String) := do
  expect "T"; let topo ← nat
  expect "I"; let n ← nat; let idx ← cells n
  expect "M"; let k ← nat; let mats ← cells k
  let as ← attrsP []
  pure { topo := topo, indices := idx, materials := mats,
         attrs := [1, 2, 3, 4].map fun kind => (as.filter (·.1 == kind)).map fun a => (a.2.1, a.2.2) }

def fullRequest : P String := do
  let _ ← nat; let _ ← tok
  let a ← obsP
  expect "|"
  let b ← obsP
  match (← get) with
  | [] => pure (boolStr (decide (a = b)))
  | _ => pure "false"

/-! ### value-level model of `Append` -/

/-- cells are tokens: the zero value is the token `Z` (printed per kind as that kind's zero vector), index cells are
    decimal numbers -/
def EV : Env String :=
  ⟨"Z", fun n x => match x.toNat? with | some v => toString (v + n) | none => x, toString, fun _ need => need⟩

def zeroOfKind (k : Nat) : String := ",".intercalate (List.replicate k "0000000000000000")

def showObs (o : MeshObs String String) : String :=
  let head := ["T", toString o.topo, "I", toString o.indices.length] ++ o.indices ++
    ["M", toString o.materials.length] ++ o.materials
  let attrs := (o.attrs.zipIdx).flatMap fun (es, k) =>
    (es.mergeSort (fun a b => !(decide (b.1 < a.1)))).flatMap fun e =>
      ["A", toString (k + 1), e.1, toString e.2.length] ++ e.2.map fun c => if c == "Z" then zeroOfKind (k + 1) else c
  " ".intercalate (head ++ attrs)

def newMeshOf (o : MeshObs String String) : Op String String :=
  .newMesh o.topo o.indices 0 o.materials 0 (o.attrs.map fun es => es.map fun e => (e.1, e.2, 0))

def appendRequest : P String := do
  -- what the two AttributeLength() calls resolve to (forced: the harness sends this line only for meshes with one
  -- common attribute length)
  let aLen ← nat; let bLen ← nat
  let a ← obsP
  expect "|"
  let b ← obsP
  let s := run EV ⟨Heap.empty, []⟩ [newMeshOf a, newMeshOf b, .append 0 1 aLen bLen]
  -- two models must agree: the heap-level `appendCopy` read back with `obs`, and the pure `pureAppend` (append_refines)
  match s.pool[2]?, pureAppend EV aLen bLen a b with
  | some r, some p => pure (if obs s.heap r == p then showObs p else "models-disagree")
  | none, none => pure "panic"
  | _, _ => pure "models-disagree"

/-- the answers `AttributeLength()` may give for a mesh showing `o` -/
def lenCandidates (o : MeshObs String String) : List Nat :=
  match (lensObs o).eraseDups with
  | [] => [0]
  | l => l

/-- ragged arguments: the implementation's result must be `pureAppend` for SOME resolution of the two map iterations -/
def appendInSetRequest : P String := do
  let a ← obsP
  expect "|"
  let b ← obsP
  expect "|"
  let r ← obsP
  let want := showObs r
  let ok := (lenCandidates a).any fun aLen => (lenCandidates b).any fun bLen =>
    match pureAppend EV aLen bLen a b with
    | some p => showObs p == want
    | none => false
  pure (boolStr ok)

def handle (op : String) (args : List String) : Option String :=
  match op with
  | "c01.holds.append_in_set" =>
    match appendInSetRequest.run args with
    | some (s, _) => some s
    | none => some "false"
  | "c01.shape" => (shapeRequest.run args).map (·.1)
  | "c01.class" =>
    -- the hand classification (Model/MeshClasses.lean, the table `classification_from_source` is about)
    match args with
    | [fn] => some (match PolyVerif.MeshClasses.handClass fn with | some c => c.wire | none => "none")
    | _ => none
  | "c01.append" => (appendRequest.run args).map (·.1)
  | "c01.holds.rederive" =>
    match args with
    | [_, _, d0, d1] => some (boolStr (d0 == d1))
    | _ => none
  | "c01.holds.immutable" =>
    match args with
    | [_, _, _, _, d0, d1] => some (boolStr (d0 == d1))
    | _ => none
  | "c01.holds.immutable_full" =>
    match fullRequest.run args with
    | some (s, _) => some s
    | none => some "false"
  | _ => none

end Driver.C01

def main : IO Unit := Driver.runLoop Driver.C01.handle
