import Driver.Proto
import PolyVerif.Model.Solids
import PolyVerif.Model.SolidsOracle
import PolyVerif.Model.SolidsCode
import PolyVerif.Gen.CubeTable
import PolyVerif.Model.SolidsNodes
import PolyVerif.Gen.PrimNodes

/-
  C18 driver.  Request lines (tokens blank-separated, ints decimal, float64 as 16 hex digits, lists
  length-prefixed `n x1 … xn`):

    <kind> <params>  ::=  sphere R C | sphereu R C | hemi R C | cyl S noTop noBottom | cubew | cubeq
    <scalars>        ::=  radius (sphere, sphereu, hemi) | radius height (cyl) | w h d (cubew, cubeq)

  model lines (answer computed from `PolyVerif.Solids`):
    c18.tris.<kind> <params>                  → `panic` | `n i0 i1 …`
    c18.nv.<kind> <params>                    → number of vertices
    c18.pos.<kind> <params> <scalars>         → `n x0 y0 z0 …`
    c18.nrm.<kind> <params> <scalars>         → `n x0 y0 z0 …`      (sphere, cyl both caps, cubew, cubeq)
    c18.merge.<kind> <params>                 → `n c0 c1 …`  class representative of every vertex under the model's merge map
  node-wrapper lines (the request carries only the CONNECTED ports, `-` = not connected; defaults, clamps and the choice
  of constructor come from the interpretation of the REGENERATED `Process()` programs `Gen/PrimNodes.lean`, which
  `Props/C18Nodes.lean` proves equal to the hand model `Model/SolidsNodes.lean`):
    <ports> ::= sphere: radius rows cols weld | hemi: rows cols radius capped | cyl: sides height radius top bottom
              | cube: width height depth
    c18.nodetris.<sphere|hemi|cyl|cube> <ports>   → as c18.tris of the constructor the wrapper calls
    c18.nodenv.<..> <ports>, c18.nodepos.<..> <ports>
  oracle lines (args carry the implementation's mesh; answer true/false):
    c18.holds.closed_mod_merge <kind> <params> <idx>
    c18.holds.closed_by_position <classes> <idx>
    c18.holds.outward <kind> <params> <scalars> <pos> <idx>
    c18.holds.volume <kind> <params> <scalars> <pos> <idx>
    c18.holds.normals_outward <kind> <params> <pos> <nrm> <idx>
-/
namespace Driver.C18
open PolyVerif PolyVerif.Solids PolyVerif.SolidsOracle

inductive Kind
  | sphere (r c : Nat)
  | sphereu (r c : Nat)
  | hemi (r c : Nat)
  | cyl (s : Nat) (noTop noBottom : Bool)
  | cubew
  | cubeq

/-! ### cursor-based parsing over the token array -/

abbrev Toks := Array String

def rdNat (a : Toks) (i : Nat) : Option (Nat × Nat) := do
  let s ← a[i]?
  let n ← s.toNat?
  pure (n, i + 1)

def rdBool (a : Toks) (i : Nat) : Option (Bool × Nat) := do
  let (n, i) ← rdNat a i
  if n = 0 then pure (false, i) else if n = 1 then pure (true, i) else none

def rdFloat (a : Toks) (i : Nat) : Option (Float × Nat) := do
  let s ← a[i]?
  let f ← hexF? s
  pure (f, i + 1)

def rdNats (a : Toks) (i : Nat) : Option (Array Nat × Nat) := do
  let (n, i) ← rdNat a i
  if i + n > a.size then none
  let mut out : Array Nat := Array.mkEmpty n
  for k in [i:i + n] do
    let v ← (a.getD k "").toNat?
    out := out.push v
  pure (out, i + n)

def rdFloats (a : Toks) (i : Nat) : Option (Array Float × Nat) := do
  let (n, i) ← rdNat a i
  if i + n > a.size then none
  let mut out : Array Float := Array.mkEmpty n
  for k in [i:i + n] do
    let v ← hexF? (a.getD k "")
    out := out.push v
  pure (out, i + n)

def rdKind (name : String) (a : Toks) (i : Nat) : Option (Kind × Nat) :=
  match name with
  | "sphere" => do let (r, i) ← rdNat a i; let (c, i) ← rdNat a i; pure (.sphere r c, i)
  | "sphereu" => do let (r, i) ← rdNat a i; let (c, i) ← rdNat a i; pure (.sphereu r c, i)
  | "hemi" => do let (r, i) ← rdNat a i; let (c, i) ← rdNat a i; pure (.hemi r c, i)
  | "cyl" => do
      let (s, i) ← rdNat a i; let (nt, i) ← rdBool a i; let (nb, i) ← rdBool a i
      pure (.cyl s nt nb, i)
  | "cubew" => pure (.cubew, i)
  | "cubeq" => pure (.cubeq, i)
  | _ => none

/-- kind given as the first argument token -/
def rdKindArg (a : Toks) (i : Nat) : Option (Kind × Nat) := do
  let s ← a[i]?
  rdKind s a (i + 1)

/-- scalars: radius | radius height | w h d -/
def rdScalars (k : Kind) (a : Toks) (i : Nat) : Option (Array Float × Nat) :=
  match k with
  | .sphere .. | .sphereu .. | .hemi .. => do let (r, i) ← rdFloat a i; pure (#[r], i)
  | .cyl .. => do let (r, i) ← rdFloat a i; let (h, i) ← rdFloat a i; pure (#[r, h], i)
  | .cubew | .cubeq => do
      let (w, i) ← rdFloat a i; let (h, i) ← rdFloat a i; let (d, i) ← rdFloat a i; pure (#[w, h, d], i)

/-! ### the model, per kind -/

/-- does the constructor return (no panic)?  the boxes never reject; the cylinder rejects through `Circle.ToMesh`
    (`Solids.cylinderAdmissible`) -/
def admissible : Kind → Bool
  | .sphere r c | .sphereu r c | .hemi r c => uvAdmissible r c
  | .cyl s nt nb => cylinderAdmissible s nt nb
  | _ => true

def modelFlat : Kind → List Nat
  | .sphere r c => flat (uvSphereTris r c)
  | .sphereu r c => flat (uvSphereUnweldedTris r c)
  | .hemi r c => flat (hemisphereTris r c)
  | .cyl s nt nb => flat (cylinderTris s nt nb)
  | .cubew => PolyVerif.Gen.CubeTable.cubeVertIndices
  | .cubeq => flat cubeQuadsTris

def modelNV : Kind → Nat
  | .sphere r c => uvSphereNV r c
  | .sphereu r c => uvUnweldedNV r c
  | .hemi r c => uvSphereNV r c
  | .cyl s nt nb => cylinderNV s nt nb
  | .cubew => 8
  | .cubeq => cubeQuadsNV

/-- positions at `Float`; `none` where the model has no position function (pipes: a missing cap) -/
def modelPos (k : Kind) (sc : Array Float) : Option (Nat → V3 Float) :=
  match k with
  | .sphere r c => some (uvSpherePos (sc.getD 0 nan) r c)
  | .sphereu r c => some (uvUnweldedPos (sc.getD 0 nan) r c)
  | .hemi r c => some (hemispherePos (sc.getD 0 nan) r c)
  | .cyl s false false => some (cylinderPosCode (sc.getD 0 nan) (sc.getD 1 nan) s)
  | .cyl .. => none
  | .cubew => some (cubeWeldedPos (sc.getD 0 nan) (sc.getD 1 nan) (sc.getD 2 nan))
  | .cubeq => some (cubeQuadsPosCode (sc.getD 0 nan) (sc.getD 1 nan) (sc.getD 2 nan))

def modelNrm (k : Kind) (sc : Array Float) : Option (Nat → V3 Float) :=
  match k with
  | .sphere r c => some (uvSphereNormal (sc.getD 0 nan) r c)
  | .cyl s false false => some (cylinderNormalCode s)
  | .cubew => some (cubeWeldedNormal (sc.getD 0 nan) (sc.getD 1 nan) (sc.getD 2 nan))
  | .cubeq => some cubeQuadsNormalCode
  | _ => none

/-- the model's merge map as `Nat` labels of the vertices `0..nv-1`, with a bound on the labels;
    `none`: no merge map in the model (pipes) -/
def modelLabels (k : Kind) : Option (Array Nat × Nat) :=
  let nv := modelNV k
  let ofNat (f : Nat → Nat) : Array Nat × Nat :=
    let ls := ((List.range nv).map f).toArray
    (ls, ls.foldl (fun m x => max m (x + 1)) 0)
  match k with
  | .sphere r c | .hemi r c => some (lpLabels nv (uvDec r c))
  | .sphereu r c => some (ofNat (uvUnweldedSrc r c))
  | .cyl s false false => some (lpLabels nv (cylinderPt s))
  | .cyl .. => none
  | .cubew => some (ofNat id)
  | .cubeq => some (ofNat cubeQuadsPt)

/-- the literal predicate of the theorems: `ClosedMod pt (unflat idx)` with the model's merge map.
    Welded meshes (sphere, hemisphere, welded box) are closed on their raw vertex ids. -/
def closedLiteral (k : Kind) (idx : List Nat) : Option Bool :=
  match k with
  | .sphere .. | .hemi .. | .cubew => some (decide (ClosedMod id (unflat idx)))
  | .sphereu r c => some (decide (ClosedMod (uvUnweldedSrc r c) (unflat idx)))
  | .cyl s false false => some (decide (ClosedMod (cylinderPt s) (unflat idx)))
  | .cyl .. => none
  | .cubeq => some (decide (ClosedMod cubeQuadsPt (unflat idx)))

/-- labels for the fast path of the same predicate -/
def closedLabels (k : Kind) : Option (Array Nat × Nat) :=
  match k with
  | .sphere .. | .hemi .. | .cubew => let nv := modelNV k; some ((List.range nv).toArray, nv)
  | _ => modelLabels k

/-- size limit (directed edges = index count) of the literal quadratic predicate -/
def literalLimit : Nat := 1200

/-- `ClosedMod (fun v => labels[v]) (unflat idx)`: literal predicate up to `literalLimit` edges AND the sort-based
    check (both must hold, so a disagreement answers `false`); only the sort-based check above -/
def closedByLabels (labels : Array Nat) (bound : Nat) (idx : Array Nat) (literal : Option Bool) : Bool :=
  if !(idx.all (· < labels.size)) then false else
  let fast := closedFastArr bound (idx.map fun v => labels.getD v bound)
  if idx.size ≤ literalLimit then
    match literal with
    | some l => l && fast
    | none => false
  else fast

def natsStr (xs : List Nat) : String :=
  " ".intercalate (toString xs.length :: xs.map toString)

def v3sStr (nv : Nat) (f : Nat → V3 Float) : String :=
  let fs := (List.range nv).flatMap fun v => let p := f v; [p.x, p.y, p.z]
  " ".intercalate (toString fs.length :: fs.map fHex)

def ctrOf (k : Kind) (sc : Array Float) : V3 Float :=
  match k with
  | .hemi .. => ⟨0.0, sc.getD 0 nan / 2.0, 0.0⟩
  | _ => ⟨0.0, 0.0, 0.0⟩

/-- (Vpoly, Vanalytic, relative deficit bound) -/
def volumeSpec (k : Kind) (sc : Array Float) : Option (Float × Float × Float) :=
  match k with
  | .sphere r c | .sphereu r c => some (sphereVpoly (sc.getD 0 nan) r c, sphereVana (sc.getD 0 nan), sphereDeficitBound r c)
  | .hemi r c => some (hemiVpoly (sc.getD 0 nan) r c, hemiVana (sc.getD 0 nan), hemiDeficitBound r c)
  | .cyl s false false =>
      some (cylVpoly (sc.getD 0 nan) (sc.getD 1 nan) s, cylVana (sc.getD 0 nan) (sc.getD 1 nan),
            cylDeficitBound s)
  | .cyl .. => none
  | .cubew | .cubeq =>
      let v := sc.getD 0 nan * sc.getD 1 nan * sc.getD 2 nan
      some (v, v, 1e-12)

/-! ### node wrappers -/
open PolyVerif.NodeIR in
/-- optional port tokens: `-` = not connected -/
def rdOptInt (a : Toks) (i : Nat) : Option (Option Int × Nat) := do
  let s ← a[i]?
  if s = "-" then pure (none, i + 1) else
  let n ← s.toInt?
  pure (some n, i + 1)

def rdOptFloat (a : Toks) (i : Nat) : Option (Option Float × Nat) := do
  let s ← a[i]?
  if s = "-" then pure (none, i + 1) else
  let f ← hexF? s
  pure (some f, i + 1)

def rdOptBool (a : Toks) (i : Nat) : Option (Option Bool × Nat) := do
  let s ← a[i]?
  if s = "-" then pure (none, i + 1) else
  if s = "0" then pure (some false, i + 1) else if s = "1" then pure (some true, i + 1) else none

open PolyVerif.NodeIR in
/-- the constructor call a wrapper makes → the kind / parameters / scalars of the model lines.  Negative counts behave
    like 0 in the constructors (they panic, or loop zero times), hence `Int.toNat`. -/
def kindOfOutcome (o : Outcome Float) : Option (Kind × Array Float) :=
  match o.fn, o.recv, o.args with
  | "UVSphere", [], [.flt r, .int ro, .int c] => some (.sphere ro.toNat c.toNat, #[r])
  | "UVSphereUnwelded", [], [.flt r, .int ro, .int c] => some (.sphereu ro.toNat c.toNat, #[r])
  | "Hemisphere.UV", [("Radius", .flt r), ("Capped", .bool _)], [.int ro, .int c] => some (.hemi ro.toNat c.toNat, #[r])
  | "Cylinder.ToMesh", [("Radius", .flt r), ("Height", .flt h), ("Sides", .int s), ("NoTop", .bool nt),
      ("NoBottom", .bool nb)], [] => some (.cyl s.toNat nt nb, #[r, h])
  | "Cube.UnweldedQuads", [("Height", .flt h), ("Width", .flt w), ("Depth", .flt d)], [] => some (.cubeq, #[w, h, d])
  | _, _, _ => none

open PolyVerif.NodeIR in
/-- run the REGENERATED `Process()` program of the wrapper on the request's ports -/
def rdNode (nk : String) (a : Toks) (i : Nat) : Option ((Kind × Array Float) × Nat) :=
  match nk with
  | "sphere" => do
      let (r, i) ← rdOptFloat a i; let (ro, i) ← rdOptInt a i; let (c, i) ← rdOptInt a i; let (w, i) ← rdOptBool a i
      let o ← run PolyVerif.Gen.PrimNodes.uvSphereNode (uvSphereNodePorts ⟨r, ro, c, w⟩)
      pure (← kindOfOutcome o, i)
  | "hemi" => do
      let (ro, i) ← rdOptInt a i; let (c, i) ← rdOptInt a i; let (r, i) ← rdOptFloat a i; let (cp, i) ← rdOptBool a i
      let o ← run PolyVerif.Gen.PrimNodes.hemisphereNode (hemisphereNodePorts ⟨ro, c, r, cp⟩)
      pure (← kindOfOutcome o, i)
  | "cyl" => do
      let (s, i) ← rdOptInt a i; let (h, i) ← rdOptFloat a i; let (r, i) ← rdOptFloat a i
      let (t, i) ← rdOptBool a i; let (b, i) ← rdOptBool a i
      let o ← run PolyVerif.Gen.PrimNodes.cylinderNode (cylinderNodePorts ⟨s, h, r, t, b⟩)
      pure (← kindOfOutcome o, i)
  | "cube" => do
      let (w, i) ← rdOptFloat a i; let (h, i) ← rdOptFloat a i; let (d, i) ← rdOptFloat a i
      let o ← run PolyVerif.Gen.PrimNodes.cubeNode (cubeNodePorts ⟨w, h, d⟩)
      pure (← kindOfOutcome o, i)
  | _ => none

def done (a : Toks) (i : Nat) : Option Unit := if i = a.size then some () else none

/-- one request → one answer line; `none` = unknown op / malformed -/
def handle (op : String) (args : List String) : Option String := do
  let a : Toks := args.toArray
  match op.splitOn "." with
  | ["c18", "tris", kn] => do
      let (k, i) ← rdKind kn a 0
      done a i
      if admissible k then pure (natsStr (modelFlat k)) else pure "panic"
  | ["c18", "nv", kn] => do
      let (k, i) ← rdKind kn a 0
      done a i
      if admissible k then pure (toString (modelNV k)) else pure "panic"
  | ["c18", "nodetris", nk] => do
      let ((k, _), i) ← rdNode nk a 0
      done a i
      if admissible k then pure (natsStr (modelFlat k)) else pure "panic"
  | ["c18", "nodenv", nk] => do
      let ((k, _), i) ← rdNode nk a 0
      done a i
      if admissible k then pure (toString (modelNV k)) else pure "panic"
  | ["c18", "nodepos", nk] => do
      let ((k, sc), i) ← rdNode nk a 0
      done a i
      if !admissible k then pure "panic" else
      let f ← modelPos k sc
      pure (v3sStr (modelNV k) f)
  | ["c18", "pos", kn] => do
      let (k, i) ← rdKind kn a 0
      let (sc, i) ← rdScalars k a i
      done a i
      if !admissible k then pure "panic" else
      let f ← modelPos k sc
      pure (v3sStr (modelNV k) f)
  | ["c18", "possample", kn] => do
      -- model positions of a sample of vertex ids (huge meshes)
      let (k, i) ← rdKind kn a 0
      let (sc, i) ← rdScalars k a i
      let (ids, i) ← rdNats a i
      done a i
      if !admissible k then pure "panic" else
      let f ← modelPos k sc
      let fs := ids.toList.flatMap fun v => let p := f v; [p.x, p.y, p.z]
      pure (" ".intercalate (toString fs.length :: fs.map fHex))
  | ["c18", "holds", "outward_sample"] => do
      -- `OutwardAt` on a sample of the implementation's triangles, given by their corner positions (9 floats each)
      let (k, i) ← rdKindArg a 0
      let (sc, i) ← rdScalars k a i
      let (pos, i) ← rdFloats a i
      done a i
      if !admissible k || pos.size % 9 != 0 || pos.size == 0 then pure "false" else
      let p := posOf pos
      let nt := pos.size / 9
      let ts : List Tri := (List.range nt).map fun t => (3 * t, 3 * t + 1, 3 * t + 2)
      pure (boolStr (outwardAtB p (ctrOf k sc) ts))
  | ["c18", "nrm", kn] => do
      let (k, i) ← rdKind kn a 0
      let (sc, i) ← rdScalars k a i
      done a i
      if !admissible k then pure "panic" else
      let f ← modelNrm k sc
      pure (v3sStr (modelNV k) f)
  | ["c18", "merge", kn] => do
      let (k, i) ← rdKind kn a 0
      done a i
      if !admissible k then pure "panic" else
      let (ls, b) ← modelLabels k
      pure (natsStr (classReps ls b).toList)
  | ["c18", "holds", "closed_mod_merge"] => do
      let (k, i) ← rdKindArg a 0
      let (idx, i) ← rdNats a i
      done a i
      if !admissible k then pure "false" else
      let (ls, b) ← closedLabels k
      let lit := if idx.size ≤ literalLimit then closedLiteral k idx.toList else none
      pure (boolStr (closedByLabels ls b idx lit))
  | ["c18", "holds", "manifold"] => do
      -- one umbrella per merged vertex, and connected (predicates of Model/SolidsTopo.lean on the merged labels)
      let (k, i) ← rdKindArg a 0
      let (idx, i) ← rdNats a i
      done a i
      if !admissible k then pure "false" else
      let (ls, b) ← closedLabels k
      if !(idx.all (· < ls.size)) || idx.size % 3 != 0 then pure "false" else
      pure (boolStr (manifoldConnectedB b (idx.map fun v => ls.getD v b)))
  | ["c18", "holds", "closed_by_position"] => do
      let (cls, i) ← rdNats a 0
      let (idx, i) ← rdNats a i
      done a i
      let lit := if idx.size ≤ literalLimit then
          some (idx.all (· < cls.size) && decide (ClosedMod (fun v => cls.getD v cls.size) (unflat idx.toList)))
        else none
      pure (boolStr (closedByLabels cls cls.size idx lit))
  | ["c18", "holds", "outward"] => do
      let (k, i) ← rdKindArg a 0
      let (sc, i) ← rdScalars k a i
      let (pos, i) ← rdFloats a i
      let (idx, i) ← rdNats a i
      done a i
      if !admissible k then pure "false" else
      let ts := trisOfArray idx
      let p := posOf pos
      pure (boolStr (idx.size % 3 == 0 && outwardAtB p (ctrOf k sc) ts && decide (0.0 < volume6 p ts)))
  | ["c18", "holds", "volume"] => do
      let (k, i) ← rdKindArg a 0
      let (sc, i) ← rdScalars k a i
      let (pos, i) ← rdFloats a i
      let (idx, i) ← rdNats a i
      done a i
      if !admissible k then pure "false" else
      let (vpoly, vana, bound) ← volumeSpec k sc
      let ts := trisOfArray idx
      let v := volume6 (posOf pos) ts / 6.0
      let reltol : Float := if idx.size > 30000 then 1e-7 else 1e-9
      pure (boolStr (idx.size % 3 == 0 && volumeOK v vpoly vana bound reltol))
  | ["c18", "holds", "normals_outward"] => do
      let (k, i) ← rdKindArg a 0
      let (pos, i) ← rdFloats a i
      let (nrm, i) ← rdFloats a i
      let (idx, i) ← rdNats a i
      done a i
      if !admissible k then pure "false" else
      pure (boolStr (idx.size % 3 == 0 && pos.size == nrm.size &&
                     normalsOutwardB (posOf pos) (posOf nrm) (trisOfArray idx)))
  | _ => none

end Driver.C18

def main : IO Unit := Driver.runLoop Driver.C18.handle
