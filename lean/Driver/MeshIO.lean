/-
  Mesh line protocol shared by the C02 and C03 drivers (core Lean only).

  mesh  :=  "M" topo nIdx idx* nMat (count mat)* nAttr (width name len value*)*
            topo = Go iota of modeling.Topology; idx decimal ints; value = width 16-hex floats;
            attributes sorted by (width, name).  Shape form: tag "S", values omitted.
  Payload type of the driver: `List Float` (one vector), so the polymorphic layout models run
  on exactly the values the Go code moves.
-/
import Driver.Proto
import PolyVerif.Model.Mesh
import PolyVerif.Model.MeshOps

namespace Driver.MeshIO
open PolyVerif.Mesh

abbrev P := List Float          -- payload: one attribute element
abbrev MV := MeshVal P

/-- bit-exact payload comparison (Float has no lawful DecidableEq; compare bit patterns) -/
def pBits (p : P) : List UInt64 := p.map Float.toBits

abbrev PB := List UInt64        -- payload as bit patterns: has DecidableEq, used by oracles
abbrev MB := MeshVal PB

def toBitsMesh (m : MV) : MB :=
  { topology := m.topology, indices := m.indices, materials := m.materials,
    attrs := m.attrs.map fun kd => (kd.1, kd.2.map pBits) }

/-- a parser over the token list -/
abbrev Parser (β : Type) := List String → Option (β × List String)

def pNat : Parser Nat
  | t :: ts => (t.toNat?).map (·, ts)
  | [] => none

def pTok : Parser String
  | t :: ts => some (t, ts)
  | [] => none

def pMany {β : Type} (p : Parser β) : Nat → Parser (List β)
  | 0, ts => some ([], ts)
  | n + 1, ts => do
    let (x, ts) ← p ts
    let (xs, ts) ← pMany p n ts
    pure (x :: xs, ts)

def pCounted {β : Type} (p : Parser β) : Parser (List β) := fun ts => do
  let (n, ts) ← pNat ts
  pMany p n ts

def pFloat : Parser Float
  | t :: ts => (Driver.hexF? t).map (·, ts)
  | [] => none

def pMat : Parser MatRange := fun ts => do
  let (c, ts) ← pNat ts
  let (m, ts) ← pNat ts
  pure (⟨c, m⟩, ts)

def pAttr (full : Bool) : Parser (AttrKey × List P) := fun ts => do
  let (w, ts) ← pNat ts
  let (name, ts) ← pTok ts
  let (len, ts) ← pNat ts
  if full then
    let (vals, ts) ← pMany (pMany pFloat w) len ts
    pure ((⟨w, name⟩, vals), ts)
  else
    -- shape form ("S"): values omitted; every element is the empty payload
    pure ((⟨w, name⟩, List.replicate len []), ts)

def pMesh : Parser MV := fun ts => do
  let (tag, ts) ← pTok ts
  if tag ≠ "M" ∧ tag ≠ "S" then none
  let (t, ts) ← pNat ts
  let topo ← Topology.ofNat? t
  let (idx, ts) ← pCounted pNat ts
  let (mats, ts) ← pCounted pMat ts
  let (attrs, ts) ← pCounted (pAttr (tag == "M")) ts
  pure (⟨topo, idx, mats, attrs⟩, ts)

/-- insertion sort by canonical key order (attribute lists are short) -/
def sortAttrs {β : Type} (as : List (AttrKey × β)) : List (AttrKey × β) :=
  as.foldl (fun acc kd =>
    let (lo, hi) := acc.span (fun x => x.1.lt kd.1 || x.1 == kd.1)
    lo ++ [kd] ++ hi) []

/-- float token; every NaN is printed as one canonical pattern (the harness does the same) -/
def fHexN (x : Float) : String := if x != x then "7ff8000000000001" else Driver.fHex x

def showMesh (m : MV) : String :=
  let idx := m.indices.map toString
  let mats := m.materials.flatMap fun r => [toString r.count, toString r.mat]
  let attrs := (sortAttrs m.attrs).flatMap fun kd =>
    [toString kd.1.width, kd.1.name, toString kd.2.length] ++ kd.2.flatMap (fun v => v.map fHexN)
  " ".intercalate (["M", toString m.topology.toNat, toString idx.length] ++ idx ++
    [toString m.materials.length] ++ mats ++ [toString m.attrs.length] ++ attrs)

/-- shape only: topology, indices, materials, attribute names and lengths (C02 correspondence) -/
def showShape (m : MV) : String :=
  let idx := m.indices.map toString
  let mats := m.materials.flatMap fun r => [toString r.count, toString r.mat]
  let attrs := (sortAttrs m.attrs).flatMap fun kd => [toString kd.1.width, kd.1.name, toString kd.2.length]
  " ".intercalate (["S", toString m.topology.toNat, toString idx.length] ++ idx ++
    [toString m.materials.length] ++ mats ++ [toString m.attrs.length] ++ attrs)

def showOpt (show' : MV → String) : Option MV → String
  | some m => show' m
  | none => "rejected"

def zeroP (w : Nat) : P := List.replicate w 0.0

def nats (xs : List Nat) : String := " ".intercalate (xs.map toString)

end Driver.MeshIO
