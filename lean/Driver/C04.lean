import Driver.Proto
import Driver.PlyIO
import PolyVerif.Model.Ply
import PolyVerif.Model.PlyClaim

namespace Driver.C04
open PolyVerif.Ply Driver.PlyIO

/-- scalar equality inside oracles: identical bit patterns -/
local instance (priority := high) bitsBEq : BEq Float := ⟨fun a b => a.toBits == b.toBits⟩

/-- bitwise equality of two float meshes (after canonical ordering) -/
def meshEq (a b : MeshVal Float) : Bool := meshStr a == meshStr b

/-- strips the leading "ok" of a canonical mesh answer embedded in a request -/
def pOkMesh : P (MeshVal Float) := do
  match ← tok with
  | "ok" => do
    -- canonical form has no texuri token: re-insert
    let topo ← tok
    let rest ← get
    set (topo :: "none" :: rest)
    pMesh
  | _ => failure

def handle (op : String) (args : List String) : Option String :=
  match op with
  | "c04.write" => do
      let (cfg, m) ← run (do let c ← pCfg; let m ← pMesh; pure (c, m)) args
      pure (resStr hexOf (writeMesh codingF cfg m))
  | "c04.read" => do
      let bs ← run pBytes args
      pure (resStr meshStr (readMesh codingF defaultReader bs))
  | "c04.header" => do
      let bs ← run pBytes args
      pure (resStr (fun (p : Header × Bytes) => headerStr p.1 ++ s!" rest {p.2.length}") (parseHeader bs))
  | "c04.holds.roundtrip" | "c04.holds.pointcloud_index_buffer_witness" | "c04.holds.w_name_before_group_witness"
  | "c04.holds.w_name_captured_by_group_witness" | "c04.holds.ascii_out_of_range_witness" => do
      let (cfg, m, back) ← run (do let c ← pCfg; let m ← pMesh; let b ← pOkMesh; pure (c, m, b)) args
      pure (boolStr (RoundTrips codingF cfg m back))
  | "c04.holds.header_describes" => do
      let (bs, nv, nf, tri) ← run (do let b ← pBytes; let nv ← pNat; let nf ← pNat; let t ← pNat; pure (b, nv, nf, t)) args
      pure (boolStr (HeaderDescribes bs nv nf (tri = 1)))
  | "c04.holds.claim_ok" => do
      -- args: configuration, mesh, the HEADER bytes the real writer emitted.  `claimAgrees` (Model/PlyClaim.lean): the
      -- real header lists the properties the model writer lists and, inside `claimGuard`, the claim stage run on the
      -- REAL header builds exactly the predicted readers (theorems ply_reader_claims_predicted / ply_claim_stage)
      let (cfg, m, bs) ← run (do let c ← pCfg; let m ← pMesh; let b ← pBytes; pure (c, m, b)) args
      match parseHeader bs with
      | .ok (h, _) =>
        match (findElement h (nm "vertex")).bind (fun e => scalarProps e.props) with
        | some props => pure (boolStr (claimAgrees (selectWriters cfg m) props))
        | none => pure (boolStr false)
      | .error _ => pure (boolStr false)
  | "c04.holds.claim_guard_inside" => do
      -- corpus cases that must lie INSIDE the guards of the closed round-trip theorems (ASCII: asciiGuard as well)
      let (cfg, m) ← run (do let c ← pCfg; let m ← pMesh; pure (c, m)) args
      let ws := selectWriters cfg m
      pure (boolStr (claimGuard ws && (cfg.format != .ascii || asciiGuard ws)))
  | "c04.claim_guard" => do
      -- measuring aid (never emitted by the harness): is this configuration × mesh inside the header-level guard?
      let (cfg, m) ← run (do let c ← pCfg; let m ← pMesh; pure (c, m)) args
      pure (boolStr (claimGuard (selectWriters cfg m)) ++ " " ++ boolStr (asciiGuard (selectWriters cfg m)))
  | "c04.holds.encodings_agree" | "c04.holds.uchar_scalar_ascii_agrees" | "c04.holds.ascii_float32_tie_witness" => do
      let (a, b, c) ← run (do let a ← pOkMesh; let b ← pOkMesh; let c ← pOkMesh; pure (a, b, c)) args
      pure (boolStr (meshEq a b && meshEq b c))
  | "c04.holds.bad_name_write_rejected" =>
      -- args: result class of MeshWriter.Write, number of bytes written: an error and nothing written
      some (boolStr (match args with | ["err", "0"] => true | _ => false))
  | "c04.holds.header_cut_rejected" =>
      -- args: cut position, result class of ply.ReadHeader on the strict prefix; theorem ply_header_cut_bytes: an error
      some (boolStr (match args with | [_, "err"] => true | _ => false))
  | "c04.holds.entrypoints_agree" | "c04.holds.header_entrypoints_agree" | "c04.holds.save_agrees" =>
      some (boolStr (allSegmentsEqual args))
  | _ => none

end Driver.C04

def main : IO Unit := Driver.runLoop Driver.C04.handle
