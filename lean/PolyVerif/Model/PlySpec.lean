/-
  C08 — structured description of a PLY file as the format specification allows third-party tools to write it
  (`SpecFile`), an independent reference encoder `refEncode` written from the specification (NOT from the repo's
  writer: own header printer, alias spellings, comment / obj_info lines, CRLF, any property order, any list count /
  index type, quads), and `meaning`: the mesh the specification says the file denotes.  Core Lean only.
-/
import PolyVerif.Model.Ply

namespace PolyVerif
namespace PlySpec
open Ply

variable {α : Type}

/-- one stored scalar of a vertex record -/
inductive Datum (α : Type)
  | u8 (b : UInt8)      -- `uchar`
  | i32 (i : Int)       -- `int`   (−2³¹ ≤ i < 2³¹)
  | f32 (x : α)         -- `float`
  | f64 (x : α)         -- `double`
  deriving Repr, Inhabited

def Datum.ty : Datum α → SType
  | .u8 _ => .uchar | .i32 _ => .int | .f32 _ => .float | .f64 _ => .double

/-- the value the datum denotes; 8-bit values are normalised to [0,1] (the library's colour convention) -/
def Datum.val (c : Coding α) : Datum α → α
  | .u8 b => c.div255 (c.ofInt b.toNat)
  | .i32 i => c.ofInt i
  | .f32 x => x
  | .f64 x => x

structure SpecProp where
  name : Bytes
  ty : SType          -- uchar | int | float | double
  alias : Bool        -- spelled uint8 / int32 / float32 / float64
  deriving Repr, Inhabited

/-- comment / obj_info line -/
inductive HItem
  | comment (text : Bytes)
  | objInfo (text : Bytes)
  deriving Repr, Inhabited

/-- one face: 3 or 4 vertex numbers; `uv`: two texture coordinates per listed vertex; `extra`: an unrecognised list -/
structure SpecFace (α : Type) where
  verts : List Nat
  uv : List α
  extra : List Int
  deriving Repr, Inhabited

structure SpecFaceElem (α : Type) where
  idxNameShort : Bool           -- `vertex_index` instead of `vertex_indices`
  cntTy : SType                 -- uchar | int | uint
  idxTy : SType                 -- int | uint
  idxAlias : Bool
  tex : Option (SType × SType)  -- count type, item type (float | double) of `texcoord`
  texFirst : Bool               -- `texcoord` declared before the index list
  extra : Option Bool           -- an extra `list uchar int` property; `true` = declared first
  faces : List (SpecFace α)
  deriving Repr, Inhabited

structure SpecFile (α : Type) where
  format : Format
  crlf : Bool
  pre : List HItem                 -- after the format line
  vprops : List SpecProp           -- vertex properties, any order
  mid : List HItem                 -- after the vertex element
  post : List HItem                -- before end_header
  verts : List (List (Datum α))    -- one datum per property, in property order
  face : Option (SpecFaceElem α)
  deriving Repr, Inhabited

/-! ## Reference encoder (from the specification) -/

/-- canonical / alias spelling of a scalar type -/
def typeName (t : SType) (alias : Bool) : Bytes :=
  match t, alias with
  | .char, false => nm "char" | .char, true => nm "int8"
  | .uchar, false => nm "uchar" | .uchar, true => nm "uint8"
  | .short, false => nm "short" | .short, true => nm "int16"
  | .ushort, false => nm "ushort" | .ushort, true => nm "uint16"
  | .int, false => nm "int" | .int, true => nm "int32"
  | .uint, false => nm "uint" | .uint, true => nm "uint32"
  | .float, false => nm "float" | .float, true => nm "float32"
  | .double, false => nm "double" | .double, true => nm "float64"

def eol (crlf : Bool) : Bytes := if crlf then [13, 10] else [10]

def joinWords (ws : List Bytes) : Bytes := intercalate [32] ws

def hline (crlf : Bool) (ws : List Bytes) : Bytes := joinWords ws ++ eol crlf

def HItem.words : HItem → List Bytes
  | .comment t => [nm "comment", t]
  | .objInfo t => [nm "obj_info", t]

def formatWord : Format → Bytes
  | .ascii => nm "ascii" | .le => nm "binary_little_endian" | .be => nm "binary_big_endian"

/-- the list properties of the face element in declaration order: (kind, name, count type, item type, alias) ;
kind 0 = indices, 1 = texcoord, 2 = extra -/
def SpecFaceElem.lists (fe : SpecFaceElem α) : List (Nat × Bytes × SType × SType × Bool) :=
  let idx := (0, if fe.idxNameShort then nm "vertex_index" else nm "vertex_indices", fe.cntTy, fe.idxTy, fe.idxAlias)
  let tex := match fe.tex with
    | some (ct, it) => [(1, nm "texcoord", ct, it, false)]
    | none => []
  let core := if fe.texFirst then tex ++ [idx] else [idx] ++ tex
  match fe.extra with
  | none => core
  | some true => (2, nm "flags", SType.uchar, SType.int, false) :: core
  | some false => core ++ [(2, nm "flags", SType.uchar, SType.int, false)]

def specHeader (f : SpecFile α) : Bytes :=
  let l := hline f.crlf
  l [nm "ply"] ++ l [nm "format", formatWord f.format, nm "1.0"] ++
  (f.pre.map (fun i => l i.words)).flatten ++
  l [nm "element", nm "vertex", showNat f.verts.length] ++
  (f.vprops.map (fun p => l [nm "property", typeName p.ty p.alias, p.name])).flatten ++
  (f.mid.map (fun i => l i.words)).flatten ++
  (match f.face with
   | none => []
   | some fe =>
     l [nm "element", nm "face", showNat fe.faces.length] ++
     (fe.lists.map (fun (_, n, ct, it, al) => l [nm "property", nm "list", typeName ct false, typeName it al, n])).flatten) ++
  (f.post.map (fun i => l i.words)).flatten ++
  l [nm "end_header"]

/-- fixed-width field of an integer-valued count / index -/
def putCount (e : Endian) (t : SType) (n : Int) : Bytes :=
  match t with
  | .uchar => [UInt8.ofNat n.toNat]
  | _ => put32 e (ofInt32 n)

def Datum.bin (c : Coding α) (e : Endian) : Datum α → Bytes
  | .u8 b => [b]
  | .i32 i => put32 e (ofInt32 i)
  | .f32 x => put32 e (c.f32 x)
  | .f64 x => put64 e (c.f64 x)

def Datum.ascii (c : Coding α) : Datum α → Bytes
  | .u8 b => showNat b.toNat
  | .i32 i => showInt i
  | .f32 x => c.showF x
  | .f64 x => c.showF x

def putItemF (c : Coding α) (e : Endian) (t : SType) (x : α) : Bytes :=
  match t with
  | .double => put64 e (c.f64 x)
  | _ => put32 e (c.f32 x)

/-- the payload of list `kind` of a face, as integers (indices, extra) or scalars (texcoord) -/
def faceListBin (c : Coding α) (e : Endian) (fc : SpecFace α) : Nat × Bytes × SType × SType × Bool → Bytes
  | (0, _, ct, it, _) => putCount e ct fc.verts.length ++ (fc.verts.map (fun v => putCount e it (v : Nat))).flatten
  | (1, _, ct, it, _) => putCount e ct fc.uv.length ++ (fc.uv.map (putItemF c e it)).flatten
  | (_, _, ct, it, _) => putCount e ct fc.extra.length ++ (fc.extra.map (fun v => putCount e it v)).flatten

def faceListAscii (c : Coding α) (fc : SpecFace α) : Nat × Bytes × SType × SType × Bool → List Bytes
  | (0, _, _, _, _) => showNat fc.verts.length :: fc.verts.map showNat
  | (1, _, _, _, _) => showNat fc.uv.length :: fc.uv.map c.showF
  | (_, _, _, _, _) => showNat fc.extra.length :: fc.extra.map showInt

def specBody (c : Coding α) (f : SpecFile α) : Bytes :=
  match f.format with
  | .ascii =>
    (f.verts.map (fun r => joinWords (r.map (Datum.ascii c)) ++ [10])).flatten ++
    (match f.face with
     | none => []
     | some fe => (fe.faces.map (fun fc => joinWords (fe.lists.map (faceListAscii c fc)).flatten ++ [10])).flatten)
  | fm =>
    let e := fm.endian
    (f.verts.map (fun r => (r.map (Datum.bin c e)).flatten)).flatten ++
    (match f.face with
     | none => []
     | some fe => (fe.faces.map (fun fc => (fe.lists.map (faceListBin c e fc)).flatten)).flatten)

def refEncode (c : Coding α) (f : SpecFile α) : Bytes := specHeader f ++ specBody c f

/-! ## Meaning (what the specification, with the usual naming conventions, says the file denotes) -/

/-- recognised naming conventions: attribute, property names, whether the 4th may be absent -/
def groups : List (Bytes × List Bytes × Bool) :=
  defaultReaders.map (fun r => (r.attr, r.names, r.ignorableW))

def colOf (c : Coding α) (f : SpecFile α) (name : Bytes) : Option (List α) :=
  match (f.vprops.map (·.name)).idxOf? name with
  | none => none
  | some k => f.verts.mapM (fun r => (r[k]?).map (Datum.val c))

/-- transpose columns of equal length into per-vertex component lists -/
def zipCols : Nat → List (List α) → List (List α)
  | 0, _ => []
  | n + 1, cols => cols.filterMap List.head? :: zipCols n (cols.map List.tail)

/-- the names a group uses in this file: all of them, or the first three when the fourth may be absent -/
def groupNames (present : List Bytes) (g : Bytes × List Bytes × Bool) : Option (List Bytes) :=
  if g.2.1.all present.contains then some g.2.1
  else if g.2.2 ∧ g.2.1.length = 4 ∧ (g.2.1.take 3).all present.contains then some (g.2.1.take 3)
  else none

/-- fan triangles over the listed vertices of a triangle or quad -/
def fan : List Nat → List Int
  | [a, b, c] => [a, b, c]
  | [a, b, c, d] => [a, b, c, a, c, d]
  | _ => []

/-- per-corner UVs of the fan triangles -/
def fanUV : List α → List (List α)
  | [u0, v0, u1, v1, u2, v2] => [[u0, v0], [u1, v1], [u2, v2]]
  | [u0, v0, u1, v1, u2, v2, u3, v3] => [[u0, v0], [u1, v1], [u2, v2], [u0, v0], [u2, v2], [u3, v3]]
  | _ => []

def meaning (c : Coding α) (f : SpecFile α) : Option (MeshVal α) := do
  let nv := f.verts.length
  let present := f.vprops.map (·.name)
  let used := groups.filterMap (fun g => (groupNames present g).map (fun ns => (g.1, ns)))
  let claimed := (used.map (·.2)).flatten
  let scalars := present.filter (fun n => !claimed.contains n)
  let vecAttrs ← used.mapM (fun (attr, ns) => do
    let cols ← ns.mapM (colOf c f)
    pure (ns.length, attr, zipCols nv cols))
  let scalarAttrs ← scalars.mapM (fun n => do
    let col ← colOf c f n
    pure (1, n, col.map (fun v => [v])))
  let base : MeshVal α := ⟨.point, (List.range nv).map Int.ofNat, [], none⟩
  let withAttrs := (vecAttrs ++ scalarAttrs).foldl (fun m (d, a, data) => m.set d a data) base
  match f.face with
  | none => pure withAttrs
  | some fe =>
    let idx := (fe.faces.map (fun fc => fan fc.verts)).flatten
    let tri : MeshVal α := { withAttrs with topo := .triangle, indices := idx }
    match (if idx.isEmpty then none else fe.tex) with
    | none => pure tri      -- no texture coordinates, or no face at all: vertices stay as they are
    | some _ =>
      -- per-corner texture coordinates: every corner becomes its own vertex
      let corners ← tri.attrs.mapM (fun a => do
        let d ← (gather a.data idx).toOption
        pure (⟨a.dim, a.name, d⟩ : Attr α))
      let uvs := (fe.faces.map (fun fc => fanUV fc.uv)).flatten
      pure (({ tri with indices := (List.range idx.length).map Int.ofNat, attrs := corners } : MeshVal α).set 2 texCoordAttr uvs)

end PlySpec
end PolyVerif
