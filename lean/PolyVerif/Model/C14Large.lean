/-
  C14 — SIZE-ONLY oracle predicates for cuts of LARGE files (core Lean only; linked into driver_c14).

  A cut of a valid file is described by sizes alone: the declared element count, the record size / header length /
  number of complete lines present, the file length, the cut position.  The verdict of a reader is reduced to
  `Verdict` (error, or ok with the number of elements returned).  `Props/C14Large.lean` PROVES that the verdict of the
  full reader models of Model/Readers.lean (readStl, Splat.readRecs, readPly, readPts) on `take k file`, for EVERY
  valid file and EVERY cut, is the function of the sizes defined here — so the driver evaluating these predicates on
  the sizes + the implementation's verdict is the prefix theorems compiled, not a second implementation, and no file
  bytes have to cross the protocol (the files are megabytes: cuts at 65536 records, 100000 lines, 1 MiB).
-/
namespace PolyVerif
namespace C14Large

/-- error, or ok with the number of elements returned (triangles / vertices / points) -/
abbrev Verdict := Option Nat

/-! ## binary STL: 80-byte header, uint32 count, `n` records of 50 bytes -/

def stlLen (n : Nat) : Nat := 84 + 50 * n

/-- every strict prefix is rejected; the complete file returns its `n` triangles -/
def stlVerdict (n k : Nat) : Verdict := if k < stlLen n then none else some n

/-- `c14.holds.large_cut_stl n len k verdict` -/
def stlCutOk (n len k : Nat) (v : Verdict) : Bool :=
  len == stlLen n && decide (k ≤ len) && v == stlVerdict n k

/-! ## .splat: `n` records of 32 bytes, record-streamed -/

/-- exactly the records wholly present; the ErrUnexpectedEOF flag iff the cut is inside a record -/
def splatVerdict (k : Nat) : Nat × Bool := (k / 32, k % 32 != 0)

/-- `c14.holds.large_cut_splat n len k count flag` -/
def splatCutOk (n len k cnt : Nat) (short : Bool) : Bool :=
  len == 32 * n && decide (k ≤ len) && (cnt, short) == splatVerdict k

/-! ## binary PLY: header text of `hlen` bytes, `vcount` records of `vsize` bytes, `fbytes` bytes of face records -/

def plyLen (hlen vcount vsize fbytes : Nat) : Nat := hlen + vcount * vsize + fbytes

/-- verdict = (vertex records, face records) -/
def plyVerdict (hlen vcount vsize fcount fbytes k : Nat) : Option (Nat × Nat) :=
  if k < plyLen hlen vcount vsize fbytes then none else some (vcount, fcount)

/-- `c14.holds.large_cut_ply hlen vcount vsize fcount fbytes len k verdict` -/
def plyCutOk (hlen vcount vsize fcount fbytes len k : Nat) (v : Option (Nat × Nat)) : Bool :=
  len == plyLen hlen vcount vsize fbytes && decide (k ≤ len) && v == plyVerdict hlen vcount vsize fcount fbytes k

/-! ## PTS text: count line, then `n` point lines of `fpp` single-space separated tokens, LF line ends.
    A token-boundary cut is: the count line and `j` complete point lines (with their LF), then the first `t ≤ fpp`
    tokens of point line `j` (`t = fpp`: the whole line without its LF), optionally the separating space. -/

/-- whole point lines in the prefix -/
def ptsWhole (fpp j t : Nat) : Nat := if t = fpp then j + 1 else j

/-- a cut that the size-only law speaks about: at least one whole point line precedes a partial line
    (a cut inside the FIRST point line is the one-point special case of `pts_first_line_bytes`, not a large-file cut) -/
def ptsCutValid (n fpp j t : Nat) (sp : Bool) : Bool :=
  decide (3 ≤ fpp) && decide (t ≤ fpp) &&
  (if j < n then (t == 0 || decide (1 ≤ j)) && (!sp || (decide (0 < t) && decide (t < fpp)))
   else j == n && t == 0 && !sp)

/-- fewer whole lines than declared → rejected; all lines (the last with or without its LF) → the `n` points -/
def ptsVerdict (n fpp j t : Nat) : Verdict := if ptsWhole fpp j t < n then none else some n

/-- byte position of such a cut when every token is `tw` bytes wide and the count line (with LF) `clen` bytes -/
def ptsCutPos (clen tw fpp j t : Nat) (sp : Bool) : Nat :=
  clen + j * (fpp * (tw + 1)) + (if t = 0 then 0 else t * (tw + 1) - 1) + (if sp then 1 else 0)

/-- `c14.holds.large_cut_pts n fpp clen tw len j t sp k verdict` -/
def ptsCutOk (n fpp clen tw len j t : Nat) (sp : Bool) (k : Nat) (v : Verdict) : Bool :=
  ptsCutValid n fpp j t sp && len == clen + n * (fpp * (tw + 1)) && k == ptsCutPos clen tw fpp j t sp &&
  decide (k ≤ len) && v == ptsVerdict n fpp j t

end C14Large
end PolyVerif
