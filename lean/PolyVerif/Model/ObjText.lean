/-
  C05 — the INTEGER part of the OBJ text layer, core Lean only (linked into `driver_c05`).

  * `showInt`  = Go `strconv.Itoa` (FormatInt base 10: `-` for negatives, no leading zeros, `0` for 0);
  * `parseInt` = Go `strconv.Atoi` (one optional leading `+`/`-`, then at least one character, ASCII digits
    only — no `_`, no base prefix — and the value must fit an int64, else range error);
  * `showCorner`  = the face-corner token written by /repo/formats/obj/writer.go (`v`, `v/vt`, `v//vn`, `v/vt/vn`);
  * `parseCorner` = `parseObjFaceComponent` (/repo/formats/obj/reader.go:79-133): `strings.Contains(·, "/")`,
    `strings.Split(·, "//")`, `strings.Split(·, "/")`, the `-1` sentinel is applied later (`Obj.slot`).

  The driver prints every face index with `showCorner` and parses every face token with `parseCorner`, so these
  very definitions are tied text-exactly to the Go code by `c05.write` / `c05.read` (and `c05.itoa` / `c05.atoi`).
  The laws `parseInt (showInt n) = some n`, `parseCorner (showCorner c) = ok c` are theorems
  (`PolyVerif/Props/C05Text.lean`).
-/
import PolyVerif.Model.Obj

namespace PolyVerif.ObjText
open Obj

/-! ### decimal integers -/

def digitChar (d : Nat) : Char :=
  match d with
  | 0 => '0' | 1 => '1' | 2 => '2' | 3 => '3' | 4 => '4'
  | 5 => '5' | 6 => '6' | 7 => '7' | 8 => '8' | _ => '9'

def isDigit (c : Char) : Bool := '0' ≤ c && c ≤ '9'

def digitVal (c : Char) : Nat := c.toNat - '0'.toNat

/-- decimal digits, most significant first (`formatBits`, base 10) -/
def showNat (n : Nat) : List Char :=
  if n < 10 then [digitChar n] else showNat (n / 10) ++ [digitChar (n % 10)]
decreasing_by omega

def digitsVal (cs : List Char) : Nat := cs.foldl (fun a c => a * 10 + digitVal c) 0

/-- `strconv.Itoa`, as characters -/
def showIntL : Int → List Char
  | .ofNat k => showNat k
  | .negSucc k => '-' :: showNat (k + 1)

/-- one optional leading sign -/
def splitSign : List Char → Bool × List Char
  | '-' :: r => (true, r)
  | '+' :: r => (false, r)
  | cs => (false, cs)

/-- `strconv.Atoi`, on characters: `none` = syntax error or range error (int is 64 bits) -/
def parseIntL (cs : List Char) : Option Int :=
  let (neg, ds) := splitSign cs
  if ds.isEmpty || !ds.all isDigit then none
  else
    let v := digitsVal ds
    if neg then (if v ≤ 2 ^ 63 then some (-(v : Int)) else none)
    else (if v < 2 ^ 63 then some (v : Int) else none)

/-- `strconv.Itoa` -/
def showInt (n : Int) : String := String.ofList (showIntL n)

/-- `strconv.Atoi` -/
def parseInt (s : String) : Option Int := parseIntL s.toList

/-! ### face-corner tokens -/

/-- `strings.Split(s, "/")` on characters -/
def splitS : List Char → List (List Char)
  | [] => [[]]
  | c :: r =>
    if c = '/' then [] :: splitS r
    else match splitS r with
      | h :: t => (c :: h) :: t
      | [] => [[c]]

/-- `strings.Split(s, "//")` on characters (leftmost, non-overlapping) -/
def splitDS : List Char → List (List Char)
  | [] => [[]]
  | c :: r =>
    if c = '/' ∧ r.head? = some '/' then [] :: splitDS r.tail
    else match splitDS r with
      | h :: t => (c :: h) :: t
      | [] => [[c]]
termination_by l => l.length
decreasing_by
  all_goals simp_wf
  · cases r <;> simp; omega

def isSpace (c : Char) : Bool := c == ' ' || c == '\t' || c == '\n' || c == '\r' || c.toNat == 11 || c.toNat == 12

def showCornerL (c : Corner) : List Char :=
  match c.vt, c.vn with
  | none, none => showNat c.v
  | some t, none => showNat c.v ++ '/' :: showNat t
  | none, some n => showNat c.v ++ '/' :: '/' :: showNat n
  | some t, some n => showNat c.v ++ '/' :: (showNat t ++ '/' :: showNat n)

/-- the corner token the writer emits: `v`, `v/vt`, `v//vn`, `v/vt/vn` (indices printed by `strconv.Itoa`) -/
def showCorner (c : Corner) : String := String.ofList (showCornerL c)

def intOf (ds : List Char) : Except Err Int :=
  match parseIntL ds with
  | some i => .ok i
  | none => .error .err

/-- the raw ints of a parsed token: a negative one panics at the pool lookup (also `minInt64 - 1`, which wraps
    to `maxInt64`) -/
def finCorner (v : Int) (vt vn : Option Int) : Except Err Corner :=
  if v < 0 || (vt.any (· < 0)) || (vn.any (· < 0)) then .error .panic
  else .ok ⟨v.toNat, vt.map Int.toNat, vn.map Int.toNat⟩

/-- `parseObjFaceComponent`, on characters, over the integer parser `intOf` (a parameter only so that the
    print/parse law can also be stated without the int64 bound; the code is `parseCornerL`) -/
def parseCornerG (intOf : List Char → Except Err Int) (cs : List Char) : Except Err Corner :=
  if !((splitS cs).length > 1) then
    match intOf cs with
    | .error e => .error e
    | .ok v => finCorner v none none
  else if (splitDS cs).length > 1 then
    let parts := splitDS cs
    match intOf (parts.getD 0 []) with
    | .error e => .error e
    | .ok v =>
      let p1 := parts.getD 1 []
      if p1.all isSpace then finCorner v none none        -- `strings.TrimSpace(components[1]) != ""`
      else match intOf p1 with
        | .error e => .error e
        | .ok vn => finCorner v none (some vn)
  else
    let parts := splitS cs
    match intOf (parts.getD 0 []) with
    | .error e => .error e
    | .ok v =>
      match intOf (parts.getD 1 []) with
      | .error e => .error e
      | .ok vt =>
        if parts.length == 3 then
          match intOf (parts.getD 2 []) with
          | .error e => .error e
          | .ok vn => finCorner v (some vt) (some vn)
        else finCorner v (some vt) none

/-- `parseObjFaceComponent`, on characters (`strconv.Atoi` for the indices) -/
def parseCornerL (cs : List Char) : Except Err Corner := parseCornerG intOf cs

/-- `parseObjFaceComponent` -/
def parseCorner (t : String) : Except Err Corner := parseCornerL t.toList

end PolyVerif.ObjText
