/-
  The callback family of modeling/mesh.go (core Lean only):
    ScanFloat{1,2,3,4}Attribute (+Parallel, +ParallelWithPoolSize), ScanPrimitives (+Parallel…)   mesh.go:444-690
    ModifyFloat{1,2,3}Attribute (+Parallel, +ParallelWithPoolSize)                               mesh.go:691-862
  A scan runs the callback for its side effects and returns the receiver; a modify replaces ONE attribute array by
  `[f(0, d[0]), f(1, d[1]), …]`.  `none` = the Go method panics (attribute missing, pool size < 1, topology without
  primitives scan).  The parallel variants differ only in the ORDER in which the callback is invoked (C10).
-/
import PolyVerif.Model.MeshOps

namespace PolyVerif.Mesh
variable {α : Type}

namespace MeshVal

/-- `ScanFloatNAttribute(k, f)` (any variant; `pool` = worker pool size, 1 for the sequential method) -/
def scanAttr (m : MeshVal α) (k : AttrKey) (pool : Nat) : Option (MeshVal α) :=
  if m.hasAttr k ∧ 1 ≤ pool then some m else none

/-- the callback invocations `(i, d[i])` of the sequential scan, in call order -/
def scanVisits (m : MeshVal α) (k : AttrKey) : Option (List (Nat × α)) :=
  (m.attr? k).map fun d => (List.range d.length).zip d

/-- `ScanPrimitives(f)`: supported for triangle, point and line-strip meshes -/
def scanPrimitives (m : MeshVal α) (pool : Nat) : Option (MeshVal α) :=
  if (m.topology = .triangle ∨ m.topology = .point ∨ m.topology = .lineStrip) ∧ 1 ≤ pool then some m else none

/-- `ModifyFloatNAttribute(k, f)` (any variant): attribute `k` becomes `[f 0 d[0], f 1 d[1], …]` -/
def modifyAttrIdx (m : MeshVal α) (k : AttrKey) (pool : Nat) (f : Nat → α → α) : Option (MeshVal α) :=
  if 1 ≤ pool then m.modifyAttr k (fun d => d.mapIdx f) else none

end MeshVal
end PolyVerif.Mesh
