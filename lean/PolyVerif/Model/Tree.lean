/-
  C16 — spatial indices: model of /repo/trees/octree.go and /repo/rendering/bvh.go, hit.go.

  Part 1 (generic, geometry abstract): the tree shapes and the query algorithms,
  parametrised by the box type `B`, the element type `E` and the tests the Go code
  performs on them.  The theorems of `Props/C16.lean` are about these definitions.

  Part 2 (concrete, over `[Scalar α]`): the slab test of `AABB.IntersectsRayInRange`
  (hand-modelled: the Go helper works through pointers), the element kinds of
  `modeling/{point,line}.go` and `trees.BoundingBoxElement`, `newOctree`
  (octant assignment, depth cut-off, single-child collapse) and the five queries
  instantiated with the translated AABB code of `Gen/Transform.lean`.
  Run at `Float` by the driver (bit-for-bit against Go), reasoned about at `ℝ`.

  Core Lean only.
-/
import PolyVerif.Gen.Transform
import PolyVerif.Gen.Trees

namespace PolyVerif
namespace Tree

/-! ## Part 1 — generic trees -/

/-- `trees.OctTree`: `bounds`, `elements`, `children` (the non-nil children, in order). -/
inductive Oct (B E : Type) where
  | node (bounds : B) (elems : List E) (children : List (Oct B E))

variable {B E P K σ : Type}

def Oct.bounds : Oct B E → B
  | .node b _ _ => b

/-- every element stored in the tree, in the order the recursive queries visit them -/
def Oct.allElems : Oct B E → List E
  | .node _ es cs => es ++ cs.flatMap (fun c => c.allElems)

/-- number of nodes + number of stored elements (fuel of the best-first search) -/
def Oct.weight : Oct B E → Nat
  | .node _ es cs => 1 + es.length + (cs.map (fun c => c.weight)).sum

/-- The shape shared by `ElementsWithinRange` and `ElementsIntersectingRay`
    (octree.go:22-42, 83-102): test the node's bounds on entry, keep the node's own
    elements that pass the element test, append what the children return. -/
def Oct.pruned (prune : B → Bool) (accept : E → Bool) : Oct B E → List E
  | .node b es cs =>
    if prune b then [] else es.filter accept ++ cs.flatMap (fun c => c.pruned prune accept)

/-- `ElementsContainingPoint` (octree.go:65-81): the node's own bounds are NOT tested;
    a child is entered only if its bounds pass. -/
def Oct.containing (inB : B → Bool) (accept : E → Bool) : Oct B E → List E
  | .node _ es cs =>
    es.filter accept ++ cs.flatMap (fun c => if inB c.bounds then c.containing inB accept else [])

/-- `TraverseIntersectingRay` (octree.go:44-63).  The callback may move the range
    (`*min`, `*max`); changes made while visiting a node's own elements are passed down to
    its children, changes made inside a child do not reach its siblings (passed by value).
    `σ` is whatever the callback accumulates. -/
def Oct.traverse (slabB : B → K → K → Bool) (slabE : E → K → K → Bool)
    (it : E → K × K → σ → (K × K) × σ) : Oct B E → K × K → σ → σ
  | .node b es cs, rng, s =>
    if !slabB b rng.1 rng.2 then s else
    let st := es.foldl (fun (st : (K × K) × σ) e =>
      if slabE e st.1.1 st.1.2 then it e st.1 st.2 else st) (rng, s)
    cs.foldl (fun s c => c.traverse slabB slabE it st.1 s) st.2

/-- `octDistItem`: either a cell or an element together with its closest point -/
inductive Item (B E P K : Type) where
  | cell (k : K) (c : Oct B E)
  | elem (k : K) (e : E) (pt : P)

def Item.key : Item B E P K → K
  | .cell k _ => k
  | .elem k _ _ => k

/-- `heap.Pop`: remove an item of minimal key (the first minimal one; which of several
    equal keys `container/heap` returns is unspecified — "ties aside"). -/
def extractMin (lt : K → K → Bool) : List (Item B E P K) → Option (Item B E P K × List (Item B E P K))
  | [] => none
  | x :: xs =>
    match extractMin lt xs with
    | none => some (x, [])
    | some (m, rest) => if lt m.key x.key then some (m, x :: rest) else some (x, xs)

/-- The loop of `OctTree.ClosestPoint` (octree.go:145-175).  `fuel` bounds the number of
    pops; `Oct.closest` supplies enough (proved in Props). -/
def bestFirst (lt : K → K → Bool) (keyB : B → K) (cp : E → P) (keyP : P → K) :
    Nat → List (Item B E P K) → Option (E × P)
  | 0, _ => none
  | fuel + 1, q =>
    match extractMin lt q with
    | none => none
    | some (.elem _ e pt, _) => some (e, pt)
    | some (.cell _ (.node _ es cs), rest) =>
      bestFirst lt keyB cp keyP fuel
        (rest ++ cs.map (fun c => Item.cell (keyB c.bounds) c)
              ++ es.map (fun e => Item.elem (keyP (cp e)) e (cp e)))

/-- `OctTree.ClosestPoint`: `none` stands for the `(-1, zero)` return -/
def Oct.closest (lt : K → K → Bool) (keyB : B → K) (cp : E → P) (keyP : P → K) (t : Oct B E) : Option (E × P) :=
  bestFirst lt keyB cp keyP (t.weight + 1) [Item.cell (keyB t.bounds) t]

/-! ### BVH (rendering/bvh.go, hit.go) -/

/-- `BVHNode` with `Hittable` children: a child is another node or a primitive. -/
inductive Bvh (B H : Type) where
  | leaf (h : H)
  | node (box : B) (l r : Bvh B H)

variable {H : Type}

def Bvh.leaves : Bvh B H → List H
  | .leaf h => [h]
  | .node _ l r => l.leaves ++ r.leaves

/-- `BVHNode.Hit` (bvh.go:135-146): `primHit h min max` is the primitive's `Hit` (the distance it
    writes into the record, `none` = returns false and leaves the record alone).  The answer is the
    distance left in the shared record (`some`) / the returned flag (`isSome`). -/
def Bvh.hit (slab : B → K → K → Bool) (primHit : H → K → K → Option K) : Bvh B H → K → K → Option K
  | .leaf h, mn, mx => primHit h mn mx
  | .node b l r, mn, mx =>
    if !slab b mn mx then none else
    let hl := l.hit slab primHit mn mx
    let rT := match hl with | some d => d | none => mx
    match r.hit slab primHit mn rT with
    | some d => some d
    | none => hl

/-- `HitList.Hit` (hit.go:11-27) -/
def listHit (primHit : H → K → K → Option K) (hs : List H) (mn mx : K) : Option K :=
  (hs.foldl (fun (st : Option K × K) h =>
      match primHit h mn st.2 with
      | some d => (some d, d)
      | none => st) (none, mx)).1

/-- `NewBVHTree` (bvh.go:66-113).  `reorder` stands for "pick a random axis, then `sort.Sort`
    (unstable) / compare" — any function returning a permutation; `union` is
    `NewEmptyAABB` + two `EncapsulateBounds`.  `fuel` ≥ length. -/
def Bvh.boxOf (boxH : H → B) : Bvh B H → B
  | .leaf h => boxH h
  | .node b _ _ => b

def bvhBuild (reorder : List H → List H) (boxH : H → B) (union : B → B → B) :
    Nat → List H → Option (Bvh B H)
  | 0, _ => none
  | _ + 1, [] => none
  | _ + 1, [a] => some (.node (union (boxH a) (boxH a)) (.leaf a) (.leaf a))
  | _ + 1, [a, b] =>
    match reorder [a, b] with
    | [x, y] => some (.node (union (boxH x) (boxH y)) (.leaf x) (.leaf y))
    | _ => none
  | fuel + 1, hs =>
    let s := reorder hs
    let mid := s.length / 2
    match bvhBuild reorder boxH union fuel (s.take mid), bvhBuild reorder boxH union fuel (s.drop mid) with
    | some l, some r => some (.node (union (l.boxOf boxH) (r.boxOf boxH)) l r)
    | _, _ => none

/-! ## Part 2 — concrete geometry over a scalar -/

open Scalar Gen.geometry
variable {α : Type} [Scalar α]

/-- `kEpsilon = 0.0000000001` of `IntersectsRayInRange` -/
@[inline] def kEps : α := lit 1 10000000000

/-- the arithmetic of `intersectsRayInRangeComponent` (aabb.go:210-228) as written; returns (reject?, t_min', t_max') -/
def slabArith (origin dir tmin tmax boxMin boxMax : α) : Bool × α × α :=
  let invD := ((1 : Nat) : α) / dir
  let t0 := (boxMin - origin) * invD
  let t1 := (boxMax - origin) * invD
  let lo := if t1 < t0 then t1 else t0
  let hi := if t1 < t0 then t0 else t1
  let tmin := if tmin < lo then lo else tmin
  let tmax := if hi < tmax then hi else tmax
  (decide (tmax ≤ tmin), tmin, tmax)

/-- `intersectsRayInRangeComponent`, with the IEEE outcome of a ZERO direction component made explicit, so that
    the real-number reading is faithful for axis-parallel rays too (over ℝ, `1/0` would read as `0`).
    In Go `invD = 1/±0 = ±Inf`:
      * origin strictly inside the slab: `t0, t1 = ∓Inf, ±Inf` — the range is left as it is;
      * origin strictly outside on one side: `t0 = t1 = ±Inf` — one end of the range becomes infinite: reject;
      * origin exactly on a face (`0·Inf = NaN`: accepted for `+0`, rejected for `-0`) or an inverted slab:
        the arithmetic itself.
    At `Float` all three branches equal `slabArith` bit-for-bit (for non-NaN ranges), which the correspondence
    `c16.aabb.ray` checks — zero components of both signs and origins exactly on the widened face included. -/
def slabComponent (origin dir tmin tmax boxMin boxMax : α) : Bool × α × α :=
  if dir == ((0 : Nat) : α) then
    if boxMin < origin && origin < boxMax then (decide (tmax ≤ tmin), tmin, tmax)
    else if (origin < boxMin && origin < boxMax) || (boxMin < origin && boxMax < origin) then (true, tmin, tmax)
    else slabArith origin dir tmin tmax boxMin boxMax
  else slabArith origin dir tmin tmax boxMin boxMax

/-- `AABB.IntersectsRayInRange` (aabb.go:189-208) -/
def intersectsRayInRange (b : AABB α) (o d : V3 α) (mn mx : α) : Bool :=
  let boxMin := b.Min
  let boxMax := b.Max
  let rx := slabComponent o.x d.x mn mx (boxMin.x - kEps) (boxMax.x + kEps)
  if rx.1 then false else
  let ry := slabComponent o.y d.y rx.2.1 rx.2.2 (boxMin.y - kEps) (boxMax.y + kEps)
  if ry.1 then false else
  let rz := slabComponent o.z d.z ry.2.1 ry.2.2 (boxMin.z - kEps) (boxMax.z + kEps)
  if rz.1 then false else true

/-- the element kinds (geometry modelled concretely) -/
inductive Prim (α : Type) where
  | point (p : V3 α)                    -- modeling.scopedPoint
  | seg (a b : V3 α)                    -- modeling.scopedLine
  | box (b : AABB α)                    -- trees.BoundingBoxElement
  | tri (a b c : V3 α)                  -- modeling.scopedTri

/-- `NewAABBFromPoints(a, b)` (aabb.go:52-73).  The Go loop starts from ±Inf; for non-NaN
    inputs `min(v, +Inf) = v`, so the fold is started at the first point. -/
def aabbFromPoints2 (a b : V3 α) : AABB α :=
  let mn := V3.New (min b.x a.x) (min b.y a.y) (min b.z a.z)
  let mx := V3.New (max b.x a.x) (max b.y a.y) (max b.z a.z)
  let area := mx.Sub mn
  NewAABB ((area.Scale (lit 1 2)).Add mn) area

/-- `NewAABBFromPoints(a, b, c)` -/
def aabbFromPoints3 (a b c : V3 α) : AABB α :=
  let mn := V3.New (min c.x (min b.x a.x)) (min c.y (min b.y a.y)) (min c.z (min b.z a.z))
  let mx := V3.New (max c.x (max b.x a.x)) (max c.y (max b.y a.y)) (max c.z (max b.z a.z))
  let area := mx.Sub mn
  NewAABB ((area.Scale (lit 1 2)).Add mn) area

/-- `scopedTri.PointInSide` (modeling/tri.go:33-60, as fixed by /repo f8880ab: all three pairs of normals agree) -/
def triPointInSide (pa pb pc p : V3 α) : Bool :=
  let a := pa.Sub p
  let b := pb.Sub p
  let c := pc.Sub p
  let u := b.Cross c
  let v := c.Cross a
  if u.Dot v < ((0 : Nat) : α) then false
  else
    let w := a.Cross b
    decide (((0 : Nat) : α) ≤ u.Dot w) && decide (((0 : Nat) : α) ≤ v.Dot w)

/-- `scopedTri.ClosestPoint` (modeling/tri.go:58-86) -/
def triClosestPoint (pa pb pc p : V3 α) : V3 α :=
  let closestPoint := (NewPlaneFromPoints pa pb pc).ClosestPoint p
  if triPointInSide pa pb pc closestPoint then closestPoint
  else
    let c1 := (NewLine3D pa pb).ClosestPointOnLine closestPoint
    let c2 := (NewLine3D pb pc).ClosestPointOnLine closestPoint
    let c3 := (NewLine3D pc pa).ClosestPointOnLine closestPoint
    let mag1 := (closestPoint.Sub c1).LengthSquared
    let mag2 := (closestPoint.Sub c2).LengthSquared
    let mag3 := (closestPoint.Sub c3).LengthSquared
    let m := min (min mag1 mag2) mag3
    if m == mag1 then c1 else if m == mag2 then c2 else c3

def Prim.boundingBox : Prim α → AABB α
  | .point p => NewAABB p V3.Zero
  | .seg a b => aabbFromPoints2 a b
  | .box b => b
  | .tri a b c => aabbFromPoints3 a b c

def Prim.closestPoint : Prim α → V3 α → V3 α
  | .point p, _ => p
  | .seg a b, v => (NewLine3D a b).ClosestPointOnLine v
  | .box b, v => b.ClosestPoint v
  | .tri a b c, v => triClosestPoint a b c v

/-- `elementReference` -/
structure Elem (α : Type) where
  prim : Prim α
  box : AABB α
  id : Nat

/-- `octreeIndex` (octree.go:180-197) -/
def octreeIndex (center item : V3 α) : Nat :=
  (if item.x < center.x then 1 else 0) + (if item.y < center.y then 2 else 0) +
  (if item.z < center.z then 4 else 0)

/-- which of the eight buckets an element goes to (octree.go:241-254) -/
def octant (center : V3 α) (b : AABB α) : Nat :=
  let distMin := center.Distance b.Min
  let distMax := center.Distance b.Max
  if distMax < distMin then octreeIndex center b.Min else octreeIndex center b.Max

/-- `math.Nextafter(1, 2) - 1 = 2⁻⁵²` -/
@[inline] def ulpOne : α := lit 1 4503599627370496

/-- `math.SmallestNonzeroFloat64 = 2⁻¹⁰⁷⁴`, as an exact product of two normal powers of two
    (`2¹⁰⁷⁴` itself is not a finite float, so `lit 1 (2^1074)` would not do at `Float`) -/
@[inline] def smallestNonzero : α := lit 1 (2 ^ 537) * lit 1 (2 ^ 537)

/-- The inner `for !Contains(min) || !Contains(max) { Expand; widen *= 2 }` loop for one element box
    (octree.go:223-231).  State: (bounds, widen).  The Go loop is unbounded; `widen` doubles every turn, so
    at `Float` the expansion is `+Inf` after fewer than 1200 turns and the loop has ended — `n` is that fuel. -/
def widenFor (item : AABB α) : Nat → AABB α × α → AABB α × α
  | 0, st => st
  | n + 1, (b, w) =>
    if b.Contains item.Min && b.Contains item.Max then (b, w)
    else
      let size := b.Size.MaxComponent + b.Center.Abs.MaxComponent
      widenFor item n (b.Expand (max (size * w) smallestNonzero), w * ((2 : Nat) : α))

def widenFuel : Nat := 1200

/-- bounds of an inner node / depth-0 leaf (octree.go:213-231): start from the first element's box,
    encapsulate every element's box (the first one again), then widen until every element box is contained. -/
def boundsOf (boxOf : E → AABB α) (e0 : E) (es : List E) : AABB α :=
  let b := es.foldl (fun b e => b.EncapsulateBounds (boxOf e)) (boxOf e0)
  (es.foldl (fun st e => widenFor (boxOf e) widenFuel st) (b, ulpOne)).1

/-- `newOctree` (octree.go:199-299); `none` = the nil tree of an empty element list.
    `leftOver` is always empty in the Go code, so inner nodes hold no elements. -/
def build (boxOf : E → AABB α) : Nat → List E → Option (Oct (AABB α) E)
  | _, [] => none
  | _, [e] => some (.node (boxOf e) [e] [])
  | 0, e0 :: e1 :: es => some (.node (boundsOf boxOf e0 (e0 :: e1 :: es)) (e0 :: e1 :: es) [])
  | d + 1, e0 :: e1 :: es =>
    let all := e0 :: e1 :: es
    let bounds := boundsOf boxOf e0 all
    let c := bounds.Center
    let children := (List.range 8).filterMap (fun k =>
      build boxOf d (all.filter (fun e => octant c (boxOf e) == k)))
    match children with
    | [ch] => some ch
    | _ => some (.node bounds [] children)

/-- `NewOctreeWithDepth` (octree.go:314-324) -/
def mkElems (ps : List (Prim α)) : List (Elem α) :=
  (ps.zip (List.range ps.length)).map (fun (p, i) => ⟨p, p.boundingBox, i⟩)

def newOctreeWithDepth (ps : List (Prim α)) (depth : Nat) : Option (Oct (AABB α) (Elem α)) :=
  build Elem.box depth (mkElems ps)

/-- the five queries as the Go methods compute them -/
def elementsContainingPoint (t : Oct (AABB α) (Elem α)) (v : V3 α) : List Nat :=
  (t.containing (fun b => b.Contains v) (fun e => e.box.Contains v)).map Elem.id

def elementsWithinRange (t : Oct (AABB α) (Elem α)) (p : V3 α) (r : α) : List Nat :=
  (t.pruned (fun b => decide (r < (b.ClosestPoint p).Distance p))
            (fun e => decide ((e.box.ClosestPoint p).Distance p ≤ r))).map Elem.id

def elementsIntersectingRay (t : Oct (AABB α) (Elem α)) (o d : V3 α) (mn mx : α) : List Nat :=
  (t.pruned (fun b => !intersectsRayInRange b o d mn mx)
            (fun e => intersectsRayInRange e.box o d mn mx)).map Elem.id

/-- `TraverseIntersectingRay` with a callback that records the index and leaves the range alone -/
def traverseIntersectingRay (t : Oct (AABB α) (Elem α)) (o d : V3 α) (mn mx : α) : List Nat :=
  (t.traverse (fun b lo hi => intersectsRayInRange b o d lo hi)
      (fun e lo hi => intersectsRayInRange e.box o d lo hi)
      (fun e rng (acc : List Nat) => (rng, e.id :: acc)) (mn, mx) []).reverse

def closestPoint (t : Oct (AABB α) (Elem α)) (v : V3 α) : Option (Nat × V3 α) :=
  (t.closest (fun (a b : α) => decide (a < b)) (fun b => (b.ClosestPoint v).DistanceSquared v)
      (fun e => e.prim.closestPoint v) (fun pt => pt.DistanceSquared v)).map (fun (e, pt) => (e.id, pt))

/-- `OctreeDepthFromCount` (octree.go:301-307), at `Float` -/
def octreeDepthFromCount (count : Nat) : Nat :=
  let x := Float.round (Float.log count.toFloat / Float.log 8.0)
  let m := if 1.0 < x then x else 1.0
  m.toUInt64.toNat

end Tree
end PolyVerif
