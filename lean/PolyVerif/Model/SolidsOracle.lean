/-
  C18 — helpers for the correspondence driver (`Driver/C18.lean`), core Lean only.

    * `closedFast`: an O(n log n) decision of the closedness predicate `Solids.Closed` for triangles over
      `Nat` labels, used for meshes too big for the literal quadratic `decide (Closed …)`; on small meshes
      the driver evaluates both and requires them to agree.
    * merge-map helpers (labels of logical points, class representatives),
    * total position lookup (out of range → NaN, so that every predicate evaluated on it is FALSE),
    * chunked evaluation of the `∀ t ∈ ts` predicates of `Solids` (the same predicate on consecutive chunks:
      `∀ t ∈ a ++ b, P t ↔ (∀ t ∈ a, P t) ∧ (∀ t ∈ b, P t)`), to keep the recursion depth bounded,
    * the polyhedral / analytic volume formulas at `Float`.

  Nothing in here is used by a theorem; it is part of the tie (trusted like the harness).
-/
import PolyVerif.Model.Solids
import PolyVerif.Model.SolidsTopo

namespace PolyVerif.SolidsOracle
open PolyVerif PolyVerif.Solids

/-! ## fast closedness -/

/-- strictly increasing ⇒ sorted without duplicates -/
def strictlyIncreasing (a : Array Nat) : Bool := Id.run do
  let mut ok := true
  for i in [1:a.size] do
    if !(a.getD (i - 1) 0 < a.getD i 0) then ok := false
  return ok

/-- `Closed` for triangles over labels `< n`, by sorting.
    Directed edge `(a, b)` ↦ key `a*n + b` (injective for `a, b < n`).  Checks
      * all labels `< n` (otherwise the encoding is not injective: answer `false`),
      * no loop `a = b`,
      * the sorted keys are strictly increasing (every directed edge occurs once: `Nodup`),
      * the sorted keys of the reversed edges `b*n + a` are the same array (the reverse of every edge occurs:
        reversal is injective, so the reversed keys are duplicate-free too, and two duplicate-free
        sorted arrays are equal iff they have the same elements). -/
def closedFastArr (n : Nat) (corner : Array Nat) : Bool := Id.run do
  -- `corner` = flat list of labels, three per triangle; a trailing partial triangle is dropped (as `unflat` does)
  let nt := corner.size / 3
  let mut keys : Array Nat := Array.mkEmpty (3 * nt)
  let mut rkeys : Array Nat := Array.mkEmpty (3 * nt)
  let mut ok := true
  for t in [0:nt] do
    let a := corner.getD (3 * t) n
    let b := corner.getD (3 * t + 1) n
    let c := corner.getD (3 * t + 2) n
    if a ≥ n || b ≥ n || c ≥ n then ok := false
    if a == b || b == c || c == a then ok := false
    keys := ((keys.push (a * n + b)).push (b * n + c)).push (c * n + a)
    rkeys := ((rkeys.push (b * n + a)).push (c * n + b)).push (a * n + c)
  if !ok then return false
  let ks := keys.qsort (· < ·)
  let rs := rkeys.qsort (· < ·)
  return strictlyIncreasing ks && ks == rs

/-- list version: `closedFast n ts = decide (Closed ts)` whenever all labels are `< n` -/
def closedFast (n : Nat) (ts : List (Nat × Nat × Nat)) : Bool :=
  closedFastArr n (ts.foldl (fun acc t => ((acc.push t.1).push t.2.1).push t.2.2) (Array.mkEmpty (3 * ts.length)))

/-! ## merge maps as labels -/

/-- labels of the logical points `pt v`, `v < nv`: `(r, c) ↦ r * m + c` with `m = 1 + max column`; also returns the
    label bound `(1 + max ring) * m` -/
def lpLabels (nv : Nat) (pt : Nat → LP) : Array Nat × Nat := Id.run do
  let mut mc := 0
  let mut mr := 0
  for v in [0:nv] do
    let p := pt v
    if p.2 > mc then mc := p.2
    if p.1 > mr then mr := p.1
  let m := mc + 1
  let mut out : Array Nat := Array.mkEmpty nv
  for v in [0:nv] do
    let p := pt v
    out := out.push (p.1 * m + p.2)
  return (out, (mr + 1) * m)

/-- `c_v` = the smallest `w ≤ v` with `label w = label v` (labels `< bound`) -/
def classReps (labels : Array Nat) (bound : Nat) : Array Nat := Id.run do
  let unset := labels.size
  let mut first : Array Nat := Array.replicate bound unset
  let mut out : Array Nat := Array.mkEmpty labels.size
  for v in [0:labels.size] do
    let l := labels.getD v 0
    let f := first.getD l unset
    if f == unset then
      first := first.setIfInBounds l v
      out := out.push v
    else
      out := out.push f
  return out

/-! ## total lookups, triangle lists from arrays, chunking -/

def nan : Float := 0.0 / 0.0

/-- vertex `v` of a flat `x y z x y z …` array; out of range → NaN (every strict inequality on it is false) -/
def posOf (a : Array Float) (v : Nat) : V3 Float :=
  if 3 * v + 2 < a.size then ⟨a.getD (3 * v) nan, a.getD (3 * v + 1) nan, a.getD (3 * v + 2) nan⟩
  else ⟨nan, nan, nan⟩

/-- the triangle list of a flat index array, built back to front without deep recursion;
    equals `unflat idx.toList` (a trailing partial triangle is dropped) -/
def trisOfArray (idx : Array Nat) : List Tri := Id.run do
  let nt := idx.size / 3
  let mut out : List Tri := []
  for k in [0:nt] do
    let t := nt - 1 - k
    out := (idx.getD (3 * t) 0, idx.getD (3 * t + 1) 0, idx.getD (3 * t + 2) 0) :: out
  return out

/-- consecutive chunks of at most `k+1` elements -/
def chunks {β : Type} (k : Nat) (l : List β) : List (List β) := Id.run do
  let a := l.toArray
  let sz := k + 1
  let nc := (a.size + sz - 1) / sz
  let mut out : List (List β) := []
  for j in [0:nc] do
    let c := nc - 1 - j
    out := (a.extract (c * sz) (min a.size ((c + 1) * sz))).toList :: out
  return out

/-- `OutwardAt pos ctr ts`, evaluated chunk by chunk -/
def outwardAtB (pos : Nat → V3 Float) (ctr : V3 Float) (ts : List Tri) : Bool :=
  (chunks 511 ts).all fun c => decide (OutwardAt pos ctr c)

/-- `NormalsOutward pos nrm ts`, evaluated chunk by chunk -/
def normalsOutwardB (pos nrm : Nat → V3 Float) (ts : List Tri) : Bool :=
  (chunks 511 ts).all fun c => decide (NormalsOutward pos nrm c)

/-! ## volumes

  A UV sphere of `R` rows, `C` columns, radius `r` is a stack of `R` frusta whose cross-sections are
  regular `C`-gons (the first and last degenerate to pyramids).  A frustum of height `h` between regular
  `C`-gons of circumradius `a`, `b` has volume `h · (C/6) · sin(2π/C) · (a² + ab + b²)`
  (`= h/3 · (A₁ + √(A₁A₂) + A₂)` with `A = (C/2) sin(2π/C) a²`).  With levels `φ_k = πk/R`,
  `a = r sin φ_k`, `h = r (cos φ_k − cos φ_{k+1})`:

    `Vpoly(sphere) = r³ · (C/6) · sin(2π/C) · Σ_{k<R} (cos φ_k − cos φ_{k+1}) (s_k² + s_k s_{k+1} + s_{k+1}²)`.

  The hemisphere has rings at polar angle `ψ_i = π/2 − πi/(2R)`, `i = 0..R-2` (from the equator up) and the
  pole `ψ_{R-1} = 0`; its flat cap does not contribute:

    `Vpoly(hemi) = r³ · (C/6) · sin(2π/C) · Σ_{i<R-1} (cos ψ_{i+1} − cos ψ_i) (s_i² + s_i s_{i+1} + s_{i+1}²)`.

  Cylinder of `S` sides: the prism over a regular `S`-gon, `Vpoly = (S/2) sin(2π/S) r² h`.  Box: `w h d`. -/

def fpi : Float := (Scalar.pi : Float)

def ngon6 (c : Nat) : Float := (Float.ofNat c / 6.0) * Float.sin (2.0 * fpi / Float.ofNat c)

/-- `Σ_k (cos l_k − cos l_{k+1}) (s_k² + s_k s_{k+1} + s_{k+1}²)` over consecutive levels (polar angles, increasing) -/
def frustumSum (levels : Array Float) : Float := Id.run do
  let mut acc : Float := 0.0
  for k in [1:levels.size] do
    let a := levels.getD (k - 1) nan
    let b := levels.getD k nan
    let sa := Float.sin a
    let sb := Float.sin b
    acc := acc + (Float.cos a - Float.cos b) * (sa * sa + sa * sb + sb * sb)
  return acc

def sphereLevels (rows : Nat) : Array Float :=
  ((List.range (rows + 1)).map fun k => fpi * Float.ofNat k / Float.ofNat rows).toArray

/-- pole first (`ψ = 0`), then the rings from the top one (`i = R-2`) down to the equator (`i = 0`) -/
def hemiLevels (rows : Nat) : Array Float :=
  (0.0 :: (List.range (rows - 1)).reverse.map fun i => fpi / 2.0 - fpi * Float.ofNat i / (2.0 * Float.ofNat rows)).toArray

/-- the stack-of-frusta sum (the inscribed polyhedron computed slab by slab) -/
def sphereVfrusta (r : Float) (rows cols : Nat) : Float := r * r * r * ngon6 cols * frustumSum (sphereLevels rows)

/-- the closed form of theorem `C18.uvSphere_volume`: `(C r³/3) sin(2π/C) (1 + cos(π/R))` -/
def sphereVclosed (r : Float) (rows cols : Nat) : Float :=
  Float.ofNat cols * (r * r * r) / 3.0 * Float.sin (2.0 * fpi / Float.ofNat cols) * (1.0 + Float.cos (fpi / Float.ofNat rows))

/-- the theorem's closed form, provided the independent stack-of-frusta sum agrees with it to 1e-9 (else NaN, which
    makes `volumeOK` false) -/
def sphereVpoly (r : Float) (rows cols : Nat) : Float :=
  let a := sphereVclosed r rows cols
  let b := sphereVfrusta r rows cols
  if (a - b).abs ≤ 1e-9 * a.abs then a else nan

/-- relative deficit bound of theorem `C18.uvSphere_volume_bounds`: `2π²/(3C²) + π²/(4R²)` -/
def sphereDeficitBound (rows cols : Nat) : Float :=
  2.0 * fpi * fpi / (3.0 * Float.ofNat cols * Float.ofNat cols) + fpi * fpi / (4.0 * Float.ofNat rows * Float.ofNat rows) + 1e-12

/-- relative deficit bound of theorem `C18.cylinder_volume_bounds`: `2π²/(3S²)` -/
def cylDeficitBound (sides : Nat) : Float :=
  2.0 * fpi * fpi / (3.0 * Float.ofNat sides * Float.ofNat sides) + 1e-12
def sphereVana (r : Float) : Float := 4.0 / 3.0 * fpi * r * r * r
def hemiVfrusta (r : Float) (rows cols : Nat) : Float := r * r * r * ngon6 cols * frustumSum (hemiLevels rows)

/-- the closed form of theorem `C18.hemisphere_volume` -/
def hemiVclosed (r : Float) (rows cols : Nat) : Float :=
  let x := fpi / Float.ofNat rows
  Float.ofNat cols * (r * r * r) / 6.0 * Float.sin (2.0 * fpi / Float.ofNat cols) *
    (Float.sin x * Float.sin x + Float.cos x * (1.0 + Float.cos (x / 2.0)))

/-- the theorem's closed form, provided the independent stack-of-frusta sum agrees with it to 1e-9 (else NaN) -/
def hemiVpoly (r : Float) (rows cols : Nat) : Float :=
  let a := hemiVclosed r rows cols
  let b := hemiVfrusta r rows cols
  if (a - b).abs ≤ 1e-9 * a.abs then a else nan

/-- relative deficit bound of theorem `C18.hemisphere_volume_bounds`: `2π²/(3C²) + 5π²/(16R²)` -/
def hemiDeficitBound (rows cols : Nat) : Float :=
  2.0 * fpi * fpi / (3.0 * Float.ofNat cols * Float.ofNat cols) + 5.0 * fpi * fpi / (16.0 * Float.ofNat rows * Float.ofNat rows) + 1e-12
def hemiVana (r : Float) : Float := 2.0 / 3.0 * fpi * r * r * r
def cylVpoly (r h : Float) (sides : Nat) : Float := (Float.ofNat sides / 2.0) * Float.sin (2.0 * fpi / Float.ofNat sides) * r * r * h
def cylVana (r h : Float) : Float := fpi * r * r * h

/-- relative volume deficit allowed for the UV sphere / hemisphere: `K (1/R² + 1/C²)`, clamped to 1 -/
def uvBound (k : Float) (rows cols : Nat) : Float :=
  let b := k * (1.0 / (Float.ofNat rows * Float.ofNat rows) + 1.0 / (Float.ofNat cols * Float.ofNat cols))
  if b < 1.0 then b else 1.0

/-- `|V − Vpoly| ≤ reltol·Vana  ∧  Vpoly ≤ Vana (1 + 1e-12)  ∧  Vana − Vpoly ≤ bound·Vana`; any NaN → false -/
def volumeOK (v vpoly vana bound reltol : Float) : Bool :=
  (v - vpoly).abs ≤ reltol * vana && vpoly ≤ vana * (1.0 + 1e-12) && vana - vpoly ≤ bound * vana && 0.0 < vana

/-! ## vertex-manifoldness / connectedness of label-valued triangle lists -/

/-- fast connectedness on labels `< n`: label propagation (every vertex takes the minimum label of its neighbours)
    until nothing changes (at most `n` rounds); connected iff all used vertices end with the same label -/
def connectedFast (n : Nat) (corner : Array Nat) : Bool := Id.run do
  if corner.size == 0 then return true
  let mut comp : Array Nat := (List.range (n + 1)).toArray
  let nt := corner.size / 3
  for _ in [0:n + 1] do
    let mut changed := false
    for t in [0:nt] do
      let a := corner.getD (3 * t) n; let b := corner.getD (3 * t + 1) n; let c := corner.getD (3 * t + 2) n
      let m := min (comp.getD a n) (min (comp.getD b n) (comp.getD c n))
      if comp.getD a n != m then comp := comp.setIfInBounds a m; changed := true
      if comp.getD b n != m then comp := comp.setIfInBounds b m; changed := true
      if comp.getD c n != m then comp := comp.setIfInBounds c m; changed := true
    if !changed then break
  let c0 := comp.getD (corner.getD 0 n) n
  return corner.all fun v => comp.getD v n == c0

/-- `VertexManifold ∧ Connected` of the label-valued triangle list: the literal predicates of `Model/SolidsTopo.lean`
    (`Connected` literally only up to `connLiteralLimit` indices, always cross-checked with / replaced by `connectedFast`) -/
def connLiteralLimit : Nat := 400

def manifoldConnectedB (n : Nat) (corner : Array Nat) : Bool :=
  let ts := trisOfArray corner
  let vm := decide (VertexManifold ts)
  let cf := connectedFast n corner
  let cl := if corner.size ≤ connLiteralLimit then decide (Connected ts) else cf
  vm && cf && cl

end PolyVerif.SolidsOracle
