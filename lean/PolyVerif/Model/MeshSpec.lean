/-
  C03 contracts as decidable predicates `Spec input output` (core Lean only).
  The theorems of `Props/C03.lean` state `WF m → Spec m (op m)` for the models; the driver
  evaluates the very same predicates on (input, implementation output) for the `c03.holds.*`
  oracle lines.  `corners` hides vertex numbering: only what a reader sees per index position counts.
-/
import PolyVerif.Model.MeshOps

namespace PolyVerif.Mesh
variable {α : Type}

/-- apply the winding flip to a per-corner list -/
def flipList {β : Type} (l : List β) : List β := untriples ((triples l).map fun t => (t.2.1, t.1, t.2.2))

/-- keep the entries of `l` at the positions where `flags` is true -/
def keepAt {β : Type} (flags : List Bool) (l : List β) : List β :=
  (l.zip flags).filterMap fun xb => if xb.2 then some xb.1 else none

namespace MeshVal

/-- topology and material ranges untouched -/
def SameFrame (m out : MeshVal α) : Prop := out.topology = m.topology ∧ out.materials = m.materials
instance (m out : MeshVal α) : Decidable (SameFrame m out) := by unfold SameFrame; infer_instance

section
variable [DecidableEq α]

/-- Unweld: same corners in the same order, identity indices, exactly one vertex per index (no extra,
    unreferenced vertex), nothing else touched. -/
def UnweldSpec (m out : MeshVal α) : Prop :=
  SameFrame m out ∧ out.indices = List.range m.indices.length ∧ out.attrLen = m.indices.length ∧
  out.corners = m.corners
instance (m out : MeshVal α) : Decidable (UnweldSpec m out) := by unfold UnweldSpec; infer_instance

/-- RemovedUnreferencedVertices: same corners in the same order (attribute arrays that end up
    empty are dropped, which happens exactly when there is no index at all). -/
def RemoveUnrefSpec (m out : MeshVal α) : Prop :=
  SameFrame m out ∧ out.corners = (if m.indices = [] then [] else m.corners)
instance (m out : MeshVal α) : Decidable (RemoveUnrefSpec m out) := by unfold RemoveUnrefSpec; infer_instance

/-- every vertex of `out` is referenced by some index -/
def AllReferenced (out : MeshVal α) : Prop := ∀ v ∈ List.range out.attrLen, v ∈ out.indices
instance (out : MeshVal α) : Decidable (AllReferenced out) := by unfold AllReferenced; infer_instance

/-- FlipTriangleWinding: the first two corners of every triangle are swapped, vertex data untouched. -/
def FlipSpec (m out : MeshVal α) : Prop :=
  SameFrame m out ∧ out.attrs = m.attrs ∧
  out.corners = m.corners.map fun kc => (kc.1, flipList kc.2)
instance (m out : MeshVal α) : Decidable (FlipSpec m out) := by unfold FlipSpec; infer_instance

/-- ToPointCloud: attribute arrays untouched; one point per vertex unless already a point cloud. -/
def ToPointCloudSpec (m out : MeshVal α) : Prop :=
  out.topology = .point ∧ out.materials = m.materials ∧ out.attrs = m.attrs ∧
  out.indices = (if m.topology = .point then m.indices else List.range m.attrLen)
instance (m out : MeshVal α) : Decidable (ToPointCloudSpec m out) := by unfold ToPointCloudSpec; infer_instance

/-- the corner list of attribute `k` in `x`, or `n` zero corners when `x` lacks the attribute -/
def cornersOrZero (zero : Nat → α) (x : MeshVal α) (k : AttrKey) : List (Option α) :=
  match x.cornersOf k with
  | some l => l
  | none => List.replicate x.indices.length (some (zero k.width))

/-- Append: corners of `a` followed by corners of `b`, attribute by attribute, an attribute
    missing on one side reads as zeros there; no other attribute appears; materials concatenated. -/
def AppendSpec (zero : Nat → α) (a b out : MeshVal α) : Prop :=
  out.topology = a.topology ∧ out.materials = a.materials ++ b.materials ∧
  (∀ k ∈ out.keys, k ∈ a.keys ∨ k ∈ b.keys) ∧
  (∀ k ∈ a.keys ++ b.keys, out.cornersOf k = some (cornersOrZero zero a k ++ cornersOrZero zero b k))
instance (zero : Nat → α) (a b out : MeshVal α) : Decidable (AppendSpec zero a b out) := by
  unfold AppendSpec; infer_instance

/-- what one copy of `repeat.Mesh` contributes to the corner list of key `k`: the corners of `m` with the
    position attribute mapped by `φ` (nothing if the mesh has no position attribute) -/
def copyCorners (zero : Nat → α) (pos : AttrKey) (m : MeshVal α) (k : AttrKey) (φ : α → α) : List (Option α) :=
  match m.mapAttr pos φ with
  | some c => cornersOrZero zero c k
  | none => []

/-- a transform of attribute `k`: indices, topology, materials and every other attribute untouched -/
def FrameSpec (k : AttrKey) (m out : MeshVal α) : Prop :=
  SameFrame m out ∧ out.indices = m.indices ∧
  (∀ k' ∈ m.keys ++ out.keys, k' ≠ k → out.attr? k' = m.attr? k')
instance (k : AttrKey) (m out : MeshVal α) : Decidable (FrameSpec k m out) := by unfold FrameSpec; infer_instance

/-- which corners pass a vertex predicate on attribute `k` -/
def cornerFlags (m : MeshVal α) (k : AttrKey) (p : α → Bool) : List Bool :=
  match m.cornersOf k with
  | some l => l.map fun o => match o with | some x => p x | none => false
  | none => []

/-- FilterFloatN: exactly the corners whose vertex passes survive, in order, all attributes together
    (if none survives there is no attribute array left). -/
def FilterSpec (k : AttrKey) (p : α → Bool) (m out : MeshVal α) : Prop :=
  SameFrame m out ∧
  out.corners = (if keepAt (cornerFlags m k p) m.indices = [] then []
                 else m.corners.map fun kc => (kc.1, keepAt (cornerFlags m k p) kc.2))
instance (k : AttrKey) (p : α → Bool) (m out : MeshVal α) : Decidable (FilterSpec k p m out) := by
  unfold FilterSpec; infer_instance

/-- CropFloat3Attribute on an identity-indexed point cloud: exactly the points inside survive, in order. -/
def CropSpec (k : AttrKey) (inside : α → Bool) (m out : MeshVal α) : Prop :=
  out.topology = .point ∧ out.materials = m.materials ∧ out.indices = List.range out.attrLen ∧
  out.corners = (if keepAt (cornerFlags m k inside) m.indices = [] then []
                 else m.corners.map fun kc => (kc.1, keepAt (cornerFlags m k inside) kc.2))
instance (k : AttrKey) (inside : α → Bool) (m out : MeshVal α) : Decidable (CropSpec k inside m out) := by
  unfold CropSpec; infer_instance

/-- one flag per corner from one flag per triangle -/
def triFlags (m : MeshVal α) (keep : Nat → Nat → Nat → Bool) : List Bool :=
  (triples m.indices).flatMap fun t => List.replicate 3 (keep t.1 t.2.1 t.2.2)

/-- RemoveNullFaces3D: exactly the triangles the predicate keeps survive, in order, with all their
    corner attributes; when nothing is removed the mesh is returned as it is. -/
def RemoveNullFacesSpec (keep : Nat → Nat → Nat → Bool) (m out : MeshVal α) : Prop :=
  SameFrame m out ∧
  (if (triFlags m keep).all id then out = m
   else out.corners = (if keepAt (triFlags m keep) m.indices = [] then []
                       else m.corners.map fun kc => (kc.1, keepAt (triFlags m keep) kc.2)))
instance (keep : Nat → Nat → Nat → Bool) (m out : MeshVal α) : Decidable (RemoveNullFacesSpec keep m out) := by
  unfold RemoveNullFacesSpec; infer_instance

/-- per-triangle material: the ranges written out -/
def matOfTris (ms : List MatRange) : List Nat := ms.flatMap fun r => List.replicate r.count r.mat

/-- distinct values in order of first appearance -/
def dedupNat (l : List Nat) : List Nat := l.foldl (fun acc x => if acc.contains x then acc else acc ++ [x]) []

/-- what one part of a split must be: the triangles assigned material `μ`, in order, with all their
    corner attributes, under the single material range `⟨count, μ⟩` -/
def PartSpec (m : MeshVal α) (assign : List Nat) (p : MeshVal α) (μ : Nat) : Prop :=
  p.topology = m.topology ∧ p.materials = [⟨(assign.filter (· == μ)).length, μ⟩] ∧
  p.corners =
    (if keepAt (assign.flatMap fun ν => List.replicate 3 (ν == μ)) m.indices = [] then []
     else m.corners.map fun kc => (kc.1, keepAt (assign.flatMap fun ν => List.replicate 3 (ν == μ)) kc.2))
instance (m : MeshVal α) (assign : List Nat) (p : MeshVal α) (μ : Nat) : Decidable (PartSpec m assign p μ) := by
  unfold PartSpec; infer_instance

/-- SplitOnUniqueMaterials: with fewer than two ranges the mesh is returned as it is; otherwise the
    ranges must cover every triangle, there is one part per distinct material in order of first
    appearance (the first range's material always first, even when empty), and the parts partition
    the triangles by material. -/
def SplitSpec (m : MeshVal α) (parts : List (MeshVal α)) : Prop :=
  if m.materials.length < 2 then parts = [m]
  else
    ((matOfTris m.materials).take (triples m.indices).length).length = (triples m.indices).length ∧
    parts.length = (dedupNat ((m.materials.map (·.mat)).take 1 ++
                      (matOfTris m.materials).take (triples m.indices).length)).length ∧
    ∀ pm ∈ parts.zip (dedupNat ((m.materials.map (·.mat)).take 1 ++
                        (matOfTris m.materials).take (triples m.indices).length)),
      PartSpec m ((matOfTris m.materials).take (triples m.indices).length) pm.1 pm.2
instance (m : MeshVal α) (parts : List (MeshVal α)) : Decidable (SplitSpec m parts) := by
  unfold SplitSpec; infer_instance

section weld
variable {K : Type} [DecidableEq K]

/-- the first vertex whose key equals the key of vertex `i` -/
def firstOfClass (key : α → K) (d : List α) (i : Nat) : Option Nat :=
  match d[i]? with
  | some x => d.findIdx? fun y => decide (key y = key x)
  | none => none

def distinctKeys (key : α → K) (d : List α) (t : Nat × Nat × Nat) : Bool :=
  match d[t.1]?, d[t.2.1]?, d[t.2.2]? with
  | some x, some y, some z => decide (key x ≠ key y ∧ key x ≠ key z ∧ key y ≠ key z)
  | _, _, _ => false

/-- algorithm-independent description of the welded index list in the input's vertex numbering -/
def weldReindex (key : α → K) (d : List α) (idx : List Nat) : List Nat :=
  (untriples ((triples idx).filter (distinctKeys key d))).filterMap (firstOfClass key d)

/-- WeldByFloat3Attribute: the surviving triangles are exactly those with three distinct keys, in
    order; every surviving corner carries the attribute tuple of the first vertex of its key class;
    every vertex is referenced; materials are cleared. -/
def WeldSpec (k : AttrKey) (key : α → K) (m out : MeshVal α) : Prop :=
  out.topology = m.topology ∧ out.materials = [] ∧ AllReferenced out ∧
  match m.attr? k with
  | none => False
  | some d => out.corners = (m.setIndices (weldReindex key d m.indices)).corners
instance (k : AttrKey) (key : α → K) (m out : MeshVal α) : Decidable (WeldSpec k key m out) := by
  unfold WeldSpec; split <;> infer_instance

end weld

end
end MeshVal
end PolyVerif.Mesh
