/-
  C10 — small-step model of the job / result channel protocol of AddFieldParallel, AddFieldParallel2 and
  marchFloat1Parallel (modeling/marching/canvas.go).  Core Lean only.

      jobs := make(chan J, jobsCap); results := make(chan R, resCap)
      for w := 0; w < workers; w++ { go func() { for j := range jobs { work(j); [results <- f j] }; [results <- done] }() }
      for … { jobs <- j }            -- producer (the calling goroutine), jobs in `toSend` order
      close(jobs)
      for i := 0; i < expect; i++ { <-results … }          -- collector (the calling goroutine)

  A channel is a FIFO queue with a capacity; a send needs room (or, for any capacity including 0, a waiting receiver:
  `handoff`), a receive needs a message; `range jobs` ends when the queue is empty and the channel closed.
  `Mode.perJob`: a worker sends one result per job (AddFieldParallel2, marchFloat1Parallel); `Mode.perWorker`: it sends one
  completion message when its loop ends (AddFieldParallel).  `processed` is a ghost log of completed jobs.
-/
namespace PolyVerif.Par.Chan

inductive Mode | perJob | perWorker
  deriving DecidableEq, Repr

inductive Msg (R : Type) | res (r : R) | done
  deriving DecidableEq, Repr

inductive W (J : Type) | idle | busy (j : J) | exited
  deriving DecidableEq, Repr

structure Cfg (J R : Type) where
  toSend : List J
  closed : Bool
  jobsQ : List J
  workers : List (W J)
  resQ : List (Msg R)
  processed : List J
  toCollect : Nat
  collected : List (Msg R)

/-- jobs currently held by workers (received, work not finished) -/
def held {J : Type} (ws : List (W J)) : List J := ws.filterMap fun | W.busy j => some j | _ => none

def exitedCount {J : Type} (ws : List (W J)) : Nat := ws.countP fun | W.exited => true | _ => false

def init {J R : Type} (jobs : List J) (workers expect : Nat) : Cfg J R :=
  { toSend := jobs, closed := false, jobsQ := [], workers := List.replicate workers W.idle, resQ := [],
    processed := [], toCollect := expect, collected := [] }

inductive Step {J R : Type} (mode : Mode) (jobsCap resCap : Nat) (f : J → R) : Cfg J R → Cfg J R → Prop
  /-- `jobs <- j` into the buffer -/
  | send {c : Cfg J R} {j : J} {t : List J} : c.toSend = j :: t → c.jobsQ.length < jobsCap →
      Step mode jobsCap resCap f c { c with toSend := t, jobsQ := c.jobsQ ++ [j] }
  /-- `jobs <- j` straight to a worker waiting in `range jobs` (the only way when the channel is unbuffered) -/
  | handoff {c : Cfg J R} {j : J} {t : List J} {ws1 ws2 : List (W J)} : c.toSend = j :: t → c.jobsQ = [] →
      c.workers = ws1 ++ W.idle :: ws2 →
      Step mode jobsCap resCap f c { c with toSend := t, workers := ws1 ++ W.busy j :: ws2 }
  /-- `close(jobs)` after the last send -/
  | close {c : Cfg J R} : c.toSend = [] → c.closed = false → Step mode jobsCap resCap f c { c with closed := true }
  /-- a worker's `range jobs` receives the oldest buffered job -/
  | recv {c : Cfg J R} {j : J} {q : List J} {ws1 ws2 : List (W J)} : c.jobsQ = j :: q → c.workers = ws1 ++ W.idle :: ws2 →
      Step mode jobsCap resCap f c { c with jobsQ := q, workers := ws1 ++ W.busy j :: ws2 }
  /-- perJob: the worker finishes job `j` and sends its result -/
  | finishSend {c : Cfg J R} {j : J} {ws1 ws2 : List (W J)} : mode = Mode.perJob → c.workers = ws1 ++ W.busy j :: ws2 →
      c.resQ.length < resCap →
      Step mode jobsCap resCap f c { c with workers := ws1 ++ W.idle :: ws2, processed := c.processed ++ [j],
                                             resQ := c.resQ ++ [Msg.res (f j)] }
  /-- perWorker: the worker finishes job `j` (its effect is on shared storage, nothing is sent) -/
  | finishQuiet {c : Cfg J R} {j : J} {ws1 ws2 : List (W J)} : mode = Mode.perWorker → c.workers = ws1 ++ W.busy j :: ws2 →
      Step mode jobsCap resCap f c { c with workers := ws1 ++ W.idle :: ws2, processed := c.processed ++ [j] }
  /-- perJob: `range jobs` ends (queue empty and closed), the goroutine returns -/
  | exitQuiet {c : Cfg J R} {ws1 ws2 : List (W J)} : mode = Mode.perJob → c.workers = ws1 ++ W.idle :: ws2 →
      c.jobsQ = [] → c.closed = true →
      Step mode jobsCap resCap f c { c with workers := ws1 ++ W.exited :: ws2 }
  /-- perWorker: `range jobs` ends, the worker sends its completion message and returns -/
  | exitSend {c : Cfg J R} {ws1 ws2 : List (W J)} : mode = Mode.perWorker → c.workers = ws1 ++ W.idle :: ws2 →
      c.jobsQ = [] → c.closed = true → c.resQ.length < resCap →
      Step mode jobsCap resCap f c { c with workers := ws1 ++ W.exited :: ws2, resQ := c.resQ ++ [Msg.done] }
  /-- the collector's `<-results` -/
  | collect {c : Cfg J R} {m : Msg R} {q : List (Msg R)} {k : Nat} : c.resQ = m :: q → c.toCollect = k + 1 →
      Step mode jobsCap resCap f c { c with resQ := q, collected := c.collected ++ [m], toCollect := k }

/-- any finite execution -/
inductive Reach {J R : Type} (mode : Mode) (jobsCap resCap : Nat) (f : J → R) (c0 : Cfg J R) : Cfg J R → Prop
  | refl : Reach mode jobsCap resCap f c0 c0
  | tail {c c' : Cfg J R} : Reach mode jobsCap resCap f c0 c → Step mode jobsCap resCap f c c' →
      Reach mode jobsCap resCap f c0 c'

end PolyVerif.Par.Chan
