import PolyVerif.Model.GraphIO

/-!
  C12 — sessions that LOAD a saved graph into the running (already used) application.

  The editor's `POST /graph` calls `App.ApplySchema` on the live application: `ApplyAppSchema` replaces the node id
  table, the metadata tree and the producer table by what the file says (generator/graph/instance.go:129-200) and
  `App.ApplySchema` merges the header into the CURRENT header (generator/app.go:37-62).  Nothing else of the runtime
  state may survive: in the model a mid-session load is `state := decode (current header) file`.

  Core Lean only (linked into the driver).
-/
namespace PolyVerif
namespace GraphIO

/-- an event of an editing session: an editing operation, or a load of a saved file into the same application -/
inductive SEv (J : Type) where
  | edit (o : Op J)
  | load (s : Schema J)

/-- one event; a load decodes the file into an application whose header is the CURRENT header -/
def evStep {V J} (E : Env V J) (g : Graph V) : SEv J → Except Err (Graph V)
  | .edit o => step E g o
  | .load s => decode E g.hdr s

/-- DEFINITION, as `stepTotal`: a failing event leaves the graph unchanged.  For a failing LOAD this is a modelling
    choice that is NOT tied (Go has already replaced the id table when `ApplyAppSchema` fails half way; the harness
    only loads files the implementation saved, and those load). -/
def evTotal {V J} (E : Env V J) (g : Graph V) (e : SEv J) : Graph V :=
  match evStep E g e with
  | .ok g' => g'
  | .error _ => g

def runEv {V J} (E : Env V J) (g : Graph V) (evs : List (SEv J)) : Graph V := evs.foldl (evTotal E) g

/-- the state right after loading `s` into the application in state `g` -/
def loaded {V J} (E : Env V J) (g : Graph V) (s : Schema J) : Graph V := evTotal E g (.load s)

def edits {J} (ops : List (Op J)) : List (SEv J) := ops.map .edit

end GraphIO
end PolyVerif
