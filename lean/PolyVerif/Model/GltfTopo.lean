/-
  C06 (round 2) — the writer on EVERY topology value and on nil texture literals: a three-valued outcome.

  `formats/gltf/writer.go` AddMesh:
    * `model.Mesh.PrimitiveCount()` is the first thing called on a non-nil mesh; for a `modeling.Topology` value beyond
      the six declared ones it PANICS (`unimplemented topology`), before anything is written for that model;
    * (since the fix "gltf writer sets the primitive mode of line meshes and rejects quad meshes") a QUAD mesh is rejected
      with ErrInvalidInput right after the nil-mesh check — before PrimitiveCount, also when it has no primitives —;
      point / line / line-loop / line-strip meshes are written with mode 0 / 1 / 2 / 3 (`modeOfTopo`), triangles without a
      mode.  (Before the fix every non-point mesh was written without a mode, i.e. as TRIANGLES.)
  AddMaterial: `PolyformNormal{}` / `PolyformOcclusion{}` literals whose embedded `*PolyformTexture` is nil reach
  `w.AddTexture(nil)` → `polyTex.prepareExtensions` dereferences nil: PANIC — after the tracker lookup, the PBR textures,
  the extensions and the alphaCutoff check, exactly where the base model `addMaterial` returns `.error .badId` for a
  texture id outside the heap.  (A nil `BaseColorTexture` / `MetallicRoughnessTexture` / nil material / nil sampler is
  guarded in Go and is `none` in the model.)

  ENCODING of a nil embedded texture pointer: a normal / occlusion texture id that is not in `texHeap` (the harness uses
  `|texHeap|`).  Every other out-of-heap id (mesh, material, base-colour / metallic-roughness / extension texture) has no
  Go counterpart; `Representable` names the scenes that do have one.

  Core Lean only (linked into the driver).
-/
import PolyVerif.Model.GltfSpec

namespace PolyVerif
namespace Gltf

/-- what a call of `WriteText` / `WriteBinary` does: writes a file from state `w`, returns an error (nothing written),
    or panics (nothing written) -/
inductive Outcome where
  | ok (w : W)
  | err (e : Err)
  | panic
deriving Repr

/-- the six declared `modeling.Topology` values; `PrimitiveCount()` panics on any other -/
def PMesh.topoKnown (m : PMesh) : Bool := decide (m.topo ≤ 5)

/-- `.badId` in a normal / occlusion slot is `AddTexture(nil)`: a nil dereference -/
def liftOutcome : Except Err W → Outcome
  | .ok w => .ok w
  | .error .badId => .panic
  | .error e => .err e

/-- one iteration of the model loop, with the panic of `PrimitiveCount()` on an unknown topology (first statement of
    AddMesh after the nil-mesh check) -/
def addModelT (s : Scene) (w : W) (md : Model) : Outcome :=
  match s.meshOf md with
  | some m =>
    if !m.topoKnown then .panic
    else if m.topo = 2 then .err .quad      -- QuadTopology: ErrInvalidInput right after the nil-mesh check, nothing written
    else liftOutcome (addModel s w md)
  | none => liftOutcome (addModel s w md)

def addModelsT (s : Scene) : W → List Model → Outcome
  | w, [] => .ok w
  | w, md :: r => match addModelT s w md with
    | .ok w1 => addModelsT s w1 r
    | .err e => .err e
    | .panic => .panic

/-- `WriteText` / `WriteBinary` on a scene: models in order (first error or panic wins), lights, `json.Marshal` -/
def writeSceneT (s : Scene) : Outcome :=
  match addModelsT s {} s.models with
  | .ok w1 => if marshalOK (s.lights.foldl addLight w1) then .ok (s.lights.foldl addLight w1) else .err .marshal
  | .err e => .err e
  | .panic => .panic

/-- scenes that exist in Go: every id is a pointer into its heap, except that a normal / occlusion texture id may be
    outside the heap (= nil embedded pointer) -/
def Representable (s : Scene) : Bool :=
  s.models.all (fun md => (match md.mesh with
      | some i => decide (i < s.meshHeap.length)
      | none => true)
    && (match md.material with
      | some i => decide (i < s.matHeap.length)
      | none => true))
  && s.matHeap.all (fun m =>
      (m.baseColorTex.toList ++ m.metalRoughTex.toList ++ m.exts.flatMap (fun e => e.texs.map (·.2))).all
        (fun i => decide (i < s.texHeap.length)))

/-! ### what a reader expects of `mode` -/

/-- the glTF `mode` that renders a polyform topology: triangle ↦ absent (default 4 TRIANGLES), point ↦ 0 POINTS,
    line ↦ 1 LINES, line-loop ↦ 2 LINE_LOOP, line-strip ↦ 3 LINE_STRIP; a quad mesh (and an undeclared topology) has no
    glTF mode (outer `none`) -/
def expectedMode : Nat → Option (Option Nat)
  | 0 => some none
  | 1 => some (some 0)
  | 3 => some (some 1)
  | 5 => some (some 2)
  | 4 => some (some 3)
  | _ => none

/-- number of indices compatible with the drawing mode (glTF 2.0 §3.7.2.1; the validator's
    MESH_PRIMITIVE_INCOMPATIBLE_MODE) -/
def modeCountOK (mode : Option Nat) (n : Nat) : Bool :=
  match mode with
  | none | some 4 => n % 3 == 0
  | some 0 => true
  | some 1 => n % 2 == 0
  | some 2 | some 3 => decide (n ≥ 2)
  | some 5 | some 6 => decide (n ≥ 3)
  | _ => false

/-- the mesh's own index count fits its topology's drawing mode (a well-formedness condition on the INPUT: a triangle mesh
    with 3k indices, a line mesh with 2k, a line loop / strip with at least 2) -/
def PMesh.indexCountFits (m : PMesh) : Bool := modeCountOK (modeOfTopo m.topo) m.indices.length

/-- the heap mesh of model `md` and the single primitive of the glTF mesh its node references -/
def nodePrim (s : Scene) (d : Doc) (md : Model) (n : GNode) : Option (PMesh × Prim) :=
  match s.meshOf md, n.mesh with
  | some m, some mi => (match d.meshes[mi]? with
    | some gm => (match gm.prims with
      | [p] => some (m, p)
      | _ => none)
    | none => none)
  | _, _ => none

/-- every model's primitive is drawn in the mode of the model's topology -/
def topoCarried (s : Scene) (d : Doc) : Bool :=
  allZip (fun md n => match nodePrim s d md n with
    | some (m, p) => expectedMode m.topo == some p.mode
    | none => false) s.visible (d.nodes.take s.visible.length)

/-- every model's primitive has a number of (decoded) indices compatible with its drawing mode -/
def modeIndexOK (s : Scene) (d : Doc) (buf : List UInt8) : Bool :=
  allZip (fun md n => match nodePrim s d md n with
    | some (_, p) => (match p.indices with
      | some i => (match decodeAt d buf i with
        | some idx => modeCountOK p.mode idx.length
        | none => false)
      | none => false)
    | none => false) s.visible (d.nodes.take s.visible.length)

/-- the same on a document alone (what a validator sees): every indexed primitive of every mesh -/
def docModeCountOK (d : Doc) : Bool :=
  d.meshes.all (fun gm => gm.prims.all (fun p => match p.indices with
    | some i => (match d.accessors[i]? with
      | some a => modeCountOK p.mode a.count
      | none => false)
    | none => true))

end Gltf
end PolyVerif
