/-
  C01 — the PURE value-level meaning of the mesh operations: functions on observable values (`MeshObs`) only, no heap.
  `Props/C01Refine.lean` proves that every operation of the heap model returns meshes whose `obs` is this function of
  the `obs` of its arguments (`op_refines`).  Core Lean only.
-/
import PolyVerif.Model.MeshHeap

namespace PolyVerif
namespace MeshHeap

variable {κ α β : Type}

section assoc
variable [DecidableEq κ]

def hasKeyV (es : List (κ × β)) (k : κ) : Bool := es.any (fun e => e.1 == k)

def lookupV (es : List (κ × β)) (k : κ) : Option β := (es.find? (fun e => e.1 == k)).map (·.2)

/-- `m[k] = v` on an association list (same shape as `insert` of the heap model) -/
def insertV (es : List (κ × β)) (k : κ) (v : β) : List (κ × β) :=
  if hasKeyV es k then es.map (fun e => if e.1 == k then (k, v) else e) else es ++ [(k, v)]

def eraseV (es : List (κ × β)) (k : κ) : List (κ × β) := es.filter (fun e => !(e.1 == k))

end assoc

/-- all attribute lengths of an observable value -/
def lensObs (o : MeshObs κ α) : List Nat := (o.attrs.flatMap id).map fun e => e.2.length

/-- one common attribute length (what every generator and every well-formed mesh has) -/
def Uniform (o : MeshObs κ α) : Prop := ∀ x ∈ lensObs o, ∀ y ∈ lensObs o, x = y

/-- what Go's `AttributeLength()` may answer for a mesh showing `o`: the length of some attribute, or 0 when there is none -/
def IsAttrLen (o : MeshObs κ α) (n : Nat) : Prop := n ∈ lensObs o ∨ (lensObs o = [] ∧ n = 0)

/-- one resolution of `AttributeLength()` read off the observable value: first attribute found, v4 first -/
def attrLenObs (o : MeshObs κ α) : Nat :=
  match (o.attrs.reverse.flatMap id) with
  | [] => 0
  | e :: _ => e.2.length

section append
variable [DecidableEq κ]

/-- first loop of `appendData`, on values -/
def pureDataA (E : Env α) (b : List (κ × List α)) (bLen : Nat) :
    List (κ × List α) → List (κ × List α) → List (κ × List α)
  | [], fin => fin
  | e :: rest, fin =>
    pureDataA E b bLen rest (insertV fin e.1 (if hasKeyV b e.1 then e.2 else e.2 ++ List.replicate bLen E.zero))

/-- second loop of `appendData`, on values -/
def pureDataB (E : Env α) (aLen : Nat) : List (κ × List α) → List (κ × List α) → List (κ × List α)
  | [], fin => fin
  | e :: rest, fin =>
    pureDataB E aLen rest
      (insertV fin e.1 ((match lookupV fin e.1 with
                         | some c => c
                         | none => List.replicate aLen E.zero) ++ e.2))

def pureKind (E : Env α) (aLen bLen : Nat) (a b : List (κ × List α)) : List (κ × List α) :=
  pureDataB E aLen b (pureDataA E b bLen a [])

def headV : List (List (κ × List α)) → List (κ × List α)
  | [] => []
  | x :: _ => x

def pureMapsB (E : Env α) (aLen bLen : Nat) : List (List (κ × List α)) → List (List (κ × List α))
  | [] => []
  | b :: os => pureKind E aLen bLen [] b :: pureMapsB E aLen bLen os

def pureMaps (E : Env α) (aLen bLen : Nat) :
    List (List (κ × List α)) → List (List (κ × List α)) → List (List (κ × List α))
  | [], os => pureMapsB E aLen bLen os
  | a :: ms, os => pureKind E aLen bLen a (headV os) :: pureMaps E aLen bLen ms os.tail

/-- `a.Append(b)` on values, given what the two `AttributeLength()` calls resolved to (`aLen`, `bLen`): a function of the two
    observable values AND of that resolution.  `none` = panic (different topologies) -/
def pureAppend (E : Env α) (aLen bLen : Nat) (a b : MeshObs κ α) : Option (MeshObs κ α) :=
  if a.topo ≠ b.topo then none else
  some { topo := a.topo
         indices := a.indices ++ b.indices.map (E.shift aLen)
         materials := a.materials ++ b.materials
         attrs := pureMaps E aLen bLen a.attrs b.attrs }

/-- the contents part of a caller-built map -/
def entriesV (es : List (κ × List α × Nat)) : List (κ × List α) := es.map fun e => (e.1, e.2.1)

/-- every operation on values: the pool is a list of observable values, arguments are positions in it;
    `none` = impossible / panicking call; otherwise the values of the meshes returned -/
def pureOp (E : Env α) (pool : List (MeshObs κ α)) : Op κ α → Option (List (MeshObs κ α))
  | .newMesh topo idx _ mats _ attrs => some [⟨topo, idx, mats, attrs.map entriesV⟩]
  | .setIndices m idx _ => do let r ← pool[m]?; pure [{ r with indices := idx }]
  | .setMaterials m mats _ => do let r ← pool[m]?; pure [{ r with materials := mats }]
  | .shareMaterials m src => do let r ← pool[m]?; let q ← pool[src]?; pure [{ r with materials := q.materials }]
  | .toPointCloud m pt n => do
    let r ← pool[m]?
    if r.topo = pt then pure [r] else
    pure [{ r with indices := (List.range n).map E.ident, topo := pt }]
  | .clearAttrs m => do let r ← pool[m]?; pure [{ r with attrs := r.attrs.map fun _ => [] }]
  | .setData m kind es => do let r ← pool[m]?; pure [{ r with attrs := r.attrs.set kind (entriesV es) }]
  | .setAttr m kind name data _ => do
    let r ← pool[m]?
    let old := (r.attrs[kind]?).getD []
    let es := if data.length = 0 then eraseV (insertV old name data) name else insertV old name data
    pure [{ r with attrs := r.attrs.set kind es }]
  | .copyAttr m src kind name => do
    let r ← pool[m]?
    let q ← pool[src]?
    let d := (lookupV ((q.attrs[kind]?).getD []) name).getD []
    let old := (r.attrs[kind]?).getD []
    let es := if d.length = 0 then eraseV (insertV old name d) name else insertV old name d
    pure [{ r with attrs := r.attrs.set kind es }]
  | .rebuild m topo idx _ attrs mm => do
    let r ← pool[m]?
    pure [⟨topo, idx, (match mm with | .share => r.materials | .drop => []), attrs.map entriesV⟩]
  | .readOnly m => do let _ ← pool[m]?; pure []
  | .append m o aLen bLen => do
    let r ← pool[m]?
    let q ← pool[o]?
    let x ← pureAppend E aLen bLen r q
    pure [x]
  | .appendOld _ _ _ _ => none   -- the pre-74db58f Append has no value-level meaning (its result depends on the heap)

end append

end MeshHeap
end PolyVerif
