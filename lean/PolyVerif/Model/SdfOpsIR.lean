/-
  A tiny statement language for the closure-building glue of /repo math/sdf/operators.go (`Union`, `Intersect`) and
  math/sdf/line.go (`VarryingThicknessLine`) — code outside the arithmetic translator's subset (variadic parameters,
  loops over slices of closures).  Engine F (`go/facts c19.ops`) reads the Go AST and emits, into
  `PolyVerif/Gen/SdfOpsShape.lean`, the statement list of each function as a term of this language; the extractor accepts
  exactly the statement forms below and fails on anything else.  `Props/C19Src.lean` proves that the hand models
  `SdfOps.Union` / `SdfOps.Intersect` / `SdfVarLine.VarryingThicknessLine` EQUAL the interpretation of the extracted
  terms for every operand list, so a dropped special case, a swapped `math.Min`/`math.Max`, a changed loop start or a
  different pairing of line points in the Go source breaks a named theorem (and the driver answers the `c19.union` /
  `c19.intersect` / `c19.varline` correspondence lines from this interpretation).  Core Lean only.
-/
import PolyVerif.Gen.Sdf

namespace PolyVerif
namespace SdfOpsIR
variable {α : Type} [Scalar α]

inductive Op where
  | min   -- math.Min
  | max   -- math.Max
  deriving Repr, DecidableEq

def Op.ap (o : Op) (x y : α) : α := match o with | .min => Min.min x y | .max => Max.max x y

/-- statements of a function `func F(fields ...sample.Vec3ToFloat) sample.Vec3ToFloat` -/
inductive Stmt where
  /-- `if len(fields) == k { panic(…) }` -/
  | panicIfLen (k : Nat)
  /-- `if len(fields) == k { return fields[j] }` -/
  | retFieldIfLen (k j : Nat)
  /-- `if len(fields) == k { a := fields[i]; b := fields[j]; return func(v) float64 { return math.OP(a(v), b(v)) } }` -/
  | retPairIfLen (k i j : Nat) (op : Op)
  /-- `return func(v) float64 { acc := fields[init](v); for i := start; i < len(fields); i++ { acc = math.OP(acc, fields[i](v)) }; return acc }` -/
  | retFold (init start : Nat) (op : Op)
  deriving Repr, DecidableEq

/-- interpretation; `none` = the Go function panics (explicit `panic`, index out of range) or falls off the end -/
def eval : List Stmt → List (V3 α → α) → Option (V3 α → α)
  | [], _ => none
  | .panicIfLen k :: rest, fs => if fs.length == k then none else eval rest fs
  | .retFieldIfLen k j :: rest, fs => if fs.length == k then fs[j]? else eval rest fs
  | .retPairIfLen k i j op :: rest, fs =>
      if fs.length == k then
        match fs[i]?, fs[j]? with
        | some a, some b => some (fun v => op.ap (a v) (b v))
        | _, _ => none
      else eval rest fs
  | .retFold init start op :: _, fs =>
      match fs[init]? with
      | some f0 => some (fun v => (fs.drop start).foldl (fun m f => op.ap m (f v)) (f0 v))
      | none => none

/-- the shape of `VarryingThicknessLine(linePoints []LinePoint)`:
    `if len(linePoints) < minLen { panic }` ; `sdfs := make(…, 0, …)` ;
    `for i := loopStart; i < len(linePoints); i++ { start := linePoints[i - startBack]; end := linePoints[i - endBack];
       sdfs = append(sdfs, RoundedCone(A.Point, B.Point, C.Radius, D.Radius)) }` ; `return Union(sdfs...)`
    where each of A, B, C, D is `start` (true) or `end` (false) -/
structure VarLineShape where
  minLen : Nat
  loopStart : Nat
  startBack : Nat
  endBack : Nat
  aFromStart : Bool
  bFromStart : Bool
  r1FromStart : Bool
  r2FromStart : Bool
  deriving Repr, DecidableEq

/-- one loop iteration: the cone appended for index `i` (`none`: an index is out of range, Go panics) -/
def VarLineShape.coneAt (sh : VarLineShape) (pts : List (V3 α × α)) (i : Nat) : Option (V3 α → α) :=
  if i < sh.startBack || i < sh.endBack then none else
  match pts[i - sh.startBack]?, pts[i - sh.endBack]? with
  | some s, some e =>
      some (Gen.sdf.RoundedCone (if sh.aFromStart then s.1 else e.1) (if sh.bFromStart then s.1 else e.1)
        (if sh.r1FromStart then s.2 else e.2) (if sh.r2FromStart then s.2 else e.2))
  | _, _ => none

/-- the loop `for i := start; i < n; i++`, as recursion on the number of remaining iterations -/
def VarLineShape.loop (sh : VarLineShape) (pts : List (V3 α × α)) : Nat → Nat → Option (List (V3 α → α))
  | _, 0 => some []
  | i, fuel + 1 =>
      match sh.coneAt pts i, sh.loop pts (i + 1) fuel with
      | some c, some cs => some (c :: cs)
      | _, _ => none

/-- interpretation of the whole function, given the interpretation `union` of the callee `Union` -/
def VarLineShape.eval (sh : VarLineShape) (union : List (V3 α → α) → Option (V3 α → α)) (pts : List (V3 α × α)) :
    Option (V3 α → α) :=
  if pts.length < sh.minLen then none else
  match sh.loop pts sh.loopStart (pts.length - sh.loopStart) with
  | some cs => union cs
  | none => none

end SdfOpsIR
end PolyVerif
