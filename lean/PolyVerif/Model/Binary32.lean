/-
  IEEE 754 binary32 as integers, core Lean only: fields of a 32-bit pattern, the value of a finite pattern as an
  integer numerator over 2^150, the dyadic value of a binary64 pattern, and the SPECIFICATION of Go's
  `float32(x)` on a float64 (`q32spec`): round to nearest, ties to the even pattern, overflow to infinity —
  exact integer arithmetic on the bit pattern.  The C07 driver answers `c07.q32spec` with `q32spec`;
  Lemmas/Binary32.lean proves its half-ulp / relative 2^-24 / idempotence statements over ℝ.
-/
namespace PolyVerif
namespace B32

/-- biased exponent, bits 30–23 -/
def expOf (h : Nat) : Nat := h / 8388608 % 256
/-- trailing significand, bits 22–0 -/
def manOf (h : Nat) : Nat := h % 8388608
/-- numerator over `2^150` of the magnitude: `m·2` (subnormal, `m·2^-149`), `(2^23 + m)·2^e` (normal,
    `2^(e−127)·(1 + m/2^23)`) -/
def num (h : Nat) : Nat := if expOf h = 0 then manOf h * 2 else (8388608 + manOf h) * 2 ^ expOf h

/-- pattern of +∞ (0x7f800000); the finite non-negative patterns are `0 … 0x7f7fffff` -/
def infPat : Nat := 2139095040

/-- (`pick Y d e`: the rounding step of `roundMag` for `y = Y/d` and unit exponent `e`.)
    Round the non-negative rational `n/d` (`d > 0`) to the nearest binary32 magnitude, ties to the even pattern;
    `infPat` on overflow.  `y = n·2^150/d`; `e` = exponent of the unit in the last place at `y` (1 up to the first
    normal binade, `⌊log₂ y⌋ − 23` above); `q = ⌊y/2^e⌋` is the integer significand; the pattern below `y` is
    `(e−1)·2^23 + q` (a carry into the exponent field is the next binade, 0x7f800000 is +∞). -/
def pick (Y d e : Nat) : Nat :=
  let D := d * 2 ^ e
  let q := Y / D
  let r := Y % D
  let h0 := (e - 1) * 8388608 + q
  let h := if 2 * r < D then h0 else if D < 2 * r then h0 + 1 else if h0 % 2 = 0 then h0 else h0 + 1
  min h infPat

def roundMag (n d : Nat) : Nat :=
  let Y := n * 2 ^ 150
  let fl := Y / d
  pick Y d (if fl < 16777216 then 1 else Nat.log2 fl - 23)

/-- the dyadic `(negative, n, d)` with `|x| = n/d` of a finite binary64 pattern -/
def f64Dyadic (b : Nat) : Bool × Nat × Nat :=
  let e := b / 4503599627370496 % 2048
  let m := b % 4503599627370496
  let neg := b / 9223372036854775808 % 2 = 1
  if e = 0 then (neg, m, 2 ^ 1074)
  else if 1075 ≤ e then (neg, (4503599627370496 + m) * 2 ^ (e - 1075), 1)
  else (neg, 4503599627370496 + m, 2 ^ (1075 - e))

/-- canonical quiet NaN (NaN payloads are canonicalised on both sides of the correspondence) -/
def nanPat : Nat := 2143289344

/-- SPECIFICATION of `math.Float32bits(float32(x))` on the bits of `x` -/
def q32spec (b : Nat) : Nat :=
  let e := b / 4503599627370496 % 2048
  let m := b % 4503599627370496
  let s := if b / 9223372036854775808 % 2 = 1 then 2147483648 else 0
  if e = 2047 then (if m = 0 then s + infPat else nanPat)
  else
    let (_, n, d) := f64Dyadic b
    s + roundMag n d

end B32
end PolyVerif
