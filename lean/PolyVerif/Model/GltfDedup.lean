/-
  C06 — "shared meshes / materials / textures are stored once and referenced consistently": decidable predicate on
  (scene, parsed document), evaluated by the driver on the implementation's output (`c06.holds.dedup*`).
  Core Lean only.
-/
import PolyVerif.Model.GltfSpec

namespace PolyVerif
namespace Gltf

/-- texture-info `ti` of the document shows texture `t`: same transform extension, the referenced texture's image
    has `t`'s URI and its sampler is `t`'s sampler -/
def texCarried (d : Doc) (t : PTexture) (ti : TexInfo) : Bool :=
  ti.xform == t.xform &&
  match d.textures[ti.index]? with
  | none => false
  | some gt =>
    (match gt.source with
     | some i => d.images[i]? == some t.uri
     | none => false)
    && (match t.sampler, gt.sampler with
        | none, none => true
        | some s, some i => d.samplers[i]? == some s
        | _, _ => false)

def optCarried (s : Scene) (d : Doc) : Option Nat → Option TexInfo → Bool
  | none, none => true
  | some id, some ti => match s.texHeap[id]? with
    | some t => texCarried d t ti
    | none => false
  | _, _ => false

def scaledCarried (s : Scene) (d : Doc) : Option (Nat × Option Nat) → Option (TexInfo × Option Nat) → Bool
  | none, none => true
  | some (id, sc), some (ti, gsc) => sc == gsc && optCarried s d (some id) (some ti)
  | _, _ => false

def sortExts (l : List PMatExt) : List PMatExt := l.mergeSort (fun a b => !(b.id < a.id))
def sortGExts (l : List GMatExt) : List GMatExt := l.mergeSort (fun a b => !(b.id < a.id))
def sortKeyed {β} (l : List (String × β)) : List (String × β) := l.mergeSort (fun a b => !(b.1 < a.1))

/-- material `g` of the document shows exactly material `m` of the scene -/
def matCarried (s : Scene) (d : Doc) (m : PMaterial) (g : GMaterial) : Bool :=
  g.name == m.name && g.alphaMode == m.alphaMode && g.alphaCutoff == m.alphaCutoff
  && g.baseColorFactor == (match (if m.hasPbr then m.baseColor else none) with
                           | some c => c.map colorFactor
                           | none => [one64, one64, one64, one64])
  && g.metallic == (if m.hasPbr then m.metallic else none)
  && g.roughness == (if m.hasPbr then m.roughness else none)
  && optCarried s d (if m.hasPbr then m.baseColorTex else none) g.baseColorTex
  && optCarried s d (if m.hasPbr then m.metalRoughTex else none) g.metalRoughTex
  && g.emissive == m.emissive.map (fun c => (c.take 3).map colorFactor)
  && scaledCarried s d m.normalTex g.normalTex
  && scaledCarried s d m.occlusionTex g.occlusionTex
  && allZip (fun (e : PMatExt) (ge : GMatExt) => ge.id == e.id && ge.payload == e.payload
        && allZip (fun (kt : String × Nat) (gkt : String × TexInfo) => kt.1 == gkt.1 && optCarried s d (some kt.2) (some gkt.2))
             (sortKeyed e.texs) (sortKeyed ge.texs))
       (sortExts m.exts) (sortGExts g.exts)

def Doc.matIdxOf (d : Doc) (n : GNode) : Option Nat :=
  match n.mesh with
  | none => none
  | some mi => match d.meshes[mi]? with
    | none => none
    | some gm => match gm.prims with
      | p :: _ => p.material
      | [] => none

/-- what of a mesh reaches the file -/
def meshObs (s : Scene) (md : Model) : Option (List (String × Nat × List (List Nat)) × List Nat × Bool) :=
  (s.meshOf md).map (fun m => (m.written.map (fun a => (gltfAttrName a.name, a.dim, a.vals)), m.indices, m.topo == 1))

def nodupB {α} [BEq α] : List α → Bool
  | [] => true
  | a :: l => !l.contains a && nodupB l

def matOf (s : Scene) (md : Model) : Option PMaterial := match md.material with
  | none => none
  | some k => s.matHeap[k]?

def dedupOK (s : Scene) (d : Doc) : Bool :=
  let pairs := s.visible.zip (d.nodes.take s.visible.length)
  let th := fun i => s.texHeap[i]?
  -- every model's material is shown by the material its primitive references
  pairs.all (fun p => match p.1.material with
    | none => d.matIdxOf p.2 == none
    | some _ => match matOf s p.1, (d.matIdxOf p.2).bind (fun i => d.materials[i]?) with
      | some pm, some gm => matCarried s d pm gm
      | _, _ => false)
  && pairs.all (fun p => pairs.all (fun r =>
      -- shared mesh pointer with the same material: stored once
      (!(p.1.mesh == r.1.mesh && d.matIdxOf p.2 == d.matIdxOf r.2) || p.2.mesh == r.2.mesh)
      -- one stored mesh only for models whose mesh data agree
      && (!(p.2.mesh == r.2.mesh) || meshObs s p.1 == meshObs s r.1)
      -- shared material pointer / equal-by-value materials: stored once
      && (!(p.1.material.isSome && p.1.material == r.1.material) || d.matIdxOf p.2 == d.matIdxOf r.2)
      && (match matOf s p.1, matOf s r.1 with
          | some a, some b => !(PMaterial.equal th a b) || d.matIdxOf p.2 == d.matIdxOf r.2
          | _, _ => true)))
  && nodupB d.textures && nodupB d.images && nodupB d.samplers

end Gltf
end PolyVerif
