/-
  C13 — model of the three concurrent entry points of /repo/generator/graph/instance.go
  (`UpdateParameter`, `ParameterData`, `Artifact`) over the node graph of C11.  Core Lean only.

  * sequential specification `seqStep`: one call applied atomically to the C11 graph state;
  * histories (invocation / response events), linearizations, the executable witness check;
  * the concurrent system: any number of client threads, each running the program
        idle → invoked → (acquire producerLock) holding → (critical section) executed
             → (deferred Unlock) unlocked → (return) idle
    which is the shape `Gen/LockFacts.lean` + `WellLocked` establish for the three functions;
  * the micro-steps of an evaluation that is NOT protected by the lock (for the negative witness).
-/
import PolyVerif.Model.Nodes

namespace PolyVerif.Linz
open Nodes

abbrev Tid := Nat

inductive Call (V : Type) where
  | update (p : Nat) (v : V)      -- UpdateParameter(id, json v)
  | paramData (p : Nat)           -- ParameterData(id)
  | artifact (i : Nat)            -- Artifact(name of producer node i)
  | updateRejected (p : Nat)      -- UpdateParameter(id, msg) with a message that does not decode
  deriving DecidableEq, Repr

inductive Resp (V : Type) where
  | ok                            -- UpdateParameter returned (true, nil)
  | val (v : V)                   -- the bytes / the artifact
  | err                           -- the call panicked (not a parameter); the deferred Unlock still runs
  deriving DecidableEq, Repr

variable {V : Type}

/-- the sequential specification: what one call does when it runs alone -/
def seqStep (F : Nat) (g : Graph V) : Call V → Graph V × Resp V
  | .update p v =>
    match g p with
    | .param _ n => (g.set p (.param v (n+1)), .ok)
    | .struct _ => (g, .err)
  | .paramData p =>
    match g p with
    | .param x _ => (g, .val x)
    | .struct _ => (g, .err)
  | .artifact i => ((Eval F g i).1, .val (val (Eval F g i).1 i))
  -- `ApplyMessage` returns the decode error before writing anything; `UpdateParameter` returns it
  -- (it still bumps the instance's model version counter, which is not part of this state)
  | .updateRejected _ => (g, .err)

def replay (F : Nat) (g : Graph V) : List (Call V) → Graph V × List (Resp V)
  | [] => (g, [])
  | c :: cs => ((replay F (seqStep F g c).1 cs).1, (seqStep F g c).2 :: (replay F (seqStep F g c).1 cs).2)

/-! ### histories and linearizations -/

inductive Event (V : Type) where
  | inv (id : Nat) (t : Tid) (c : Call V)
  | resp (id : Nat) (r : Resp V)
  deriving DecidableEq, Repr

/-- an operation of a linearization: id, client, call, response -/
structure LOp (V : Type) where
  id : Nat
  tid : Tid
  call : Call V
  resp : Resp V
  deriving DecidableEq, Repr

def LOp.invE (o : LOp V) : Event V := .inv o.id o.tid o.call
def LOp.respE (o : LOp V) : Event V := .resp o.id o.resp

/-- `a` occurs in `l` and `b` occurs after the first occurrence of `a` -/
def before {α : Type} [DecidableEq α] : List α → α → α → Bool
  | [], _, _ => false
  | x :: xs, a, b => if x = a then decide (b ∈ xs) else before xs a b

section
variable [DecidableEq V]

/-- `S` is a linearization of history `h` from state `g0`:
    its operations are distinct, each was invoked in `h`; every operation that completed in `h`
    is in `S` with the response it got (operations still pending may be included — they took
    effect — or left out); `S` respects real-time precedence (response of `a` before invocation
    of `b` in `h` ⇒ `a` before `b` in `S`); and `S` is a run of the sequential specification. -/
structure Linearization (F : Nat) (g0 : Graph V) (h : List (Event V)) (S : List (LOp V)) : Prop where
  nodup : (S.map (·.id)).Nodup
  invoked : ∀ o ∈ S, o.invE ∈ h
  complete : ∀ e ∈ h, ∀ id r, e = .resp id r → ∃ o ∈ S, o.id = id ∧ o.resp = r
  realtime : ∀ a ∈ S, ∀ b ∈ S, before h a.respE b.invE = true → before S a b = true
  legal : (replay F g0 (S.map (·.call))).2 = S.map (·.resp)

def Linearizable (F : Nat) (g0 : Graph V) (h : List (Event V)) : Prop := ∃ S, Linearization F g0 h S

/-- well-formed history: invocation ids are unique, every id responds at most once, and a response
    comes after the invocation with its id -/
def wfHist (h : List (Event V)) : Bool :=
  decide (h.filterMap (fun e => match e with | .inv id _ _ => some id | .resp _ _ => none)).Nodup
  && decide (h.filterMap (fun e => match e with | .resp id _ => some id | .inv _ _ _ => none)).Nodup
  && h.zipIdx.all (fun (e, k) => match e with
      | .resp id _ => (h.take k).any (fun e2 => match e2 with | .inv id2 _ _ => id2 == id | .resp _ _ => false)
      | .inv _ _ _ => true)

/-- the executable witness check run by the driver on the order its (untrusted) search found
    (it also checks that the recorded history is well formed) -/
def checkWitness (F : Nat) (g0 : Graph V) (h : List (Event V)) (S : List (LOp V)) : Bool :=
  wfHist h
  && decide (S.map (·.id)).Nodup
  && S.all (fun o => decide (o.invE ∈ h))
  && h.all (fun e => match e with
      | .resp id r => S.any (fun o => decide (o.id = id ∧ o.resp = r))
      | .inv _ _ _ => true)
  && S.all (fun a => S.all (fun b => !(before h a.respE b.invE) || before S a b))
  && decide ((replay F g0 (S.map (·.call))).2 = S.map (·.resp))

end

/-! ### the concurrent system (with the lock) -/

inductive Pc (V : Type) where
  | idle
  | invoked (id : Nat) (c : Call V)
  | holding (id : Nat) (c : Call V)
  | executed (id : Nat) (c : Call V) (r : Resp V)
  | unlocked (id : Nat) (c : Call V) (r : Resp V)

structure Sys (V : Type) where
  g : Graph V
  lock : Option Tid
  pc : Tid → Pc V
  next : Nat
  hist : List (Event V)
  /-- ghost: the operations in the order their critical sections ran -/
  lin : List (LOp V)

def upd {α : Type} (f : Nat → α) (t : Nat) (a : α) : Nat → α := fun u => if u = t then a else f u

def Sys.init (g0 : Graph V) : Sys V :=
  { g := g0, lock := none, pc := fun _ => .idle, next := 0, hist := [], lin := [] }

/-- one atomic step of one client; the scheduler is arbitrary -/
inductive Step (F : Nat) : Sys V → Sys V → Prop
  | invoke (s : Sys V) (t : Tid) (c : Call V) : s.pc t = .idle →
      Step F s ({ s with pc := upd s.pc t (.invoked s.next c), next := s.next + 1,
                          hist := s.hist ++ [.inv s.next t c] } : Sys V)
  | acquire (s : Sys V) (t : Tid) (id : Nat) (c : Call V) : s.pc t = .invoked id c → s.lock = none →
      Step F s ({ s with lock := some t, pc := upd s.pc t (.holding id c) } : Sys V)
  | exec (s : Sys V) (t : Tid) (id : Nat) (c : Call V) : s.pc t = .holding id c →
      Step F s ({ s with g := (seqStep F s.g c).1, pc := upd s.pc t (.executed id c (seqStep F s.g c).2),
                          lin := s.lin ++ [⟨id, t, c, (seqStep F s.g c).2⟩] } : Sys V)
  | release (s : Sys V) (t : Tid) (id : Nat) (c : Call V) (r : Resp V) : s.pc t = .executed id c r →
      Step F s ({ s with lock := none, pc := upd s.pc t (.unlocked id c r) } : Sys V)
  | respond (s : Sys V) (t : Tid) (id : Nat) (c : Call V) (r : Resp V) : s.pc t = .unlocked id c r →
      Step F s ({ s with pc := upd s.pc t .idle, hist := s.hist ++ [.resp id r] } : Sys V)

/-- every finite execution -/
inductive Exec (F : Nat) (g0 : Graph V) : Sys V → Prop
  | init : Exec F g0 (Sys.init g0)
  | step {s s' : Sys V} : Exec F g0 s → Step F s s' → Exec F g0 s'

/-! ### evaluation without the lock: the critical section of `Artifact` split into the steps of
    `process()` of the producer (one `.Value()` call on a dependency at a time) -/

inductive Micro (V : Type) where
  | pull (d : Nat)              -- reader: `.Value()` of one dependency inside the producer's Process()
  | finish                      -- reader: the rest of process(): store, version++, remember, clear flag
  | update (p : Nat) (v : V)    -- another client: a whole UpdateParameter, in between

/-- reader state: the graph and the input values collected so far (newest last) -/
def micro (F : Nat) (i : Nat) (s : SNode V) : Graph V × List V → Micro V → Graph V × List V
  | (g, vals), .pull d => ((Eval F g d).1, vals ++ [val (Eval F g d).1 d])
  | (g, vals), .finish => (g.set i (.struct (s.executed g (vals.map some))), vals)
  | (g, vals), .update p v => ((seqStep F g (.update p v)).1, vals)

def microRun (F : Nat) (i : Nat) (s : SNode V) (st : Graph V × List V) (ms : List (Micro V)) : Graph V × List V :=
  ms.foldl (micro F i s) st

/-! ### the critical section is not one step: a fine-grained locked system

    Shared state of any type `σ`.  Inside its critical section the lock owner performs ANY number of
    micro-steps, each an arbitrary transformer of the shared state (chosen by the owner; it may
    capture the owner's local data); what the lock facts establish for the three entry points is
    that every access to the shared state lies between `Lock` and `Unlock`, i.e. that only a
    client in `crit` ever performs a micro-step.  Ghost fields of `crit`: the shared state at
    acquisition and the micro-steps performed so far. -/

inductive GPc (σ : Type) where
  | idle
  | waiting
  | crit (start : σ) (trace : List (σ → σ))

def GPc.isCrit {σ : Type} : GPc σ → Bool
  | .crit _ _ => true
  | _ => false

structure GSys (σ : Type) where
  g : σ
  lock : Option Tid
  pc : Tid → GPc σ

inductive GStep {σ : Type} : GSys σ → GSys σ → Prop
  | request (s : GSys σ) (t : Tid) : s.pc t = .idle → GStep s { s with pc := upd s.pc t .waiting }
  | acquire (s : GSys σ) (t : Tid) : s.pc t = .waiting → s.lock = none →
      GStep s { s with lock := some t, pc := upd s.pc t (.crit s.g []) }
  | micro (s : GSys σ) (t : Tid) (start : σ) (tr : List (σ → σ)) (f : σ → σ) : s.pc t = .crit start tr →
      GStep s { s with g := f s.g, pc := upd s.pc t (.crit start (tr ++ [f])) }
  | release (s : GSys σ) (t : Tid) (start : σ) (tr : List (σ → σ)) : s.pc t = .crit start tr →
      GStep s { s with lock := none, pc := upd s.pc t .idle }

inductive GExec {σ : Type} (g0 : σ) : GSys σ → Prop
  | init : GExec g0 { g := g0, lock := none, pc := fun _ => .idle }
  | step {s s' : GSys σ} : GExec g0 s → GStep s s' → GExec g0 s'

/-- the micro-steps of `Artifact(i)` on an outdated struct node `s` for ANY processor (any pull
    strategy), as the owner performs them starting in state `g`: one `.Value()` pull per input the
    strategy selects (each followed by reading the value the owner keeps locally), then the store
    with the entries collected -/
def artifactTraceS (F : Nat) (i : Nat) (s : SNode V) (next : List (Option V) → Option Nat) (ds : List Nat) :
    Nat → Graph V → List (Option V) → List (Graph V → Graph V)
  | 0, _, es => [fun g => g.set i (.struct (s.executed g es))]
  | n+1, g, es =>
    match next es with
    | none => [fun g => g.set i (.struct (s.executed g es))]
    | some k =>
      match ds[k]? with
      | none => [fun g => g.set i (.struct (s.executed g es))]
      | some d =>
        (fun g => (Eval F g d).1) ::
          artifactTraceS F i s next ds n (Eval F g d).1 (es.set k (some (val (Eval F g d).1 d)))

/-! ### the fine-grained locked system WITH histories: critical sections are many micro-steps -/

inductive FPc (V : Type) where
  | idle
  | invoked (id : Nat) (c : Call V)
  | crit (id : Nat) (c : Call V) (start : Graph V) (trace : List (Graph V → Graph V))
  | unlocked (id : Nat) (c : Call V) (r : Resp V)

structure FSys (V : Type) where
  g : Graph V
  lock : Option Tid
  pc : Tid → FPc V
  next : Nat
  hist : List (Event V)
  lin : List (LOp V)

def FSys.init (g0 : Graph V) : FSys V :=
  { g := g0, lock := none, pc := fun _ => .idle, next := 0, hist := [], lin := [] }

/-- one step of one client.  `micro`: the lock owner applies ANY transformer to the shared state
    (only a client in `crit` can; that is what the lock facts establish for the Go functions).
    `finish`: the owner's micro-steps composed are the sequential effect of its call (for `Artifact`
    this is `artifactTrace_eval`; `update`/`paramData` are a single step); it returns the
    sequential response and the deferred `Unlock` runs. -/
inductive FStep (F : Nat) : FSys V → FSys V → Prop
  | invoke (s : FSys V) (t : Tid) (c : Call V) : s.pc t = .idle →
      FStep F s ({ s with pc := upd s.pc t (.invoked s.next c), next := s.next + 1,
                          hist := s.hist ++ [.inv s.next t c] } : FSys V)
  | acquire (s : FSys V) (t : Tid) (id : Nat) (c : Call V) : s.pc t = .invoked id c → s.lock = none →
      FStep F s ({ s with lock := some t, pc := upd s.pc t (.crit id c s.g []) } : FSys V)
  | micro (s : FSys V) (t : Tid) (id : Nat) (c : Call V) (start : Graph V) (tr : List (Graph V → Graph V))
      (f : Graph V → Graph V) : s.pc t = .crit id c start tr →
      FStep F s ({ s with g := f s.g, pc := upd s.pc t (.crit id c start (tr ++ [f])) } : FSys V)
  | finish (s : FSys V) (t : Tid) (id : Nat) (c : Call V) (start : Graph V) (tr : List (Graph V → Graph V)) :
      s.pc t = .crit id c start tr → tr.foldl (fun a f => f a) start = (seqStep F start c).1 →
      FStep F s ({ s with lock := none, pc := upd s.pc t (.unlocked id c (seqStep F start c).2),
                          lin := s.lin ++ [⟨id, t, c, (seqStep F start c).2⟩] } : FSys V)
  | respond (s : FSys V) (t : Tid) (id : Nat) (c : Call V) (r : Resp V) : s.pc t = .unlocked id c r →
      FStep F s ({ s with pc := upd s.pc t .idle, hist := s.hist ++ [.resp id r] } : FSys V)

inductive FExec (F : Nat) (g0 : Graph V) : FSys V → Prop
  | init : FExec F g0 (FSys.init g0)
  | step {s s' : FSys V} : FExec F g0 s → FStep F s s' → FExec F g0 s'

def FPc.isCrit : FPc V → Bool
  | .crit _ _ _ _ => true
  | _ => false

def FPc.start? : FPc V → Option (Graph V)
  | .crit _ _ start _ => some start
  | _ => none

/-- abstraction to the atomic system: a client inside its critical section is `holding` (its
    critical section has not happened yet), and the shared state is the one the owner found -/
def FPc.abs : FPc V → Pc V
  | .idle => .idle
  | .invoked id c => .invoked id c
  | .crit id c _ _ => .holding id c
  | .unlocked id c r => .unlocked id c r

def FSys.abs (s : FSys V) : Sys V :=
  { g := match s.lock with
         | some t => ((s.pc t).start?).getD s.g
         | none => s.g,
    lock := s.lock, pc := fun u => (s.pc u).abs, next := s.next, hist := s.hist, lin := s.lin }

/-! ### the critical sections as PROGRAMS of micro-steps (what the Go functions do between `Lock()` and
    the deferred `Unlock()`), the instance's model version counter, and its unlocked atomic read -/

/-- what a client keeps locally inside its critical section -/
structure Loc (V : Type) where
  /-- what `i.Parameter(id)` / the producer lookup found -/
  node : Option (Node V) := none
  /-- `producer.Value()`: was the node outdated (does `process()` run) -/
  run : Bool := false
  /-- the entries `Process()` of the producer has pulled so far -/
  es : List (Option V) := []
  /-- the response being assembled from what the steps READ -/
  out : Resp V := .err

def Loc.isParam (l : Loc V) : Bool :=
  match l.node with
  | some (.param _ _) => true
  | _ => false

/-- the micro-steps of the three entry points between `Lock()` and the deferred `Unlock()` -/
inductive MicroOp (V : Type) where
  | lookup (p : Nat)             -- i.Parameter(nodeId): map scan + type assertion (panic → `err`, the rest does not run)
  | bumpVersion (p : Nat)        -- ApplyMessage: pn.version++
  | writeValue (p : Nat) (v : V) -- ApplyMessage: pn.appliedProfile = &val
  | setOk                        -- ApplyMessage returned (true, nil)
  | bumpModel                    -- i.incModelVersion()  (also after a rejected message)
  | readValue (p : Nat)          -- ToMessage(): reads the parameter's value
  | check (i : Nat)              -- producer.Value(): `if sn.Outdated()`
  | pullStep                     -- one `.Value()` pull of the producer's Process(), as its strategy says
  | store (i : Nat)              -- the rest of process(): store, version++, remember, clear the flag
  | readCache (i : Nat)          -- `return sn.value`

abbrev Shared (V : Type) := Graph V × Nat      -- node graph, Instance.movelVersion

/-- semantics of one micro-step on the CURRENT shared state and the client's local state -/
def exec (F : Nat) : MicroOp V → Shared V × Loc V → Shared V × Loc V
  | .lookup p, ((g, mv), l) => ((g, mv), { l with node := some (g p) })
  | .bumpVersion p, ((g, mv), l) =>
    if l.isParam then
      match g p with
      | .param x n => ((g.set p (.param x (n+1)), mv), l)
      | .struct _ => ((g, mv), l)
    else ((g, mv), l)
  | .writeValue p v, ((g, mv), l) =>
    if l.isParam then
      match g p with
      | .param _ n => ((g.set p (.param v n), mv), l)
      | .struct _ => ((g, mv), l)
    else ((g, mv), l)
  | .setOk, (sh, l) => if l.isParam then (sh, { l with out := .ok }) else (sh, l)
  | .bumpModel, ((g, mv), l) => if l.isParam then ((g, mv + 1), l) else ((g, mv), l)
  | .readValue p, ((g, mv), l) =>
    if l.isParam then
      match g p with
      | .param x _ => ((g, mv), { l with out := .val x })
      | .struct _ => ((g, mv), l)
    else ((g, mv), l)
  | .check i, ((g, mv), l) =>
    match g i with
    | .struct s => ((g, mv), { l with node := some (g i), run := Outdated F g i,
                                      es := List.replicate s.deps.length none })
    | .param _ _ => ((g, mv), { l with node := some (g i), run := false })
  | .pullStep, ((g, mv), l) =>
    if l.run then
      match l.node with
      | some (.struct s) =>
        match s.next s.scalars s.arrays l.es with
        | none => ((g, mv), l)
        | some k =>
          match s.deps[k]? with
          | none => ((g, mv), l)
          | some d => (((Eval F g d).1, mv), { l with es := l.es.set k (some (val (Eval F g d).1 d)) })
      | _ => ((g, mv), l)
    else ((g, mv), l)
  | .store i, ((g, mv), l) =>
    if l.run then
      match l.node with
      | some (.struct s) => ((g.set i (.struct (s.executed g l.es)), mv), l)
      | _ => ((g, mv), l)
    else ((g, mv), l)
  | .readCache i, ((g, mv), l) => ((g, mv), { l with out := .val (val g i) })

def runProg (F : Nat) (ops : List (MicroOp V)) (x : Shared V × Loc V) : Shared V × Loc V :=
  ops.foldl (fun a op => exec F op a) x

/-- number of `.Value()` pulls the producer's `Process()` may make: one per dependency slot -/
def pulls (g : Graph V) (i : Nat) : Nat :=
  match g i with
  | .struct s => s.deps.length
  | .param _ _ => 0

/-- the PROGRAM of a call (the `Artifact` one is as long as the producer has dependency slots in
    the state found at `Lock()`) -/
def progOf (g : Graph V) : Call V → List (MicroOp V)
  | .update p v => [.lookup p, .bumpVersion p, .writeValue p v, .setOk, .bumpModel]
  | .updateRejected p => [.lookup p, .bumpModel]
  | .paramData p => [.lookup p, .readValue p]
  | .artifact i => .check i :: (List.replicate (pulls g i) .pullStep ++ [.store i, .readCache i])

/-- does the call bump the instance's model version counter -/
def bump (g : Graph V) : Call V → Nat
  | .update p _ => match g p with | .param _ _ => 1 | .struct _ => 0
  | .updateRejected p => match g p with | .param _ _ => 1 | .struct _ => 0
  | _ => 0

/-! ### the fine-grained locked system whose critical sections are PROGRAMS of micro-steps -/

inductive PPc (V : Type) where
  | idle
  | invoked (id : Nat) (c : Call V)
  /-- inside the critical section: ghost `start`, `mv0` (shared state found at `Lock()`), the local
      state, the micro-steps still to do -/
  | crit (id : Nat) (c : Call V) (start : Graph V) (mv0 : Nat) (loc : Loc V) (todo : List (MicroOp V))
  | unlocked (id : Nat) (c : Call V) (r : Resp V)
  /-- `ModelVersion()` called WITHOUT the lock (hub goroutine, `/started`); ghost: counter at the call -/
  | mvWait (mv0 : Nat)
  /-- its atomic load has happened (value `v`), not yet returned -/
  | mvGot (mv0 v : Nat)

structure PSys (V : Type) where
  g : Graph V
  mv : Nat
  lock : Option Tid
  pc : Tid → PPc V
  next : Nat
  hist : List (Event V)
  lin : List (LOp V)
  /-- ghost: per completed unlocked `ModelVersion()` call (counter at the call, value returned, counter at return) -/
  obs : List (Nat × Nat × Nat)

def PSys.init (g0 : Graph V) : PSys V :=
  { g := g0, mv := 0, lock := none, pc := fun _ => .idle, next := 0, hist := [], lin := [], obs := [] }

/-- one step of one client.  `acquire` = `producerLock.Lock()` (where the lock facts put it: before
    any access); the program of the call is fixed by the state found there; `micro` = the next
    micro-step of the program, on the CURRENT shared state; `finish` = the program is done: the
    response is what the steps assembled, the deferred `Unlock()` runs.  `mvCall/mvLoad/mvReturn`:
    the unlocked atomic read of the model version. -/
inductive PStep (F : Nat) : PSys V → PSys V → Prop
  | invoke (s : PSys V) (t : Tid) (c : Call V) : s.pc t = .idle →
      PStep F s ({ s with pc := upd s.pc t (.invoked s.next c), next := s.next + 1,
                          hist := s.hist ++ [.inv s.next t c] } : PSys V)
  | acquire (s : PSys V) (t : Tid) (id : Nat) (c : Call V) : s.pc t = .invoked id c → s.lock = none →
      PStep F s ({ s with lock := some t, pc := upd s.pc t (.crit id c s.g s.mv {} (progOf s.g c)) } : PSys V)
  | micro (s : PSys V) (t : Tid) (id : Nat) (c : Call V) (start : Graph V) (mv0 : Nat) (loc : Loc V)
      (op : MicroOp V) (todo : List (MicroOp V)) : s.pc t = .crit id c start mv0 loc (op :: todo) →
      PStep F s ({ s with g := (exec F op ((s.g, s.mv), loc)).1.1, mv := (exec F op ((s.g, s.mv), loc)).1.2,
                          pc := upd s.pc t (.crit id c start mv0 (exec F op ((s.g, s.mv), loc)).2 todo) } : PSys V)
  | finish (s : PSys V) (t : Tid) (id : Nat) (c : Call V) (start : Graph V) (mv0 : Nat) (loc : Loc V) :
      s.pc t = .crit id c start mv0 loc [] →
      PStep F s ({ s with lock := none, pc := upd s.pc t (.unlocked id c loc.out),
                          lin := s.lin ++ [⟨id, t, c, loc.out⟩] } : PSys V)
  | respond (s : PSys V) (t : Tid) (id : Nat) (c : Call V) (r : Resp V) : s.pc t = .unlocked id c r →
      PStep F s ({ s with pc := upd s.pc t .idle, hist := s.hist ++ [.resp id r] } : PSys V)
  | mvCall (s : PSys V) (t : Tid) : s.pc t = .idle →
      PStep F s ({ s with pc := upd s.pc t (.mvWait s.mv) } : PSys V)
  | mvLoad (s : PSys V) (t : Tid) (mv0 : Nat) : s.pc t = .mvWait mv0 →
      PStep F s ({ s with pc := upd s.pc t (.mvGot mv0 s.mv) } : PSys V)
  | mvReturn (s : PSys V) (t : Tid) (mv0 v : Nat) : s.pc t = .mvGot mv0 v →
      PStep F s ({ s with pc := upd s.pc t .idle, obs := s.obs ++ [(mv0, v, s.mv)] } : PSys V)

inductive PExec (F : Nat) (g0 : Graph V) : PSys V → Prop
  | init : PExec F g0 (PSys.init g0)
  | step {s s' : PSys V} : PExec F g0 s → PStep F s s' → PExec F g0 s'

def PPc.isCrit : PPc V → Bool
  | .crit _ _ _ _ _ _ => true
  | _ => false

def PPc.start? : PPc V → Option (Graph V)
  | .crit _ _ start _ _ _ => some start
  | _ => none

/-- abstraction to the atomic system: a client inside its critical section is `holding`, an
    unlocked `ModelVersion()` reader is `idle` (it takes no part in the three-call histories) -/
def PPc.abs : PPc V → Pc V
  | .idle => .idle
  | .invoked id c => .invoked id c
  | .crit id c _ _ _ _ => .holding id c
  | .unlocked id c r => .unlocked id c r
  | .mvWait _ => .idle
  | .mvGot _ _ => .idle

def PSys.abs (s : PSys V) : Sys V :=
  { g := match s.lock with
         | some t => ((s.pc t).start?).getD s.g
         | none => s.g,
    lock := s.lock, pc := fun u => (s.pc u).abs, next := s.next, hist := s.hist, lin := s.lin }

structure PInv (F : Nat) (s : PSys V) : Prop where
  mutex : ∀ t, (s.pc t).isCrit = true → s.lock = some t
  locked : ∀ t, s.lock = some t → (s.pc t).isCrit = true
  /-- what is still to do, run from the current state, is the whole program run from the state
      found at `Lock()`: nobody else has touched the shared state in between -/
  prog : ∀ t id c start mv0 loc todo, s.pc t = .crit id c start mv0 loc todo →
    runProg F todo ((s.g, s.mv), loc) = runProg F (progOf start c) ((start, mv0), {})
  wait : ∀ t mv0, s.pc t = .mvWait mv0 → mv0 ≤ s.mv
  got : ∀ t mv0 v, s.pc t = .mvGot mv0 v → mv0 ≤ v ∧ v ≤ s.mv
  obs : ∀ o ∈ s.obs, o.1 ≤ o.2.1 ∧ o.2.1 ≤ o.2.2


/-- the model-version bumps of a sequential run -/
def bumpsAlong (F : Nat) (g : Graph V) : List (Call V) → Nat
  | [] => 0
  | c :: cs => bump g c + bumpsAlong F (seqStep F g c).1 cs


end PolyVerif.Linz
