/-
  C18 — solid primitives of /repo `modeling/primitives/{sphere,hemisphere,cube,cylinder,circle,quad}.go`
  as pure functions of their parameters (core Lean only, no Mathlib):

    * the triangle lists (`List Tri`, a triangle = three vertex ids) in the order and with the index
      arithmetic of the Go constructors,
    * the number of vertices,
    * the symbolic MERGE MAP `…Pt : vertex id → logical point` saying which vertices coincide once
      positions are merged,
    * vertex positions / supplied normals polymorphic over `[Scalar α]` (run at `Float` by the driver,
      reasoned about at `ℝ` in `Props/C18.lean`),
    * the decidable closedness / outwardness predicates the theorems are stated about, which the
      driver also evaluates on the implementation's own meshes (oracle lines).

  (The C02/C03 builder has flat `List Nat` generators in `Model/Primitives.lean`, used for
  well-formedness only; this file is independent of it.)
-/
import PolyVerif.Model.Vec

namespace PolyVerif.Solids
open PolyVerif Scalar

/-! ## Triangles, directed edges, closedness -/

/-- a triangle: three vertex ids, in winding order -/
abbrev Tri := Nat × Nat × Nat

/-- the flat index buffer of a triangle list (what `Mesh.Indices()` returns) -/
def flat (ts : List Tri) : List Nat := ts.flatMap fun t => [t.1, t.2.1, t.2.2]

/-- regroup a flat index buffer into triangles (a trailing partial triangle is dropped) -/
def unflat : List Nat → List Tri
  | a :: b :: c :: r => (a, b, c) :: unflat r
  | _ => []

/-- apply a vertex map to the three corners -/
def tmap {β : Type} (f : Nat → β) (t : Tri) : β × β × β := (f t.1, f t.2.1, f t.2.2)

/-- add `k` to every index (what `Mesh.Append` does to the appended mesh's indices) -/
def shift (k : Nat) (ts : List Tri) : List Tri := ts.map fun t => (t.1 + k, t.2.1 + k, t.2.2 + k)

/-- the three directed edges of a triangle `(a, b, c)`: `a→b, b→c, c→a` -/
def triEdges {β : Type} (t : β × β × β) : List (β × β) := [(t.1, t.2.1), (t.2.1, t.2.2), (t.2.2, t.1)]

/-- all directed edges (half-edges) of a triangle list -/
def edges {β : Type} (ts : List (β × β × β)) : List (β × β) := ts.flatMap triEdges

/-- **Closed, consistently oriented surface** over logical points `β`:
    every directed edge occurs exactly once (`Nodup`), its reverse occurs too (hence exactly once),
    and no edge is a loop.  Equivalently: every undirected edge is shared by exactly two triangles,
    which traverse it in opposite directions. -/
def Closed {β : Type} (ts : List (β × β × β)) : Prop :=
  (edges ts).Nodup ∧ (∀ e ∈ edges ts, (e.2, e.1) ∈ edges ts) ∧ (∀ e ∈ edges ts, e.1 ≠ e.2)

instance {β : Type} [DecidableEq β] (ts : List (β × β × β)) : Decidable (Closed ts) := by
  unfold Closed; infer_instance

/-- closed once the vertices are merged by `pt` -/
def ClosedMod {β : Type} (pt : Nat → β) (ts : List Tri) : Prop := Closed (ts.map (tmap pt))

instance {β : Type} [DecidableEq β] (pt : Nat → β) (ts : List Tri) : Decidable (ClosedMod pt ts) := by
  unfold ClosedMod; infer_instance

/-- logical points: `(ring, column)`; what the ring numbers mean is fixed per primitive below -/
abbrev LP := Nat × Nat

/-! ## UV sphere (sphere.go:12-80) and hemisphere (hemisphere.go:17-86) -/

/-- `UVSphere`/`Hemisphere.UV` panic unless `columns ≥ 3 ∧ rows ≥ 2` -/
def uvAdmissible (rows cols : Nat) : Bool := decide (2 ≤ rows) && decide (3 ≤ cols)

/-- `len(positions)`: top vertex, `rows-1` rings of `cols` vertices, bottom vertex -/
def uvSphereNV (rows cols : Nat) : Nat := (rows - 1) * cols + 2

/-- `v1i`, the id of the last vertex -/
def uvBottom (rows cols : Nat) : Nat := 1 + (rows - 1) * cols

/-- sphere.go:44-74: per column the top-fan and bottom-fan triangle, then per stack and column two
    triangles of a quad; `(i+1) % cols` wraps at the seam -/
def uvSphereTris (rows cols : Nat) : List Tri :=
  ((List.range cols).flatMap fun i =>
    [ (0, (i + 1) % cols + 1, i + 1),
      (uvBottom rows cols, i + cols * (rows - 2) + 1, (i + 1) % cols + cols * (rows - 2) + 1) ])
  ++ (List.range (rows - 2)).flatMap fun j =>
      (List.range cols).flatMap fun i =>
        [ (j * cols + 1 + i, j * cols + 1 + (i + 1) % cols, (j + 1) * cols + 1 + (i + 1) % cols),
          (j * cols + 1 + i, (j + 1) * cols + 1 + (i + 1) % cols, (j + 1) * cols + 1 + i) ]

/-- hemisphere.go:56-79: the same pattern with every triangle's winding reversed -/
def hemisphereTris (rows cols : Nat) : List Tri :=
  ((List.range cols).flatMap fun i =>
    [ (0, i + 1, (i + 1) % cols + 1),
      (uvBottom rows cols, (i + 1) % cols + cols * (rows - 2) + 1, i + cols * (rows - 2) + 1) ])
  ++ (List.range (rows - 2)).flatMap fun j =>
      (List.range cols).flatMap fun i =>
        [ (j * cols + 1 + i, (j + 1) * cols + 1 + (i + 1) % cols, j * cols + 1 + (i + 1) % cols),
          (j * cols + 1 + i, (j + 1) * cols + 1 + i, (j + 1) * cols + 1 + (i + 1) % cols) ]

/-- logical point of a welded sphere / hemisphere vertex: ring `0` = first vertex (top pole / cap centre),
    ring `r` (`1 ≤ r ≤ rows-1`) column `c` = the grid vertex of loop indices `i = r-1`, `j = c`,
    ring `rows` = last vertex.  Injective on `[0, uvSphereNV)`: a welded mesh merges nothing. -/
def uvDec (rows cols v : Nat) : LP :=
  if v = 0 then (0, 0)
  else if v = uvBottom rows cols then (rows, 0)
  else ((v - 1) / cols + 1, (v - 1) % cols)

/-- vertex id of a logical point (inverse of `uvDec` on valid points) -/
def uvEnc (rows cols : Nat) (p : LP) : Nat :=
  if p.1 = 0 then 0 else if p.1 = rows then uvBottom rows cols else (p.1 - 1) * cols + 1 + p.2

/-! ### UVSphereUnwelded (sphere.go:82-172): every fan triangle gets 3 fresh vertices, every quad 4 -/

def uvUnweldedNV (rows cols : Nat) : Nat := 6 * cols + 4 * ((rows - 2) * cols)

def uvSphereUnweldedTris (rows cols : Nat) : List Tri :=
  ((List.range cols).flatMap fun i =>
    [ (6 * i, 6 * i + 1, 6 * i + 2), (6 * i + 3, 6 * i + 4, 6 * i + 5) ])
  ++ (List.range (rows - 2)).flatMap fun j =>
      (List.range cols).flatMap fun i =>
        let b := 6 * cols + 4 * (j * cols + i)
        [ (b, b + 1, b + 2), (b, b + 2, b + 3) ]

/-- which welded-sphere vertex (`calculatedPositions[k]`) the unwelded vertex `v` is a copy of.
    This is the merge map of the unwelded sphere (target: welded vertex ids). -/
def uvUnweldedSrc (rows cols v : Nat) : Nat :=
  if v < 6 * cols then
    let i := v / 6
    match v % 6 with
    | 0 => 0
    | 1 => (i + 1) % cols + 1
    | 2 => i + 1
    | 3 => uvBottom rows cols
    | 4 => i + cols * (rows - 2) + 1
    | _ => (i + 1) % cols + cols * (rows - 2) + 1
  else
    let q := (v - 6 * cols) / 4
    let j := q / cols
    let i := q % cols
    match (v - 6 * cols) % 4 with
    | 0 => j * cols + 1 + i
    | 1 => j * cols + 1 + (i + 1) % cols
    | 2 => (j + 1) * cols + 1 + (i + 1) % cols
    | _ => (j + 1) * cols + 1 + i

/-! ## Circle (circle.go:23-80), cylinder (cylinder.go:28-124) -/

/-- circle.go:39-58: `(k-1, mid, k)` for `k = 1..sides-1`, then `(sides-1, mid, 0)`; `mid = sides` -/
def circleTris (sides : Nat) : List Tri :=
  ((List.range (sides - 1)).map fun i => (i, sides, i + 1)) ++ [(sides - 1, sides, 0)]

def circleNV (sides : Nat) : Nat := sides + 1

/-- cylinder.go:42-58: per side `(bottomLeft, topLeft, topRight), (bottomLeft, topRight, bottomRight)`;
    vertex `2k` = top of column `k`, `2k+1` = bottom of column `k`, `k = 0..sides` (column `sides` is the seam copy) -/
def cylinderSideTris (sides : Nat) : List Tri :=
  (List.range sides).flatMap fun i => [ (2 * i + 1, 2 * i, 2 * i + 2), (2 * i + 1, 2 * i + 2, 2 * i + 3) ]

def cylinderSideNV (sides : Nat) : Nat := sides * 2 + 2

/-- cylinder.go:100-121: the side mesh, then `Append` of the top circle (unless `NoTop`), then of the
    bottom circle (unless `NoBottom`); `Append` shifts the appended indices by the current vertex count -/
def cylinderTris (sides : Nat) (noTop noBottom : Bool) : List Tri :=
  let n0 := cylinderSideNV sides
  let n1 := if noTop then n0 else n0 + circleNV sides
  cylinderSideTris sides
    ++ (if noTop then [] else shift n0 (circleTris sides))
    ++ (if noBottom then [] else shift n1 (circleTris sides))

/-- circle.go:24-26: `Circle.ToMesh` panics when `Sides < 3`; `Cylinder.ToMesh` does not check `Sides` itself but
    builds one circle per cap that is present, so it panics iff `Sides < 3` and at least one cap is generated
    (a cap-less pipe with fewer than 3 sides is accepted and degenerate). -/
def cylinderAdmissible (sides : Nat) (noTop noBottom : Bool) : Bool :=
  decide (3 ≤ sides) || (noTop && noBottom)

/-- the constructor as a partial function: `none` = panic -/
def cylinder? (sides : Nat) (noTop noBottom : Bool) : Option (List Tri) :=
  if cylinderAdmissible sides noTop noBottom then some (cylinderTris sides noTop noBottom) else none

/-- `UVSphere` as a partial function: `none` = panic -/
def uvSphere? (rows cols : Nat) : Option (List Tri) :=
  if uvAdmissible rows cols then some (uvSphereTris rows cols) else none

def cylinderNV (sides : Nat) (noTop noBottom : Bool) : Nat :=
  cylinderSideNV sides + (if noTop then 0 else circleNV sides) + (if noBottom then 0 else circleNV sides)

/-- merge map of the capped cylinder (both caps): ring 0 = top centre, ring 1 = top rim, ring 2 = bottom
    rim, ring 3 = bottom centre.  The seam column `sides` is column 0; the top cap's rim vertex `k` is
    column `k`; the bottom cap is the circle rotated by π about the X axis, so its rim vertex `k`
    (angle `-2πk/sides`) is column `(sides - k) % sides`. -/
def cylinderPt (sides v : Nat) : LP :=
  if v < 2 * sides + 2 then (1 + v % 2, (v / 2) % sides)
  else if v < 3 * sides + 2 then (1, v - (2 * sides + 2))
  else if v = 3 * sides + 2 then (0, 0)
  else if v < 4 * sides + 3 then (2, (sides - (v - (3 * sides + 3))) % sides)
  else (3, 0)

/-! ## Box: welded (cube.go:66-90, 181-217) and as six quads (cube.go:129-179, quad.go:16-48) -/

/-- quad.go:34 -/
def quadTris : List Tri := [(0, 1, 2), (2, 3, 0)]

/-- `top.Append(bottom).Append(left).Append(right).Append(front).Append(back)`: quad `q` shifted by `4q` -/
def cubeQuadsTris : List Tri := (List.range 6).flatMap fun q => shift (4 * q) quadTris

def cubeQuadsNV : Nat := 24

/-- corner numbering of `Cube.Welded` (cube.go:186-203): bit 2 = +x (right), bit 1 = +y (top), bit 0 = +z (front) -/
def cornerSign (corner : Nat) : Int × Int × Int :=
  (if corner / 4 % 2 = 1 then 1 else -1, if corner / 2 % 2 = 1 then 1 else -1, if corner % 2 = 1 then 1 else -1)

/-- merge map of the six-quad box: which of the eight corners each of the 24 vertices is.
    Derived from quad.go's vertex order and the six rotations of `UnweldedQuads`
    (top, bottom = π about Z, left = π/2 about Z, right = 3π/2 about Z, front = 3π/2 about −X, back = π/2 about −X):
    PROVED from that construction in `C18.cubeQuads_positions_eq_table` (model of the construction:
    `Model/SolidsCode.lean`), and validated against the implementation's positions on every run. -/
def cubeQuadsCornerTable : List Nat :=
  [2, 3, 7, 6,  4, 5, 1, 0,  0, 1, 3, 2,  6, 7, 5, 4,  3, 1, 5, 7,  0, 2, 6, 4]

def cubeQuadsPt (v : Nat) : Nat := cubeQuadsCornerTable.getD v (8 + v)

/-! ## Positions and supplied normals, polymorphic in the scalar -/

section Pos
variable {α : Type} [Scalar α]

@[inline] def n2a (n : Nat) : α := (n : α)

/-- sphere.go:24-42 -/
def uvSpherePos (radius : α) (rows cols v : Nat) : V3 α :=
  if v = 0 then V3.New (n2a 0) radius (n2a 0)
  else if v = uvBottom rows cols then V3.New (n2a 0) (-radius) (n2a 0)
  else
    let i := (v - 1) / cols
    let j := (v - 1) % cols
    let phi : α := pi * n2a (i + 1) / n2a rows
    let theta : α := n2a 2 * pi * n2a j / n2a cols
    (V3.New (sin phi * cos theta) (cos phi) (sin phi * sin theta)).Scale radius

/-- `vector3.Array(positions).Normalized()` -/
def uvSphereNormal (radius : α) (rows cols v : Nat) : V3 α := (uvSpherePos radius rows cols v).Normalized

def uvUnweldedPos (radius : α) (rows cols v : Nat) : V3 α :=
  uvSpherePos radius rows cols (uvUnweldedSrc rows cols v)

/-- hemisphere.go:27-54: vertex 0 is the cap centre (origin), the rings rise from the equator
    (`i = 0`, `ugh = π/2`) towards the pole, the last vertex is the pole `(0, r, 0)` -/
def hemispherePos (radius : α) (rows cols v : Nat) : V3 α :=
  if v = 0 then V3.New (n2a 0) (n2a 0) (n2a 0)
  else if v = uvBottom rows cols then V3.New (n2a 0) radius (n2a 0)
  else
    let i := (v - 1) / cols
    let j := (v - 1) % cols
    let phi : α := (-pi * n2a i) / n2a rows
    let theta : α := n2a 2 * pi * (n2a j / n2a cols)
    let ugh : α := phi / n2a 2 + pi / n2a 2
    (V3.New (sin ugh * cos theta) (cos ugh) (sin ugh * sin theta)).Scale radius

/-- cylinder.go:31 / circle.go:25: `(1.0 / float64(Sides)) * 2.0 * math.Pi` -/
def angleIncrement (sides : Nat) : α := n2a 1 / n2a sides * n2a 2 * pi

/-- cylinder.go:34-41 (side), circle.go:29-37 + `Translate` (top cap), circle + rotation by π about X +
    `Translate` (bottom cap; the rotation is written here in its exact form `(x, y, z) ↦ (x, −y, −z)`;
    `Model/SolidsCode.lean` has the construction with the quaternion as the code performs it (`cylinderPosCode`, the one
    the driver runs) and `C18.cylinder_positions_eq_exact_form` proves the two equal over ℝ). Both caps present. -/
def cylinderPos (radius height : α) (sides v : Nat) : V3 α :=
  let hh : α := height / n2a 2
  let ang (k : Nat) : α := angleIncrement sides * n2a k
  if v < 2 * sides + 2 then
    let k := v / 2
    V3.New (cos (ang k) * radius) (if v % 2 = 0 then hh else -hh) (sin (ang k) * radius)
  else if v < 3 * sides + 2 then
    let k := v - (2 * sides + 2)
    V3.New (cos (ang k) * radius) hh (sin (ang k) * radius)
  else if v = 3 * sides + 2 then V3.New (n2a 0) hh (n2a 0)
  else if v < 4 * sides + 3 then
    let k := v - (3 * sides + 3)
    V3.New (cos (ang k) * radius) (-hh) (-(sin (ang k) * radius))
  else V3.New (n2a 0) (-hh) (n2a 0)

/-- supplied normals of the capped cylinder: side `(cos a, ±0.1, sin a).Normalized()`, top cap `(0,1,0)`,
    bottom cap `(0,1,0)` rotated by π about X = `(0,−1,0)` -/
def cylinderNormal (sides v : Nat) : V3 α :=
  let ang (k : Nat) : α := angleIncrement sides * n2a k
  if v < 2 * sides + 2 then
    let k := v / 2
    (V3.New (cos (ang k)) (if v % 2 = 0 then lit 1 10 else -(lit 1 10)) (sin (ang k))).Normalized
  else if v < 3 * sides + 3 then V3.New (n2a 0) (n2a 1) (n2a 0)
  else V3.New (n2a 0) (-(n2a 1)) (n2a 0)

/-- a box corner: sign pattern times the half extents -/
def cornerPos (w h d : α) (corner : Nat) : V3 α :=
  let hw := w / n2a 2; let hh := h / n2a 2; let hd := d / n2a 2
  V3.New (if corner / 4 % 2 = 1 then hw else -hw) (if corner / 2 % 2 = 1 then hh else -hh)
    (if corner % 2 = 1 then hd else -hd)

/-- cube.go:186-203 -/
def cubeWeldedPos (w h d : α) (v : Nat) : V3 α := cornerPos w h d v

/-- cube.go:212: `vector3.Array(potentialVerts).Normalized()` -/
def cubeWeldedNormal (w h d : α) (v : Nat) : V3 α := (cornerPos w h d v).Normalized

/-- the six-quad box: vertex `v` sits at corner `cubeQuadsPt v` (exact form).  `Model/SolidsCode.lean` has the
    construction as the code performs it (`cubeQuadsPosCode`: rotated, translated quads — the one the driver runs) and
    `C18.cubeQuads_positions_eq_table` proves the two equal over ℝ, i.e. proves the corner table. -/
def cubeQuadsPos (w h d : α) (v : Nat) : V3 α := cornerPos w h d (cubeQuadsPt v)

/-- supplied normals of the six-quad box: `Up` rotated with the face (exact form): +y, −y, −x, +x, +z, −z -/
def cubeQuadsNormal (v : Nat) : V3 α :=
  match v / 4 with
  | 0 => V3.New (n2a 0) (n2a 1) (n2a 0)
  | 1 => V3.New (n2a 0) (-(n2a 1)) (n2a 0)
  | 2 => V3.New (-(n2a 1)) (n2a 0) (n2a 0)
  | 3 => V3.New (n2a 1) (n2a 0) (n2a 0)
  | 4 => V3.New (n2a 0) (n2a 0) (n2a 1)
  | _ => V3.New (n2a 0) (n2a 0) (-(n2a 1))

/-- six times the signed volume of the tetrahedron `(origin, a, b, c)` = `a · (b × c)` -/
def det3 (a b c : V3 α) : α := a.Dot (b.Cross c)

/-- the (unnormalised) geometric normal of triangle `(a, b, c)` -/
def faceNormal (a b c : V3 α) : V3 α := (b.Sub a).Cross (c.Sub a)

/-- **outward**: every triangle, seen from the centre `ctr`, has positive signed volume -/
def OutwardAt (pos : Nat → V3 α) (ctr : V3 α) (ts : List Tri) : Prop :=
  ∀ t ∈ ts, n2a 0 < det3 ((pos t.1).Sub ctr) ((pos t.2.1).Sub ctr) ((pos t.2.2).Sub ctr)

/-- **normals outward**: the supplied normal of every corner of every triangle has positive dot
    product with that triangle's geometric normal -/
def NormalsOutward (pos nrm : Nat → V3 α) (ts : List Tri) : Prop :=
  ∀ t ∈ ts, let n := faceNormal (pos t.1) (pos t.2.1) (pos t.2.2)
    n2a 0 < (nrm t.1).Dot n ∧ n2a 0 < (nrm t.2.1).Dot n ∧ n2a 0 < (nrm t.2.2).Dot n

instance (pos : Nat → V3 α) (ctr : V3 α) (ts : List Tri) : Decidable (OutwardAt pos ctr ts) := by
  unfold OutwardAt; infer_instance

instance (pos nrm : Nat → V3 α) (ts : List Tri) : Decidable (NormalsOutward pos nrm ts) := by
  unfold NormalsOutward; infer_instance

/-- six times the signed volume enclosed by the triangle list (sum of `det3`) -/
def volume6 (pos : Nat → V3 α) (ts : List Tri) : α :=
  ts.foldl (fun acc t => acc + det3 (pos t.1) (pos t.2.1) (pos t.2.2)) (n2a 0)

end Pos

end PolyVerif.Solids
