/-
  Model of /repo/formats/spz (Niantic SPZ gaussian splats, after gzip), core Lean only.

  Layout (header.go, load.go:150-200; published at github.com/nianticlabs/spz):
    header  16 bytes LE: magic u32 = 0x5053474e, version u32 (1|2), numPoints u32 (≤ 10^7),
            shDegree u8 (0..3), fractionalBits u8, flags u8, reserved u8
    then planar arrays in this order, N = numPoints, dim = 0|3|8|15 by shDegree:
      positions  N·9 bytes (version 2: 3 × 24-bit LE fixed point)  |  N·6 bytes (version 1: 3 × half float LE)
      alphas     N
      colours    N·3
      scales     N·3
      rotations  N·3
      sh         N·dim·3        (per point: dim coefficients × 3 channels)

  `readArrays` is the shared "sequence of io.ReadFull calls" used by Model/Readers.lean too.
-/
import PolyVerif.Model.Vec

namespace PolyVerif
namespace Spz
open Scalar

/-! ### sequential exact reads -/

/-- consecutive `io.ReadFull` calls with the given buffer sizes: the chunks and the unread rest,
    `none` as soon as one buffer cannot be filled -/
def readArrays : List Nat → List UInt8 → Option (List (List UInt8) × List UInt8)
  | [], bs => some ([], bs)
  | n :: ns, bs =>
    if n ≤ bs.length then
      match readArrays ns (bs.drop n) with
      | some (as, r) => some (bs.take n :: as, r)
      | none => none
    else none

/-- little-endian unsigned value of a byte string -/
def leNat : List UInt8 → Nat
  | [] => 0
  | b :: bs => b.toNat + 256 * leNat bs

/-! ### header -/

structure Header where
  magic : Nat
  version : Nat
  numPoints : Nat
  shDegree : Nat
  fractionalBits : Nat
  flags : Nat
  reserved : Nat
deriving DecidableEq, Repr, Inhabited

def magicNum : Nat := 0x5053474e
def maxPoints : Nat := 10000000

/-- `binary.Read(in, LittleEndian, &header)` on exactly 16 bytes -/
def parseHeader (b : List UInt8) : Header :=
  { magic := leNat (b.take 4), version := leNat ((b.drop 4).take 4), numPoints := leNat ((b.drop 8).take 4),
    shDegree := leNat ((b.drop 12).take 1), fractionalBits := leNat ((b.drop 13).take 1),
    flags := leNat ((b.drop 14).take 1), reserved := leNat ((b.drop 15).take 1) }

/-- `Header.Validate` (header.go:24-44) -/
def Header.valid (h : Header) : Bool :=
  h.magic == magicNum && (1 ≤ h.version && h.version ≤ 2) && h.numPoints ≤ maxPoints && h.shDegree ≤ 3

/-- `Header.ShDimensions` -/
def shDim (deg : Nat) : Nat :=
  match deg with
  | 0 => 0
  | 1 => 3
  | 2 => 8
  | _ => 15

/-- bytes per position: half floats in version 1, 24-bit fixed point otherwise -/
def posBytes (h : Header) : Nat := if h.version = 1 then 6 else 9

/-- the buffer sizes of the six reads of `spz.Read`, in order
    (`readSh` reads nothing when the degree is 0: size 0 is the same thing) -/
def arraySizes (h : Header) : List Nat :=
  [h.numPoints * posBytes h, h.numPoints, h.numPoints * 3, h.numPoints * 3, h.numPoints * 3,
   h.numPoints * 3 * shDim h.shDegree]

/-- length of the decompressed stream the header announces -/
def payloadLength (h : Header) : Nat := 16 + (arraySizes h).sum

inductive Err where
  | short      -- io.EOF / io.ErrUnexpectedEOF from a read
  | invalid    -- Header.Validate
deriving DecidableEq, Repr

/-- the planar arrays as read -/
structure Arrays where
  header : Header
  positions : List UInt8
  alphas : List UInt8
  colors : List UInt8
  scales : List UInt8
  rotations : List UInt8
  sh : List UInt8
deriving DecidableEq, Repr

/-- `spz.Read` after gzip, up to (not including) dequantisation: header, validation, six reads -/
def readRaw (bs : List UInt8) : Except Err Arrays :=
  if 16 ≤ bs.length then
    let h := parseHeader (bs.take 16)
    if h.valid then
      match readArrays (arraySizes h) (bs.drop 16) with
      | some ([p, a, c, s, r, sh], _) => .ok ⟨h, p, a, c, s, r, sh⟩
      | _ => .error .short
    else .error .invalid
  else .error .short

/-! ### dequantisation (header.go:50-291, util.go) -/

/-- what the decoder needs from its scalar beyond `Scalar` -/
structure Env (α : Type) where
  ofInt : Int → α
  /-- `math.Pow(2.0, k)` for an integer `k` -/
  pow2 : Int → α
  /-- `math.Inf(+1)` -/
  inf : α
  /-- `math.NaN()` -/
  nan : α

variable {α : Type} [Scalar α]

@[inline] def byteAt (a : List UInt8) (j : Nat) : UInt8 := a.getD j 0
@[inline] def natF (n : Nat) : α := ((n : Nat) : α)
@[inline] def byteF (b : UInt8) : α := natF b.toNat

/-- header.go:254-262, one coordinate: three bytes little endian into a uint32, bit 23 extended
    (`if fixed32 & 0x800000 > 0 { fixed32 |= 0xff000000 }`) -/
def fixed24Word (b0 b1 b2 : BitVec 8) : BitVec 32 :=
  let w := b0.setWidth 32 ||| (b1.setWidth 32 <<< 8) ||| (b2.setWidth 32 <<< 16)
  if w &&& 0x800000#32 > 0#32 then w ||| 0xff000000#32 else w

/-- `int32(fixed32)` -/
def fixed24 (b0 b1 b2 : UInt8) : Int := (fixed24Word b0.toBitVec b1.toBitVec b2.toBitVec).toInt

/-- `b := 1 << pgh.FractionalBits` on Go's 64-bit `int` (the shift count is a uint8: 63 gives the
    minimum int, 64 and more give 0) -/
def shl1 (fb : Nat) : Int := if fb < 63 then 2 ^ fb else if fb = 63 then -(2 ^ 63) else 0

/-- `scale := 1.0 / float64(b)` -/
def posScale (E : Env α) (fb : Nat) : α := natF 1 / E.ofInt (shl1 fb)

/-- `float64(int32(fixed)) * scale` -/
def fixedCoord (E : Env α) (fb : Nat) (b0 b1 b2 : UInt8) : α := E.ofInt (fixed24 b0 b1 b2) * posScale E fb

/-- util.go `halfToFloat` on the 16-bit pattern `h < 65536`
    (`(h>>10)&0x1f`, `h&0x3ff`, `(h>>15)&1` written with div/mod) -/
def halfToFloat (E : Env α) (h : Nat) : α :=
  let exponent := h / 1024 % 32
  let mantissa := h % 1024
  let signMul : α := if h / 32768 % 2 = 1 then -(natF 1) else natF 1
  if exponent = 0 then signMul * E.pow2 (-14) * natF mantissa / natF 1024
  else if exponent = 31 then
    (if mantissa ≠ 0 then E.nan else if h / 32768 % 2 = 1 then -E.inf else E.inf)
  else signMul * E.pow2 ((exponent : Int) - 15) * (natF 1 + natF mantissa / natF 1024)

/-- little-endian uint16 (`binary.Read` into `[]uint16`) -/
def halfCoord (E : Env α) (b0 b1 : UInt8) : α := halfToFloat E (b0.toNat + 256 * b1.toNat)

/-- `alpha / 255` (load.go keeps the stored value; the inverse sigmoid is commented out) -/
def alphaDec (b : UInt8) : α := byteF b / natF 255
/-- `(b/255 - 0.5) / 0.15` (the literal `0.15` in lowest terms, as the source translator writes it) -/
def colorDec (b : UInt8) : α := (byteF b / natF 255 - lit 1 2) / lit 3 20
/-- `b/16 - 10` -/
def scaleDec (b : UInt8) : α := byteF b / natF 16 - natF 10
/-- `b · (1/127.5) - 1` -/
def rotDec (b : UInt8) : α := byteF b * lit 2 255 - natF 1
/-- `sqrt(max(0, 1 - v·v))` -/
def rotW (x y z : α) : α := Scalar.sqrt (max (natF 0) (natF 1 - (x * x + y * y + z * z)))
/-- `unquantizeSH`: `(b - 128) / 128` -/
def shDec (b : UInt8) : α := (byteF b - natF 128) / natF 128

/-- one decoded splat of an SPZ cloud -/
structure Point (α : Type) where
  pos : V3 α
  alpha : α
  color : V3 α
  scale : V3 α
  rot : V4 α
  sh : List (V3 α)

/-- the decoded cloud as `spz.Read` stores it: one array per attribute, `SH_d` per coefficient -/
structure Cloud (α : Type) where
  positions : List (V3 α)
  alphas : List α
  colors : List (V3 α)
  scales : List (V3 α)
  rotations : List (V4 α)
  sh : List (List (V3 α))

/-- `readPositions` / `readPositionsFloat16`: index arithmetic over the planar array as in the source -/
def decodePositions (E : Env α) (h : Header) (a : List UInt8) : List (V3 α) :=
  (List.range h.numPoints).map fun i =>
    if h.version = 1 then
      let i3 := i * 3
      ⟨halfCoord E (byteAt a (2 * i3)) (byteAt a (2 * i3 + 1)),
       halfCoord E (byteAt a (2 * (i3 + 1))) (byteAt a (2 * (i3 + 1) + 1)),
       halfCoord E (byteAt a (2 * (i3 + 2))) (byteAt a (2 * (i3 + 2) + 1))⟩
    else
      let i9 := i * 9
      ⟨fixedCoord E h.fractionalBits (byteAt a (i9 + 0)) (byteAt a (i9 + 1)) (byteAt a (i9 + 2)),
       fixedCoord E h.fractionalBits (byteAt a (i9 + 3)) (byteAt a (i9 + 4)) (byteAt a (i9 + 5)),
       fixedCoord E h.fractionalBits (byteAt a (i9 + 6)) (byteAt a (i9 + 7)) (byteAt a (i9 + 8))⟩

def decodeAlphas (n : Nat) (a : List UInt8) : List α := (List.range n).map fun i => alphaDec (byteAt a i)

def decodeColors (n : Nat) (a : List UInt8) : List (V3 α) :=
  (List.range n).map fun i =>
    let i3 := i * 3
    ⟨colorDec (byteAt a i3), colorDec (byteAt a (i3 + 1)), colorDec (byteAt a (i3 + 2))⟩

def decodeScales (n : Nat) (a : List UInt8) : List (V3 α) :=
  (List.range n).map fun i =>
    let i3 := i * 3
    ⟨scaleDec (byteAt a i3), scaleDec (byteAt a (i3 + 1)), scaleDec (byteAt a (i3 + 2))⟩

def decodeRotations (n : Nat) (a : List UInt8) : List (V4 α) :=
  (List.range n).map fun i =>
    let i3 := i * 3
    let x : α := rotDec (byteAt a (i3 + 0))
    let y : α := rotDec (byteAt a (i3 + 1))
    let z : α := rotDec (byteAt a (i3 + 2))
    ⟨x, y, z, rotW x y z⟩

/-- `readSh`: `sh[d][i] = data[d*3 + i*3*dim ..]` -/
def decodeSh (n dim : Nat) (a : List UInt8) : List (List (V3 α)) :=
  (List.range dim).map fun d =>
    (List.range n).map fun i =>
      let i3 := d * 3 + i * 3 * dim
      ⟨shDec (byteAt a (i3 + 0)), shDec (byteAt a (i3 + 1)), shDec (byteAt a (i3 + 2))⟩

def decode (E : Env α) (a : Arrays) : Cloud α :=
  let n := a.header.numPoints
  { positions := decodePositions E a.header a.positions,
    alphas := decodeAlphas n a.alphas,
    colors := decodeColors n a.colors,
    scales := decodeScales n a.scales,
    rotations := decodeRotations n a.rotations,
    sh := decodeSh n (shDim a.header.shDegree) a.sh }

/-- `spz.Read` on the decompressed stream -/
def read (E : Env α) (bs : List UInt8) : Except Err (Cloud α) := (readRaw bs).map (decode E)

/-! ### reference encoder, written from the published layout -/

/-- the packed record of one splat -/
structure Packed where
  /-- 9 bytes (version 2: x y z, 3 bytes each) or 6 bytes (version 1: x y z, 2 bytes each) -/
  pos : List UInt8
  alpha : UInt8
  color : List UInt8
  scale : List UInt8
  rot : List UInt8
  /-- `dim` coefficients, 3 channel bytes each -/
  sh : List UInt8
deriving DecidableEq, Repr

def le32b (n : Nat) : List UInt8 :=
  [UInt8.ofNat (n % 256), UInt8.ofNat (n / 256 % 256), UInt8.ofNat (n / 65536 % 256), UInt8.ofNat (n / 16777216 % 256)]

def encHeader (h : Header) : List UInt8 :=
  le32b h.magic ++ le32b h.version ++ le32b h.numPoints ++
  [UInt8.ofNat h.shDegree, UInt8.ofNat h.fractionalBits, UInt8.ofNat h.flags, UInt8.ofNat h.reserved]

/-- header, then the attributes planar, in the published order -/
def refEncode (h : Header) (ps : List Packed) : List UInt8 :=
  encHeader h ++ ([ps.flatMap (·.pos), ps.map (·.alpha), ps.flatMap (·.color), ps.flatMap (·.scale),
    ps.flatMap (·.rot), ps.flatMap (·.sh)] : List (List UInt8)).flatten

/-- the record fits the header -/
def Packed.fits (h : Header) (p : Packed) : Prop :=
  p.pos.length = posBytes h ∧ p.color.length = 3 ∧ p.scale.length = 3 ∧ p.rot.length = 3 ∧
  p.sh.length = 3 * shDim h.shDegree

/-- SH coefficient `d` of one record: bytes `3d, 3d+1, 3d+2` of its SH block -/
def shCoef (p : Packed) (d : Nat) : V3 α :=
  ⟨shDec (byteAt p.sh (d * 3 + 0)), shDec (byteAt p.sh (d * 3 + 1)), shDec (byteAt p.sh (d * 3 + 2))⟩

/-- dequantisation of ONE record, from its own bytes -/
def dequant (E : Env α) (h : Header) (p : Packed) : Point α :=
  { pos := if h.version = 1 then
        ⟨halfCoord E (byteAt p.pos 0) (byteAt p.pos 1), halfCoord E (byteAt p.pos 2) (byteAt p.pos 3),
         halfCoord E (byteAt p.pos 4) (byteAt p.pos 5)⟩
      else
        ⟨fixedCoord E h.fractionalBits (byteAt p.pos 0) (byteAt p.pos 1) (byteAt p.pos 2),
         fixedCoord E h.fractionalBits (byteAt p.pos 3) (byteAt p.pos 4) (byteAt p.pos 5),
         fixedCoord E h.fractionalBits (byteAt p.pos 6) (byteAt p.pos 7) (byteAt p.pos 8)⟩,
    alpha := alphaDec p.alpha,
    color := ⟨colorDec (byteAt p.color 0), colorDec (byteAt p.color 1), colorDec (byteAt p.color 2)⟩,
    scale := ⟨scaleDec (byteAt p.scale 0), scaleDec (byteAt p.scale 1), scaleDec (byteAt p.scale 2)⟩,
    rot := ⟨rotDec (byteAt p.rot 0), rotDec (byteAt p.rot 1), rotDec (byteAt p.rot 2),
            rotW (rotDec (byteAt p.rot 0)) (rotDec (byteAt p.rot 1)) (rotDec (byteAt p.rot 2))⟩,
    sh := (List.range (shDim h.shDegree)).map (shCoef p) }

end Spz
end PolyVerif
