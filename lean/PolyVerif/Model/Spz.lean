/-
  Model of /repo/formats/spz (Niantic SPZ gaussian splats, after gzip), core Lean only.

  Layout (header.go, load.go:150-200; published at github.com/nianticlabs/spz):
    header  16 bytes LE: magic u32 = 0x5053474e, version u32 (1|2), numPoints u32 (≤ 10^7),
            shDegree u8 (0..3), fractionalBits u8, flags u8, reserved u8
    then planar arrays in this order, N = numPoints, dim = 0|3|8|15 by shDegree:
      positions  N·9 bytes (version 2: 3 × 24-bit LE fixed point)  |  N·6 bytes (version 1: 3 × half float LE)
      alphas     N
      colours    N·3
      scales     N·3
      rotations  N·3
      sh         N·dim·3        (per point: dim coefficients × 3 channels)

  `readArrays` is the shared "sequence of io.ReadFull calls" used by Model/Readers.lean too.
-/
import PolyVerif.Model.Vec

namespace PolyVerif
namespace Spz
open Scalar

/-! ### sequential exact reads -/

/-- consecutive `io.ReadFull` calls with the given buffer sizes: the chunks and the unread rest,
    `none` as soon as one buffer cannot be filled -/
def readArrays : List Nat → List UInt8 → Option (List (List UInt8) × List UInt8)
  | [], bs => some ([], bs)
  | n :: ns, bs =>
    if n ≤ bs.length then
      match readArrays ns (bs.drop n) with
      | some (as, r) => some (bs.take n :: as, r)
      | none => none
    else none

/-- little-endian unsigned value of a byte string -/
def leNat : List UInt8 → Nat
  | [] => 0
  | b :: bs => b.toNat + 256 * leNat bs

/-! ### header -/

structure Header where
  magic : Nat
  version : Nat
  numPoints : Nat
  shDegree : Nat
  fractionalBits : Nat
  flags : Nat
  reserved : Nat
deriving DecidableEq, Repr, Inhabited

def magicNum : Nat := 0x5053474e
def maxPoints : Nat := 10000000

/-- `binary.Read(in, LittleEndian, &header)` on exactly 16 bytes -/
def parseHeader (b : List UInt8) : Header :=
  { magic := leNat (b.take 4), version := leNat ((b.drop 4).take 4), numPoints := leNat ((b.drop 8).take 4),
    shDegree := leNat ((b.drop 12).take 1), fractionalBits := leNat ((b.drop 13).take 1),
    flags := leNat ((b.drop 14).take 1), reserved := leNat ((b.drop 15).take 1) }

/-- `Header.Validate` (header.go:24-44) -/
def Header.valid (h : Header) : Bool :=
  h.magic == magicNum && (1 ≤ h.version && h.version ≤ 2) && h.numPoints ≤ maxPoints && h.shDegree ≤ 3

/-- `Header.ShDimensions` -/
def shDim (deg : Nat) : Nat :=
  match deg with
  | 0 => 0
  | 1 => 3
  | 2 => 8
  | _ => 15

/-- bytes per position: half floats in version 1, 24-bit fixed point otherwise -/
def posBytes (h : Header) : Nat := if h.version = 1 then 6 else 9

/-- the buffer sizes of the six reads of `spz.Read`, in order
    (`readSh` reads nothing when the degree is 0: size 0 is the same thing) -/
def arraySizes (h : Header) : List Nat :=
  [h.numPoints * posBytes h, h.numPoints, h.numPoints * 3, h.numPoints * 3, h.numPoints * 3,
   h.numPoints * 3 * shDim h.shDegree]

/-- length of the decompressed stream the header announces -/
def payloadLength (h : Header) : Nat := 16 + (arraySizes h).sum

inductive Err where
  | short      -- io.EOF / io.ErrUnexpectedEOF from a read
  | invalid    -- Header.Validate
deriving DecidableEq, Repr

/-- the planar arrays as read -/
structure Arrays where
  header : Header
  positions : List UInt8
  alphas : List UInt8
  colors : List UInt8
  scales : List UInt8
  rotations : List UInt8
  sh : List UInt8
deriving DecidableEq, Repr

/-- `spz.Read` after gzip, up to (not including) dequantisation: header, validation, six reads -/
def readRaw (bs : List UInt8) : Except Err Arrays :=
  if 16 ≤ bs.length then
    let h := parseHeader (bs.take 16)
    if h.valid then
      match readArrays (arraySizes h) (bs.drop 16) with
      | some ([p, a, c, s, r, sh], _) => .ok ⟨h, p, a, c, s, r, sh⟩
      | _ => .error .short
    else .error .invalid
  else .error .short

end Spz
end PolyVerif
