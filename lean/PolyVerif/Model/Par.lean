/-
  C10 — model of the parallel scans / modifies of modeling/mesh.go (core Lean only).

  A `PartSpec` is the work partition of one `*ParallelWithPoolSize` method exactly as the
  source states it (the fields are filled from the Go AST by engine F, see Gen/Partition.lean):

      for i := 0; i < workers n size; i++ {
          go func(start, size int) {
              for j := loopLo start size; j < loopHi start size; j++ {
                  f(cbIndex j, data[readIndex j])            -- scan
                  modified[writeIndex j] = f(cbIndex j, data[readIndex j])   -- modify
              }
          }(goStart n size i, goSize n size i)
      }

  All arithmetic is Go `int` arithmetic modelled in `Int` (no overflow: counts are slice lengths).
-/
namespace PolyVerif.Par

/-- the values taken by `for j := lo; j < hi; j++` (empty when `hi ≤ lo`) -/
def intRange (lo hi : Int) : List Int :=
  (List.range (hi - lo).toNat).map (fun (k : Nat) => lo + (k : Int))

/-- the three branches of a `*ParallelWithPoolSize` method body -/
inductive Path | panic | sequential | workers
  deriving DecidableEq, Repr

structure PartSpec where
  workers : Int → Int → Int
  goStart : Int → Int → Int → Int
  goSize : Int → Int → Int → Int
  loopLo : Int → Int → Int
  loopHi : Int → Int → Int
  cbIndex : Int → Int
  readIndex : Int → Int
  writeIndex : Option (Int → Int)

namespace PartSpec

/-- loop-variable values of worker `i` -/
def iters (P : PartSpec) (n size i : Int) : List Int :=
  intRange (P.loopLo (P.goStart n size i) (P.goSize n size i)) (P.loopHi (P.goStart n size i) (P.goSize n size i))

/-- indices handed to the callback by worker `i`, in the worker's own order -/
def worker (P : PartSpec) (n size i : Int) : List Int := (P.iters n size i).map P.cbIndex

/-- visit lists of all workers, in worker order -/
def visits (P : PartSpec) (n size : Int) : List (List Int) :=
  (intRange 0 (P.workers n size)).map (P.worker n size)

/-- element indices read by worker `i` -/
def reads (P : PartSpec) (n size i : Int) : List Int := (P.iters n size i).map P.readIndex

end PartSpec

/-- exactness of a partition at `(n, size)`: the workers' visit lists, concatenated in worker order,
    are exactly `0, 1, …, n-1` — the visit sequence of the sequential scan -/
def Exact (P : PartSpec) (n size : Nat) : Prop :=
  (P.visits n size).flatten = (List.range n).map Int.ofNat

/-! ## Schedules: write logs and their interleavings -/

/-- `Interleaving logs s`: `s` is a merge of the workers' event logs that preserves the internal order of each log —
    at every step some worker `k` whose log is not exhausted performs its next event.  This is the set of
    executions of `go worker₀ ‖ … ‖ worker_{m-1}; wg.Wait()` at the granularity of events. -/
inductive Interleaving {β : Type} : List (List β) → List β → Prop
  | done {logs : List (List β)} : (∀ l ∈ logs, l = []) → Interleaving logs []
  | step {logs : List (List β)} {s : List β} (k : Nat) (x : β) (rest : List β) :
      logs[k]? = some (x :: rest) → Interleaving (logs.set k rest) s → Interleaving logs (x :: s)

/-- memory cells indexed by Go `int`; a store `a[i] = v` -/
def write {α : Type} (m : Int → α) (e : Int × α) : Int → α := fun j => if j = e.1 then e.2 else m j

/-- perform a sequence of stores -/
def run {α : Type} (m : Int → α) (s : List (Int × α)) : Int → α := s.foldl write m

namespace PartSpec

/-- stores of worker `i` of a Modify method: `modified[w j] = f(cbIndex j, data[readIndex j])` for its loop values `j` -/
def storeLog {α : Type} (P : PartSpec) (w : Int → Int) (f : Int → α → α) (data : Int → α) (n size i : Int) : List (Int × α) :=
  (P.iters n size i).map (fun j => (w j, f (P.cbIndex j) (data (P.readIndex j))))

def storeLogs {α : Type} (P : PartSpec) (w : Int → Int) (f : Int → α → α) (data : Int → α) (n size : Int) : List (List (Int × α)) :=
  (intRange 0 (P.workers n size)).map (P.storeLog w f data n size)

/-- callback events of worker `i` of a Scan method: `f(cbIndex j, data[readIndex j])` -/
def callLog {α : Type} (P : PartSpec) (data : Int → α) (n size i : Int) : List (Int × α) :=
  (P.iters n size i).map (fun j => (P.cbIndex j, data (P.readIndex j)))

def callLogs {α : Type} (P : PartSpec) (data : Int → α) (n size : Int) : List (List (Int × α)) :=
  (intRange 0 (P.workers n size)).map (P.callLog data n size)

end PartSpec

/-- what the sequential `for i, v := range data { … f(i, v) … }` delivers / stores, in order -/
def seqEvents {α : Type} (g : Int → α) (n : Nat) : List (Int × α) := (List.range n).map (fun (k : Nat) => ((k : Int), g (k : Int)))

/-! ## Block meshes merged by `Mesh.Append` -/

/-- a triangle mesh with one vertex attribute: `Mesh.Append` concatenates the vertex arrays and shifts the indices of the
    second mesh by the vertex count of the first (modeling/mesh.go Append) -/
structure TMesh (V : Type) where
  verts : List V
  tris : List (Nat × Nat × Nat)

namespace TMesh
variable {V : Type}

def empty : TMesh V := ⟨[], []⟩

def WF (m : TMesh V) : Prop :=
  ∀ t ∈ m.tris, t.1 < m.verts.length ∧ t.2.1 < m.verts.length ∧ t.2.2 < m.verts.length

def shift (k : Nat) (t : Nat × Nat × Nat) : Nat × Nat × Nat := (t.1 + k, t.2.1 + k, t.2.2 + k)

def append (a b : TMesh V) : TMesh V :=
  ⟨a.verts ++ b.verts, a.tris ++ b.tris.map (shift a.verts.length)⟩

/-- triangles as corner positions (`none` would be a dangling index; never for a well-formed mesh) -/
def corners (m : TMesh V) : List (Option V × Option V × Option V) :=
  m.tris.map (fun t => (m.verts[t.1]?, m.verts[t.2.1]?, m.verts[t.2.2]?))

/-- `finalMesh := EmptyMesh; for each block result r (in arrival order): finalMesh = finalMesh.Append(r)` -/
def mergeAll (l : List (TMesh V)) : TMesh V := l.foldl append empty

end TMesh

/-- insertion sort on Int (used by the driver to canonicalise a multiset of visits) -/
def insertSorted (x : Int) : List Int → List Int
  | [] => [x]
  | y :: ys => if x ≤ y then x :: y :: ys else y :: insertSorted x ys

def sortInts (l : List Int) : List Int := l.foldr insertSorted []

/-- decidable form of "every index `0..n-1` exactly once" for an observed visit multiset (oracle) -/
def isRangePerm (n : Nat) (l : List Int) : Bool := sortInts l == (List.range n).map Int.ofNat

end PolyVerif.Par
