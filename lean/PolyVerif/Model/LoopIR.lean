/-
  A tiny loop language for the integer skeleton of the primitive constructors of /repo
  `modeling/primitives/*.go` (core Lean only).  Engine F (`go/facts c18.loops`) extracts, per constructor, the loop
  nest, the loop bounds, the integer assignments and the `append`s to the index / vertex slices as a term of this
  language into `PolyVerif/Gen/PrimLoops.lean`; `Props/C18.lean` proves that the index lists and vertex counts of
  `Model/Solids.lean` EQUAL the interpretation of the extracted program for all parameters.

  Semantics (mirrors Go for the recognised shapes):
    * integer variables are numbered; the parameters come first; Go `int` is modelled in ℕ (`a - b` truncates at 0 —
      on admissible parameters no subtraction of the extracted programs goes below 0, see notes/C18.md);
    * slices are numbered; a slice holds naturals: an `[]int` slice holds its values, a slice of vectors holds one
      entry per vertex: the index `e` when the appended value is `other[e]` (a copy of another slice's vertex), else `0`;
    * `loop k lo hi incl body` is `for k := lo; k < hi (k <= hi when incl); k++ { body }`; the bounds are evaluated
      once (the extractor refuses bounds that mention `len` or a variable assigned in the body); variables assigned in the
      body are local to one iteration (the extractor refuses assignments to variables declared outside the loop body).
-/
namespace PolyVerif.LoopIR

inductive E where
  | lit (n : Nat)
  | var (k : Nat)
  | len (s : Nat)
  | add (a b : E)
  | sub (a b : E)
  | mul (a b : E)
  | mod (a b : E)
  | div (a b : E)
  deriving Repr, DecidableEq

inductive S where
  | skip
  | seq (a b : S)
  | assign (k : Nat) (e : E)
  | push (s : Nat) (es : List E)
  | alloc (s : Nat) (n : E)
  | loop (k : Nat) (lo hi : E) (incl : Bool) (body : S)
  deriving Repr

abbrev Env := Nat → Nat
abbrev St := Nat → List Nat

/-- function update -/
def upd {β : Type} (f : Nat → β) (k : Nat) (v : β) : Nat → β := fun j => if j = k then v else f j

@[simp] theorem upd_same {β : Type} (f : Nat → β) (k : Nat) (v : β) : upd f k v k = v := by simp [upd]
@[simp] theorem upd_upd {β : Type} (f : Nat → β) (k : Nat) (a b : β) : upd (upd f k a) k b = upd f k b := by
  funext j; simp only [upd]; split <;> rfl
theorem upd_ne {β : Type} (f : Nat → β) {k j : Nat} (v : β) (h : j ≠ k) : upd f k v j = f j := by simp [upd, h]

def evalE (env : Env) (st : St) : E → Nat
  | .lit n => n
  | .var k => env k
  | .len s => (st s).length
  | .add a b => evalE env st a + evalE env st b
  | .sub a b => evalE env st a - evalE env st b
  | .mul a b => evalE env st a * evalE env st b
  | .mod a b => evalE env st a % evalE env st b
  | .div a b => evalE env st a / evalE env st b

def exec : S → Env → St → Env × St
  | .skip, env, st => (env, st)
  | .seq a b, env, st => let r := exec a env st; exec b r.1 r.2
  | .assign k e, env, st => (upd env k (evalE env st e), st)
  | .push s es, env, st => (env, upd st s (st s ++ es.map (evalE env st)))
  | .alloc s n, env, st => (env, upd st s (List.replicate (evalE env st n) 0))
  | .loop k lo hi incl body, env, st =>
      let l := evalE env st lo
      let h := evalE env st hi + (if incl then 1 else 0)
      (env, (List.range (h - l)).foldl (fun st i => (exec body (upd env k (l + i)) st).2) st)

/-- an extracted constructor: `params` integer parameters (variables `0 .. params-1`), `guards`: the constructor panics
    when some `(a, b)` has `a < b`; `idx` / `verts`: the slices handed to `NewTriangleMesh` / set as `Position` -/
structure Prog where
  params : Nat
  guards : List (E × E)
  idx : Nat
  verts : Nat
  body : S
  deriving Repr

def Prog.env (args : List Nat) : Env := fun k => args.getD k 0

/-- run the constructor's integer skeleton on the given parameter values -/
def Prog.run (p : Prog) (args : List Nat) : St := (exec p.body (Prog.env args) (fun _ => [])).2

/-- does the constructor get past its guards (no panic)? -/
def Prog.admits (p : Prog) (args : List Nat) : Bool :=
  p.guards.all fun g => !(decide (evalE (Prog.env args) (fun _ => []) g.1 < evalE (Prog.env args) (fun _ => []) g.2))

/-- the extracted index buffer -/
def Prog.indices (p : Prog) (args : List Nat) : List Nat := p.run args p.idx

/-- the extracted number of vertices -/
def Prog.nverts (p : Prog) (args : List Nat) : Nat := (p.run args p.verts).length

end PolyVerif.LoopIR
