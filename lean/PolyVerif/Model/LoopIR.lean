/-
  A tiny loop language for the integer skeleton of the primitive constructors of /repo
  `modeling/primitives/*.go` (core Lean only).  Engine F (`go/facts c18.loops`) extracts, per constructor, the loop
  nest, the loop bounds, the integer assignments and the `append`s to the index / vertex slices as a term of this
  language into `PolyVerif/Gen/PrimLoops.lean`; `Props/C18.lean` proves that the index lists and vertex counts of
  `Model/Solids.lean` EQUAL the interpretation of the extracted program for all parameters.

  Semantics (mirrors Go for the recognised shapes):
    * integer variables are numbered; the parameters come first; Go `int` is modelled in ℕ (`a - b` truncates at 0 —
      on admissible parameters no subtraction of the extracted programs goes below 0, see notes/C18.md);
    * slices are numbered; a slice holds naturals: an `[]int` slice holds its values, a slice of vectors holds one
      entry per vertex: the index `e` when the appended value is `other[e]` (a copy of another slice's vertex), else `0`;
    * `loop k lo hi incl body` is `for k := lo; k < hi (k <= hi when incl); k++ { body }`; the bounds are evaluated
      once (the extractor refuses bounds that mention `len` or a variable assigned in the body); variables assigned in the
      body are local to one iteration (the extractor refuses assignments to variables declared outside the loop body).
-/
import PolyVerif.Model.Vec

namespace PolyVerif.LoopIR
open PolyVerif

inductive E where
  | lit (n : Nat)
  | var (k : Nat)
  | len (s : Nat)
  | add (a b : E)
  | sub (a b : E)
  | mul (a b : E)
  | mod (a b : E)
  | div (a b : E)
  deriving Repr, DecidableEq

/-- float64 expressions (variables and parameters are numbered separately from the integers) -/
inductive FE where
  | nat (e : E)            -- `float64(e)`, and integer-valued constants (`0`, `2.0`): the natural `e` cast to the scalar
  | lit (num den : Nat)    -- a non-integral decimal constant `num/den` (`den` a power of ten), `Scalar.lit num den`
  | pi                     -- `math.Pi`
  | fpar (k : Nat)         -- float parameter `k` (`radius`, `c.Radius`, `c.Height`, `h.Radius`)
  | fvar (k : Nat)         -- float local variable `k`
  | add (a b : FE)
  | sub (a b : FE)
  | mul (a b : FE)
  | div (a b : FE)
  | neg (a : FE)
  | sin (a : FE)
  | cos (a : FE)
  deriving Repr

/-- `vector3.Float64` expressions -/
inductive VE where
  | new (x y z : FE)       -- `vector3.New(x, y, z)`
  | vvar (k : Nat)         -- vector local variable `k`
  | scale (v : VE) (t : FE)
  | add (v w : VE)
  | normalized (v : VE)
  | zero                   -- `vector3.Zero[float64]()`
  | at (s : Nat) (e : E)   -- `slice_s[e]`
  deriving Repr

inductive S where
  | skip
  | seq (a b : S)
  | assign (k : Nat) (e : E)
  | push (s : Nat) (es : List E)
  | alloc (s : Nat) (n : E)
  | loop (k : Nat) (lo hi : E) (incl : Bool) (body : S)
  -- float / vector statements (ignored by the integer interpreter `exec`, interpreted by `execV`)
  | fassign (k : Nat) (e : FE)             -- `x := <float expr>`
  | vassign (k : Nat) (v : VE)             -- `v := <vector expr>`
  | vpush (s : Nat) (vs : List VE)         -- the vectors appended by `s = append(s, vs…)`; emitted BEFORE the matching `push`
  | vset (s : Nat) (i : E) (v : VE)        -- `s[i] = v`
  deriving Repr

/-- a mesh-level transformation chain applied to a sub-mesh before `Append` (extracted by `go/facts c18.assembly`):
    `m.Transform(RotateAttribute3DTransformer{Position, q}, RotateAttribute3DTransformer{Normal, q'})` / the helper
    `rotate(m, q)` with `q = quaternion.FromTheta(theta, axis)`, then `.Translate(t)` -/
structure Placement where
  rotPos : Option (FE × VE) := none
  rotNrm : Option (FE × VE) := none
  translate : Option VE := none
  deriving Repr

/-- `if !c.<flag> { mesh = mesh.Append(<circle>.ToMesh()<placement>) }` of `Cylinder.ToMesh` -/
structure CapAppend where
  flag : String
  circle : String
  place : Placement
  deriving Repr

/-- one face of `Cube.UnweldedQuads`: `Quad{Width: width, Depth: depth}.ToMesh()<placement>` -/
structure QuadFace where
  name : String
  width : FE
  depth : FE
  place : Placement
  deriving Repr

abbrev Env := Nat → Nat
abbrev St := Nat → List Nat

/-- function update -/
def upd {β : Type} (f : Nat → β) (k : Nat) (v : β) : Nat → β := fun j => if j = k then v else f j

@[simp] theorem upd_same {β : Type} (f : Nat → β) (k : Nat) (v : β) : upd f k v k = v := by simp [upd]
@[simp] theorem upd_upd {β : Type} (f : Nat → β) (k : Nat) (a b : β) : upd (upd f k a) k b = upd f k b := by
  funext j; simp only [upd]; split <;> rfl
theorem upd_ne {β : Type} (f : Nat → β) {k j : Nat} (v : β) (h : j ≠ k) : upd f k v j = f j := by simp [upd, h]

def evalE (env : Env) (st : St) : E → Nat
  | .lit n => n
  | .var k => env k
  | .len s => (st s).length
  | .add a b => evalE env st a + evalE env st b
  | .sub a b => evalE env st a - evalE env st b
  | .mul a b => evalE env st a * evalE env st b
  | .mod a b => evalE env st a % evalE env st b
  | .div a b => evalE env st a / evalE env st b

def exec : S → Env → St → Env × St
  | .skip, env, st => (env, st)
  | .seq a b, env, st => let r := exec a env st; exec b r.1 r.2
  | .assign k e, env, st => (upd env k (evalE env st e), st)
  | .push s es, env, st => (env, upd st s (st s ++ es.map (evalE env st)))
  | .alloc s n, env, st => (env, upd st s (List.replicate (evalE env st n) 0))
  | .loop k lo hi incl body, env, st =>
      let l := evalE env st lo
      let h := evalE env st hi + (if incl then 1 else 0)
      (env, (List.range (h - l)).foldl (fun st i => (exec body (upd env k (l + i)) st).2) st)
  | .fassign _ _, env, st => (env, st)
  | .vassign _ _, env, st => (env, st)
  | .vpush _ _, env, st => (env, st)
  | .vset _ _ _, env, st => (env, st)

/-- an extracted constructor: `params` integer parameters (variables `0 .. params-1`), `guards`: the constructor panics
    when some `(a, b)` has `a < b`; `idx` / `verts`: the slices handed to `NewTriangleMesh` / set as `Position` -/
structure Prog where
  params : Nat
  guards : List (E × E)
  idx : Nat
  verts : Nat
  /-- the slice set as `NormalAttribute`, with `true` when it is passed through `vector3.Array(..).Normalized()`;
      `none`: no normals supplied -/
  nrm : Option (Nat × Bool) := none
  body : S
  deriving Repr

def Prog.env (args : List Nat) : Env := fun k => args.getD k 0

/-- run the constructor's integer skeleton on the given parameter values -/
def Prog.run (p : Prog) (args : List Nat) : St := (exec p.body (Prog.env args) (fun _ => [])).2

/-- does the constructor get past its guards (no panic)? -/
def Prog.admits (p : Prog) (args : List Nat) : Bool :=
  p.guards.all fun g => !(decide (evalE (Prog.env args) (fun _ => []) g.1 < evalE (Prog.env args) (fun _ => []) g.2))

/-- the extracted index buffer -/
def Prog.indices (p : Prog) (args : List Nat) : List Nat := p.run args p.idx

/-- the extracted number of vertices -/
def Prog.nverts (p : Prog) (args : List Nat) : Nat := (p.run args p.verts).length

/-! ## float / vector interpretation, polymorphic over the scalar -/

section V
variable {α : Type} [Scalar α]

/-- local (iteration-scoped) variables of the float/vector interpreter -/
structure Loc (α : Type) where
  env : Env
  fenv : Nat → α
  venv : Nat → V3 α

/-- state threaded through the loops by the float/vector interpreter: the integer slices as in `exec` (they give the
    lengths) and the contents of ONE vector slice, the target `tgt`, as a function index ↦ vector -/
abbrev VSt (α : Type) := St × (Nat → V3 α)

def evalF (fpar : Nat → α) (ℓ : Loc α) (st : St) : FE → α
  | .nat e => ((evalE ℓ.env st e : Nat) : α)
  | .lit n d => Scalar.lit n d
  | .pi => Scalar.pi
  | .fpar k => fpar k
  | .fvar k => ℓ.fenv k
  | .add a b => evalF fpar ℓ st a + evalF fpar ℓ st b
  | .sub a b => evalF fpar ℓ st a - evalF fpar ℓ st b
  | .mul a b => evalF fpar ℓ st a * evalF fpar ℓ st b
  | .div a b => evalF fpar ℓ st a / evalF fpar ℓ st b
  | .neg a => -(evalF fpar ℓ st a)
  | .sin a => Scalar.sin (evalF fpar ℓ st a)
  | .cos a => Scalar.cos (evalF fpar ℓ st a)

/-- vector expressions; `at s e` reads the target slice (reads of other vector slices are not modelled: `default`) -/
def evalV (fpar : Nat → α) (tgt : Nat) (ℓ : Loc α) (m : VSt α) : VE → V3 α
  | .new x y z => V3.New (evalF fpar ℓ m.1 x) (evalF fpar ℓ m.1 y) (evalF fpar ℓ m.1 z)
  | .vvar k => ℓ.venv k
  | .scale v t => (evalV fpar tgt ℓ m v).Scale (evalF fpar ℓ m.1 t)
  | .add v w => (evalV fpar tgt ℓ m v).Add (evalV fpar tgt ℓ m w)
  | .normalized v => (evalV fpar tgt ℓ m v).Normalized
  | .zero => V3.New ((0 : Nat) : α) ((0 : Nat) : α) ((0 : Nat) : α)
  | .at s e => if s = tgt then m.2 (evalE ℓ.env m.1 e) else default

/-- write the vectors `vs` at the positions `n, n+1, …` -/
def writeAt (f : Nat → V3 α) : Nat → List (V3 α) → Nat → V3 α
  | _, [] => f
  | n, v :: r => writeAt (upd f n v) (n + 1) r

/-- the float/vector interpreter for the vector slice `tgt`.  Integer statements act as in `exec`; `vpush s vs` (emitted
    before the matching integer `push`) writes `vs` at the current end of slice `s`, `vset s i v` writes at index `i` —
    both only when `s = tgt`; locals assigned in a loop body are iteration-scoped. -/
def execV (fpar : Nat → α) (tgt : Nat) : S → Loc α → VSt α → Loc α × VSt α
  | .skip, ℓ, m => (ℓ, m)
  | .seq a b, ℓ, m => let r := execV fpar tgt a ℓ m; execV fpar tgt b r.1 r.2
  | .assign k e, ℓ, m => ({ ℓ with env := upd ℓ.env k (evalE ℓ.env m.1 e) }, m)
  | .push s es, ℓ, m => (ℓ, (upd m.1 s (m.1 s ++ es.map (evalE ℓ.env m.1)), m.2))
  | .alloc s n, ℓ, m => (ℓ, (upd m.1 s (List.replicate (evalE ℓ.env m.1 n) 0), m.2))
  | .loop k lo hi incl body, ℓ, m =>
      let l := evalE ℓ.env m.1 lo
      let h := evalE ℓ.env m.1 hi + (if incl then 1 else 0)
      (ℓ, (List.range (h - l)).foldl (fun m i => (execV fpar tgt body { ℓ with env := upd ℓ.env k (l + i) } m).2) m)
  | .fassign k e, ℓ, m => ({ ℓ with fenv := upd ℓ.fenv k (evalF fpar ℓ m.1 e) }, m)
  | .vassign k v, ℓ, m => ({ ℓ with venv := upd ℓ.venv k (evalV fpar tgt ℓ m v) }, m)
  | .vpush s vs, ℓ, m =>
      (ℓ, (m.1, if s = tgt then writeAt m.2 (m.1 s).length (vs.map (evalV fpar tgt ℓ m)) else m.2))
  | .vset s i v, ℓ, m =>
      (ℓ, (m.1, if s = tgt then upd m.2 (evalE ℓ.env m.1 i) (evalV fpar tgt ℓ m v) else m.2))

def Loc.init (args : List Nat) : Loc α :=
  { env := Prog.env args, fenv := fun _ => ((0 : Nat) : α), venv := fun _ => default }

/-- contents of the vector slice `tgt` after running the constructor with integer parameters `args` and float
    parameters `fargs` -/
def Prog.vslice (p : Prog) (tgt : Nat) (args : List Nat) (fargs : List α) : Nat → V3 α :=
  (execV (fun k => fargs.getD k ((0 : Nat) : α)) tgt p.body (Loc.init args) (fun _ => [], fun _ => default)).2.2

/-- the float locals at the end of the constructor's body (function-level `x := …`; loop-body locals are scoped) -/
def Prog.finalFenv (p : Prog) (args : List Nat) (fargs : List α) : Nat → α :=
  (execV (fun k => fargs.getD k ((0 : Nat) : α)) 0 p.body (Loc.init args) (fun _ => [], fun _ => default)).1.fenv

/-- the extracted vertex positions: index ↦ vector -/
def Prog.positions (p : Prog) (args : List Nat) (fargs : List α) : Nat → V3 α := p.vslice p.verts args fargs

/-- the extracted supplied normals (`none` when the constructor supplies none) -/
def Prog.normals (p : Prog) (args : List Nat) (fargs : List α) : Option (Nat → V3 α) :=
  p.nrm.map fun sn => if sn.2 then fun v => (p.vslice sn.1 args fargs v).Normalized else p.vslice sn.1 args fargs

end V

end PolyVerif.LoopIR
