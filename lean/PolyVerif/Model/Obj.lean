/-
  Model of /repo/formats/obj (writer.go `WriteMeshes`, reader.go `ReadMesh`), core Lean only.

  Lines are structured tokens (`Line τ α`): `α` is the scalar payload (only moved by the codec),
  `τ` the type of a face-corner token.  The reader de-duplicates corners of a group by the *token*
  (Go: `pointHash map[string]int`), so it is generic in `τ` with a parse function `pc`; the writer
  emits parsed corners (`τ = Corner`).  Text ↔ lines (printing numbers, `strings.Fields`, `Atoi`)
  lives in the driver's lexer / printer and is tied by the text-exact correspondence.
-/
namespace PolyVerif.Obj

structure V3 (α : Type) where
  x : α
  y : α
  z : α
deriving DecidableEq, Repr

structure V2 (α : Type) where
  x : α
  y : α
deriving DecidableEq, Repr

/-- a face corner as written in the file: 1-based indices; `none` = slot absent -/
structure Corner where
  v : Nat
  vt : Option Nat
  vn : Option Nat
deriving DecidableEq, Repr

inductive Err where
  | err     -- ReadMesh returns an error
  | panic   -- index out of range
deriving DecidableEq, Repr

inductive Line (τ α : Type) where
  | v (p : V3 α)
  | vt (p : V2 α)
  | vn (p : V3 α)
  | f (a b c : τ)
  | g (name : String)
  | usemtl (name : String)
  | mtllib (files : List String)
  | other (text : String)   -- blank line, comment, `o`, `s`, any other keyword: ignored by the reader
  | bad (e : Err)           -- a line the reader fails on (number that does not parse: err; too few fields: panic)
deriving DecidableEq, Repr

/-! ### reader -/

/-- `objMeshReading`; `ftoks` is a ghost field (not in the Go code): the face lines that went into
    this group, in order.  No other field depends on it. -/
structure Group (τ α : Type) where
  name : String := ""
  toks : List τ := []                    -- pointHash: token ↦ its position in insertion order
  tris : List (Nat × Nat × Nat) := []
  verts : List (V3 α) := []
  normals : List (V3 α) := []
  uvs : List (V2 α) := []
  mats : List (String × Nat) := []       -- meshMats: (material name, PrimitiveCount)
  ftoks : List (τ × τ × τ) := []         -- ghost

structure RState (τ α : Type) where
  pv : List (V3 α) := []
  pn : List (V3 α) := []
  pt : List (V2 α) := []
  libs : List String := []
  since : Nat := 0                        -- trisSenseLastMat
  inEffect : Option String := none        -- matInEffect
  done : List (Group τ α) := []           -- geoms
  cur : Group τ α := {}                   -- workingGeom

/-- `meshMats[len-1].PrimitiveCount = n` -/
def setLast (mats : List (String × Nat)) (n : Nat) : List (String × Nat) :=
  match mats.getLast? with
  | none => mats
  | some (m, _) => mats.dropLast ++ [(m, n)]

/-- closing the open range of a group (at `g` and at end of input):
    `if trisSenseLastMat > 0 && len(meshMats) > 0 { last.PrimitiveCount = trisSenseLastMat }` -/
def closeMats (mats : List (String × Nat)) (since : Nat) : List (String × Nat) :=
  if since > 0 ∧ mats ≠ [] then setLast mats since else mats

/-- "the material in effect carries over from the previous group": a group without ranges that gets a
    face opens a range for the material in effect, if any -/
def carryMats (mats : List (String × Nat)) (inEffect : Option String) : List (String × Nat) :=
  if mats = [] then (match inEffect with | some m => [(m, 0)] | none => []) else mats

/-- the `-1` sentinel: `Atoi(s) - 1 == -1` means "absent" -/
def slot (o : Option Nat) : Option Nat := o.bind fun n => if n = 0 then none else some (n - 1)

section reader
variable {τ α : Type} [DecidableEq τ] (pc : τ → Except Err Corner)

/-- one corner of an `f` line: reuse the vertex of an identical token, else parse it and pull the
    referenced pool entries -/
def addCorner (s : RState τ α) (g : Group τ α) (t : τ) : Except Err (Nat × Group τ α) :=
  if t ∈ g.toks then .ok (g.toks.idxOf t, g) else
  match pc t with
  | .error e => .error e
  | .ok c =>
    if c.v = 0 then .error .panic else
    match s.pv[c.v - 1]? with
    | none => .error .panic
    | some p =>
      match (match slot c.vn with
             | none => some g.normals
             | some i => (s.pn[i]?).map fun n => g.normals ++ [n]) with
      | none => .error .panic
      | some normals =>
        match (match slot c.vt with
               | none => some g.uvs
               | some i => (s.pt[i]?).map fun u => g.uvs ++ [u]) with
        | none => .error .panic
        | some uvs =>
          .ok (g.toks.length, { g with toks := g.toks ++ [t], verts := g.verts ++ [p], normals := normals, uvs := uvs })

def step (s : RState τ α) : Line τ α → Except Err (RState τ α)
  | .other _ => .ok s
  | .bad e => .error e
  | .mtllib fs => if fs = [] then .error .err else .ok { s with libs := s.libs ++ fs }
  | .v p => .ok { s with pv := s.pv ++ [p] }
  | .vn p => .ok { s with pn := s.pn ++ [p] }
  | .vt p => .ok { s with pt := s.pt ++ [p] }
  | .usemtl name =>
    if name = "" then .error .err else
    let mats1 :=
      if s.since > 0 then (if s.cur.mats = [] then [("Default", s.since)] else setLast s.cur.mats s.since)
      else s.cur.mats
    .ok { s with since := 0, inEffect := some name, cur := { s.cur with mats := mats1 ++ [(name, 0)] } }
  | .g name =>                       -- a bare `g` is the default group, name ""
    if s.cur.tris ≠ [] then
      .ok { s with since := 0, done := s.done ++ [{ s.cur with mats := closeMats s.cur.mats s.since }],
                   cur := { name := name } }
    else .ok { s with cur := { s.cur with name := name } }
  | .f a b c =>
    let g0 := { s.cur with mats := carryMats s.cur.mats s.inEffect }
    match addCorner pc s g0 a with
    | .error e => .error e
    | .ok (p1, g1) =>
      match addCorner pc s g1 b with
      | .error e => .error e
      | .ok (p2, g2) =>
        match addCorner pc s g2 c with
        | .error e => .error e
        | .ok (p3, g3) =>
          .ok { s with since := s.since + 1,
                       cur := { g3 with tris := g3.tris ++ [(p1, p2, p3)], ftoks := g3.ftoks ++ [(a, b, c)] } }

def steps (s : RState τ α) : List (Line τ α) → Except Err (RState τ α)
  | [] => .ok s
  | l :: ls => match step pc s l with
    | .error e => .error e
    | .ok s' => steps s' ls

/-- end of input: the working group is always appended (even if empty); its open range is closed -/
def finish (s : RState τ α) : List (Group τ α) × List String :=
  (s.done ++ [{ s.cur with mats := closeMats s.cur.mats s.since }], s.libs)

/-- `obj.ReadMesh` on lexed lines -/
def readObj (ls : List (Line τ α)) : Except Err (List (Group τ α) × List String) :=
  match steps pc {} ls with
  | .error e => .error e
  | .ok s => .ok (finish s)

end reader

/-! ### writer -/

/-- the part of `modeling.Mesh` the OBJ writer looks at -/
structure Mesh (α : Type) where
  idx : List Nat
  pos : Option (List (V3 α))            -- v3Data["Position"]
  uv : Option (List (V2 α))             -- v2Data["TexCoord"]
  nrm : Option (List (V3 α))            -- v3Data["Normal"]
  mats : List (Option String × Nat)     -- (Material name or nil, PrimitiveCount)
deriving DecidableEq, Repr

/-- `strings.Replace(mat.Name, " ", "", -1)`, `DefaultDiffuse` for a nil material -/
def matName : Option String → String
  | none => "DefaultDiffuse"
  | some n => String.ofList (n.toList.filter (· ≠ ' '))

section writer
variable {α : Type}

/-- the corner written for vertex id `i` of a mesh whose data starts at offsets `vo`, `to`, `no`
    in the v / vt / vn pools (1-based): `p + uvShift = i + 1 + uvOffset` -/
def mkCorner (hasUv hasN : Bool) (vo to no i : Nat) : Corner :=
  ⟨i + 1 + vo, if hasUv then some (i + 1 + to) else none, if hasN then some (i + 1 + no) else none⟩

/-- `faceWriter(indices, …, start, start+3n, …)`: `n` face lines from the index cursor; reading past the
    end of the index array panics -/
def faceRun (mk : Nat → Corner) : Nat → List Nat → Except Err (List (Line Corner α) × List Nat)
  | 0, idx => .ok ([], idx)
  | n + 1, a :: b :: c :: r =>
    match faceRun mk n r with
    | .ok (ls, r') => .ok (.f (mk a) (mk b) (mk c) :: ls, r')
    | .error e => .error e
  | _ + 1, _ => .error .panic

def rangeRun (mk : Nat → Corner) : List (Option String × Nat) → List Nat → Except Err (List (Line Corner α))
  | [], _ => .ok []
  | (m, n) :: ms, idx =>
    match faceRun mk n idx with
    | .error e => .error e
    | .ok (ls, r) =>
      match rangeRun mk ms r with
      | .error e => .error e
      | .ok ls' => .ok (.usemtl (matName m) :: ls ++ ls')

def writeGroup (multi : Bool) (vo to no : Nat) (name : String) (m : Mesh α) : Except Err (List (Line Corner α)) :=
  let hdr : List (Line Corner α) := if multi || name ≠ "" then [.g name] else []
  let mk := mkCorner m.uv.isSome m.nrm.isSome vo to no
  match (if m.mats = [] then (faceRun mk ((m.idx.length + 2) / 3) m.idx).map (·.1) else rangeRun mk m.mats m.idx) with
  | .error e => .error e
  | .ok ls => .ok (hdr ++ ls)

def optLen {β : Type} : Option (List β) → Nat
  | none => 0
  | some l => l.length

def writeGroups (multi : Bool) : Nat → Nat → Nat → List (String × Mesh α) → Except Err (List (Line Corner α))
  | _, _, _, [] => .ok []
  | vo, to, no, (name, m) :: rest =>
    match writeGroup multi vo to no name m with
    | .error e => .error e
    | .ok a =>
      match writeGroups multi (vo + optLen m.pos) (to + optLen m.uv) (no + optLen m.nrm) rest with
      | .error e => .error e
      | .ok b => .ok (a ++ b)

def optList {β : Type} : Option (List β) → List β
  | none => []
  | some l => l

def meshData (m : Mesh α) : List (Line Corner α) :=
  (optList m.pos).map .v ++ (optList m.uv).map .vt ++ (optList m.nrm).map .vn

def dataLines : List (String × Mesh α) → List (Line Corner α)
  | [] => []
  | (_, m) :: rest => meshData m ++ dataLines rest

def headerLines (matFile : String) : List (Line Corner α) :=
  .other "# Created with github.com/EliCDavis/polyform" ::
    (if matFile = "" then [] else [.mtllib [matFile], .other "o mesh"])

/-- `obj.WriteMeshes` -/
def writeObj (matFile : String) (ms : List (String × Mesh α)) : Except Err (List (Line Corner α)) :=
  match writeGroups (decide (ms.length > 1)) 0 0 0 ms with
  | .error e => .error e
  | .ok gs => .ok (headerLines matFile ++ dataLines ms ++ gs)

/-- the pinned defect (before `fix: obj writer keeps separate running offsets`): ONE running offset,
    the position offset, applied to v, vt and vn alike -/
def writeGroupsShared (multi : Bool) : Nat → List (String × Mesh α) → Except Err (List (Line Corner α))
  | _, [] => .ok []
  | vo, (name, m) :: rest =>
    match writeGroup multi vo vo vo name m with
    | .error e => .error e
    | .ok a =>
      match writeGroupsShared multi (vo + optLen m.pos) rest with
      | .error e => .error e
      | .ok b => .ok (a ++ b)

def writeObjShared (matFile : String) (ms : List (String × Mesh α)) : Except Err (List (Line Corner α)) :=
  match writeGroupsShared (decide (ms.length > 1)) 0 ms with
  | .error e => .error e
  | .ok gs => .ok (headerLines matFile ++ dataLines ms ++ gs)

end writer

/-! ### reader output as meshes (`toMesh`) -/

def flatTris : List (Nat × Nat × Nat) → List Nat
  | [] => []
  | (a, b, c) :: r => a :: b :: c :: flatTris r

def optOfList {β : Type} (l : List β) : Option (List β) := if l = [] then none else some l

/-- an attribute array is kept only if it is non-empty and complete (one entry per vertex) -/
def keepIfComplete {β : Type} (n : Nat) (l : List β) : Option (List β) :=
  if l ≠ [] ∧ l.length = n then some l else none

/-- `objMeshReading.toMesh`: `SetFloat3Attribute` drops an empty position array; normals / texture
    coordinates are kept only when every corner of the group supplied them -/
def toMesh {τ α : Type} (g : Group τ α) : String × Mesh α :=
  (g.name, ⟨flatTris g.tris, optOfList g.verts, keepIfComplete g.verts.length g.uvs,
            keepIfComplete g.verts.length g.normals, g.mats.map fun (n, c) => (some n, c)⟩)

/-- the material of every triangle, in order: ranges expanded -/
def perTriangle {μ : Type} (mats : List (μ × Nat)) : List μ := mats.flatMap fun (m, c) => List.replicate c m

/-- **same material on every triangle** (used for the on-disk Save → Load path, where a material is its
    `.mtl` record): same groups, and per group the expanded ranges agree and cover `ntris` triangles -/
def SameMaterials {μ : Type} [DecidableEq μ] (want got : List (String × Nat × List (μ × Nat))) : Bool :=
  want.length == got.length &&
  (want.zip got).all fun (w, g) =>
    w.1 == g.1 && w.2.1 == g.2.1 && perTriangle w.2.2 == perTriangle g.2.2 && (perTriangle g.2.2).length == g.2.1

def faceCount {τ α : Type} (ls : List (Line τ α)) : Nat :=
  (ls.filter fun l => match l with | .f _ _ _ => true | _ => false).length

/-! ### what the property says (decidable predicates, evaluated by the driver on implementation output) -/

section spec
variable {α : Type} [DecidableEq α]

def V3.map {β : Type} (f : α → β) (v : V3 α) : V3 β := ⟨f v.x, f v.y, f v.z⟩
def V2.map {β : Type} (f : α → β) (v : V2 α) : V2 β := ⟨f v.x, f v.y⟩

/-- per-corner content of attribute `src` (through `idx`) is found again in `dst` (through `ridx`);
    an absent attribute must be absent again.  Every lookup must succeed. -/
def attrMatches {β : Type} [DecidableEq β] (f : β → β) (idx ridx : List Nat) (src dst : Option (List β)) : Bool :=
  match src, dst with
  | none, none => true
  | some a, some b =>
    let want := idx.map fun i => (a[i]?).map f
    want.all Option.isSome && ridx.map (fun i => b[i]?) == want
  | _, _ => false

/-- read-back mesh `r` carries the triangles of `m`: same count and order, same per-corner position /
    texture coordinate / normal (scalars through `rt` = print-then-parse), material ranges `mats`.
    A mesh without triangles comes back without attribute arrays. -/
def MeshMatches (rt : α → α) (m : Mesh α) (mats : List (Option String × Nat)) (r : Mesh α) : Bool :=
  r.idx.length == m.idx.length && r.mats == mats &&
  (if m.idx = [] then r.pos == none && r.uv == none && r.nrm == none
   else attrMatches (V3.map rt) m.idx r.idx m.pos r.pos && attrMatches (V2.map rt) m.idx r.idx m.uv r.uv &&
        attrMatches (V3.map rt) m.idx r.idx m.nrm r.nrm)

def writtenMats (m : Mesh α) : List (Option String × Nat) := m.mats.map fun (n, c) => (some (matName n), c)

/-- **C05 round trip, as the property states it**: one group per mesh, same names, same triangles and
    per-corner data, same material ranges -/
def RoundTrips (rt : α → α) (ms gs : List (String × Mesh α)) : Bool :=
  ms.length == gs.length &&
  (ms.zip gs).all fun (p, r) => p.1 == r.1 && MeshMatches rt p.2 (writtenMats p.2) r.2

/-- what the code does with material ranges: a mesh without ranges (but with faces) inherits the
    material in effect — the last `usemtl` written for an earlier mesh -/
def expectMats (carry : Option String) (m : Mesh α) : List (Option String × Nat) :=
  if m.mats ≠ [] then writtenMats m
  else match carry with
    | some a => if m.idx = [] then [] else [(some a, m.idx.length / 3)]
    | none => []

def nextCarry (carry : Option String) (m : Mesh α) : Option String :=
  match m.mats.getLast? with
  | some (n, _) => some (matName n)
  | none => carry

def RoundTripsCarry (rt : α → α) : Option String → List (String × Mesh α) → List (String × Mesh α) → Bool
  | _, [], [] => true
  | carry, p :: ms, r :: gs =>
    p.1 == r.1 && MeshMatches rt p.2 (expectMats carry p.2) r.2 && RoundTripsCarry rt (nextCarry carry p.2) ms gs
  | _, _, _ => false

/-- the faces of a text, resolved: every corner replaced by the pool entries it refers to at that
    point of the file (`none` = unresolvable).  Independent of the reader's grouping / de-duplication. -/
structure RCorner (α : Type) where
  p : V3 α
  t : Option (V2 α)
  n : Option (V3 α)
deriving DecidableEq

def resolveCorner (pv pn : List (V3 α)) (pt : List (V2 α)) (c : Corner) : Option (RCorner α) :=
  if c.v = 0 then none else
  match pv[c.v - 1]? with
  | none => none
  | some p =>
    match slot c.vt, slot c.vn with
    | none, none => some ⟨p, none, none⟩
    | some i, none => (pt[i]?).map fun t => ⟨p, some t, none⟩
    | none, some j => (pn[j]?).map fun n => ⟨p, none, some n⟩
    | some i, some j => match pt[i]?, pn[j]? with
      | some t, some n => some ⟨p, some t, some n⟩
      | _, _ => none

abbrev RFace (α : Type) := RCorner α × RCorner α × RCorner α

/-- the faces of a text, resolved and split at the `g` lines: one list per stretch between two `g` lines
    (`none` = a face with an unresolvable corner).  Independent of the reader's state machine. -/
def resolveGroups {τ : Type} (pc : τ → Except Err Corner) :
    List (V3 α) → List (V3 α) → List (V2 α) → List (Option (RFace α)) → List (Line τ α) → List (List (Option (RFace α)))
  | _, _, _, cur, [] => [cur]
  | pv, pn, pt, cur, .v p :: ls => resolveGroups pc (pv ++ [p]) pn pt cur ls
  | pv, pn, pt, cur, .vn p :: ls => resolveGroups pc pv (pn ++ [p]) pt cur ls
  | pv, pn, pt, cur, .vt p :: ls => resolveGroups pc pv pn (pt ++ [p]) cur ls
  | pv, pn, pt, cur, .g _ :: ls => cur :: resolveGroups pc pv pn pt [] ls
  | pv, pn, pt, cur, .f a b c :: ls =>
    resolveGroups pc pv pn pt (cur ++ [match pc a, pc b, pc c with
     | .ok a, .ok b, .ok c =>
       (match resolveCorner pv pn pt a, resolveCorner pv pn pt b, resolveCorner pv pn pt c with
        | some a, some b, some c => some (a, b, c)
        | _, _, _ => none)
     | _, _, _ => none]) ls
  | pv, pn, pt, cur, _ :: ls => resolveGroups pc pv pn pt cur ls

/-- what a group keeps when saved: texture coordinates only if EVERY corner of the group has one, normals
    likewise (an incomplete attribute cannot be lined up with the vertices and is dropped on load) -/
def keepComplete (fs : List (RFace α)) : List (RFace α) :=
  let cs := fs.flatMap fun (a, b, c) => [a, b, c]
  let kt := cs.all fun c => c.t.isSome
  let kn := cs.all fun c => c.n.isSome
  let f := fun (c : RCorner α) => (⟨c.p, if kt then c.t else none, if kn then c.n else none⟩ : RCorner α)
  fs.map fun (a, b, c) => (f a, f b, f c)

def allSome {β : Type} : List (Option β) → Option (List β)
  | [] => some []
  | none :: _ => none
  | some a :: r => (allSome r).map (a :: ·)

/-- **C05 re-save**: the saved text `t'` has exactly the faces of `t` — as many, in the same order, every
    corner at the same position, with the same texture coordinate / normal wherever the whole group of
    `t` has them (for a group in which every corner has the same shape: exactly the same corners) -/
def Resaves {τ τ' : Type} (pc : τ → Except Err Corner) (pc' : τ' → Except Err Corner)
    (t : List (Line τ α)) (t' : List (Line τ' α)) : Bool :=
  faceCount t' == faceCount t &&
  match ((resolveGroups pc [] [] [] [] t).mapM allSome), allSome (resolveGroups pc' [] [] [] [] t').flatten with
  | some gs, some fs' => fs' == (gs.map keepComplete).flatten
  | _, _ => false

end spec

/-! ### load → save, corner by corner (final-pool form; theorem `obj_resave_corners`) -/

section resavespec
variable {α : Type}

/-- corner tokens of face lines, flattened -/
def flatC {τ : Type} : List (τ × τ × τ) → List τ
  | [] => []
  | (a, b, c) :: r => a :: b :: c :: flatC r

/-- the face lines of a text, in order -/
def faceToks {τ : Type} : List (Line τ α) → List (τ × τ × τ)
  | [] => []
  | .f a b c :: ls => (a, b, c) :: faceToks ls
  | _ :: ls => faceToks ls

def poolV {τ : Type} : List (Line τ α) → List (V3 α)
  | [] => []
  | .v p :: ls => p :: poolV ls
  | _ :: ls => poolV ls
def poolN {τ : Type} : List (Line τ α) → List (V3 α)
  | [] => []
  | .vn p :: ls => p :: poolN ls
  | _ :: ls => poolN ls
def poolT {τ : Type} : List (Line τ α) → List (V2 α)
  | [] => []
  | .vt p :: ls => p :: poolT ls
  | _ :: ls => poolT ls

/-- a corner with its vt / vn slot removed unless kept -/
def maskC (c : Corner) (kt kn : Bool) : Corner := ⟨c.v, if kt then c.vt else none, if kn then c.vn else none⟩

/-- does `toMesh` keep the group's texture coordinates / normals (complete, non-empty table)? -/
def keptT {τ : Type} (g : Group τ α) : Bool := (keepIfComplete g.verts.length g.uvs).isSome
def keptN {τ : Type} (g : Group τ α) : Bool := (keepIfComplete g.verts.length g.normals).isSome

/-- what the saved text must hold for corner token `t` of group `g`: the token resolved against the
    input's pools, its vt / vn slot dropped unless the whole group supplies it -/
def savedCorner {τ : Type} (pc : τ → Except Err Corner) (pv pn : List (V3 α)) (pt : List (V2 α)) (g : Group τ α) (t : τ) :
    Option (RCorner α) :=
  match pc t with
  | .ok c => resolveCorner pv pn pt (maskC c (keptT g) (keptN g))
  | .error _ => none

/-- every face corner of a text, in file order, resolved against the text's own `v / vt / vn` lines -/
def cornerAttrs {τ : Type} (pc : τ → Except Err Corner) (ls : List (Line τ α)) : List (Option (RCorner α)) :=
  (flatC (faceToks ls)).map fun t => match pc t with
    | .ok c => resolveCorner (poolV ls) (poolN ls) (poolT ls) c
    | .error _ => none

/-- the statement of `obj_resave_corners`, as a decidable predicate on the groups read from `ls` and a saved text -/
def ResavesCorners [DecidableEq α] {τ τ' : Type} (pc : τ → Except Err Corner) (pc' : τ' → Except Err Corner)
    (ls : List (Line τ α)) (gs : List (Group τ α)) (out : List (Line τ' α)) : Bool :=
  cornerAttrs pc' out == gs.flatMap (fun g => (flatC g.ftoks).map (savedCorner pc (poolV ls) (poolN ls) (poolT ls) g)) &&
  (cornerAttrs pc' out).all Option.isSome

end resavespec

end PolyVerif.Obj
