/-
  C12 — the JSON text of parameter payloads (generator/parameter/value.go: json.Marshal / json.Unmarshal of the nine
  parameter.Value[T] types), concretely: printers as encoding/json writes compact values, and parsers that read that
  canonical form back.  Core Lean only.  Codecs are built from combinators so that the round-trip law
  `parse (print a ++ rest) = some (a, rest)` is proved once per combinator (PolyVerif/Lemmas/Payload.lean).
  The only codec that is NOT defined here is the one for float64 (strconv shortest formatting / ParseFloat): it is a
  parameter, and its law is the one named trusted law (`GoFloat`).

  The parsers accept the canonical form only (no whitespace, object keys in declaration order): that is what the law
  `fromJ (toJ v) = v` needs.  Messages a client sends to UpdateParameter are not parsed by the model (values enter it
  as the implementation reports them).
-/
import PolyVerif.Model.GraphIO

namespace PolyVerif
namespace Payload
open GraphIO

abbrev Txt := List Char

structure Codec (α : Type) where
  print : α → Txt
  parse : Txt → Option (α × Txt)

/-- what may follow a value inside a document: the end, or `,` `]` `}` -/
def Delim : Txt → Prop
  | [] => True
  | c :: _ => c = ',' ∨ c = ']' ∨ c = '}'

/-- the round-trip law of a codec, with an arbitrary delimited continuation; and a printed value never starts with `]` -/
structure Codec.Lawful {α : Type} (c : Codec α) : Prop where
  law : ∀ a rest, Delim rest → c.parse (c.print a ++ rest) = some (a, rest)
  head : ∀ a, ∃ h t, c.print a = h :: t ∧ h ≠ ']'

/-- strip a literal prefix -/
def expect : Txt → Txt → Option Txt
  | [], s => some s
  | _ :: _, [] => none
  | a :: as, b :: bs => if a = b then expect as bs else none

/-! ### bool, int -/

def boolC : Codec Bool :=
  { print := fun b => if b then "true".toList else "false".toList,
    parse := fun s =>
      match expect "true".toList s with
      | some r => some (true, r)
      | none =>
        match expect "false".toList s with
        | some r => some (false, r)
        | none => none }

def printInt (i : Int) : Txt := if i < 0 then '-' :: natDigits i.natAbs else natDigits i.toNat

def parseNat (s : Txt) : Option (Nat × Txt) :=
  match s.takeWhile isDigit with
  | [] => none
  | d :: ds => (digitsVal (d :: ds) 0).map fun v => (v, s.dropWhile isDigit)

def intC : Codec Int :=
  { print := printInt,
    parse := fun s =>
      match s with
      | '-' :: r => (parseNat r).map fun (v, r') => (-(v : Int), r')
      | _ => (parseNat s).map fun (v, r') => ((v : Int), r') }

/-! ### strings (encoding/json with its default HTML escaping) -/

def hexNib (n : Nat) : Char := if n < 10 then Char.ofNat (48 + n) else Char.ofNat (87 + n)

def hex4 (n : Nat) : Txt := [hexNib (n / 4096 % 16), hexNib (n / 256 % 16), hexNib (n / 16 % 16), hexNib (n % 16)]

def unhexNib (c : Char) : Option Nat :=
  let n := c.toNat
  if 48 ≤ n ∧ n ≤ 57 then some (n - 48)
  else if 97 ≤ n ∧ n ≤ 102 then some (n - 87)
  else if 65 ≤ n ∧ n ≤ 70 then some (n - 55)
  else none

def needsU (c : Char) : Bool :=
  c.toNat < 32 || c = '<' || c = '>' || c = '&' || c.toNat = 0x2028 || c.toNat = 0x2029

def esc (c : Char) : Txt :=
  if c = '"' then ['\\', '"'] else if c = '\\' then ['\\', '\\']
  else if c = '\n' then ['\\', 'n'] else if c = '\r' then ['\\', 'r'] else if c = '\t' then ['\\', 't']
  else if c.toNat = 8 then ['\\', 'b'] else if c.toNat = 12 then ['\\', 'f']
  else if needsU c then '\\' :: 'u' :: hex4 c.toNat
  else [c]

/-- read the body of a string up to the closing quote -/
def unesc : Nat → Txt → Option (Txt × Txt)
  | 0, _ => none
  | _ + 1, [] => none
  | f + 1, c :: r =>
    if c = '"' then some ([], r)
    else if c = '\\' then
      match r with
      | [] => none
      | e :: r2 =>
        if e = 'u' then
          match r2 with
          | a :: b :: c2 :: d :: r3 =>
            match unhexNib a, unhexNib b, unhexNib c2, unhexNib d with
            | some x, some y, some z, some w =>
              (unesc f r3).map fun (s, t) => (Char.ofNat (((x * 16 + y) * 16 + z) * 16 + w) :: s, t)
            | _, _, _, _ => none
          | _ => none
        else
          let dec : Option Char :=
            if e = '"' then some '"' else if e = '\\' then some '\\' else if e = '/' then some '/'
            else if e = 'n' then some '\n' else if e = 'r' then some '\r' else if e = 't' then some '\t'
            else if e = 'b' then some (Char.ofNat 8) else if e = 'f' then some (Char.ofNat 12) else none
          match dec with
          | some x => (unesc f r2).map fun (s, t) => (x :: s, t)
          | none => none
    else (unesc f r).map fun (s, t) => (c :: s, t)

def strC : Codec Txt :=
  { print := fun s => '"' :: (s.flatMap esc ++ ['"']),
    parse := fun s =>
      match s with
      | '"' :: r => unesc (r.length + 1) r
      | _ => none }

/-! ### arrays, nullable arrays, objects with fixed keys -/

def printElems {α : Type} (c : Codec α) : List α → Txt
  | [] => [']']
  | [a] => c.print a ++ [']']
  | a :: b :: r => c.print a ++ ',' :: printElems c (b :: r)

def parseElems {α : Type} (c : Codec α) : Nat → Txt → Option (List α × Txt)
  | 0, _ => none
  | f + 1, s =>
    match c.parse s with
    | some (a, ',' :: r) => (parseElems c f r).map fun (l, t) => (a :: l, t)
    | some (a, ']' :: r) => some ([a], r)
    | _ => none

def arrC {α : Type} (c : Codec α) : Codec (List α) :=
  { print := fun l => '[' :: printElems c l,
    parse := fun s =>
      match s with
      | '[' :: ']' :: r => some ([], r)
      | '[' :: r => parseElems c (r.length + 1) r
      | _ => none }

/-- a Go slice: `nil` prints `null` -/
def sliceC {α : Type} (c : Codec α) : Codec (Option (List α)) :=
  { print := fun o => match o with | none => "null".toList | some l => (arrC c).print l,
    parse := fun s =>
      match expect "null".toList s with
      | some r => some (none, r)
      | none => ((arrC c).parse s).map fun (l, t) => (some l, t) }

/-- `"key":` -/
def keyTxt (k : String) : Txt := '"' :: (k.toList ++ ['"', ':'])

def obj2 {α β : Type} (k1 k2 : String) (c1 : Codec α) (c2 : Codec β) : Codec (α × β) :=
  { print := fun (a, b) => '{' :: (keyTxt k1 ++ (c1.print a ++ (',' :: (keyTxt k2 ++ (c2.print b ++ ['}']))))),
    parse := fun s =>
      match expect ('{' :: keyTxt k1) s with
      | none => none
      | some s1 =>
        match c1.parse s1 with
        | none => none
        | some (a, s2) =>
          match expect (',' :: keyTxt k2) s2 with
          | none => none
          | some s3 =>
            match c2.parse s3 with
            | none => none
            | some (b, s4) =>
              match expect ['}'] s4 with
              | none => none
              | some s5 => some ((a, b), s5) }

def obj3 {α β γ : Type} (k1 k2 k3 : String) (c1 : Codec α) (c2 : Codec β) (c3 : Codec γ) : Codec (α × β × γ) :=
  { print := fun (a, b, g) =>
      '{' :: (keyTxt k1 ++ (c1.print a ++ (',' :: (keyTxt k2 ++ (c2.print b ++ (',' :: (keyTxt k3 ++ (c3.print g ++ ['}'])))))))),
    parse := fun s =>
      match expect ('{' :: keyTxt k1) s with
      | none => none
      | some s1 =>
        match c1.parse s1 with
        | none => none
        | some (a, s2) =>
          match expect (',' :: keyTxt k2) s2 with
          | none => none
          | some s3 =>
            match c2.parse s3 with
            | none => none
            | some (b, s4) =>
              match expect (',' :: keyTxt k3) s4 with
              | none => none
              | some s5 =>
                match c3.parse s5 with
                | none => none
                | some (g, s6) =>
                  match expect ['}'] s6 with
                  | none => none
                  | some s7 => some ((a, b, g), s7) }

/-! ### the nine parameter types -/

inductive PTy | f64 | int | str | bool | v2 | v3 | v3arr | aabb | color
deriving DecidableEq, Repr

/-- a payload value; `F` = float64 -/
inductive PV (F : Type) where
  | f64 (x : F)
  | int (i : Int)
  | str (s : Txt)
  | bool (b : Bool)
  | v2 (v : F × F)
  | v3 (v : F × F × F)
  | v3arr (l : Option (List (F × F × F)))
  | aabb (b : (F × F × F) × (F × F × F))
  | color (hex : Txt)            -- coloring.WebColor marshals as the string "#rrggbbaa"

def v2C {F : Type} (fc : Codec F) : Codec (F × F) := obj2 "x" "y" fc fc
def v3C {F : Type} (fc : Codec F) : Codec (F × F × F) := obj3 "x" "y" "z" fc fc fc
def aabbC {F : Type} (fc : Codec F) : Codec ((F × F × F) × (F × F × F)) := obj2 "center" "extents" (v3C fc) (v3C fc)

/-- json.Marshal of a parameter value -/
def toJ {F : Type} (fc : Codec F) : PV F → Txt
  | .f64 x => fc.print x
  | .int i => intC.print i
  | .str s => strC.print s
  | .bool b => boolC.print b
  | .v2 v => (v2C fc).print v
  | .v3 v => (v3C fc).print v
  | .v3arr l => (sliceC (v3C fc)).print l
  | .aabb b => (aabbC fc).print b
  | .color h => strC.print h

/-- the whole text must be consumed -/
def whole {α : Type} (r : Option (α × Txt)) : Option α :=
  match r with
  | some (a, []) => some a
  | _ => none

/-- json.Unmarshal into a `T` (canonical texts) -/
def fromJ {F : Type} (fc : Codec F) : PTy → Txt → Option (PV F)
  | .f64, s => (whole (fc.parse s)).map .f64
  | .int, s => (whole (intC.parse s)).map .int
  | .str, s => (whole (strC.parse s)).map .str
  | .bool, s => (whole (boolC.parse s)).map .bool
  | .v2, s => (whole ((v2C fc).parse s)).map .v2
  | .v3, s => (whole ((v3C fc).parse s)).map .v3
  | .v3arr, s => (whole ((sliceC (v3C fc)).parse s)).map .v3arr
  | .aabb, s => (whole ((aabbC fc).parse s)).map .aabb
  | .color, s => (whole (strC.parse s)).map .color

/-- the payload `v` is a value of parameter type `t` -/
def HasTy {F : Type} : PTy → PV F → Prop
  | .f64, .f64 _ | .int, .int _ | .str, .str _ | .bool, .bool _ | .v2, .v2 _ | .v3, .v3 _
  | .v3arr, .v3arr _ | .aabb, .aabb _ | .color, .color _ => True
  | _, _ => False

end Payload
end PolyVerif
