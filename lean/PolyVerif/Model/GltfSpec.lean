/-
  C06 — decidable predicates on a parsed glTF document (`Doc`) and its binary buffer.  These are what the
  theorems of Props/C06 are stated about AND what the driver evaluates on the implementation's parsed output
  (`c06.holds.*`).  Core Lean only.
-/
import PolyVerif.Model.Gltf

namespace PolyVerif
namespace Gltf

/-! ### reading an accessor -/

def Accessor.byteLen (a : Accessor) : Nat := a.count * a.dim * a.comp.size

/-- independent reading of accessor `a`: `count·dim` little-endian components starting at its view's offset;
    `none` when the view does not exist or the data would leave the buffer -/
def decodeAcc (buf : List UInt8) (views : List View) (a : Accessor) : Option (List Nat) :=
  match views[a.view]? with
  | none => none
  | some v =>
    if v.off + a.byteLen ≤ buf.length then some (decodeN a.comp.size (a.count * a.dim) (buf.drop v.off)) else none

/-- regroup flat component data into `c` vectors of `dim` components -/
def chunkN (dim : Nat) : Nat → List Nat → List (List Nat)
  | 0, _ => []
  | c+1, l => l.take dim :: chunkN dim c (l.drop dim)

/-! ### declared bounds -/

/-- `b` is the component-wise minimum (in the order of the stored values) of column `col`;
    the sentinel is only allowed when there is nothing (but `+Inf`) to bound -/
def isMinOf (c : Comp) (b : Bound) (col : List Nat) : Bool :=
  match b with
  | none => col.all (fun v => c == .f32 && v == posInf32)
  | some m => col.contains m && col.all (fun v => decide (c.key m ≤ c.key v))

def isMaxOf (c : Comp) (b : Bound) (col : List Nat) : Bool :=
  match b with
  | none => col.all (fun v => c == .f32 && v == negInf32)
  | some m => col.contains m && col.all (fun v => decide (c.key v ≤ c.key m))

/-- declared min/max of accessor `a` against its decoded data `d` -/
def boundsOK (a : Accessor) (d : List Nat) : Bool :=
  if a.min.isEmpty && a.max.isEmpty then true else
  let us := (chunkN a.dim a.count d).filter (usable a.comp a.dim)
  a.min.length == a.dim && a.max.length == a.dim
  && (a.min.zip (List.range a.dim)).all (fun p => isMinOf a.comp p.1 (column us p.2))
  && (a.max.zip (List.range a.dim)).all (fun p => isMaxOf a.comp p.1 (column us p.2))

/-! ### structural validity -/

def viewInside (n : Nat) (v : View) : Bool := v.off + v.len ≤ n

def viewDisj (a b : View) : Bool := a.off + a.len ≤ b.off || b.off + b.len ≤ a.off

def pairwiseB {α} (r : α → α → Bool) : List α → Bool
  | [] => true
  | a :: l => l.all (r a) && pairwiseB r l

/-- accessor: view exists, `count·elemSize = view.byteLength`, data inside the buffer, bounds agree -/
def accOK (buf : List UInt8) (views : List View) (a : Accessor) : Bool :=
  match views[a.view]?, decodeAcc buf views a with
  | some v, some d => a.byteLen == v.len && boundsOK a d
  | _, _ => false

def vertexCount (accs : List Accessor) (p : Prim) : Nat :=
  match p.attrs with
  | [] => 0
  | (_, a) :: _ => match accs[a]? with
    | some x => x.count
    | none => 0

/-- primitive: every attribute accessor exists and all have one count `n`; the index accessor exists, is an
    unsigned-integer SCALAR and every index VALUE is `< n`; the material exists -/
def primOK (buf : List UInt8) (views : List View) (accs : List Accessor) (nmat : Nat) (p : Prim) : Bool :=
  let n := vertexCount accs p
  p.attrs.all (fun ka => match accs[ka.2]? with
    | some x => x.count == n && x.dim ≥ 2
    | none => false)
  && (match p.indices with
      | none => true
      | some i => match accs[i]? with
        | none => false
        | some ia => ia.dim == 1 && (ia.comp == .u16 || ia.comp == .u32 || ia.comp == .u8)
            && (match decodeAcc buf views ia with
                | none => false
                | some idx => idx.all (fun x => decide (x < n))))
  && (match p.material with
      | none => true
      | some m => decide (m < nmat))

def instOK (accs : List Accessor) (inst : List (String × Nat)) : Bool :=
  let n := match inst with
    | [] => 0
    | (_, a) :: _ => match accs[a]? with
      | some x => x.count
      | none => 0
  inst.all (fun ka => match accs[ka.2]? with
    | some x => x.count == n && x.comp == .f32
        && (if ka.1 == "ROTATION" then x.dim == 4 else if ka.1 == "TRANSLATION" || ka.1 == "SCALE" then x.dim == 3 else true)
    | none => false)

def nodeOK (accs : List Accessor) (nmesh nlights : Nat) (n : GNode) : Bool :=
  (match n.mesh with
   | none => true
   | some m => decide (m < nmesh))
  && (match n.inst with
      | none => true
      | some i => instOK accs i)
  && (match n.light with
      | none => true
      | some l => decide (l < nlights))

def texInfoOK (ntex : Nat) (t : TexInfo) : Bool := decide (t.index < ntex)

def GMaterial.texInfos (m : GMaterial) : List TexInfo :=
  m.baseColorTex.toList ++ m.metalRoughTex.toList ++ (m.normalTex.map (·.1)).toList ++ (m.occlusionTex.map (·.1)).toList
  ++ m.exts.flatMap (fun e => e.texs.map (·.2))

def materialOK (ntex : Nat) (m : GMaterial) : Bool := m.texInfos.all (texInfoOK ntex)

def textureOK (nimg nsamp : Nat) (t : GTexture) : Bool :=
  (match t.source with
   | none => true
   | some i => decide (i < nimg))
  && (match t.sampler with
      | none => true
      | some i => decide (i < nsamp))

/-- extension ids that occur in the document -/
def Doc.extsSeen (d : Doc) : List String :=
  (if d.nodes.any (fun n => n.inst.isSome) then ["EXT_mesh_gpu_instancing"] else [])
  ++ (if d.lights > 0 || d.nodes.any (fun n => n.light.isSome) then ["KHR_lights_punctual"] else [])
  ++ d.materials.flatMap (fun m => m.exts.map (·.id))
  ++ (if d.materials.any (fun m => m.texInfos.any (fun t => t.xform.isSome)) then ["KHR_texture_transform"] else [])

/-- everything the property demands of a document EXCEPT component alignment -/
def valid (d : Doc) (buf : List UInt8) : Bool :=
  (match d.bufLen with
   | some n => n == buf.length && n > 0
   | none => buf.length == 0)
  && d.views.all (viewInside buf.length)
  && pairwiseB viewDisj d.views
  && d.accessors.all (accOK buf d.views)
  && d.meshes.all (fun m => m.prims.all (primOK buf d.views d.accessors d.materials.length))
  && d.nodes.all (nodeOK d.accessors d.meshes.length d.lights)
  && d.scene.all (fun n => decide (n < d.nodes.length))
  && d.materials.all (materialOK d.textures.length)
  && d.textures.all (textureOK d.images.length d.samplers.length)
  && d.extsSeen.all (fun e => d.extUsed.contains e)
  && d.extRequired.all (fun e => d.extUsed.contains e)

/-- component alignment: every accessor starts at a multiple of its component size; vertex-attribute data
    (ARRAY_BUFFER views) start at a multiple of 4 and have an element size that is a multiple of 4 -/
def aligned (d : Doc) : Bool :=
  d.accessors.all (fun a => match d.views[a.view]? with
    | none => false
    | some v => v.off % a.comp.size == 0
        && (v.target != 34962 || (v.off % 4 == 0 && (a.dim * a.comp.size) % 4 == 0)))

/-! ### GLB framing as read from a file -/

structure Frame where
  fileLen : Nat
  magic : Nat
  version : Nat
  total : Nat
  jsonLen : Nat
  jsonType : Nat
  hasBin : Bool
  binLen : Nat
  binType : Nat
  trailing : Nat
deriving Repr, DecidableEq

/-- header fields of a GLB file against the unpadded JSON length `jl` and buffer length `bl` -/
def frameOK (f : Frame) (jl bl : Nat) : Bool :=
  f.magic == 0x46546C67 && f.version == 2 && f.total == f.fileLen && f.trailing == 0
  && f.jsonType == 0x4E4F534A && f.jsonLen % 4 == 0 && f.jsonLen == jl + pad4 jl
  && f.hasBin == decide (bl > 0)
  && (if bl > 0 then f.binType == 0x004E4942 && f.binLen % 4 == 0 && f.binLen == bl + pad4 bl else true)
  && f.fileLen == 12 + 8 + (jl + pad4 jl) + (if bl > 0 then 8 + (bl + pad4 bl) else 0)

/-- read the header fields back from the bytes of a file (the reader of the harness, in Lean) -/
def readFrame (b : List UInt8) : Frame :=
  let u (o : Nat) := leVal ((b.drop o).take 4)
  let jl := u 12
  let p := 20 + jl
  let hasBin := decide (p < b.length)
  let bl := if hasBin then u p else 0
  { fileLen := b.length, magic := u 0, version := u 4, total := u 8, jsonLen := jl, jsonType := u 16,
    hasBin := hasBin, binLen := bl, binType := if hasBin then u (p + 4) else 0,
    trailing := if hasBin then b.length - (p + 8 + bl) else b.length - p }

/-! ### the scene data is what the document carries -/

def optList (o : Option (List Nat)) : List Nat := o.getD []

/-- the models of a scene that produce a node: mesh present in the heap with at least one primitive -/
def Scene.meshOf (s : Scene) (md : Model) : Option PMesh :=
  match md.mesh with
  | none => none
  | some id => s.meshHeap[id]?

def Scene.visible (s : Scene) : List Model :=
  s.models.filter (fun md => match s.meshOf md with
    | some m => !meshSkipped m
    | none => false)

def decodeAt (d : Doc) (buf : List UInt8) (i : Nat) : Option (List Nat) :=
  match d.accessors[i]? with
  | none => none
  | some a => decodeAcc buf d.views a

/-- node `n` of the document carries model `md`: TRS moved verbatim; its mesh has one primitive whose attributes
    decode to exactly the stored image of the model's attributes (every written attribute is present under its glTF
    name), whose indices decode to the model's indices, whose mode encodes the topology; instance accessors decode to
    the instance transforms -/
def carries (s : Scene) (d : Doc) (buf : List UInt8) (md : Model) (n : GNode) : Bool :=
  n.name == md.name && n.translation == md.translation && n.rotation == md.rotation && n.scale == md.scale
  && (match s.meshOf md, n.mesh with
      | some m, some mi => (match d.meshes[mi]? with
        | some gm => (match gm.prims with
          | [p] =>
              m.written.all (fun a => match lookup (gltfAttrName a.name) p.attrs with
                | some i => decodeAt d buf i == some a.vals.flatten
                    && (match d.accessors[i]? with
                        | some x => x.comp == attrComp a.name && x.dim == a.dim && x.count == a.vals.length
                        | none => false)
                | none => false)
              && p.attrs.all (fun ka => m.written.any (fun a => gltfAttrName a.name == ka.1))   -- no foreign attribute
              && p.attrs.length == m.written.length                                          -- exactly as many keys as written attributes
              && (match p.indices with
                  | some i => decodeAt d buf i == some m.indices
                  | none => false)
              && p.mode == modeOfTopo m.topo
              && (md.material.isSome == p.material.isSome)
          | _ => false)
        | none => false)
      | _, _ => false)
  && (if md.instances.isEmpty then n.inst == none else
      match n.inst with
      | none => false
      | some ia =>
        (match lookup "TRANSLATION" ia with
         | some i => decodeAt d buf i == some (md.instances.map (fun t => t.take 3)).flatten
         | none => false)
        && (match lookup "SCALE" ia with
            | some i => decodeAt d buf i == some (md.instances.map (fun t => (t.drop 3).take 3)).flatten
            | none => false)
        && (match lookup "ROTATION" ia with
            | some i => decodeAt d buf i == some (md.instances.map (fun t => (t.drop 6).take 4)).flatten
            | none => false))

def allZip {α β} (p : α → β → Bool) : List α → List β → Bool
  | [], [] => true
  | a :: l, b :: r => p a b && allZip p l r
  | _, _ => false

/-- the document carries exactly the scene: one node per visible model, in order, then one node per light;
    the scene lists every node once -/
def carriesScene (s : Scene) (d : Doc) (buf : List UInt8) : Bool :=
  allZip (carries s d buf) s.visible (d.nodes.take s.visible.length)
  && allZip (fun (l : List Nat) (n : GNode) => n.translation == some (l.take 3) && n.mesh == none) s.lights (d.nodes.drop s.visible.length)
  && d.scene == List.range d.nodes.length
  && d.lights == s.lights.length
  && d.lightData == s.lights.map (fun l => lightOut (l.drop 3))

end Gltf
end PolyVerif
