/-
  C01 — heap-level model of `modeling.Mesh` (core Lean only).

  The property is about ALIASING, so meshes are not values here: they are
  *representations* (`MeshRep`) made of Go slices `(array, off, len, cap)` and map
  references pointing into a heap of arrays and of map objects.  `obs` reads the
  observable value of a mesh out of the heap.  Operations are written at this
  level, class by class, mirroring what modeling/mesh.go and modeling/meshops do
  with memory:

    shareAll        SetIndices / SetMaterials / ToPointCloud / ClearAttributeData /
                    SetFloatNData                     (new struct, everything else shared)
    replaceOneAttr  SetFloatNAttribute and everything built on it (Modify*, Translate,
                    Scale, Rotate, ApplyTRS, meshops attribute transformers, normals,
                    laplacian …): fresh map for one kind, fresh (or caller's) array for
                    one key, all other slices shared
    copyAttr        CopyFloatNAttribute: as above but the array is another mesh's
    rebuildAll      weld / unweld / remove-unreferenced / filters / crop / split:
                    fresh indices, fresh maps and arrays, materials shared or nil
    readOnly        exports, iterators, scans
    append          TWO versions: `appendInPlace` (modeling/mesh.go before 74db58f:
                    Go `append` straight onto the receiver's slices) and `appendCopy`
                    (the code now: copy into fresh arrays with room, then extend)

  Go's `append` is `goAppend`: in place when `len+k ≤ cap`, else a fresh array of
  capacity `len+k+extra cap (len+k)` with `extra` ARBITRARY (so `grow k ≥ k` holds
  by construction and every theorem is quantified over the growth policy).

  Cells are one opaque type `α` (indices, materials and attribute values alike:
  the untyped heap allows more aliasing than Go's typed one, so the theorems are
  stronger); attribute names are an opaque `κ` with decidable equality.
-/
namespace PolyVerif
namespace MeshHeap

/-- a Go slice header: backing array id, offset into it, length, capacity (counted from `off`) -/
structure Slice where
  arr : Nat
  off : Nat
  len : Nat
  cap : Nat
deriving DecidableEq, Repr, Inhabited

/-- the nil slice: no backing array (capacity 0) -/
def Slice.nil : Slice := ⟨0, 0, 0, 0⟩

/-- heap: arrays of cells (fixed capacity = list length) and map objects (name ↦ slice, in some order) -/
structure Heap (κ α : Type) where
  arrays : List (List α)
  maps : List (List (κ × Slice))
deriving Repr

/-- `modeling.Mesh`: topology, two slices, and one map reference per attribute kind
    (position 0..3 = v1Data..v4Data; `none` = nil map) -/
structure MeshRep where
  topo : Nat
  indices : Slice
  materials : Slice
  maps : List (Option Nat)
deriving DecidableEq, Repr, Inhabited

/-- what a mesh reports through its public accessors -/
structure MeshObs (κ α : Type) where
  topo : Nat
  indices : List α
  materials : List α
  attrs : List (List (κ × List α))
deriving DecidableEq, Repr

/-- environment: zero value written by `nilVal()`, index shift `x ↦ x + n`, identity index `i`,
    and the growth policy of Go's `append` (extra capacity beyond what is needed; arbitrary) -/
structure Env (α : Type) where
  zero : α
  shift : Nat → α → α
  ident : Nat → α
  extra : Nat → Nat → Nat

variable {κ α : Type}

namespace Heap

def empty : Heap κ α := ⟨[], []⟩

def size (h : Heap κ α) : Nat := h.arrays.length

def array (h : Heap κ α) (a : Nat) : List α := (h.arrays[a]?).getD []

/-- the cells a slice shows: `array[off : off+len]` -/
def read (h : Heap κ α) (s : Slice) : List α := ((h.array s.arr).drop s.off).take s.len

def mapEntries (h : Heap κ α) : Option Nat → List (κ × Slice)
  | none => []
  | some i => (h.maps[i]?).getD []

/-- `make`: a new array (id = old size) holding `cells` -/
def alloc (h : Heap κ α) (cells : List α) : Heap κ α × Nat :=
  ({ h with arrays := h.arrays ++ [cells] }, h.arrays.length)

/-- `make(map…)` filled with `es` -/
def allocMap (h : Heap κ α) (es : List (κ × Slice)) : Heap κ α × Nat :=
  ({ h with maps := h.maps ++ [es] }, h.maps.length)

/-- store `vs` into array `a` starting at cell `i` (cells past the end of the array are dropped) -/
def write (h : Heap κ α) (a i : Nat) (vs : List α) : Heap κ α :=
  { h with arrays := h.arrays.modify a (fun c => (c.take i ++ vs ++ c.drop (i + vs.length)).take c.length) }

end Heap

/-- a new array with `vs` then `extraCap` zero cells; the slice shows `vs` -/
def allocSlice (E : Env α) (h : Heap κ α) (vs : List α) (extraCap : Nat) : Heap κ α × Slice :=
  ((h.alloc (vs ++ List.replicate extraCap E.zero)).1, ⟨h.arrays.length, 0, vs.length, vs.length + extraCap⟩)

/-- Go's built-in `append(s, vs...)` -/
def goAppend (E : Env α) (h : Heap κ α) (s : Slice) : List α → Heap κ α × Slice
  | [] => (h, s)
  | v :: vs =>
    let k := (v :: vs).length
    if s.len + k ≤ s.cap then
      (h.write s.arr (s.off + s.len) (v :: vs), { s with len := s.len + k })
    else
      let ex := E.extra s.cap (s.len + k)
      ((h.alloc (h.read s ++ (v :: vs) ++ List.replicate ex E.zero)).1,
        ⟨h.arrays.length, 0, s.len + k, s.len + k + ex⟩)

/-- `for i := 0; i < n; i++ { s = append(s, nilVal()) }` -/
def appendZeros (E : Env α) (h : Heap κ α) (s : Slice) : Nat → Heap κ α × Slice
  | 0 => (h, s)
  | n + 1 => appendZeros E (goAppend E h s [E.zero]).1 (goAppend E h s [E.zero]).2 n

/-- the observable value of a mesh -/
def obs (h : Heap κ α) (r : MeshRep) : MeshObs κ α :=
  { topo := r.topo
    indices := h.read r.indices
    materials := h.read r.materials
    attrs := r.maps.map fun m => (h.mapEntries m).map fun e => (e.1, h.read e.2) }

/-! ### map helpers (association lists standing for Go maps) -/
section maps
variable [DecidableEq κ]

def hasKey (es : List (κ × Slice)) (k : κ) : Bool := es.any (fun e => e.1 == k)

def lookup (es : List (κ × Slice)) (k : κ) : Option Slice := (es.find? (fun e => e.1 == k)).map (·.2)

/-- `m[k] = s` -/
def insert (es : List (κ × Slice)) (k : κ) (s : Slice) : List (κ × Slice) :=
  if hasKey es k then es.map (fun e => if e.1 == k then (k, s) else e) else es ++ [(k, s)]

/-- `delete(m, k)` -/
def erase (es : List (κ × Slice)) (k : κ) : List (κ × Slice) := es.filter (fun e => !(e.1 == k))

end maps

/-- the lengths `Mesh.AttributeLength()` may return: Go returns the length of the FIRST entry its (randomised) map
    iteration yields, looking at v4, then v3, v2, v1 — for a mesh whose attribute arrays differ in length ("ragged":
    `SetFloatNAttribute` performs no length check) the answer varies from call to call.  The model therefore does NOT
    compute it: `Append` and `ToPointCloud` carry the value the runtime resolved (`aLen`, `bLen`, `n` below) as a parameter,
    so every theorem holds for EVERY resolution of the map order (even for numbers that are not a length at all). -/
def lenChoices (h : Heap κ α) (r : MeshRep) : List Nat :=
  (r.maps.flatMap fun m => h.mapEntries m).map fun e => e.2.len

/-- one resolution of `Mesh.AttributeLength()`: list order (v4 first).  Used by the driver for meshes with one common
    attribute length, where every resolution gives this value (`attrLen_forced`). -/
def attrLen (h : Heap κ α) (r : MeshRep) : Nat :=
  match (r.maps.reverse.flatMap fun m => h.mapEntries m) with
  | [] => 0
  | e :: _ => e.2.len

/-! ### Append, both versions -/
section append
variable [DecidableEq κ]

/-- first loop of `appendData` as it is now: copy `a`'s slice into a fresh array with room for `bLen` more;
    pad with zeros when `b` lacks the attribute -/
def appendDataA (E : Env α) (b : List (κ × Slice)) (bLen : Nat) :
    Heap κ α → List (κ × Slice) → List (κ × Slice) → Heap κ α × List (κ × Slice)
  | h, [], fin => (h, fin)
  | h, e :: rest, fin =>
    let h1 := (h.alloc (h.read e.2 ++ List.replicate bLen E.zero)).1
    let c : Slice := ⟨h.arrays.length, 0, e.2.len, e.2.len + bLen⟩
    let r := if hasKey b e.1 then (h1, c) else appendZeros E h1 c bLen
    appendDataA E b bLen r.1 rest (insert fin e.1 r.2)

/-- first loop of `appendData` before 74db58f: `finalData[atr] = data` (the receiver's own slice) -/
def appendDataAOld (E : Env α) (b : List (κ × Slice)) (bLen : Nat) :
    Heap κ α → List (κ × Slice) → List (κ × Slice) → Heap κ α × List (κ × Slice)
  | h, [], fin => (h, fin)
  | h, e :: rest, fin =>
    let r := if hasKey b e.1 then (h, e.2) else appendZeros E h e.2 bLen
    appendDataAOld E b bLen r.1 rest (insert fin e.1 r.2)

/-- second loop of `appendData` (same in both versions): zero-pad attributes only `b` has, then
    `finalData[atr] = append(finalData[atr], data...)` -/
def appendDataB (E : Env α) (aLen : Nat) :
    Heap κ α → List (κ × Slice) → List (κ × Slice) → Heap κ α × List (κ × Slice)
  | h, [], fin => (h, fin)
  | h, e :: rest, fin =>
    let r0 := match lookup fin e.1 with
      | some c => (h, c)
      | none => appendZeros E h Slice.nil aLen
    let r := goAppend E r0.1 r0.2 (r0.1.read e.2)
    appendDataB E aLen r.1 rest (insert fin e.1 r.2)

/-- one `appendData` call + the fresh map it returns -/
def appendKind (E : Env α) (old : Bool) (aLen bLen : Nat) (h : Heap κ α) (ma mb : Option Nat) : Heap κ α × Nat :=
  let a := h.mapEntries ma
  let b := h.mapEntries mb
  let r1 := if old then appendDataAOld E b bLen h a [] else appendDataA E b bLen h a []
  let r2 := appendDataB E aLen r1.1 b r1.2
  r2.1.allocMap r2.2

/-- the map of the first kind of a list (`none` = nil map, also when the list is exhausted) -/
def headKind : List (Option Nat) → Option Nat
  | [] => none
  | m :: _ => m

/-- kinds that only the argument has -/
def appendMapsB (E : Env α) (old : Bool) (aLen bLen : Nat) :
    Heap κ α → List (Option Nat) → Heap κ α × List (Option Nat)
  | h, [] => (h, [])
  | h, mb :: os =>
    let r := appendKind E old aLen bLen h none mb
    let rs := appendMapsB E old aLen bLen r.1 os
    (rs.1, some r.2 :: rs.2)

/-- the four `appendData` calls (generic in the number of kinds), kind by kind -/
def appendMaps (E : Env α) (old : Bool) (aLen bLen : Nat) :
    Heap κ α → List (Option Nat) → List (Option Nat) → Heap κ α × List (Option Nat)
  | h, [], os => appendMapsB E old aLen bLen h os
  | h, ma :: ms, os =>
    let r := appendKind E old aLen bLen h ma (headKind os)
    let rs := appendMaps E old aLen bLen r.1 ms os.tail
    (rs.1, some r.2 :: rs.2)

/-- `for i := len(m.indices); i < len(finalTris); i++ { finalTris[i] += mAtrLength }` -/
def shiftTail (E : Env α) (h : Heap κ α) (s : Slice) (from_ n : Nat) : Heap κ α :=
  h.write s.arr (s.off + from_)
    ((h.read ⟨s.arr, s.off + from_, s.len - from_, s.cap - from_⟩).map (E.shift n))

/-- `Mesh.Append` as it is now (commit 74db58f): every destination array is allocated here -/
def appendCopy (E : Env α) (h : Heap κ α) (m o : MeshRep) (aLen bLen : Nat) : Option (Heap κ α × MeshRep) :=
  if m.topo ≠ o.topo then none else
  let rm := appendMaps E false aLen bLen h m.maps o.maps
  let li := m.indices.len
  let lo := o.indices.len
  -- finalTris := make([]int, 0, li+lo); append; append
  let h2 := (rm.1.alloc (List.replicate (li + lo) E.zero)).1
  let t0 : Slice := ⟨rm.1.arrays.length, 0, 0, li + lo⟩
  let t1 := goAppend E h2 t0 (h2.read m.indices)
  let t2 := goAppend E t1.1 t1.2 (t1.1.read o.indices)
  -- finalMaterials likewise
  let lm := m.materials.len
  let lom := o.materials.len
  let h3 := (t2.1.alloc (List.replicate (lm + lom) E.zero)).1
  let u0 : Slice := ⟨t2.1.arrays.length, 0, 0, lm + lom⟩
  let u1 := goAppend E h3 u0 (h3.read m.materials)
  let u2 := goAppend E u1.1 u1.2 (u1.1.read o.materials)
  let h4 := shiftTail E u2.1 t2.2 li aLen
  some (h4, { topo := m.topo, indices := t2.2, materials := u2.2, maps := rm.2 })

/-- `Mesh.Append` before 74db58f: Go `append` directly on the receiver's slices -/
def appendInPlace (E : Env α) (h : Heap κ α) (m o : MeshRep) (aLen bLen : Nat) : Option (Heap κ α × MeshRep) :=
  if m.topo ≠ o.topo then none else
  let rm := appendMaps E true aLen bLen h m.maps o.maps
  let t := goAppend E rm.1 m.indices (rm.1.read o.indices)
  let u := goAppend E t.1 m.materials (t.1.read o.materials)
  let h4 := shiftTail E u.1 t.2 m.indices.len aLen
  some (h4, { topo := m.topo, indices := t.2, materials := u.2, maps := rm.2 })

end append

/-! ### the other operation classes -/

/-- allocate the arrays of a caller-built map: entries (name, contents, spare capacity) -/
def allocEntries (E : Env α) : Heap κ α → List (κ × List α × Nat) → Heap κ α × List (κ × Slice)
  | h, [] => (h, [])
  | h, e :: rest =>
    let r := allocSlice E h e.2.1 e.2.2
    let rs := allocEntries E r.1 rest
    (rs.1, (e.1, r.2) :: rs.2)

/-- a caller-built map with fresh arrays -/
def allocMapOf (E : Env α) (h : Heap κ α) (es : List (κ × List α × Nat)) : Heap κ α × Nat :=
  let r := allocEntries E h es
  r.1.allocMap r.2

def allocMaps (E : Env α) : Heap κ α → List (List (κ × List α × Nat)) → Heap κ α × List (Option Nat)
  | h, [] => (h, [])
  | h, es :: rest =>
    let r := allocMapOf E h es
    let rs := allocMaps E r.1 rest
    (rs.1, some r.2 :: rs.2)

/-- what becomes of the materials in a rebuilding operation -/
inductive MatMode where
  | share   -- `SetMaterials(m.Materials())`: unweld, remove-unreferenced, filters, crop, slice
  | drop    -- `materials: nil`: WeldByFloat3Attribute
deriving DecidableEq, Repr

/-- one step of a program over a pool of live meshes; arguments are pool positions -/
inductive Op (κ α : Type) where
  /-- primitives / generators / readers: everything fresh (spare capacity allowed) -/
  | newMesh (topo : Nat) (idx : List α) (idxSpare : Nat) (mats : List α) (matSpare : Nat)
      (attrs : List (List (κ × List α × Nat)))
  /-- `SetIndices(caller's fresh slice)` and `SetIndices` users that build the slice themselves (flip winding) -/
  | setIndices (m : Nat) (idx : List α) (spare : Nat)
  /-- `SetMaterials(caller's fresh slice)`, `SetMaterial` -/
  | setMaterials (m : Nat) (mats : List α) (spare : Nat)
  /-- `m.SetMaterials(src.Materials())` -/
  | shareMaterials (m src : Nat)
  /-- `m.SetIndices` with another mesh's index slice is not expressible through the public API
      (`Indices()` returns an iterator), `ToPointCloud` builds its own -/
  | toPointCloud (m : Nat) (pointTopo : Nat) (n : Nat)
  | clearAttrs (m : Nat)
  /-- `SetFloatNData(caller's fresh map)` -/
  | setData (m kind : Nat) (es : List (κ × List α × Nat))
  /-- `SetFloatNAttribute(name, fresh data)`; Modify*, Translate, Scale, Rotate, ApplyTRS, attribute transformers -/
  | setAttr (m kind : Nat) (name : κ) (data : List α) (spare : Nat)
  /-- `CopyFloatNAttribute(src, name)` -/
  | copyAttr (m src kind : Nat) (name : κ)
  /-- weld / unweld / remove-unreferenced / filters / crop / split part -/
  | rebuild (m : Nat) (topo : Nat) (idx : List α) (idxSpare : Nat) (attrs : List (List (κ × List α × Nat))) (mats : MatMode)
  /-- writers, iterators, scans, bounding boxes -/
  | readOnly (m : Nat)
  /-- `m.Append(o)` as it is now; `aLen`, `bLen` = what `m.AttributeLength()`, `o.AttributeLength()` resolved to -/
  | append (m o : Nat) (aLen bLen : Nat)
  /-- `m.Append(o)` as it was before 74db58f -/
  | appendOld (m o : Nat) (aLen bLen : Nat)

/-- the operations of the current tree -/
def Op.current : Op κ α → Bool
  | .appendOld _ _ _ _ => false
  | _ => true

structure State (κ α : Type) where
  heap : Heap κ α
  pool : List MeshRep

/-- replace the map of one kind.  NOTE: `List.set` is a silent no-op when `kind ≥ maps.length`; every `MeshRep` the
    tie builds has exactly four kinds (positions 0..3 = v1Data..v4Data) and the harness only sends `kind < 4`, so the
    no-op branch is not reachable from the correspondence; the theorems hold for it as well (an operation that then
    returns the receiver's maps unchanged still writes nothing). -/
def setKind (maps : List (Option Nat)) (kind : Nat) (id : Nat) : List (Option Nat) := maps.set kind (some id)

section step
variable [DecidableEq κ]

/-- one operation: `none` = the call is impossible / panics (argument not in the pool, topology mismatch);
    otherwise the new heap and the meshes it returns -/
def Op.apply (E : Env α) (s : State κ α) : Op κ α → Option (Heap κ α × List MeshRep)
  | .newMesh topo idx isp mats msp attrs =>
    let i := allocSlice E s.heap idx isp
    let m := allocSlice E i.1 mats msp
    let a := allocMaps E m.1 attrs
    some (a.1, [{ topo := topo, indices := i.2, materials := m.2, maps := a.2 }])
  | .setIndices m idx sp => do
    let r ← s.pool[m]?
    let i := allocSlice E s.heap idx sp
    pure (i.1, [{ r with indices := i.2 }])
  | .setMaterials m mats sp => do
    let r ← s.pool[m]?
    let i := allocSlice E s.heap mats sp
    pure (i.1, [{ r with materials := i.2 }])
  | .shareMaterials m src => do
    let r ← s.pool[m]?
    let q ← s.pool[src]?
    pure (s.heap, [{ r with materials := q.materials }])
  | .toPointCloud m pt n => do
    let r ← s.pool[m]?
    if r.topo = pt then pure (s.heap, [r]) else
    let i := allocSlice E s.heap ((List.range n).map E.ident) 0
    pure (i.1, [{ r with indices := i.2, topo := pt }])
  | .clearAttrs m => do
    let r ← s.pool[m]?
    pure (s.heap, [{ r with maps := r.maps.map fun _ => none }])
  | .setData m kind es => do
    let r ← s.pool[m]?
    let a := allocMapOf E s.heap es
    pure (a.1, [{ r with maps := setKind r.maps kind a.2 }])
  | .setAttr m kind name data sp => do
    let r ← s.pool[m]?
    let d := allocSlice E s.heap data sp
    let old := s.heap.mapEntries ((r.maps[kind]?).getD none)
    let es := if data.length = 0 then erase (insert old name d.2) name else insert old name d.2
    let a := d.1.allocMap es
    pure (a.1, [{ r with maps := setKind r.maps kind a.2 }])
  | .copyAttr m src kind name => do
    let r ← s.pool[m]?
    let q ← s.pool[src]?
    -- `src.vNData[name]`: the nil slice when absent
    let d := (lookup (s.heap.mapEntries ((q.maps[kind]?).getD none)) name).getD Slice.nil
    let old := s.heap.mapEntries ((r.maps[kind]?).getD none)
    let es := if d.len = 0 then erase (insert old name d) name else insert old name d
    let a := s.heap.allocMap es
    pure (a.1, [{ r with maps := setKind r.maps kind a.2 }])
  | .rebuild m topo idx isp attrs mm => do
    let r ← s.pool[m]?
    let i := allocSlice E s.heap idx isp
    let a := allocMaps E i.1 attrs
    pure (a.1, [{ topo := topo, indices := i.2,
                  materials := (match mm with | .share => r.materials | .drop => Slice.nil), maps := a.2 }])
  | .readOnly m => do
    let _ ← s.pool[m]?
    pure (s.heap, [])
  | .append m o aLen bLen => do
    let r ← s.pool[m]?
    let q ← s.pool[o]?
    let x ← appendCopy E s.heap r q aLen bLen
    pure (x.1, [x.2])
  | .appendOld m o aLen bLen => do
    let r ← s.pool[m]?
    let q ← s.pool[o]?
    let x ← appendInPlace E s.heap r q aLen bLen
    pure (x.1, [x.2])

/-- a panicking / impossible call leaves heap and pool as they were; otherwise results join the pool -/
def step (E : Env α) (s : State κ α) (op : Op κ α) : State κ α :=
  match op.apply E s with
  | none => s
  | some (h, rs) => { heap := h, pool := s.pool ++ rs }

def run (E : Env α) (s : State κ α) (ops : List (Op κ α)) : State κ α := ops.foldl (step E) s

end step

/-! ### validity -/

/-- a slice is valid in a heap when it is within its own capacity and is nil-like or points at an existing array -/
def Slice.Valid (h : Heap κ α) (s : Slice) : Prop := s.len ≤ s.cap ∧ (s.cap = 0 ∨ s.arr < h.arrays.length)

instance (h : Heap κ α) (s : Slice) : Decidable (s.Valid h) := by unfold Slice.Valid; exact inferInstance

def MapRef.Valid (h : Heap κ α) : Option Nat → Prop
  | none => True
  | some i => i < h.maps.length ∧ ∀ e ∈ (h.maps[i]?).getD [], Slice.Valid h e.2

def MeshRep.Valid (h : Heap κ α) (r : MeshRep) : Prop :=
  r.indices.Valid h ∧ r.materials.Valid h ∧ ∀ m ∈ r.maps, MapRef.Valid h m

def State.Valid (s : State κ α) : Prop := ∀ r ∈ s.pool, r.Valid s.heap

end MeshHeap
end PolyVerif
