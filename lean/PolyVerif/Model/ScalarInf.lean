/-
  ScalarInf: the two IEEE infinities `math.Inf(1)` / `math.Inf(-1)` as scalar constants.

  A separate class (not a field of `Scalar`): ℝ has no infinities, so there is deliberately NO global instance at ℝ.
  A generated definition that mentions `math.Inf` takes `[ScalarInf α]` as an extra instance argument; it is
    * executed at `Float` with the instance below (+Inf = 1/0, -Inf = -(1/0), exactly the IEEE values), and
    * reasoned about at ℝ for EVERY instance `I : ScalarInf ℝ` whose values bound the data in question from above /
      below — the only fact about ±Inf the code relies on when its inputs are finite.

  Core Lean only (linked into the drivers).
-/
import PolyVerif.Model.Scalar

namespace PolyVerif

class ScalarInf (α : Type) where
  /-- `math.Inf(1)` -/
  posInf : α
  /-- `math.Inf(-1)` -/
  negInf : α

instance : ScalarInf Float where
  posInf := 1.0 / 0.0
  negInf := -(1.0 / 0.0)

end PolyVerif
