/-
  C06 — model of /repo/formats/gltf (writer.go, write.go, model.go, model_trackers.go).

  The glTF `Writer` is modelled as a state machine `W`; every exported mutating method is a total
  function on `W`.  Core Lean only (this file is linked into the native driver).

  Conventions
  * bytes are `UInt8`, the buffer is `List UInt8`, Go `append` is `++ [x]`;
  * pointer identity of `*modeling.Mesh` / `*PolyformTexture` is an explicit id = position in a heap that
    is part of the scene (`Scene.meshHeap`, `Scene.texHeap`): one id ↦ one immutable object by construction;
  * component VALUES are naturals: for FLOAT accessors the IEEE-754 binary32 bit pattern of the value that is
    stored (the float64→float32 narrowing `q32` is applied by whoever builds the scene — the driver uses
    `Float.toFloat32.toBits` — and is compared bit-for-bit with Go's `float32(x)` by the correspondence);
    for UNSIGNED_BYTE accessors the byte value; for index accessors the index;
  * float64 values that the writer only MOVES (node TRS, material factors, texture transforms) are their
    64-bit patterns as naturals;
  * Go maps that reach the output (`primitive.attributes`, instancing attributes, `extensionsUsed`) are
    association lists with insert-or-replace; the summary sorts them by key.
-/
namespace PolyVerif
namespace Gltf

/-! ### component types, little-endian coding -/

inductive Comp where
  | u8 | u16 | u32 | f32
deriving DecidableEq, Repr, Inhabited

/-- `AccessorComponentType.Size()` -/
def Comp.size : Comp → Nat
  | .u8 => 1 | .u16 => 2 | .u32 => 4 | .f32 => 4

def Comp.code : Comp → Nat
  | .u8 => 5121 | .u16 => 5123 | .u32 => 5125 | .f32 => 5126

def Comp.ofCode? : Nat → Option Comp
  | 5121 => some .u8 | 5123 => some .u16 | 5125 => some .u32 | 5126 => some .f32 | _ => none

/-- `k` little-endian bytes of `n` (Go: `binary.LittleEndian.PutUintK(uintK(n))`, truncating) -/
def leBytes : Nat → Nat → List UInt8
  | 0, _ => []
  | k+1, n => UInt8.ofNat n :: leBytes k (n / 256)

def leVal : List UInt8 → Nat
  | [] => 0
  | b :: bs => b.toNat + 256 * leVal bs

def encodeComps (size : Nat) (vals : List Nat) : List UInt8 := vals.flatMap (leBytes size)

/-- read `c` consecutive little-endian values of `size` bytes -/
def decodeN (size : Nat) : Nat → List UInt8 → List Nat
  | 0, _ => []
  | c+1, bs => leVal (bs.take size) :: decodeN size c (bs.drop size)

/-! ### float32 bit patterns: NaN / Inf / order -/

def isNaN32 (b : Nat) : Bool := (b / 2^23) % 256 == 255 && b % 2^23 != 0
def posInf32 : Nat := 0x7f800000
def negInf32 : Nat := 0xff800000
def finite32 (b : Nat) : Bool := (b / 2^23) % 256 != 255

/-- order-preserving key of a non-NaN binary32 pattern: the order `math.Min`/`math.Max` implement
    (−∞ < … < −0 < +0 < … < +∞) -/
def fkey (b : Nat) : Int := if b < 2^31 then (b : Int) else -((b : Int) - 2^31) - 1

def Comp.key (c : Comp) (v : Nat) : Int := match c with
  | .f32 => fkey v
  | _ => (v : Int)

def finite64 (b : Nat) : Bool := (b / 2^52) % 2048 != 2047

/-! ### document pieces -/

structure View where
  off : Nat
  len : Nat
  target : Nat          -- 34962 ARRAY_BUFFER, 34963 ELEMENT_ARRAY_BUFFER, 0 absent
deriving DecidableEq, Repr, Inhabited

/-- a declared bound component: `none` = the writer's initial sentinel (±MaxFloat64) was never replaced -/
abbrev Bound := Option Nat

structure Accessor where
  view : Nat
  comp : Comp
  dim : Nat             -- 1 SCALAR, 2/3/4 VECn
  count : Nat
  min : List Bound      -- [] = absent (index accessors)
  max : List Bound
deriving DecidableEq, Repr, Inhabited

structure Prim where
  attrs : List (String × Nat)
  indices : Option Nat
  material : Option Nat
  mode : Option Nat
deriving DecidableEq, Repr, Inhabited

structure GMesh where
  name : String
  prims : List Prim
deriving DecidableEq, Repr, Inhabited

structure GNode where
  name : String := ""
  mesh : Option Nat := none
  translation : Option (List Nat) := none
  rotation : Option (List Nat) := none
  scale : Option (List Nat) := none
  inst : Option (List (String × Nat)) := none     -- EXT_mesh_gpu_instancing.attributes
  light : Option Nat := none                       -- KHR_lights_punctual.light
deriving DecidableEq, Repr, Inhabited

structure TexInfo where
  index : Nat
  xform : Option (List Nat)     -- KHR_texture_transform payload (moved verbatim), `none` = no extension
deriving DecidableEq, Repr, Inhabited

structure GTexture where
  sampler : Option Nat
  source : Option Nat
deriving DecidableEq, Repr, Inhabited

structure Sampler where
  mag : Nat
  min : Nat
  wrapS : Nat
  wrapT : Nat
  name : String
  tag : Nat := 0        -- equality class of the sampler's Extras / Extensions (0 = none); `ChildOfRootProperty.equal` compares them
deriving DecidableEq, Repr, Inhabited

/-- output of a material extension: id, scalar payload, texture references in AddTexture order -/
structure GMatExt where
  id : String
  payload : List Nat
  texs : List (String × TexInfo)
deriving DecidableEq, Repr, Inhabited

structure GMaterial where
  name : String
  alphaMode : Option String
  alphaCutoff : Option Nat
  baseColorFactor : List Nat          -- always present (default 1,1,1,1)
  metallic : Option Nat
  roughness : Option Nat
  baseColorTex : Option TexInfo
  metalRoughTex : Option TexInfo
  emissive : Option (List Nat)
  normalTex : Option (TexInfo × Option Nat)
  occlusionTex : Option (TexInfo × Option Nat)
  exts : List GMatExt
deriving DecidableEq, Repr, Inhabited

/-! ### input side: the scene (mirrors `PolyformScene`) -/

structure Attr where
  name : String
  dim : Nat                    -- 1..4 (Float1 attributes are never written by AddMesh)
  vals : List (List Nat)       -- one list of `dim` component values per vertex
deriving DecidableEq, Repr, Inhabited

structure PMesh where
  topo : Nat                   -- modeling.Topology: 0 triangle 1 point 2 quad 3 line 4 linestrip 5 lineloop
  indices : List Nat
  attrs : List Attr            -- the four attribute maps together, in no particular order
deriving DecidableEq, Repr, Inhabited

/-- `PolyformTexture`; `Sampler` by value (`equal` compares the four enum fields, AddTexture also the name) -/
structure PTexture where
  uri : String
  sampler : Option Sampler
  xform : Option (List Nat)    -- KHR_texture_transform on the texture-info
  xformRequired : Bool
deriving DecidableEq, Repr, Inhabited

/-- a `MaterialExtension` value.  `eqKey`: two extension values compare `==` in Go iff their keys are equal
    (the environment supplies it; pointer-typed fields make this identity, not value, comparison). -/
structure PMatExt where
  id : String
  eqKey : Nat
  payload : List Nat
  texs : List (String × Nat)   -- (json key, texture heap id) in the order `ToMaterialExtensionData` calls `AddTexture`
deriving DecidableEq, Repr, Inhabited

structure PMaterial where
  name : String
  alphaMode : Option String
  alphaCutoff : Option Nat
  hasPbr : Bool
  baseColor : Option (List Nat)      -- color.Color.RGBA(): four 16-bit values
  metallic : Option Nat
  roughness : Option Nat
  baseColorTex : Option Nat          -- texture heap ids
  metalRoughTex : Option Nat
  emissive : Option (List Nat)       -- RGBA() values
  normalTex : Option (Nat × Option Nat)
  occlusionTex : Option (Nat × Option Nat)
  exts : List PMatExt
deriving DecidableEq, Repr, Inhabited

structure Model where
  name : String
  mesh : Option Nat                  -- mesh heap id; none = nil pointer
  material : Option Nat              -- material heap id
  translation : Option (List Nat)
  rotation : Option (List Nat)
  scale : Option (List Nat)
  instances : List (List Nat)        -- per instance: px py pz sx sy sz rx ry rz rw (binary32 patterns)
deriving DecidableEq, Repr, Inhabited

structure Scene where
  meshHeap : List PMesh
  texHeap : List PTexture
  matHeap : List PMaterial
  models : List Model
  lights : List (List Nat)           -- per light: position (3 float64 patterns) ++ payload [type, hasColor, r, g, b, hasIntensity, intensity, hasRange, range]
deriving Repr, Inhabited

inductive Err where
  | nilMesh | badId | alphaCutoff | marshal | dupAttr | quad
deriving DecidableEq, Repr

/-! ### writer state -/

structure W where
  bytesWritten : Nat := 0
  buf : List UInt8 := []
  accessors : List Accessor := []
  views : List View := []
  meshes : List GMesh := []
  nodes : List GNode := []
  scene : List Nat := []
  materials : List GMaterial := []
  textures : List GTexture := []
  images : List String := []
  samplers : List Sampler := []
  lights : Nat := 0
  lightData : List (List Nat) := []                               -- KHR_lights_punctual.lights entries (payload as written)
  meshIdx : List ((Nat × Option Nat) × Nat) := []                -- (mesh id, material index) ↦ mesh index
  written : List (Nat × (List (String × Nat) × Nat)) := []       -- mesh id ↦ (attributes, indices accessor)
  matIdx : List (PMaterial × Nat) := []                           -- tracker of added materials (resolved by value)
  texIdx : List (Nat × Nat) := []                                 -- texture id ↦ texture index
  extUsed : List String := []
  extRequired : List String := []
deriving Repr, Inhabited

def lookup {α β} [DecidableEq α] (k : α) : List (α × β) → Option β
  | [] => none
  | (a, b) :: r => if a = k then some b else lookup k r

/-- Go `m[k] = v` on a map kept as an association list -/
def mapInsert {α β} [DecidableEq α] (m : List (α × β)) (k : α) (v : β) : List (α × β) :=
  m.filter (fun p => p.1 ≠ k) ++ [(k, v)]

def setInsert (s : List String) (k : String) : List String := if k ∈ s then s else s ++ [k]

/-! ### WriteVector2/3/4 -/

/-- vectors that take part in min/max: the VEC2/VEC3 FLOAT loops skip vectors containing a NaN, the VEC4 loop
    and the byte loops do not (byte values are never NaN here) -/
def usable (comp : Comp) (dim : Nat) (v : List Nat) : Bool :=
  !(comp == .f32 && dim != 4 && v.any isNaN32)

/-- `min = math.Min(min, v)` starting from the sentinel `MaxFloat64`: the sentinel survives only `+Inf` -/
def bmin (c : Comp) (acc : Bound) (v : Nat) : Bound :=
  match acc with
  | none => if c == .f32 && v == posInf32 then none else some v
  | some a => if c.key v < c.key a then some v else some a

def bmax (c : Comp) (acc : Bound) (v : Nat) : Bound :=
  match acc with
  | none => if c == .f32 && v == negInf32 then none else some v
  | some a => if c.key a < c.key v then some v else some a

def column (vs : List (List Nat)) (j : Nat) : List Nat := vs.filterMap (fun v => v[j]?)

def boundsOf (f : Bound → Nat → Bound) (dim : Nat) (vs : List (List Nat)) : List Bound :=
  (List.range dim).map (fun j => (column vs j).foldl f none)

/-- bytes appended by `WriteVectorN`: the two `if` blocks only exist for FLOAT and UNSIGNED_BYTE -/
def vecBytes (comp : Comp) (vecs : List (List Nat)) : List UInt8 :=
  if comp = .f32 ∨ comp = .u8 then encodeComps comp.size vecs.flatten else []

def writeVec (w : W) (comp : Comp) (dim : Nat) (vecs : List (List Nat)) : W :=
  let us := vecs.filter (usable comp dim)
  let datasize := vecs.length * dim * comp.size
  { w with
    buf := w.buf ++ vecBytes comp vecs
    accessors := w.accessors ++ [{ view := w.views.length, comp := comp, dim := dim, count := vecs.length,
                                   min := boundsOf (bmin comp) dim us, max := boundsOf (bmax comp) dim us }]
    views := w.views ++ [{ off := w.bytesWritten, len := datasize, target := 34962 }]
    bytesWritten := w.bytesWritten + datasize }

/-! ### WriteIndices -/

/-- uint32 iff `attributeSize > math.MaxUint16` -/
def indexComp (attrSize : Nat) : Comp := if attrSize > 65535 then .u32 else .u16

def writeIndices (w : W) (idx : List Nat) (attrSize : Nat) : W :=
  let comp := indexComp attrSize
  let size := idx.length * comp.size
  { w with
    buf := w.buf ++ encodeComps comp.size idx
    accessors := w.accessors ++ [{ view := w.views.length, comp := comp, dim := 1, count := idx.length,
                                   min := [], max := [] }]
    views := w.views ++ [{ off := w.bytesWritten, len := size, target := 34963 }]
    bytesWritten := w.bytesWritten + size }

/-! ### AddMesh -/

/-- `attributeType` -/
def attrComp (name : String) : Comp := if name = "Joint" then .u8 else .f32

/-- `polyformToGLTFAttribute` -/
def gltfAttrName (name : String) : String :=
  if name = "Position" then "POSITION"
  else if name = "Color" then "COLOR_0"
  else if name = "Joint" then "JOINTS_0"
  else if name = "Weight" then "WEIGHTS_0"
  else if name = "TexCoord" then "TEXCOORD_0"
  else if name = "Normal" then "NORMAL"
  else name

def sortByName (as : List Attr) : List Attr := as.mergeSort (fun a b => !(b.name < a.name))

def attrsOfDim (m : PMesh) (d : Nat) : List Attr := sortByName (m.attrs.filter (fun a => a.dim == d))

/-- the order in which `AddMesh` writes attributes: Float4 (sorted), Float3 (sorted), Float2 (sorted) -/
def PMesh.written (m : PMesh) : List Attr := attrsOfDim m 4 ++ attrsOfDim m 3 ++ attrsOfDim m 2

/-- `Mesh.AttributeLength()` (first attribute found; all equal on a well-formed mesh) -/
def PMesh.attrLen (m : PMesh) : Nat :=
  match attrsOfDim m 4 ++ attrsOfDim m 3 ++ attrsOfDim m 2 ++ attrsOfDim m 1 with
  | [] => 0
  | a :: _ => a.vals.length

/-- `Mesh.PrimitiveCount()` (line / line-strip: `0` without indices, else `len − 1`; topologies beyond the six known
    ones panic in Go and are not modelled) -/
def PMesh.primitiveCount (m : PMesh) : Nat :=
  match m.topo with
  | 0 => m.indices.length / 3
  | 2 => m.indices.length / 4
  | 1 | 5 => m.indices.length
  | _ => m.indices.length - 1

def writeAttrs (w : W) (attrs : List (String × Nat)) : List Attr → W × List (String × Nat)
  | [] => (w, attrs)
  | a :: r =>
    writeAttrs (writeVec w (attrComp a.name) a.dim a.vals) (mapInsert attrs (gltfAttrName a.name) w.accessors.length) r

/-- the `else` branch of `alreadyWrittenMesh` -/
def writeMeshData (w : W) (id : Nat) (m : PMesh) : W × List (String × Nat) × Nat :=
  let r := writeAttrs w [] m.written
  let w2 := writeIndices r.1 m.indices m.attrLen
  ({ w2 with written := mapInsert w2.written id (r.2, r.1.accessors.length) }, r.2, r.1.accessors.length)

/-- the primitive mode AddMesh writes for a `modeling.Topology` (since the fix "gltf writer sets the primitive mode of line
    meshes and rejects quad meshes"): point ↦ 0 POINTS, line ↦ 1 LINES, line-loop ↦ 2 LINE_LOOP, line-strip ↦ 3 LINE_STRIP,
    triangle ↦ omitted (default TRIANGLES).  (Quad meshes are rejected before this point, see `Model/GltfTopo.lean`.) -/
def modeOfTopo (t : Nat) : Option Nat :=
  if t = 1 then some 0 else if t = 3 then some 1 else if t = 5 then some 2 else if t = 4 then some 3 else none

/-- the glTF mesh of a model: one primitive; `mode` from the topology -/
def mkMesh (name : String) (attrs : List (String × Nat)) (idx : Nat) (mat : Option Nat) (m : PMesh) : GMesh :=
  { name := name, prims := [{ attrs := attrs, indices := some idx, material := mat,
                              mode := modeOfTopo m.topo }] }

/-- accessor reuse by mesh pointer (`writtenMeshData`), else write the mesh data -/
def meshDataFor (w : W) (id : Nat) (m : PMesh) : W × List (String × Nat) × Nat :=
  match lookup id w.written with
  | some (attrs, idx) => (w, attrs, idx)
  | none => writeMeshData w id m

/-- `AddMesh` after the material has been resolved to an index; `none` result = the `-1` of an empty mesh -/
def addMesh (w : W) (name : String) (id : Nat) (m : PMesh) (mat : Option Nat) : W × Option Nat :=
  if m.primitiveCount = 0 then (w, none) else
  match lookup (id, mat) w.meshIdx with
  | some i => (w, some i)
  | none =>
    let r := meshDataFor { w with meshIdx := mapInsert w.meshIdx (id, mat) w.meshes.length } id m
    ({ r.1 with meshes := r.1.meshes ++ [mkMesh name r.2.1 r.2.2 mat m] }, some w.meshes.length)

/-! ### AddTexture / AddMaterial -/

def findIdx {α} (p : α → Bool) : List α → Nat → Option Nat
  | [], _ => none
  | a :: r, i => if p a then some i else findIdx p r (i+1)

/-- `Sampler.equal` (the four enums and `ChildOfRootProperty.equal`: name; extras/extensions are not modelled) -/
def Sampler.equal (a b : Sampler) : Bool := a == b

/-- `prepareExtensions`: a texture transform marks KHR_texture_transform as used (and required when flagged) -/
def texPrepare (w : W) (t : PTexture) : W :=
  match t.xform with
  | some _ => { w with extUsed := setInsert w.extUsed "KHR_texture_transform"
                       extRequired := if t.xformRequired then setInsert w.extRequired "KHR_texture_transform" else w.extRequired }
  | none => w

/-- image by URI: first image with that URI, else append -/
def texImage (w : W) (uri : String) : W × Nat :=
  match findIdx (fun u => u == uri) w.images 0 with
  | some i => (w, i)
  | none => ({ w with images := w.images ++ [uri] }, w.images.length)

/-- sampler by value: first equal sampler, else append -/
def texSampler (w : W) (s : Option Sampler) : W × Option Nat :=
  match s with
  | none => (w, none)
  | some s => match findIdx (fun x => s.equal x) w.samplers 0 with
    | some i => (w, some i)
    | none => ({ w with samplers := w.samplers ++ [s] }, some w.samplers.length)

/-- texture by (source, sampler): first equal texture, else append and remember the pointer -/
def texFinish (w : W) (id : Nat) (t : PTexture) (img : Nat) (smp : Option Nat) : W × TexInfo :=
  match findIdx (fun x => x == ({ sampler := smp, source := some img } : GTexture)) w.textures 0 with
  | some i => (w, { index := i, xform := t.xform })
  | none => ({ w with texIdx := mapInsert w.texIdx id w.textures.length,
                      textures := w.textures ++ [{ sampler := smp, source := some img }] },
             { index := w.textures.length, xform := t.xform })

def addTexture (w : W) (id : Nat) (t : PTexture) : W × TexInfo :=
  match lookup id (texPrepare w t).texIdx with
  | some i => (texPrepare w t, { index := i, xform := t.xform })
  | none =>
    texFinish (texSampler (texImage (texPrepare w t) t.uri).1 t.sampler).1 id t
      (texImage (texPrepare w t) t.uri).2 (texSampler (texImage (texPrepare w t) t.uri).1 t.sampler).2

def optEq {α} (f : α → α → Bool) : Option α → Option α → Bool
  | none, none => true
  | some a, some b => f a b
  | _, _ => false

/-- `PolyformTexture.equal` (after commits f524c9b and 8f08ae3): URI, the texture extensions by value (`reflect.DeepEqual`:
    the KHR_texture_transform payload and its `Required` flag) and `Sampler.equal` on the samplers (nil handled inside:
    the four enums AND name / extras / extensions) -/
def PTexture.equal (a b : PTexture) : Bool :=
  a.uri == b.uri
  && a.xform == b.xform && (a.xform.isSome && a.xformRequired) == (b.xform.isSome && b.xformRequired)
  && optEq Sampler.equal a.sampler b.sampler

def texEq (ta tb : Nat → Option PTexture) (a b : Nat) : Bool :=
  a == b || (match ta a, tb b with
    | some x, some y => x.equal y
    | _, _ => false)

/-- `PolyformMaterial.equal` (after commit be7ad46): name, pbr (factors, colour, two textures), emissive, normal
    (texture + scale), occlusion (texture + strength), alpha mode, alpha cutoff, extensions by `==`.
    `Extras` is not compared. Both sides resolve texture ids in the same heap `th`. -/
def PMaterial.equal (th : Nat → Option PTexture) (a b : PMaterial) : Bool :=
  a.name == b.name
  && a.hasPbr == b.hasPbr
  && (!a.hasPbr || (a.metallic == b.metallic && a.roughness == b.roughness && a.baseColor == b.baseColor
        && optEq (texEq th th) a.baseColorTex b.baseColorTex && optEq (texEq th th) a.metalRoughTex b.metalRoughTex))
  && a.emissive == b.emissive
  && optEq (fun x y => texEq th th x.1 y.1 && x.2 == y.2) a.normalTex b.normalTex
  && optEq (fun x y => texEq th th x.1 y.1 && x.2 == y.2) a.occlusionTex b.occlusionTex
  && a.alphaMode == b.alphaMode
  && a.alphaCutoff == b.alphaCutoff
  && a.exts.length == b.exts.length
  && (a.exts.zip b.exts).all (fun p => p.1.id == p.2.id && p.1.eqKey == p.2.eqKey)

/-- `roundFloat(float64(c)/math.MaxUint16, 3)` as a float64 bit pattern (computed at `Float`, compared bit-exactly) -/
def colorFactor (c : Nat) : Nat :=
  let r := Float.round (c.toFloat / 65535.0 * 1000.0) / 1000.0
  let r := if r.abs < 1e-8 then 0.0 else r
  r.toBits.toNat

def one64 : Nat := 0x3ff0000000000000

def addTexOpt (th : Nat → Option PTexture) (w : W) : Option Nat → Except Err (W × Option TexInfo)
  | none => .ok (w, none)
  | some id => match th id with
    | none => .error .badId
    | some t => let r := addTexture w id t; .ok (r.1, some r.2)

def addTexList (th : Nat → Option PTexture) (w : W) : List (String × Nat) → Except Err (W × List (String × TexInfo))
  | [] => .ok (w, [])
  | (k, id) :: r => match th id with
    | none => .error .badId
    | some t =>
      let a := addTexture w id t
      match addTexList th a.1 r with
      | .error e => .error e
      | .ok (w2, l) => .ok (w2, (k, a.2) :: l)

def addMatExts (th : Nat → Option PTexture) (w : W) : List PMatExt → Except Err (W × List GMatExt)
  | [] => .ok (w, [])
  | e :: r => match addTexList th w e.texs with
    | .error x => .error x
    | .ok (w1, tis) =>
      let w1 := { w1 with extUsed := setInsert w1.extUsed e.id }
      match addMatExts th w1 r with
      | .error x => .error x
      | .ok (w2, l) => .ok (w2, { id := e.id, payload := e.payload, texs := tis } :: l)

/-- the glTF material built from a polyform material and the texture infos returned by `AddTexture` -/
def buildMaterial (m : PMaterial) (bct mrt : Option TexInfo) (exts : List GMatExt) (nt ot : Option TexInfo) : GMaterial :=
  { name := m.name, alphaMode := m.alphaMode, alphaCutoff := m.alphaCutoff
    baseColorFactor := if m.hasPbr then (match m.baseColor with
                                         | some c => c.map colorFactor
                                         | none => [one64, one64, one64, one64]) else [one64, one64, one64, one64]
    metallic := if m.hasPbr then m.metallic else none
    roughness := if m.hasPbr then m.roughness else none
    baseColorTex := bct, metalRoughTex := mrt
    emissive := m.emissive.map (fun c => (c.take 3).map colorFactor)
    normalTex := match nt, m.normalTex with
      | some ti, some (_, s) => some (ti, s)
      | _, _ => none
    occlusionTex := match ot, m.occlusionTex with
      | some ti, some (_, s) => some (ti, s)
      | _, _ => none
    exts := exts }

/-- `AddMaterial`; returns the material index.  Order of effects as in the Go code: tracker lookup, base-colour and
    metallic-roughness textures, extensions (their textures, then `extensionsUsed`), alphaCutoff check, normal and
    occlusion textures, append. -/
def addMaterial (th : Nat → Option PTexture) (w : W) (m : PMaterial) : Except Err (W × Nat) :=
  match findIdx (fun e => PMaterial.equal th e.1 m) w.matIdx 0 with
  | some k => match w.matIdx[k]? with
    | some e => .ok (w, e.2)
    | none => .error .badId      -- unreachable (findIdx returns a valid position)
  | none =>
    match addTexOpt th w (if m.hasPbr then m.baseColorTex else none) with
    | .error e => .error e
    | .ok r1 =>
    match addTexOpt th r1.1 (if m.hasPbr then m.metalRoughTex else none) with
    | .error e => .error e
    | .ok r2 =>
    match addMatExts th r2.1 m.exts with
    | .error e => .error e
    | .ok r3 =>
    if m.alphaCutoff.isSome && m.alphaMode != some "MASK" then .error .alphaCutoff else
    match addTexOpt th r3.1 (m.normalTex.map (·.1)) with
    | .error e => .error e
    | .ok r4 =>
    match addTexOpt th r4.1 (m.occlusionTex.map (·.1)) with
    | .error e => .error e
    | .ok r5 =>
      .ok ({ r5.1 with materials := r5.1.materials ++ [buildMaterial m r1.2 r2.2 r3.2 r4.2 r5.2],
                       matIdx := r5.1.matIdx ++ [(m, r5.1.materials.length)] }, r5.1.materials.length)

/-! ### AddScene -/

def getAt {α} (l : List α) (i : Nat) : Except Err α := match l[i]? with
  | some a => .ok a
  | none => .error .badId

/-- the GPU-instancing block of the model loop: TRANSLATION, SCALE, ROTATION in this order -/
def addInstances (w : W) (inst : List (List Nat)) : W × Option (List (String × Nat)) :=
  if inst.length = 0 then (w, none) else
  let w := { w with extUsed := setInsert w.extUsed "EXT_mesh_gpu_instancing" }
  let a0 := w.accessors.length
  let w := writeVec w .f32 3 (inst.map (fun t => t.take 3))
  let a1 := w.accessors.length
  let w := writeVec w .f32 3 (inst.map (fun t => (t.drop 3).take 3))
  let a2 := w.accessors.length
  let w := writeVec w .f32 4 (inst.map (fun t => (t.drop 6).take 4))
  (w, some (mapInsert (mapInsert (mapInsert [] "TRANSLATION" a0) "SCALE" a1) "ROTATION" a2))

/-- material of a model resolved to a material index (`AddMesh` calls `AddMaterial` first) -/
def addModelMaterial (s : Scene) (w : W) (md : Model) : Except Err (W × Option Nat) :=
  match md.material with
  | none => .ok (w, none)
  | some k => match s.matHeap[k]? with
    | none => .error .badId
    | some pm => match addMaterial (fun i => s.texHeap[i]?) w pm with
      | .error e => .error e
      | .ok r => .ok (r.1, some r.2)

/-- the node of a model -/
def modelNode (md : Model) (meshIndex : Nat) (inst : Option (List (String × Nat))) : GNode :=
  { name := md.name, mesh := some meshIndex, translation := md.translation, rotation := md.rotation, scale := md.scale,
    inst := inst }

/-- no string occurs twice -/
def dupFree : List String → Bool
  | [] => true
  | a :: l => !l.contains a && dupFree l

/-- `AddMesh` writes nothing for a mesh without primitives or (since fd26630) without any Float2/3/4 attribute -/
def meshSkipped (m : PMesh) : Bool := m.primitiveCount == 0 || m.written.isEmpty

/-- since fd26630: two vector attributes stored under one glTF name are rejected (`ErrInvalidInput`) before the material is
    added; then the material is resolved -/
def addModelGate (s : Scene) (w : W) (md : Model) (m : PMesh) : Except Err (W × Option Nat) :=
  if dupFree (m.written.map (fun a => gltfAttrName a.name)) then addModelMaterial s w md else .error .dupAttr

/-- one iteration of the model loop of `AddScene` (skeleton / animations are outside the model) -/
def addModel (s : Scene) (w : W) (md : Model) : Except Err W :=
  match md.mesh with
  | none => .error .nilMesh
  | some id => match s.meshHeap[id]? with
    | none => .error .badId
    | some m =>
      if meshSkipped m then .ok w else     -- AddMesh returns -1 before touching the material
      match addModelGate s w md m with
      | .error e => .error e
      | .ok r =>
        let a := addMesh r.1 md.name id m r.2
        match a.2 with
        | none => .ok a.1
        | some meshIndex =>
          let i := addInstances a.1 md.instances
          .ok { i.1 with nodes := i.1.nodes ++ [modelNode md meshIndex i.2], scene := i.1.scene ++ [a.1.nodes.length] }

/-- `KHR_LightsPunctual.ToExtension`: type (empty ↦ point = 1), colour through `rgbToFloatArr`, intensity and range
    moved; payload layout [type, hasColor, r, g, b, hasIntensity, intensity, hasRange, range] -/
def lightOut (p : List Nat) : List Nat :=
  match p with
  | [ty, hc, r, g, b, hi, iv, hr, rv] =>
    [if ty = 0 then 1 else ty, hc, if hc = 1 then colorFactor r else 0, if hc = 1 then colorFactor g else 0,
     if hc = 1 then colorFactor b else 0, hi, if hi = 1 then iv else 0, hr, if hr = 1 then rv else 0]
  | _ => p

def addLight (w : W) (l : List Nat) : W :=
  { w with
    scene := w.scene ++ [w.nodes.length]
    nodes := w.nodes ++ [{ translation := some (l.take 3), light := some w.lights }]
    lights := w.lights + 1
    lightData := w.lightData ++ [lightOut (l.drop 3)]
    extUsed := setInsert w.extUsed "KHR_lights_punctual" }

def addModels (s : Scene) : W → List Model → Except Err W
  | w, [] => .ok w
  | w, md :: r => match addModel s w md with
    | .error e => .error e
    | .ok w1 => addModels s w1 r

def addScene (s : Scene) (w : W) : Except Err W :=
  match addModels s w s.models with
  | .error e => .error e
  | .ok w1 => .ok (s.lights.foldl addLight w1)

/-- `encoding/json` refuses NaN and ±Inf: no file is produced when a declared bound, a node TRS value, a light's intensity /
    range, or a material scalar (factors, cutoff, texture scale / strength, transform and extension payload) is not finite -/
def marshalOK (w : W) : Bool :=
  w.accessors.all (fun a => a.comp != .f32 ||
      ((a.min ++ a.max).all (fun b => match b with
        | some v => finite32 v
        | none => true)))
  && w.nodes.all (fun n => ((n.translation.getD []) ++ (n.rotation.getD []) ++ (n.scale.getD [])).all finite64)
  && w.lightData.all (fun l => match l with
      | [_, _, _, _, _, hi, iv, hr, rv] => (hi != 1 || finite64 iv) && (hr != 1 || finite64 rv)
      | _ => true)
  && w.materials.all (fun g =>
      (g.metallic.toList ++ g.roughness.toList ++ g.alphaCutoff.toList ++ (g.normalTex.bind (·.2)).toList
        ++ (g.occlusionTex.bind (·.2)).toList ++ g.exts.flatMap (·.payload)).all finite64
      && ((g.baseColorTex.toList ++ g.metalRoughTex.toList ++ (g.normalTex.map (·.1)).toList ++ (g.occlusionTex.map (·.1)).toList
            ++ g.exts.flatMap (fun e => e.texs.map (·.2))).all (fun t => (t.xform.getD []).all finite64)))

def writeScene (s : Scene) : Except Err W :=
  match addScene s {} with
  | .error e => .error e
  | .ok w => if marshalOK w then .ok w else .error .marshal

/-! ### GLB container (`WriteGLB`) -/

def pad4 (n : Nat) : Nat := (4 - n % 4) % 4

def glbFrame (json bin : List UInt8) : List UInt8 :=
  let jl := json.length + pad4 json.length
  let bl := bin.length + pad4 bin.length
  let total := jl + bl + 12 + 8 + (if bl > 0 then 8 else 0)
  leBytes 4 0x46546C67 ++ leBytes 4 2 ++ leBytes 4 total
  ++ leBytes 4 jl ++ leBytes 4 0x4E4F534A ++ json ++ List.replicate (pad4 json.length) 0x20
  ++ (if bl = 0 then [] else
      leBytes 4 bl ++ leBytes 4 0x004E4942 ++ bin ++ List.replicate (pad4 bin.length) 0x00)

/-! ### the document as an independent reader sees it -/

structure Doc where
  bufLen : Option Nat               -- buffers[0].byteLength; none = no buffer
  views : List View
  accessors : List Accessor
  meshes : List GMesh
  nodes : List GNode
  scene : List Nat
  materials : List GMaterial
  textures : List GTexture
  images : List String
  samplers : List Sampler
  lights : Nat
  lightData : List (List Nat)
  extUsed : List String
  extRequired : List String
deriving Repr, Inhabited

/-- `ToGLTF` -/
def W.doc (w : W) : Doc :=
  { bufLen := if w.bytesWritten > 0 then some w.bytesWritten else none
    views := w.views, accessors := w.accessors, meshes := w.meshes, nodes := w.nodes, scene := w.scene
    materials := w.materials, textures := w.textures, images := w.images, samplers := w.samplers
    lights := w.lights, lightData := w.lightData, extUsed := w.extUsed, extRequired := w.extRequired }

end Gltf
end PolyVerif
