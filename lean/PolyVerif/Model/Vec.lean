/-
  Lean transcription of the methods of the external package
  github.com/EliCDavis/vector v1.8.0 (vector2, vector3, vector4 at float64)
  that polyform's arithmetic code calls.  This is engine T's *library table*:
  the translator maps `recv.Method(args)` on a vector type to
  `V3.Method recv args` etc.  Operation order mirrors the Go source so that
  execution at `Float` is bit-identical; the table is spot-checked by the
  correspondence harness (`veclib` stream).

  Names are the Go method names verbatim.
-/
import PolyVerif.Model.Scalar

namespace PolyVerif
open Scalar

structure V2 (α : Type) where
  x : α
  y : α
deriving Repr, Inhabited

structure V3 (α : Type) where
  x : α
  y : α
  z : α
deriving Repr, Inhabited

structure V4 (α : Type) where
  x : α
  y : α
  z : α
  w : α
deriving Repr, Inhabited

variable {α : Type} [Scalar α]

/-- `vector.Clamp(f, min, max) = math.Max(math.Min(f, max), min)` -/
@[inline] def vclamp (f lo hi : α) : α := max (min f hi) lo

namespace V2
@[inline] def New (x y : α) : V2 α := ⟨x, y⟩
@[inline] def Zero : V2 α := ⟨(0 : Nat), (0 : Nat)⟩
@[inline] def One : V2 α := ⟨(1 : Nat), (1 : Nat)⟩
@[inline] def X (v : V2 α) : α := v.x
@[inline] def Y (v : V2 α) : α := v.y
@[inline] def SetX (v : V2 α) (n : α) : V2 α := { v with x := n }
@[inline] def SetY (v : V2 α) (n : α) : V2 α := { v with y := n }
@[inline] def Add (v o : V2 α) : V2 α := ⟨v.x + o.x, v.y + o.y⟩
@[inline] def Sub (v o : V2 α) : V2 α := ⟨v.x - o.x, v.y - o.y⟩
@[inline] def Dot (v o : V2 α) : α := v.x * o.x + v.y * o.y
@[inline] def Scale (v : V2 α) (t : α) : V2 α := ⟨v.x * t, v.y * t⟩
@[inline] def MultByVector (v o : V2 α) : V2 α := ⟨v.x * o.x, v.y * o.y⟩
@[inline] def DivByConstant (v : V2 α) (t : α) : V2 α := v.Scale ((1 : Nat) / t)
@[inline] def LengthSquared (v : V2 α) : α := v.x * v.x + v.y * v.y
@[inline] def Length (v : V2 α) : α := sqrt (v.x * v.x + v.y * v.y)
@[inline] def Normalized (v : V2 α) : V2 α := v.DivByConstant v.Length
@[inline] def DistanceSquared (v o : V2 α) : α :=
  let xd := o.x - v.x; let yd := o.y - v.y; xd * xd + yd * yd
@[inline] def Distance (v o : V2 α) : α := sqrt (v.DistanceSquared o)
@[inline] def Abs (v : V2 α) : V2 α := ⟨abs v.x, abs v.y⟩
end V2

namespace V3
@[inline] def New (x y z : α) : V3 α := ⟨x, y, z⟩
@[inline] def Fill (v : α) : V3 α := ⟨v, v, v⟩
@[inline] def Zero : V3 α := ⟨(0 : Nat), (0 : Nat), (0 : Nat)⟩
@[inline] def One : V3 α := ⟨(1 : Nat), (1 : Nat), (1 : Nat)⟩
@[inline] def Right : V3 α := ⟨(1 : Nat), (0 : Nat), (0 : Nat)⟩
@[inline] def Left : V3 α := ⟨-((1 : Nat) : α), (0 : Nat), (0 : Nat)⟩
@[inline] def Up : V3 α := ⟨(0 : Nat), (1 : Nat), (0 : Nat)⟩
@[inline] def Down : V3 α := ⟨(0 : Nat), -((1 : Nat) : α), (0 : Nat)⟩
@[inline] def Forward : V3 α := ⟨(0 : Nat), (0 : Nat), (1 : Nat)⟩
@[inline] def Backwards : V3 α := ⟨(0 : Nat), (0 : Nat), -((1 : Nat) : α)⟩
@[inline] def X (v : V3 α) : α := v.x
@[inline] def Y (v : V3 α) : α := v.y
@[inline] def Z (v : V3 α) : α := v.z
@[inline] def SetX (v : V3 α) (n : α) : V3 α := { v with x := n }
@[inline] def SetY (v : V3 α) (n : α) : V3 α := { v with y := n }
@[inline] def SetZ (v : V3 α) (n : α) : V3 α := { v with z := n }
@[inline] def XY (v : V3 α) : V2 α := ⟨v.x, v.y⟩
@[inline] def XZ (v : V3 α) : V2 α := ⟨v.x, v.z⟩
@[inline] def YZ (v : V3 α) : V2 α := ⟨v.y, v.z⟩
@[inline] def Add (v o : V3 α) : V3 α := ⟨v.x + o.x, v.y + o.y, v.z + o.z⟩
@[inline] def Sub (v o : V3 α) : V3 α := ⟨v.x - o.x, v.y - o.y, v.z - o.z⟩
@[inline] def Dot (v o : V3 α) : α := v.x * o.x + v.y * o.y + v.z * o.z
@[inline] def Cross (v o : V3 α) : V3 α :=
  ⟨v.y * o.z - v.z * o.y, v.z * o.x - v.x * o.z, v.x * o.y - v.y * o.x⟩
@[inline] def Scale (v : V3 α) (t : α) : V3 α := ⟨v.x * t, v.y * t, v.z * t⟩
@[inline] def MultByVector (v o : V3 α) : V3 α := ⟨v.x * o.x, v.y * o.y, v.z * o.z⟩
@[inline] def DivByConstant (v : V3 α) (t : α) : V3 α := ⟨v.x / t, v.y / t, v.z / t⟩
@[inline] def LengthSquared (v : V3 α) : α := v.x * v.x + v.y * v.y + v.z * v.z
@[inline] def Length (v : V3 α) : α := sqrt v.LengthSquared
@[inline] def Normalized (v : V3 α) : V3 α := v.DivByConstant v.Length
@[inline] def DistanceSquared (v o : V3 α) : α :=
  let xd := o.x - v.x; let yd := o.y - v.y; let zd := o.z - v.z
  xd * xd + yd * yd + zd * zd
@[inline] def Distance (v o : V3 α) : α := sqrt (v.DistanceSquared o)
@[inline] def Abs (v : V3 α) : V3 α := ⟨abs v.x, abs v.y, abs v.z⟩
@[inline] def Flip (v : V3 α) : V3 α := ⟨v.x * -((1 : Nat) : α), v.y * -((1 : Nat) : α), v.z * -((1 : Nat) : α)⟩
@[inline] def MinComponent (v : V3 α) : α := min v.x (min v.y v.z)
@[inline] def MaxComponent (v : V3 α) : α := max v.x (max v.y v.z)
@[inline] def Min (a b : V3 α) : V3 α := ⟨min a.x b.x, min a.y b.y, min a.z b.z⟩
@[inline] def Max (a b : V3 α) : V3 α := ⟨max a.x b.x, max a.y b.y, max a.z b.z⟩
@[inline] def Clamp (v : V3 α) (lo hi : α) : V3 α := ⟨vclamp v.x lo hi, vclamp v.y lo hi, vclamp v.z lo hi⟩
@[inline] def Midpoint (v o : V3 α) : V3 α :=
  ⟨(v.x + o.x) * lit 5 10, (v.y + o.y) * lit 5 10, (v.z + o.z) * lit 5 10⟩
end V3

namespace V4
@[inline] def New (x y z w : α) : V4 α := ⟨x, y, z, w⟩
@[inline] def X (v : V4 α) : α := v.x
@[inline] def Y (v : V4 α) : α := v.y
@[inline] def Z (v : V4 α) : α := v.z
@[inline] def W (v : V4 α) : α := v.w
@[inline] def Add (v o : V4 α) : V4 α := ⟨v.x + o.x, v.y + o.y, v.z + o.z, v.w + o.w⟩
@[inline] def Sub (v o : V4 α) : V4 α := ⟨v.x - o.x, v.y - o.y, v.z - o.z, v.w - o.w⟩
@[inline] def Dot (v o : V4 α) : α := v.x * o.x + v.y * o.y + v.z * o.z + v.w * o.w
@[inline] def Scale (v : V4 α) (t : α) : V4 α := ⟨v.x * t, v.y * t, v.z * t, v.w * t⟩
@[inline] def DivByConstant (v : V4 α) (t : α) : V4 α := ⟨v.x / t, v.y / t, v.z / t, v.w / t⟩
@[inline] def LengthSquared (v : V4 α) : α := v.x * v.x + v.y * v.y + v.z * v.z + v.w * v.w
@[inline] def Length (v : V4 α) : α := sqrt v.LengthSquared
@[inline] def Normalized (v : V4 α) : V4 α := v.DivByConstant v.Length
end V4

end PolyVerif
