/-
  C11 — model of the lazily evaluated, version-stamped node graph of /repo/nodes
  (struct_node.go, value_node.go, version.go, generator/parameter/value.go).  Core Lean only.

  A graph is a total map  id → node  (finite graphs embed by padding with parameter nodes; all
  theorems hold for every such map).  Guard `Acyclic F`: the graph admits a
  ranking (every dependency has a smaller rank) bounded by the evaluation fuel `F`; ids are just
  names (the Go API has no cycle check and a cycle makes `Outdated()` diverge).

  * parameter node  (`nodes.ValueNode`, `parameter.Value`):  value, version;  `Set` stores the
    value and bumps the version;  `State()` is always `Processed`.
  * struct node (`nodes.Struct`): the user's `Process()` as an abstract function `fn` of the wiring
    (so it may look at which ports are nil / how long the arrays are) and of the list of dependency
    values in `Dependencies()` order;  scalar ports (`nil` or a node), array ports (lists of nodes);
    `next` (the pull strategy of `Process()`: which wired input it pulls next, in any order,
    depending on wiring and values — processors that skip inputs are expressible; `ReadsAll` =
    all of them in order), `value` (cache), `version`, `depVersions` (`remembered`, `none` = Go's nil slice = never
    processed), `inputChangedSinceLastProcess` (`flag`).

  `Dependencies()` (since fix 2752e26): scalar ports in sorted field-name order (nil skipped),
  then array ports in sorted field-name order, each in index order.  The model lists ports in
  that order.
-/
namespace PolyVerif.Nodes

/-- execution log: `(node, version after the execution)` per `process()`, oldest first -/
abbrev Log := List (Nat × Nat)

/-- the strategy of a processor that reads all its wired inputs, in `Dependencies()` order -/
def nextAll {V : Type} (es : List (Option V)) : Option Nat := es.findIdx? Option.isNone

structure SNode (V : Type) where
  /-- the user's `Process()`: a function of the wiring and of one entry per dependency in
      `Dependencies()` order — `some v` the value it pulled, `none` for an input it did not pull
      (so it cannot depend on a value it never read) -/
  fn : List (Option Nat) → List (List Nat) → List (Option V) → V
  /-- the pull STRATEGY of `Process()`: given the wiring and the entries so far (one per dependency,
      positional in `Dependencies()` order; `none` = not pulled), the index of the next input it
      pulls with `.Value()`, or `none` = it is done.  Any order (a later dependency first), may
      depend on the wiring (a nil port makes it return early) and on the values read so far; it
      makes at most one pull per dependency slot (`len(deps)` pulls in all).
      Default `nextAll` = all wired inputs, in order (guard `ReadsAll`, needed only for the
      "recompute only on change" theorems). -/
  next : List (Option Nat) → List (List Nat) → List (Option V) → Option Nat := fun _ _ es => nextAll es
  scalars : List (Option Nat)
  arrays : List (List Nat)
  cache : V
  version : Nat
  remembered : Option (List Nat)
  flag : Bool

inductive Node (V : Type) where
  | param (value : V) (version : Nat)
  | struct (s : SNode V)

abbrev Graph (V : Type) := Nat → Node V

variable {V : Type}

/-- `Struct.Dependencies()` -/
def SNode.deps (s : SNode V) : List Nat := s.scalars.filterMap id ++ s.arrays.flatten

def Graph.set (g : Graph V) (i : Nat) (n : Node V) : Graph V := fun j => if j = i then n else g j

/-- `Node.Version()` -/
def ver (g : Graph V) (j : Nat) : Nat :=
  match g j with
  | .param _ v => v
  | .struct s => s.version

/-- the stored value of a node (parameter value / struct cache) -/
def val (g : Graph V) (j : Nat) : V :=
  match g j with
  | .param x _ => x
  | .struct s => s.cache

/-- the loop of `Outdated()`: positional comparison of current and remembered versions, and the
    state of each dependency.  `od d` = "`d.State() != Processed`".  A dependency list longer than
    the remembered list is an index-out-of-range panic in Go; the model answers `true` there and
    `PolyVerif.C11.remembered_length` shows the case is unreachable. -/
def mismatch (g : Graph V) (od : Nat → Bool) : List Nat → List Nat → Bool
  | [], _ => false
  | _ :: _, [] => true
  | d :: ds, r :: rs => (ver g d != r) || od d || mismatch g od ds rs

/-- `Struct.Outdated()` / `State() == Stale`; recursion through the dependencies on a fuel argument -/
def outdated : Nat → Graph V → Nat → Bool
  | 0, _, _ => true
  | f+1, g, i =>
    match g i with
    | .param _ _ => false
    | .struct s =>
      match s.remembered with
      | none => true
      | some rv => s.flag || mismatch g (fun d => outdated f g d) s.deps rv

/-- the inputs of a from-scratch `Process()`: it pulls exactly the inputs its strategy selects, in
    its order; `ev d` = the from-scratch value of dependency `d`; fuel = number of pulls left -/
def specPullS (ev : Nat → V) (next : List (Option V) → Option Nat) (ds : List Nat) :
    Nat → List (Option V) → List (Option V)
  | 0, es => es
  | n+1, es =>
    match next es with
    | none => es
    | some k =>
      match ds[k]? with
      | none => es
      | some d => specPullS ev next ds n (es.set k (some (ev d)))

/-- evaluate the current graph from scratch (the specification): parameters give their values, a
    struct node runs its `Process()` on from-scratch inputs — a processor that skips inputs skips
    them here too; no cache, version or remembered list is looked at -/
def evalSpec : Nat → Graph V → Nat → V
  | 0, g, i => val g i
  | f+1, g, i =>
    match g i with
    | .param x _ => x
    | .struct s =>
      s.fn s.scalars s.arrays
        (specPullS (fun d => evalSpec f g d) (s.next s.scalars s.arrays) s.deps s.deps.length
          (List.replicate s.deps.length none))

/-- the user's `Process()` pulling its inputs with `.Value()` as its strategy says: evaluate the
    chosen dependency, read its value at that moment, go on in the new state -/
def pullS (ev : Graph V → Nat → Graph V × Log) (next : List (Option V) → Option Nat) (ds : List Nat) :
    Nat → Graph V → List (Option V) → Graph V × List (Option V) × Log
  | 0, g, es => (g, es, [])
  | n+1, g, es =>
    match next es with
    | none => (g, es, [])
    | some k =>
      match ds[k]? with
      | none => (g, es, [])
      | some d =>
        let r := ev g d
        let r2 := pullS ev next ds n r.1 (es.set k (some (val r.1 d)))
        (r2.1, r2.2.1, r.2 ++ r2.2.2)

/-- `process()`: cache := Process(), version++, remember the dependency versions, clear the flag.
    `Process()` may also return an error: `sn.value, sn.err = sn.Data.Process()` stores the value
    returned NEXT to the error all the same, the version bumps, and nothing (not `State()`, not
    `Outdated()`) looks at `sn.err` — so a failing processor is just an `fn`; the harness has
    processors whose error depends on their input values. -/
def SNode.executed (s : SNode V) (g1 : Graph V) (vals : List (Option V)) : SNode V :=
  { s with cache := s.fn s.scalars s.arrays vals, version := s.version + 1,
           remembered := some (s.deps.map (ver g1)), flag := false }

/-- `Struct.Value()`: `if Outdated() { process() }`; returns the new state and the executions -/
def eval : Nat → Graph V → Nat → Graph V × Log
  | 0, g, _ => (g, [])
  | f+1, g, i =>
    match g i with
    | .param _ _ => (g, [])
    | .struct s =>
      if outdated (f+1) g i then
        let r := pullS (fun g d => eval f g d) (s.next s.scalars s.arrays) s.deps s.deps.length g
          (List.replicate s.deps.length none)
        (r.1.set i (.struct (s.executed r.1 r.2.1)), r.2.2 ++ [(i, s.version + 1)])
      else (g, [])

/-! ### the guard: the graph is acyclic with fewer than `F` levels

    `rank` is a witness (any topological ranking bounded by the fuel `F`); the Go API has no cycle
    check and a cycle makes `Outdated()` recurse forever.  With fuel `F` the three recursive
    functions never run out of fuel on such a graph (`Outdated_eq`, `Spec_eq`, `Eval_eq`). -/

def Ranked (rank : Nat → Nat) (F : Nat) (g : Graph V) : Prop :=
  (∀ i, rank i < F) ∧ ∀ i s, g i = .struct s → ∀ d ∈ s.deps, rank d < rank i

def Acyclic (F : Nat) (g : Graph V) : Prop := ∃ rank, Ranked rank F g

/-- the guard on processors: every struct node's `Process()` pulls ALL its wired inputs -/
def ReadsAll (g : Graph V) : Prop := ∀ i s, g i = .struct s → s.next = fun _ _ es => nextAll es

def Outdated (F : Nat) (g : Graph V) (i : Nat) : Bool := outdated F g i
def Spec (F : Nat) (g : Graph V) (i : Nat) : V := evalSpec F g i
def Eval (F : Nat) (g : Graph V) (i : Nat) : Graph V × Log := eval F g i

/-- executable dependency cone: `k` is a reflexive-transitive dependency of `j`
    (`= Reach g j k` on a graph ranked below the fuel, lemma `inCone_iff`) -/
def inCone : Nat → Graph V → Nat → Nat → Bool
  | 0, _, j, k => j == k
  | f+1, g, j, k => j == k ||
    match g j with
    | .struct s => s.deps.any fun d => inCone f g d k
    | .param _ _ => false

/-! ### operations of the API -/

inductive Op (V : Type) where
  | setParam (p : Nat) (v : V)                       -- ValueNode.Set / parameter ApplyMessage
  | setInput (i port : Nat) (src : Option Nat)       -- SetInput("<port>", out) / SetInput("<port>", nil)
  | arrayAdd (i arr src : Nat)                       -- SetInput("<arr>.k", out): appends
  | arrayRemove (i arr idx : Nat)                    -- SetInput("<arr>.<idx>", nil)
  | read (i : Nat)                                   -- NodeOutput.Value()
  | rejectedMessage (p : Nat)                        -- ApplyMessage(msg) with a message that does not decode

def listSet {α : Type} : List α → Nat → α → Option (List α)
  | [], _, _ => none
  | _ :: xs, 0, a => some (a :: xs)
  | x :: xs, n+1, a => (listSet xs n a).map (x :: ·)

def listModify {α : Type} (f : α → Option α) : List α → Nat → Option (List α)
  | [], _ => none
  | x :: xs, 0 => (f x).map (· :: xs)
  | x :: xs, n+1 => (listModify f xs n).map (x :: ·)

def removeAt {α : Type} : List α → Nat → Option (List α)
  | [], _ => none
  | _ :: xs, 0 => some xs
  | x :: xs, n+1 => (removeAt xs n).map (x :: ·)

/-- one API call with evaluation fuel `F`.  `none` = the call is rejected: Go panics (SetInput on a
    parameter, unknown port, slice index out of range — all before any state is written).
    Like the Go API, the model has NO cycle check: the theorems assume that the graph stays
    `Acyclic` (predicate `Valid` on histories). -/
def step? (F : Nat) (g : Graph V) : Op V → Option (Graph V × Log)
  | .setParam p v =>
    match g p with
    | .param _ n => some (g.set p (.param v (n+1)), [])
    | .struct _ => none
  | .setInput i port src =>
    match g i with
    | .param _ _ => none
    | .struct s =>
      (listSet s.scalars port src).map fun sc => (g.set i (.struct { s with scalars := sc, flag := true }), [])
  | .arrayAdd i arr src =>
    match g i with
    | .param _ _ => none
    | .struct s =>
      (listModify (fun a => some (a ++ [src])) s.arrays arr).map fun ar =>
        (g.set i (.struct { s with arrays := ar, flag := true }), [])
  | .arrayRemove i arr idx =>
    match g i with
    | .param _ _ => none
    | .struct s =>
      (listModify (fun a => removeAt a idx) s.arrays arr).map fun ar =>
        (g.set i (.struct { s with arrays := ar, flag := true }), [])
  | .read i => some (Eval F g i)
  | .rejectedMessage _ => none      -- parameter.Value.ApplyMessage returns the decode error before writing anything

/-- a rejected call leaves the state alone -/
def step (F : Nat) (g : Graph V) (op : Op V) : Graph V × Log := (step? F g op).getD (g, [])

/-- run a history; the log of all executions, oldest first -/
def run (F : Nat) (g : Graph V) : List (Op V) → Graph V × Log
  | [] => (g, [])
  | op :: ops =>
    let r := step F g op
    let r2 := run F r.1 ops
    (r2.1, r.2 ++ r2.2)

/-- the guard on a history: the graph is acyclic (with fewer than `F` levels) after every call -/
def Valid (F : Nat) (g : Graph V) : List (Op V) → Prop
  | [] => True
  | op :: ops => Acyclic F (step F g op).1 ∧ Valid F (step F g op).1 ops

/-! ### the pre-2752e26 behaviour: `Dependencies()` enumerated through Go maps, so the order may be
    permuted between calls.  `perm k ds` is the enumeration returned by the `k`-th call. -/

/-- `Outdated()` of a node whose dependency enumeration for this call is `ds` (dependencies
    themselves parameters, i.e. always `Processed`) -/
def outdatedEnum (g : Graph V) (s : SNode V) (ds : List Nat) : Bool :=
  match s.remembered with
  | none => true
  | some rv => s.flag || mismatch g (fun _ => false) ds rv

end PolyVerif.Nodes
