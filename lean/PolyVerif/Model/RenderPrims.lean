/-
  C16 (round 2) — the ray-traceable primitives of /repo/rendering that carry a bounding box:
  `Sphere` (static and animated), `XYRectangle`, `Triangle` (+ `rayIntersectsTri`).

  Their `Hit` methods write through `*HitRecord` (interface-typed `Material`, maps), which is outside the
  translator's subset, so the ARITHMETIC of each `Hit` / `BoundingBox` is transcribed here, statement by
  statement, over `[Scalar α]`; rays (`TemporalRay`, `geometry.Ray`, `At`, `Ray()`, the two normalisations)
  are regenerated from source (`Gen/Render.lean`, spec `go/specs/render.json`), boxes use the regenerated
  `NewAABB` / `EncapsulateBounds` (`Gen/Transform.lean`) and the `NewAABBFromPoints` transcription of
  `Model/Tree.lean`.  The driver answers `c16.prim.*` lines with exactly these definitions at `Float`
  (flag, distance bits, hit point bits, box bits).

  Core Lean only.
-/
import PolyVerif.Model.Tree
import PolyVerif.Gen.Render

namespace PolyVerif
namespace RPrims
open Scalar Gen.geometry Gen.rendering PolyVerif.Tree

variable {α : Type} [Scalar α]

/-- what a successful `Hit` leaves in the record: `Distance` and `Point` -/
structure HitOut (α : Type) where
  dist : α
  point : V3 α

/-- `Sphere.Hit` (rendering/sphere.go:49-79); `center = s.animation(ray.time)`.  `none` = returns false. -/
def sphereHit (center : V3 α) (radius : α) (ray : TemporalRay α) (mn mx : α) : Option (HitOut α) :=
  let oc := ray.Origin.Sub center
  let a := ray.Direction.Dot ray.Direction
  let halfB := oc.Dot ray.Direction
  let c := oc.Dot oc - (radius * radius)
  let discriminant := (halfB * halfB) - (a * c)
  if discriminant < ((0 : Nat) : α) then none else
  let sqrtd := sqrt discriminant
  let root := (-halfB - sqrtd) / a
  if root < mn || mx < root then
    let root := (-halfB + sqrtd) / a
    if root < mn || mx < root then none
    else some ⟨root, ray.At root⟩
  else some ⟨root, ray.At root⟩

/-- `Sphere.BoundingBox(startTime, endTime)` (sphere.go:81-89); `cs = animation(startTime)`, `ce = animation(endTime)` -/
def sphereBox (cs ce : V3 α) (radius : α) : AABB α :=
  let boxSize : V3 α := V3.Fill (((2 : Nat) : α) * radius)
  let bs := NewAABB cs boxSize
  let be := NewAABB ce boxSize
  bs.EncapsulateBounds be

/-- `XYRectangle.Hit` (rectangle.go:33-58) -/
def rectHit (bl tr : V2 α) (depth : α) (ray : TemporalRay α) (mn mx : α) : Option (HitOut α) :=
  let t := (depth - ray.Origin.Z) / ray.Direction.Z
  if t < mn || mx < t then none else
  let x := ray.Origin.X + t * ray.Direction.X
  let y := ray.Origin.Y + t * ray.Direction.Y
  if x < bl.X || tr.X < x || y < bl.Y || tr.Y < y then none
  else some ⟨t, ray.At t⟩

/-- `XYRectangle.BoundingBox` (rectangle.go:25-31) -/
def rectBox (bl tr : V2 α) (depth : α) : AABB α :=
  aabbFromPoints2 (V3.New bl.X bl.Y (depth - lit 1 10000)) (V3.New tr.X tr.Y (depth + lit 1 10000))

/-- `rayIntersectsTri` (rendering/mesh.go:16-70), Möller–Trumbore; `kEpsilon = 0.000001`.  Note the source's
    `tVal > maxDistance` (distance from `ray.At(min)` compared with `max`) and `Distance = tVal + minDistance`. -/
def rayIntersectsTri (p1 p2 p3 : V3 α) (ray : Ray α) (mn mx : α) : Option (HitOut α) :=
  let kEpsilon : α := lit 1 1000000
  let dir := ray.Direction
  let orig := ray.At mn
  let v0v1 := p2.Sub p1
  let v0v2 := p3.Sub p1
  let pvec := dir.Cross v0v2
  let det := v0v1.Dot pvec
  if abs det < kEpsilon then none else
  let invDet := ((1 : Nat) : α) / det
  let tvec := orig.Sub p1
  let u := tvec.Dot pvec * invDet
  if u < ((0 : Nat) : α) || ((1 : Nat) : α) < u then none else
  let qvec := tvec.Cross v0v1
  let v := dir.Dot qvec * invDet
  if v < ((0 : Nat) : α) || ((1 : Nat) : α) < u + v then none else
  let tVal := v0v2.Dot qvec * invDet
  if tVal < kEpsilon then none else
  if mx < tVal then none else
  some ⟨tVal + mn, ray.At (tVal + mn)⟩

/-- `Triangle.Hit` (triangle.go:19-35): `rayIntersectsTri` on `ray.Ray()` (which normalises the direction again) -/
def triHit (p1 p2 p3 : V3 α) (ray : TemporalRay α) (mn mx : α) : Option (HitOut α) :=
  rayIntersectsTri p1 p2 p3 ray.Ray mn mx

/-- `Triangle.box` as `NewBVHFromMesh` fills it (bvh.go:46-53) -/
def triBox (p1 p2 p3 : V3 α) : AABB α := aabbFromPoints3 p1 p2 p3

/-- a scene primitive.  A sphere carries its centre at the BVH's start / end time and at the ray's time
    (`animation(startTime)`, `animation(endTime)`, `animation(ray.time)`; all equal for `NewSphere`). -/
inductive RPrim (α : Type) where
  | sphere (cs ce ct : V3 α) (radius : α)
  | rect (bl tr : V2 α) (depth : α)
  | tri (p1 p2 p3 : V3 α)

def RPrim.hit (ray : TemporalRay α) : RPrim α → α → α → Option (HitOut α)
  | .sphere _ _ ct r, mn, mx => sphereHit ct r ray mn mx
  | .rect bl tr d, mn, mx => rectHit bl tr d ray mn mx
  | .tri a b c, mn, mx => triHit a b c ray mn mx

def RPrim.box : RPrim α → AABB α
  | .sphere cs ce _ r => sphereBox cs ce r
  | .rect bl tr d => rectBox bl tr d
  | .tri a b c => triBox a b c

/-- the distance a primitive's `Hit` reports — the `primHit` of `Bvh.hit` / `listHit` -/
def RPrim.hitDist (ray : TemporalRay α) (p : RPrim α) (mn mx : α) : Option α :=
  (p.hit ray mn mx).map HitOut.dist

/-- `BVHNode.Hit` on a tree of these primitives: box test on `r.Ray()` (bvh.go:135-146) -/
def bvhHit (ray : TemporalRay α) (t : Bvh (AABB α) (RPrim α)) (mn mx : α) : Option α :=
  t.hit (fun b lo hi => intersectsRayInRange b ray.Ray.Origin ray.Ray.Direction lo hi) (RPrim.hitDist ray) mn mx

/-- `bvhUnion`: `NewEmptyAABB` + two `EncapsulateBounds` (bvh.go:108-110) -/
def nodeBox (a b : AABB α) : AABB α := ((NewEmptyAABB : AABB α).EncapsulateBounds a).EncapsulateBounds b

/-! ### `rendering.Mesh` (mesh.go): an octree over `intersectingTri` elements -/

/-- `rayIntersectsTri(s.tris[i], ray.Ray(), mn, mx, rec)` for octree element `i` (distance written, `none` = false) -/
def elemTriHit (ray : TemporalRay α) (e : Elem α) (mn mx : α) : Option α :=
  match e.prim with
  | .tri a b c => (rayIntersectsTri a b c ray.Ray mn mx).map HitOut.dist
  | _ => none

/-- `Mesh.Hit2` (mesh.go:162-195): `ElementsIntersectingRay(ray.Ray(), mn, mx)`, then the hit-list loop over those
    triangles with the range shortened to the last hit; flag / `Distance` -/
def meshHit2 (t : Oct (AABB α) (Elem α)) (ray : TemporalRay α) (mn mx : α) : Option α :=
  listHit (elemTriHit ray)
    (t.pruned (fun b => !intersectsRayInRange b ray.Ray.Origin ray.Ray.Direction mn mx)
              (fun e => intersectsRayInRange e.box ray.Ray.Origin ray.Ray.Direction mn mx)) mn mx

/-- one callback of `Mesh.Hit`: state = (distance of the last hit, `maxStartDistance`) -/
def meshStep (ray : TemporalRay α) (mn : α) (st : Option α × α) (e : Elem α) : Option α × α :=
  match elemTriHit ray e mn st.2 with
  | some d => (some d, d)
  | none => st

/-- `Mesh.Hit` (mesh.go:197-247): `TraverseIntersectingRay` with a callback that leaves `*min/*max` alone and
    shortens its own captured `maxStartDistance` to the last hit -/
def meshHit (t : Oct (AABB α) (Elem α)) (ray : TemporalRay α) (mn mx : α) : Option α :=
  (t.traverse (fun b lo hi => intersectsRayInRange b ray.Ray.Origin ray.Ray.Direction lo hi)
      (fun e lo hi => intersectsRayInRange e.box ray.Ray.Origin ray.Ray.Direction lo hi)
      (fun e rng (st : Option α × α) => (rng, meshStep ray mn st e)) (mn, mx) (none, mx)).1

end RPrims
end PolyVerif
