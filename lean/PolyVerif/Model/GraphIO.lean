/-
  Model of /repo/generator/graph/instance.go (+ generator/app.go, nodes/struct_node.go,
  refutil/reflect.go, generator/sync/sync.go, generator/parameter/{value,file,image}.go) for C12:
  a node graph, its editing operations, `encode` (EncodeToAppSchema) and `decode`
  (ApplyAppSchema).  Core Lean only.  Tied to the Go code by the `c12` correspondence stream.

  Conventions
  * port / dependency names are `List Char` (Go strings; comparison is byte-wise = code-point-wise);
    lower-casing / EqualFold are modelled for ASCII only (port names are Go identifiers).
  * a Go map is a key-unique list; the order of the list is a representation artefact
    (`encode`/`decode` are `List.map`s over it, see `encode_nodes_perm` in Props/C12).
  * parameter payloads are opaque: a value type `V`, its JSON form `J`, `toJ`, `fromJ` (per node type)
    and the law `fromJ ty j = some v → fromJ ty (toJ v) = some v` (Props/C12 `Codec.Lawful`).
  * sort.Slice is modelled as insertion sort; Props/C12 `sorted_unique` shows any permutation that is
    sorted w.r.t. a comparator that is a strict total order on the names present is that same list.
-/
namespace PolyVerif
namespace GraphIO

abbrev Name := List Char
abbrev Id := String
abbrev TyName := String
abbrev VTy := Nat

/-! ### strings: the pieces of Go's `strings`/`strconv` that `dependencyNameLess` and `SetInput` use -/

/-- `unicode.ToLower` on the alphabet the model covers: ASCII, Latin-1 letters U+00C0–U+00DE (not ×), Greek capitals
    U+0391–U+03A9, Cyrillic capitals U+0400–U+042F; every other character is left alone.  On names over
    ASCII ∪ U+00C0–U+00FF ∪ Greek U+0391–U+03C9 without ς ∪ Cyrillic U+0400–U+045F this is Go's `strings.ToLower`, and
    `lower a = lower b` is `strings.EqualFold a b` (outside that alphabet simple case folding has longer orbits —
    ſ, K, ς, ϑ, µ … — which are NOT modelled; the `c12.less` lines draw names from exactly this alphabet). -/
def lowerC (c : Char) : Char :=
  let n := c.toNat
  if 65 ≤ n ∧ n ≤ 90 then Char.ofNat (n + 32)
  else if 192 ≤ n ∧ n ≤ 222 ∧ n ≠ 215 then Char.ofNat (n + 32)
  else if 913 ≤ n ∧ n ≤ 937 ∧ n ≠ 930 then Char.ofNat (n + 32)
  else if 1040 ≤ n ∧ n ≤ 1071 then Char.ofNat (n + 32)
  else if 1024 ≤ n ∧ n ≤ 1039 then Char.ofNat (n + 80)
  else c

/-- strings.ToLower (see `lowerC` for the alphabet) -/
def lower (s : Name) : Name := s.map lowerC

/-- Go's `a < b` on strings (byte-wise lexicographic = code-point-wise for valid UTF-8) -/
def strLt : Name → Name → Bool
  | [], [] => false
  | [], _ :: _ => true
  | _ :: _, [] => false
  | a :: as, b :: bs => if a < b then true else if b < a then false else strLt as bs

/-- split at the LAST '.', `strings.LastIndex(s, ".")`: `some (s[:i], s[i+1:])`, `none` when there is no dot -/
def splitLast : Name → Option (Name × Name)
  | [] => none
  | c :: cs =>
    match splitLast cs with
    | some (p, s) => some (c :: p, s)
    | none => if c = '.' then some ([], cs) else none

/-- split at the FIRST '.', `strings.Index(s, ".")` -/
def splitFirst : Name → Option (Name × Name)
  | [] => none
  | c :: cs =>
    if c = '.' then some ([], cs) else
    match splitFirst cs with
    | some (p, s) => some (c :: p, s)
    | none => none

def isDigit (c : Char) : Bool := '0' ≤ c && c ≤ '9'

/-- value of a digit string, most significant first; `none` if some character is not 0-9 -/
def digitsVal : List Char → Nat → Option Nat
  | [], acc => some acc
  | c :: cs, acc => if isDigit c then digitsVal cs (acc * 10 + (c.toNat - 48)) else none

/-- the unsigned part of strconv.Atoi: at least one digit, only 0-9 (no underscores in base 10), result within int64 -/
def atoiU (neg : Bool) (ds : Name) : Option Int :=
  match ds with
  | [] => none
  | _ :: _ =>
    match digitsVal ds 0 with
    | none => none
    | some v =>
      if neg then (if v ≤ 2 ^ 63 then some (-(v : Int)) else none)
      else (if v < 2 ^ 63 then some (v : Int) else none)

/-- strconv.Atoi on a 64-bit platform: optional sign, then `atoiU`; anything else is an error -/
def atoi : Name → Option Int
  | '-' :: r => atoiU true r
  | '+' :: r => atoiU false r
  | r => atoiU false r

/-- `dependencyNameLess` of instance.go (after commit 5b98158), line by line -/
def depLess (a b : Name) : Bool :=
  match splitLast a, splitLast b with
  | some (ap, as), some (bp, bs) =>
    if lower ap = lower bp then
      match atoi as, atoi bs with
      | some x, some y => decide (x < y)
      | _, _ => strLt (lower a) (lower b)
    else strLt (lower a) (lower b)
  | _, _ => strLt (lower a) (lower b)

/-- the comparator before 5b98158: lower-cased string order -/
def lexLess (a b : Name) : Bool := strLt (lower a) (lower b)

def digitChar (d : Nat) : Char := Char.ofNat (48 + d)

def natDigitsF : Nat → Nat → List Char
  | 0, _ => []
  | f + 1, n => if n < 10 then [digitChar n] else natDigitsF f (n / 10) ++ [digitChar (n % 10)]

/-- `fmt.Sprintf("%d", n)` for n ≥ 0 -/
def natDigits (n : Nat) : List Char := natDigitsF (n + 1) n

/-- `fmt.Sprintf("%s.%d", key, i)` (struct_node.go Dependencies) -/
def arrName (p : Name) (i : Nat) : Name := p ++ '.' :: natDigits i

/-! ### sort -/

def insertBy {α} (lt : α → α → Bool) (a : α) : List α → List α
  | [] => [a]
  | b :: bs => if lt b a then b :: insertBy lt a bs else a :: b :: bs

/-- stand-in for sort.Slice -/
def sortBy {α} (lt : α → α → Bool) : List α → List α
  | [] => []
  | a :: as => insertBy lt a (sortBy lt as)

/-! ### node types, graph -/

/-- how a parameter type serialises: `value` = parameter.Value[T] (name, description, current, default, cli);
    `file` = parameter.File / parameter.Image (name, description, current if non-nil — as a jbtf buffer view —, cli;
    the default is never written: file.go tests `schema.DefaultValue != nil`) -/
inductive PKind | value | file
deriving DecidableEq, Repr

structure NodeType where
  out : VTy
  scal : List (Name × VTy)
  arrs : List (Name × VTy)
  param : Option PKind
deriving Repr

/-- the value type of `artifact.Artifact` outputs -/
def artTy : VTy := 0

structure Ref where
  node : Id
  port : String
deriving DecidableEq, Repr

structure Param (V : Type) where
  name : String
  desc : String
  cur : Option V      -- appliedProfile
  dflt : Option V     -- DefaultValue (nil possible for File/Image)
  cli : Option (String × String)

/-- `Value()`: applied value if any, else the default (CLI flag values are never set in a graph editor session) -/
def Param.value {V} (p : Param V) : Option V :=
  match p.cur with
  | some v => some v
  | none => p.dflt

structure Node (V : Type) where
  id : Id
  ty : TyName
  scal : Name → Option Ref
  arrs : Name → List Ref
  par : Option (Param V)

inductive Meta where
  | leaf (json : String)
  | obj (kids : List (String × Meta))

structure Hdr where
  name : String
  version : String
  description : String
  authors : Option String     -- opaque JSON of the authors array, none = nil slice
  webScene : Option String    -- opaque JSON
deriving DecidableEq, Repr

def Hdr.empty : Hdr := ⟨"", "", "", none, none⟩

structure Graph (V : Type) where
  nodes : List (Node V)
  prods : List (String × Ref)
  md : List (String × Meta)
  hdr : Hdr

/-- everything the model takes from the environment: registered types, their factory values, the codec -/
structure Env (V J : Type) where
  types : TyName → Option NodeType
  dflt : TyName → Option V            -- DefaultValue of the factory-built parameter
  toJ : V → J
  fromJ : TyName → J → Option V
  cat : J → J → J                     -- concatenation of binary payloads (jbtf buffer)

inductive Err | panic | err | fuel
deriving DecidableEq, Repr

/-! ### association helpers -/

def aget {β} (l : List (String × β)) (k : String) : Option β :=
  match l with
  | [] => none
  | (k', v) :: r => if k' = k then some v else aget r k

def aset {β} (l : List (String × β)) (k : String) (v : β) : List (String × β) :=
  match l with
  | [] => [(k, v)]
  | (k', v') :: r => if k' = k then (k, v) :: r else (k', v') :: aset r k v

def adel {β} (l : List (String × β)) (k : String) : List (String × β) :=
  l.filter (fun kv => kv.1 ≠ k)

def portTy (l : List (Name × VTy)) (p : Name) : Option VTy :=
  match l with
  | [] => none
  | (q, t) :: r => if q = p then some t else portTy r p

def Graph.find {V} (g : Graph V) (id : Id) : Option (Node V) := g.nodes.find? (fun n => n.id = id)

def upd {α} (f : Name → α) (p : Name) (v : α) : Name → α := fun q => if q = p then v else f q

/-! ### SetInput (nodes/struct_node.go:72-94 with refutil/reflect.go) -/

/-- `SetInput(input, Output{ref})` on a Struct node of type `T`; `srcTy` = value type of the referenced output.
    dotted name → append to the array field named by the part before the FIRST dot (the index is ignored);
    plain name → set the scalar field.  reflect panics on unknown field / wrong kind / wrong element type. -/
def setInputConnect {V} (T : NodeType) (n : Node V) (input : Name) (r : Ref) (srcTy : VTy) : Except Err (Node V) :=
  match T.param with
  | some _ => .error .panic                       -- parameter.Value.SetInput panics
  | none =>
    match splitFirst input with
    | some (p, _) =>
      match portTy T.arrs p with
      | some t => if t = srcTy then .ok { n with arrs := upd n.arrs p (n.arrs p ++ [r]) } else .error .panic
      | none => .error .panic
    | none =>
      match portTy T.scal input with
      | some t => if t = srcTy then .ok { n with scal := upd n.scal input (some r) } else .error .panic
      | none => .error .panic

/-- `SetInput(input, Output{nil})`: dotted → remove element Atoi(after first dot) of the array field;
    plain → zero the field (scalar: disconnect; array field: the whole slice becomes nil) -/
def setInputDisconnect {V} (T : NodeType) (n : Node V) (input : Name) : Except Err (Node V) :=
  match T.param with
  | some _ => .error .panic
  | none =>
    match splitFirst input with
    | some (p, rest) =>
      match atoi rest with
      | none => .error .panic
      | some k =>
        match portTy T.arrs p with
        | none => .error .panic
        | some _ =>
          if 0 ≤ k ∧ k.toNat < (n.arrs p).length then
            .ok { n with arrs := upd n.arrs p ((n.arrs p).eraseIdx k.toNat) }
          else .error .panic
    | none =>
      match portTy T.scal input, portTy T.arrs input with
      | some _, _ => .ok { n with scal := upd n.scal input none }
      | none, some _ => .ok { n with arrs := upd n.arrs input [] }
      | none, none => .error .panic

/-! ### metadata (generator/sync/sync.go NestedSyncMap) -/

/-- `Set(key, value)`, key already split at '.' -/
def metaSet : List String → Meta → List (String × Meta) → Except Err (List (String × Meta))
  | [], _, kids => .ok kids                       -- strings.Split never yields an empty slice
  | [k], v, kids => .ok (aset kids k v)
  | k :: k2 :: rest, v, kids =>
    match aget kids k with
    | some (.obj sub) => do let sub' ← metaSet (k2 :: rest) v sub; .ok (aset kids k (.obj sub'))
    | some (.leaf _) => .error .panic
    | none => do let sub' ← metaSet (k2 :: rest) v []; .ok (aset kids k (.obj sub'))

/-- `Delete(key)` -/
def metaDel : List String → List (String × Meta) → Except Err (List (String × Meta))
  | [], kids => .ok kids
  | [k], kids => .ok (adel kids k)
  | k :: k2 :: rest, kids =>
    match aget kids k with
    | some (.obj sub) => do let sub' ← metaDel (k2 :: rest) sub; .ok (aset kids k (.obj sub'))
    | _ => .error .panic

/-! ### editing operations (graph/instance.go) -/

inductive Op (J : Type) where
  | create (ty : TyName)
  | connect (src : Id) (srcPort : String) (dst : Id) (inPort : Name)
  | disconnect (dst : Id) (inPort : Name)
  | setValue (id : Id) (j : J)
  | setName (id : Id) (s : String)
  | setDesc (id : Id) (s : String)
  | setProducer (id : Id) (file : String)
  | metaSet (path : List String) (v : Meta)
  | metaDel (path : List String)
  | delete (id : Id)

/-- `fmt.Sprintf("Node-%d", k)` -/
def nodeIdOf (k : Nat) : Id := "Node-" ++ String.ofList (natDigits k)

/-- buildIDsForNode: first `Node-k`, k ≥ len(nodeIDs), not in use.  `fuel` bounds the search (the Go loop has none);
    Props/C12 `firstFree_sufficient`: with fuel > len(ids) the search always finds a free id (pigeonhole). -/
def firstFree (ids : List Id) : Nat → Nat → Option Id
  | 0, _ => none
  | fuel + 1, k => if nodeIdOf k ∈ ids then firstFree ids fuel (k + 1) else some (nodeIdOf k)

def Graph.ids {V} (g : Graph V) : List Id := g.nodes.map (·.id)

def Graph.setNode {V} (g : Graph V) (n : Node V) : Graph V :=
  { g with nodes := g.nodes.map (fun m => if m.id = n.id then n else m) }

/-- every reference held by node `n` (enumerated through its type's ports) -/
def Node.refs {V} (T : NodeType) (n : Node V) : List Ref :=
  T.scal.filterMap (fun p => n.scal p.1) ++ T.arrs.flatMap (fun p => n.arrs p.1)

/-- somebody references node `id` -/
def Graph.dependedOn {V J} (E : Env V J) (g : Graph V) (id : Id) : Bool :=
  g.nodes.any fun n =>
    match E.types n.ty with
    | some T => (n.refs T).any (fun r => r.node = id)
    | none => false

def emptyNode {V} (id : Id) (ty : TyName) (par : Option (Param V)) : Node V :=
  { id := id, ty := ty, scal := fun _ => none, arrs := fun _ => [], par := par }

def freshParam {V J} (E : Env V J) (ty : TyName) (T : NodeType) : Option (Param V) :=
  T.param.map fun _ => { name := "", desc := "", cur := none, dflt := E.dflt ty, cli := none }

def step {V J} (E : Env V J) (g : Graph V) : Op J → Except Err (Graph V)
  | .create ty =>
    match E.types ty with
    | none => .error .err                                    -- "no factory registered"
    | some T =>
      match firstFree g.ids (g.nodes.length + 1) g.nodes.length with
      | none => .error .fuel
      | some id => .ok { g with nodes := g.nodes ++ [emptyNode id ty (freshParam E ty T)] }
  | .connect src srcPort dst inPort =>
    match g.find dst, g.find src with
    | some d, some s =>
      match E.types d.ty, E.types s.ty with
      | some Td, some Ts =>
        if srcPort = "Out" then do
          let d' ← setInputConnect Td d inPort ⟨src, srcPort⟩ Ts.out
          .ok (g.setNode d')
        else .error .panic
      | _, _ => .error .panic
    | _, _ => .error .panic
  | .disconnect dst inPort =>
    match g.find dst with
    | some d =>
      match E.types d.ty with
      | some Td => do let d' ← setInputDisconnect Td d inPort; .ok (g.setNode d')
      | none => .error .panic
    | none => .error .panic
  | .setValue id j =>
    match g.find id with
    | some n =>
      match n.par with
      | some p =>
        match E.fromJ n.ty j with
        | some v => .ok (g.setNode { n with par := some { p with cur := some v } })
        | none => .error .err
      | none => .error .panic
    | none => .error .panic
  | .setName id s =>
    match g.find id with
    | some n =>
      match n.par with
      | some p => .ok (g.setNode { n with par := some { p with name := s } })
      | none => .error .panic
    | none => .error .panic
  | .setDesc id s =>
    match g.find id with
    | some n =>
      match n.par with
      | some p => .ok (g.setNode { n with par := some { p with desc := s } })
      | none => .error .panic
    | none => .error .panic
  | .setProducer id file =>
    match g.find id with
    | some n =>
      match E.types n.ty with
      | some T =>
        if T.out = artTy then
          .ok { g with prods := aset (g.prods.filter (fun kv => kv.2.node ≠ id)) file ⟨id, "Out"⟩ }
        else .error .panic
      | none => .error .panic
    | none => .error .panic
  | .metaSet path v => do let m ← metaSet path v g.md; .ok { g with md := m }
  | .metaDel path => do let m ← metaDel path g.md; .ok { g with md := m }
  | .delete id =>
    -- the property only speaks about deleting nodes nothing depends on; the model refuses otherwise
    -- (instance.go DeleteNode has no such guard: the harness never issues such a delete)
    if g.dependedOn E id then .error .err
    else .ok { g with nodes := g.nodes.filter (fun n => n.id ≠ id),
                      prods := g.prods.filter (fun kv => kv.2.node ≠ id) }

/-- DEFINITION (not a theorem): an operation that panics / errors leaves the graph unchanged.  That the Go code behaves
    so (every panic precedes the first mutation) is read off the source and tied by the `c12.edit` lines: each history
    contains failing operations and the dump after them must equal the model's. -/
def stepTotal {V J} (E : Env V J) (g : Graph V) (op : Op J) : Graph V :=
  match step E g op with
  | .ok g' => g'
  | .error _ => g

def run {V J} (E : Env V J) (g : Graph V) (ops : List (Op J)) : Graph V := ops.foldl (stepTotal E) g

def Graph.init {V} (h : Hdr) : Graph V := { nodes := [], prods := [], md := [], hdr := h }

/-! ### schema, encode, decode -/

structure Dep where
  name : Name
  ref : Ref
deriving DecidableEq, Repr

/-- the `data` member of a parameter node -/
structure PData (J : Type) where
  name : String
  desc : Option String
  cur : Option J
  dflt : Option J
  cli : Option (String × String)

structure NodeS (J : Type) where
  id : Id
  ty : TyName
  deps : List Dep
  data : Option (PData J)

structure Schema (J : Type) where
  hdr : Hdr
  nodes : List (NodeS J)
  prods : List (String × Ref)
  md : List (String × Meta)

/-- the elements of array field `p` from index `k` on, named `p.k`, `p.(k+1)`, … -/
def indexed (p : Name) : Nat → List Ref → List Dep
  | _, [] => []
  | k, r :: rs => ⟨arrName p k, r⟩ :: indexed p (k + 1) rs

/-- Struct.Dependencies(): connected scalar fields, then every element of every array field as `Field.i` -/
def depsOf {V} (T : NodeType) (n : Node V) : List Dep :=
  T.scal.filterMap (fun p => (n.scal p.1).map (fun r => ⟨p.1, r⟩)) ++
  T.arrs.flatMap (fun p => indexed p.1 0 (n.arrs p.1))

/-- on a list: irreflexive-asymmetric, transitive, and any two different elements are comparable -/
structure StrictTotalOn {α} (lt : α → α → Bool) (l : List α) : Prop where
  asymm : ∀ a ∈ l, ∀ b ∈ l, lt a b = true → lt b a = true → False
  trans : ∀ a ∈ l, ∀ b ∈ l, ∀ c ∈ l, lt a b = true → lt b c = true → lt a c = true
  total : ∀ a ∈ l, ∀ b ∈ l, a ≠ b → lt a b = true ∨ lt b a = true

/-- what `decode_encode` needs from the comparator, for the dependency names of one node: a strict total order on
    them (so that any correct sort has exactly one possible result) that puts `P.i` before `P.j` whenever i < j -/
structure CmpOK {V} (cmp : Name → Name → Bool) (T : NodeType) (n : Node V) : Prop where
  strict : StrictTotalOn cmp ((depsOf T n).map (·.name))
  arrOrder : ∀ p ∈ T.arrs.map (·.1), ∀ i j, i < j → j < (n.arrs p).length → cmp (arrName p i) (arrName p j) = true

def encodeParam {V J} (E : Env V J) (k : PKind) (p : Param V) : PData J :=
  match k with
  | .value => { name := p.name, desc := some p.desc, cur := p.value.map E.toJ, dflt := p.dflt.map E.toJ, cli := p.cli }
  | .file => { name := p.name, desc := some p.desc, cur := p.value.map E.toJ, dflt := none, cli := p.cli }

/-- buildNodeGraphInstanceSchema -/
def encodeNode {V J} (E : Env V J) (cmp : Name → Name → Bool) (n : Node V) : NodeS J :=
  match E.types n.ty with
  | none => { id := n.id, ty := n.ty, deps := [], data := none }
  | some T =>
    { id := n.id, ty := n.ty,
      deps := match T.param with
              | some _ => []
              | none => sortBy (fun a b => cmp a.name b.name) (depsOf T n),
      data := match T.param, n.par with
              | some k, some p => some (encodeParam E k p)
              | _, _ => none }

/-- App.Schema / EncodeToAppSchema -/
def encode {V J} (E : Env V J) (cmp : Name → Name → Bool) (g : Graph V) : Schema J :=
  { hdr := g.hdr, nodes := g.nodes.map (encodeNode E cmp), prods := g.prods, md := g.md }

/-- jbtf.Bytes.Deserialize is `io.ReadAll` from the view's offset: it returns the view's bytes AND every later
    payload in the buffer (`later`, in buffer order) — the bufferView length is ignored -/
def readToEnd {V J} (E : Env V J) (c : J) (later : List J) : J := later.foldl E.cat c

def decodeParam {V J} (E : Env V J) (ty : TyName) (k : PKind) (later : List J) (d : PData J) : Except Err (Param V) :=
  match k with
  | .value =>
    match d.cur, d.dflt with
    | some c, some df =>
      match E.fromJ ty c, E.fromJ ty df with
      | some cv, some dv => .ok { name := d.name, desc := d.desc.getD "", cur := some cv, dflt := some dv, cli := d.cli }
      | _, _ => .error .err
    | _, _ => .error .err
  | .file =>
    -- FromJSON of File/Image: default and current are only overwritten when present
    match d.cur with
    | some c =>
      match E.fromJ ty (readToEnd E c later) with
      | some cv => .ok { name := d.name, desc := d.desc.getD "", cur := some cv, dflt := E.dflt ty, cli := d.cli }
      | none => .error .err
    | none => .ok { name := d.name, desc := d.desc.getD "", cur := none, dflt := E.dflt ty, cli := d.cli }

def tyOfId {J} (ns : List (NodeS J)) (id : Id) : Option TyName := (ns.find? (fun n => n.id = id)).map (·.ty)

/-- replay `SetInput(dep.Name, ref)` in file order -/
def replay {V J} (E : Env V J) (ns : List (NodeS J)) (T : NodeType) : Node V → List Dep → Except Err (Node V)
  | n, [] => .ok n
  | n, d :: ds =>
    match tyOfId ns d.ref.node with
    | none => .error .panic                       -- createdNodes[id] == nil
    | some sty =>
      match E.types sty with
      | none => .error .panic
      | some Ts =>
        if d.ref.port = "Out" then
          match setInputConnect T n d.name d.ref Ts.out with
          | .ok n' => replay E ns T n' ds
          | .error e => .error e
        else .error .panic

def decodeNode {V J} (E : Env V J) (ns : List (NodeS J)) (later : List J) (s : NodeS J) : Except Err (Node V) :=
  if s.id = "" then .error .panic else
  match E.types s.ty with
  | none => .error .panic
  | some T => do
    let n ← replay E ns T (emptyNode s.id s.ty (freshParam E s.ty T)) s.deps
    match T.param, s.data with
    | some k, some d => do let p ← decodeParam E s.ty k later d; .ok { n with par := some p }
    | some _, none => .error .err                 -- json.Unmarshal of an absent body
    | none, _ => .ok n

def decodeProd {V J} (E : Env V J) (ns : List (NodeS J)) (kv : String × Ref) : Except Err (String × Ref) :=
  match tyOfId ns kv.2.node with
  | none => .error .panic
  | some ty =>
    match E.types ty with
    | none => .error .panic
    | some T => if kv.2.port = "Out" ∧ T.out = artTy then .ok kv else .error .panic

/-- App.ApplySchema: header fields overwrite only when non-empty (authors always) -/
def applyHdr (fresh file : Hdr) : Hdr :=
  { name := if file.name ≠ "" then file.name else fresh.name,
    version := if file.version ≠ "" then file.version else fresh.version,
    description := if file.description ≠ "" then file.description else fresh.description,
    authors := file.authors,
    webScene := match file.webScene with | some w => some w | none => fresh.webScene }

/-- the binary payload (jbtf buffer view) a node entry owns, if any -/
def filePayload {V J} (E : Env V J) (s : NodeS J) : Option J :=
  match E.types s.ty with
  | some T =>
    match T.param, s.data with
    | some .file, some d => d.cur
    | _, _ => none
  | none => none

/-- decode every node entry; `all` is the whole file (to resolve references); the payloads of the entries
    after an entry are what follows its own payload in the binary buffer (the encoder appends in this order) -/
def decodeNodes {V J} (E : Env V J) (all : List (NodeS J)) : List (NodeS J) → Except Err (List (Node V))
  | [] => .ok []
  | s :: rest =>
    match decodeNode E all (rest.filterMap (filePayload E)) s with
    | .error e => .error e
    | .ok n =>
      match decodeNodes E all rest with
      | .error e => .error e
      | .ok ns => .ok (n :: ns)

def decodeProds {V J} (E : Env V J) (all : List (NodeS J)) : List (String × Ref) → Except Err (List (String × Ref))
  | [] => .ok []
  | kv :: rest =>
    match decodeProd E all kv with
    | .error e => .error e
    | .ok kv' =>
      match decodeProds E all rest with
      | .error e => .error e
      | .ok r => .ok (kv' :: r)

/-- ApplyAppSchema into an application whose header is `fresh` -/
def decode {V J} (E : Env V J) (fresh : Hdr) (s : Schema J) : Except Err (Graph V) := do
  let nodes ← decodeNodes E s.nodes s.nodes
  let prods ← decodeProds E s.nodes s.prods
  .ok { nodes := nodes, prods := prods, md := s.md, hdr := applyHdr fresh s.hdr }

/-! ### "same graph": the decidable predicate the `same_graph` oracle evaluates on the two dumps.
    (`decode_encode` itself is stated with `=` on `Graph.norm`; `norm_same` lists what `norm` keeps.) -/

def Param.view {V} (p : Param V) : String × String × Option V × Option V × Option (String × String) :=
  (p.name, p.desc, p.value, p.dflt, p.cli)

/-- same type, same scalar wiring, same array contents IN ORDER, same observable parameter state -/
def Node.same {V} [DecidableEq V] (T : NodeType) (a b : Node V) : Bool :=
  a.id = b.id && a.ty = b.ty &&
  T.scal.all (fun p => a.scal p.1 = b.scal p.1) &&
  T.arrs.all (fun p => a.arrs p.1 = b.arrs p.1) &&
  (match a.par, b.par with
   | some p, some q => p.view = q.view
   | none, none => true
   | _, _ => false)

mutual
/-- canonical token form of a metadata tree (keys in stored order) -/
def Meta.toks : Meta → List String
  | .leaf j => ["L", j]
  | .obj kids => "O" :: toString kids.length :: kidsToks kids
def kidsToks : List (String × Meta) → List String
  | [] => []
  | (k, m) :: r => k :: (m.toks ++ kidsToks r)
end

/-- `g'` has exactly the nodes of `g` (by id), each the same; the same producers; the same metadata and header -/
def Graph.same {V J} [DecidableEq V] (E : Env V J) (metaEq : List (String × Meta) → List (String × Meta) → Bool)
    (g g' : Graph V) : Bool :=
  g.nodes.length = g'.nodes.length &&
  g.nodes.all (fun n =>
    match g'.find n.id, E.types n.ty with
    | some n', some T => Node.same T n n'
    | _, _ => false) &&
  g.prods.length = g'.prods.length &&
  g.prods.all (fun kv => aget g'.prods kv.1 = some kv.2) &&
  metaEq g.md g'.md && g.hdr = g'.hdr

/-! ### well-formedness (the invariant of `edit_history_wf`, the guard of `decode_encode`) -/

/-- what the model needs from the registered types and the parameter codec.
    Port names are Go struct field names: unique per struct, never contain a dot; parameter types have no inputs.
    `law`: re-reading what was written for a value that was itself read (or is the factory default) gives it back. -/
structure EnvOK {V J} (E : Env V J) : Prop where
  scalNodup : ∀ ty T, E.types ty = some T → (T.scal.map (·.1)).Nodup
  arrNodup : ∀ ty T, E.types ty = some T → (T.arrs.map (·.1)).Nodup
  scalNoDot : ∀ ty T, E.types ty = some T → ∀ p ∈ T.scal.map (·.1), '.' ∉ p
  arrNoDot : ∀ ty T, E.types ty = some T → ∀ p ∈ T.arrs.map (·.1), '.' ∉ p
  paramNoPorts : ∀ ty T, E.types ty = some T → T.param.isSome → T.scal = [] ∧ T.arrs = []
  law : ∀ ty j v, E.fromJ ty j = some v → E.fromJ ty (E.toJ v) = some v
  dfltLaw : ∀ ty v, E.dflt ty = some v → E.fromJ ty (E.toJ v) = some v
  valueDflt : ∀ ty T, E.types ty = some T → T.param = some .value → (E.dflt ty).isSome

/-- reference `r` resolves in `g` to an output of value type `t` -/
def RefOK {V J} (E : Env V J) (g : Graph V) (t : VTy) (r : Ref) : Prop :=
  r.port = "Out" ∧ ∃ s ∈ g.nodes, s.id = r.node ∧ ∃ Ts, E.types s.ty = some Ts ∧ Ts.out = t

def ParamOK {V J} (E : Env V J) (ty : TyName) (k : PKind) (p : Param V) : Prop :=
  (∀ v, p.cur = some v → E.fromJ ty (E.toJ v) = some v) ∧
  (∀ v, p.dflt = some v → E.fromJ ty (E.toJ v) = some v) ∧
  (k = .value → p.dflt.isSome) ∧ (k = .file → p.dflt = E.dflt ty)

structure NodeWF {V J} (E : Env V J) (g : Graph V) (n : Node V) : Prop where
  idNe : n.id ≠ ""
  ty : ∃ T, E.types n.ty = some T ∧
    (∀ p r, n.scal p = some r → ∃ t, portTy T.scal p = some t ∧ RefOK E g t r) ∧
    (∀ p r, r ∈ n.arrs p → ∃ t, portTy T.arrs p = some t ∧ RefOK E g t r) ∧
    (match T.param, n.par with
     | some k, some p => ParamOK E n.ty k p
     | none, none => True
     | _, _ => False)

/-- ids unique and non-empty, every node of a registered type, every reference (wiring and producers) resolves
    to a node of the graph with a matching output type, parameter payloads re-readable -/
structure WF {V J} (E : Env V J) (g : Graph V) : Prop where
  nodup : (g.nodes.map (·.id)).Nodup
  nodes : ∀ n ∈ g.nodes, NodeWF E g n
  prodsNodup : (g.prods.map (·.1)).Nodup
  prods : ∀ kv ∈ g.prods, RefOK E g artTy kv.2

/-! ### what a reload normalises: a parameter's applied value becomes its `Value()` -/

def Param.norm {V} (p : Param V) : Param V := { p with cur := p.value }
def Node.norm {V} (n : Node V) : Node V := { n with par := n.par.map Param.norm }
def Graph.norm {V} (g : Graph V) : Graph V := { g with nodes := g.nodes.map Node.norm }

/-- the binary payload (File / Image parameter content) node `n` contributes to the saved file's buffer -/
def Node.payload {V J} (E : Env V J) (n : Node V) : Option V :=
  match E.types n.ty with
  | some T =>
    match T.param, n.par with
    | some .file, some p => p.value
    | _, _ => none
  | none => none

/-- at most one File/Image parameter holds a payload: then every payload is the last buffer view of the saved file
    (jbtf v0.2.0 `Bytes.Deserialize` reads to the end of the buffer; see `file_payload_concatenated`) -/
def FilePayloadLast {V J} (E : Env V J) (g : Graph V) : Prop := (g.nodes.filterMap (Node.payload E)).length ≤ 1

instance {V J} (E : Env V J) (g : Graph V) : Decidable (FilePayloadLast E g) := by
  unfold FilePayloadLast; infer_instance

end GraphIO
end PolyVerif
