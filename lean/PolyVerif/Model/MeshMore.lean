/-
  Round 2 (C02 / C03): the remaining small operations of /repo `modeling/mesh.go` and `modeling/meshops/*.go`
  that were covered by the WF oracle only.  Core Lean only (linked into driver_c02 / driver_c03).

  * `scaleAlongNormal`  — meshops/scale_attribute.go:66 `ScaleAttributeAlongNormal`
  * `scale2D`           — meshops/scale_attribute.go `ScaleAttribute2D`
  * `normalize2D`       — meshops/normalize_attribute_transformer.go `NormalizeAttribute2D`
  * `copyAttr`          — mesh.go:1113-1127 `CopyFloatNAttribute` (`SetFloatNAttribute(attr, src.vNData[attr])`)
  * `CropContract`      — the vertex-level contract of `CropFloat3Attribute` for ANY incoming index buffer
                          (decidable; evaluated by the oracle `c03.holds.crop_contract` on implementation output)
-/
import PolyVerif.Model.MeshTransforms
import PolyVerif.Model.MeshSpec

namespace PolyVerif.Mesh
open PolyVerif PolyVerif.Gen
variable {s : Type} [Scalar s] {α : Type}

def v2? : List s → Option (V2 s)
  | [a, b] => some ⟨a, b⟩
  | _ => none
def ofV2 (v : V2 s) : List s := [v.x, v.y]

/-- lift a map on 2-vectors to payloads (a payload of another width cannot occur under a width-2 key) -/
def liftV2 (f : V2 s → V2 s) (p : List s) : List s :=
  match v2? p with
  | some v => ofV2 (f v)
  | none => p

/-- `positionData.At(i).Add(normalData.At(i).Scale(amount))` on payloads -/
def alongNormal (amount : s) (p n : List s) : List s :=
  match v3? p, v3? n with
  | some v, some w => ofV3 (v.Add (w.Scale amount))
  | _, _ => p

namespace MeshVal

/-- `ScaleAttributeAlongNormal(m, attr, nrm, amount)`: both width-3 attributes are required (deliberate
    `panic(err)` otherwise); the loop runs over the scaled attribute's length and reads the normal at the same
    vertex — a shorter normal array is an index-out-of-range panic in Go (never on a well-formed mesh), a longer
    one is read only as far as needed.  The result is stored with `SetFloat3Attribute`. -/
def scaleAlongNormal (m : MeshVal (List s)) (attr nrm : String) (amount : s) : Option (MeshVal (List s)) :=
  match m.attr? ⟨3, attr⟩, m.attr? ⟨3, nrm⟩ with
  | some pd, some nd =>
    if nd.length < pd.length then none
    else some (m.setAttr ⟨3, attr⟩ (List.zipWith (alongNormal amount) pd nd))
  | _, _ => none

/-- `ScaleAttribute2D`: `v ↦ origin + (v - origin) ∘ amount` on a width-2 attribute -/
def scale2D (m : MeshVal (List s)) (name : String) (o a : V2 s) :=
  m.mapAttr ⟨2, name⟩ (liftV2 fun v => o.Add ((v.Sub o).MultByVector a))

/-- `NormalizeAttribute2D`: `v ↦ v.DivByConstant(maxLength)` (`DivByConstant` of vector2 is `Scale(1/t)`);
    `init` is Go's `-math.MaxFloat64`, `mx` is `math.Max` -/
def normalize2D (init : s) (mx : s → s → s) (m : MeshVal (List s)) (name : String) :=
  m.modifyAttr ⟨2, name⟩ fun d =>
    d.map (liftV2 fun v => v.DivByConstant ((d.filterMap v2?).foldl (fun acc v => mx acc v.Length) init))

/-- `m.CopyFloatNAttribute(src, attr)` = `m.SetFloatNAttribute(attr, src.vNData[attr])`: a key missing in `src`
    reads as the nil slice, and setting an empty slice DELETES the key in `m`. -/
def copyAttr (m src : MeshVal α) (k : AttrKey) : MeshVal α :=
  m.setAttr k (match src.attr? k with | some d => d | none => [])

/-- `CropAttribute3DNodeData.Process` (crop_transformer.go:105): no box wired ⇒ the input mesh itself; the attribute
    defaults to Position; otherwise `CropFloat3Attribute` (which rejects non-point meshes and a missing attribute). -/
def cropNode (m : MeshVal α) (attr : Option String) (inside : Option (α → Bool)) : Option (MeshVal α) :=
  match inside with
  | none => some m
  | some p => m.crop ⟨3, attr.getD "Position"⟩ p

/-- `ScaleAttributeAlongNormalNodeData.Process` (scale_attribute.go:94): no mesh wired, or one of the two attributes
    (defaults Position / Normal) missing ⇒ the EMPTY TRIANGLE mesh (not an error); amount defaults to 0. -/
def scaleAlongNormalNode (m : Option (MeshVal (List s))) (attr nrm : Option String) (amount : Option s) :
    Option (MeshVal (List s)) :=
  match m with
  | none => some (MeshVal.empty .triangle)
  | some m =>
    let a := attr.getD "Position"
    let n := nrm.getD "Normal"
    if !m.hasAttr ⟨3, a⟩ then some (MeshVal.empty .triangle)
    else if !m.hasAttr ⟨3, n⟩ then some (MeshVal.empty .triangle)
    else m.scaleAlongNormal a n (amount.getD ((0 : Nat) : s))

/-- `TranslateAttribute3DNodeData.Process` (translate_attribute.go): attribute defaults to Position; mesh and amount must
    be wired (a nil input is a nil dereference in Go: not modelled, not generated) -/
def translateNode (m : MeshVal (List s)) (attr : Option String) (t : V3 s) := m.translate (attr.getD "Position") t

/-- `RotateAttribute3DNodeData.Process`: no mesh wired ⇒ the empty triangle mesh; attribute defaults to Position -/
def rotateNode (m : Option (MeshVal (List s))) (attr : Option String) (q : quaternion.Quaternion s) :
    Option (MeshVal (List s)) :=
  match m with
  | none => some (MeshVal.empty .triangle)
  | some m => m.rotate (attr.getD "Position") q

/-- `ScaleAttribute3DNodeData.Process`: attribute defaults to Position, origin to `vector3.Zero` -/
def scaleNode (m : MeshVal (List s)) (attr : Option String) (origin : Option (V3 s)) (a : V3 s) :=
  m.scaleAbout (attr.getD "Position") (origin.getD V3.Zero) a

/-- `VertexColorSpace(m, attr, transformation)` (vertex_color_space.go:40): component-wise `g0` = `colors.SRGBToLinear`
    for transformation 0, `g1` = `colors.LinearToSRGB` for 1 (parameters: they call `math.Pow`); any OTHER value of the
    enum selects no case of the `switch`, so the freshly made array stays all-zero and is stored. -/
def vertexColorSpace (g0 g1 : s → s) (m : MeshVal (List s)) (name : String) (mode : Nat) :=
  m.mapAttr ⟨3, name⟩ (liftV3 fun v =>
    match mode with
    | 0 => ⟨g0 v.x, g0 v.y, g0 v.z⟩
    | 1 => ⟨g1 v.x, g1 v.y, g1 v.z⟩
    | _ => V3.Zero)

/-- `VertexColorSpaceTransformer.Transform`: a missing attribute is an error unless `SkipOnMissingAttribute`, in which
    case the mesh is returned as it is -/
def vertexColorSpaceT (g0 g1 : s → s) (m : MeshVal (List s)) (name : String) (skip : Bool) (mode : Nat) :
    Option (MeshVal (List s)) :=
  if m.hasAttr ⟨3, name⟩ then m.vertexColorSpace g0 g1 name mode
  else if skip then some m else none

/-- The contract of `CropFloat3Attribute` at the vertex level, whatever the incoming index buffer is:
    a point cloud with the input's materials; the surviving vertices are exactly those whose value of attribute `k`
    is `inside`, in their original order, every attribute array carried along (`keepAt` with ONE flag list); the
    indices are the identity over the survivors; if nobody survives no attribute array is left. -/
def CropContract (k : AttrKey) (inside : α → Bool) (m out : MeshVal α) : Prop :=
  match m.attr? k with
  | none => False
  | some d =>
    let flags := d.map inside
    out.topology = .point ∧ out.materials = m.materials ∧
    out.indices = List.range (flags.countP id) ∧
    out.attrs = (if flags.countP id = 0 then [] else m.attrs.map fun kd => (kd.1, keepAt flags kd.2))

instance [DecidableEq α] (k : AttrKey) (inside : α → Bool) (m out : MeshVal α) :
    Decidable (CropContract k inside m out) := by
  unfold CropContract; split <;> infer_instance

end MeshVal
end PolyVerif.Mesh
