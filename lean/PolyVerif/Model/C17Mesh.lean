/-
  C17 (round 2) — the mesh-level transforms of /repo, modelled as the Go code is written:

    modeling/mesh.go            Mesh.Rotate (390), Mesh.ApplyTRS (403), Mesh.Scale (411, via ModifyFloat3Attribute 699),
                                Mesh.Translate (1299), SetFloat3Attribute (1079), requireV3Attribute (1265)
    modeling/meshops            RotateAttribute3D, TranslateAttribute3D, ScaleAttribute3D (same loops, attribute by name)
    math/trs/trs.go             TRS.TransformArray (44), TransformInPlace (54)
    math/quaternion             Quaternion.RotateArray (57)

  Each of them is `out := make([]V3, len(old)); for i … { out[i] = f(old[i]) }` followed (mesh level) by
  `SetFloat3Attribute(attr, out)`, which copies the v3 map, stores / deletes ONE key and copies every other field of the
  struct.  The loop is modelled literally (`writeLoop`: an index that runs up, one array store per iteration, into a
  zero-initialised array of the same length) — NOT as `List.map`; that it is the pointwise map is a theorem
  (Props/C17Mesh.lean).  The point functions `f` are the REGENERATED ones of Gen/Transform.lean.

  Core Lean only: the C17 driver answers the `c17.mesh.*`, `c17.trs.array` and `c17.meshop.*` lines by running these
  definitions at Float.
-/
import PolyVerif.Gen.Transform

namespace PolyVerif
namespace C17Mesh
open Gen

/-- a Go `map[string]T`, read only through lookups: association list, first match wins -/
abbrev GoMap (β : Type) := List (String × β)

namespace GoMap
variable {β : Type}

/-- `v, ok := m[k]` -/
def get? : GoMap β → String → Option β
  | [], _ => none
  | (k', v) :: r, k => if k' = k then some v else get? r k

/-- `delete(m, k)` -/
def delete (m : GoMap β) (k : String) : GoMap β := m.filter fun kv => kv.1 ≠ k

/-- `m[k] = v` -/
def set (m : GoMap β) (k : String) (v : β) : GoMap β := (k, v) :: m.delete k

end GoMap

/-- `modeling.Mesh` (mesh.go:20): the seven fields of the Go struct -/
structure Mesh (s : Type) where
  v4Data : GoMap (Array (V4 s))
  v3Data : GoMap (Array (V3 s))
  v2Data : GoMap (Array (V2 s))
  v1Data : GoMap (Array s)
  indices : Array Int
  /-- `[]MeshMaterial`: (primitive count, material id) — only carried -/
  materials : List (Nat × Nat)
  topology : Nat

variable {s : Type} [Scalar s]

/-- the loop `for i := 0; i < len(old); i++ { out[i] = f(i, old[i]) }` (equally `for i, v := range old { out[i] = f(i, v) }`),
    started at index `i` with the output array `out` -/
def writeLoop (f : Nat → V3 s → V3 s) (old : Array (V3 s)) (i : Nat) (out : Array (V3 s)) : Array (V3 s) :=
  if h : i < old.size then writeLoop f old (i + 1) (out.setIfInBounds i (f i old[i])) else out
termination_by old.size - i

/-- `out := make([]vector3.Float64, len(old))` followed by the loop -/
def mapLoop (f : Nat → V3 s → V3 s) (old : Array (V3 s)) : Array (V3 s) :=
  writeLoop f old 0 (Array.replicate old.size (V3.Zero : V3 s))

/-- `Mesh.SetFloat3Attribute` (mesh.go:1079): copy the v3 map, store the key, delete it again when the data is empty;
    all other fields are copied -/
def setFloat3Attribute (m : Mesh s) (attr : String) (data : Array (V3 s)) : Mesh s :=
  let final := m.v3Data.set attr data
  let final := if data.size = 0 then final.delete attr else final
  { v4Data := m.v4Data, v3Data := final, v2Data := m.v2Data, v1Data := m.v1Data,
    indices := m.indices, materials := m.materials, topology := m.topology }

/-- the shape shared by all mesh-level transforms: `requireV3Attribute(attr)` (panic = `none`), read the old data,
    run the loop, `SetFloat3Attribute(attr, out)` -/
def modifyFloat3Attribute (m : Mesh s) (attr : String) (f : Nat → V3 s → V3 s) : Option (Mesh s) :=
  match m.v3Data.get? attr with
  | none => none
  | some old => some (setFloat3Attribute m attr (mapLoop f old))

def positionAttribute : String := "Position"

/-- `Quaternion.RotateArray` -/
def rotateArray (q : quaternion.Quaternion s) (arr : Array (V3 s)) : Array (V3 s) :=
  mapLoop (fun _ v => q.Rotate v) arr
/-- `TRS.TransformArray` -/
def transformArray (t : trs.TRS s) (arr : Array (V3 s)) : Array (V3 s) :=
  mapLoop (fun _ v => t.Transform v) arr

/-- the in-place loop `for i, v := range in { in[i] = f(v) }`: element `i` is read from the array that is being overwritten
    (the `range` expression is evaluated once; the store at `i` happens after the read of `in[i]`) -/
def inPlaceLoop (f : V3 s → V3 s) (i : Nat) (arr : Array (V3 s)) : Array (V3 s) :=
  if h : i < arr.size then inPlaceLoop f (i + 1) (arr.set i (f arr[i])) else arr
termination_by arr.size - i
decreasing_by simp only [Array.size_set]; omega

/-- `TRS.TransformInPlace`: the contents of the caller's slice afterwards -/
def transformInPlace (t : trs.TRS s) (arr : Array (V3 s)) : Array (V3 s) :=
  inPlaceLoop (fun v => t.Transform v) 0 arr

/-- `RotateAttribute3D(m, attr, q)`; `Mesh.Rotate(q)` is the same loop on `Position` -/
def rotateAttr (m : Mesh s) (attr : String) (q : quaternion.Quaternion s) : Option (Mesh s) :=
  modifyFloat3Attribute m attr (fun _ v => q.Rotate v)
def rotate (m : Mesh s) (q : quaternion.Quaternion s) : Option (Mesh s) := rotateAttr m positionAttribute q

/-- `TranslateAttribute3D(m, attr, amount)`; `Mesh.Translate(v)` is the same loop on `Position` -/
def translateAttr (m : Mesh s) (attr : String) (t : V3 s) : Option (Mesh s) :=
  modifyFloat3Attribute m attr (fun _ v => v.Add t)
def translate (m : Mesh s) (t : V3 s) : Option (Mesh s) := translateAttr m positionAttribute t

/-- `Mesh.Scale(amount)`: `ModifyFloat3Attribute(Position, func(i, v) { return v.MultByVector(amount) })` -/
def scale (m : Mesh s) (amount : V3 s) : Option (Mesh s) :=
  modifyFloat3Attribute m positionAttribute (fun _ v => v.MultByVector amount)

/-- `ScaleAttribute3D(m, attr, origin, amount)` -/
def scaleAttr (m : Mesh s) (attr : String) (origin amount : V3 s) : Option (Mesh s) :=
  modifyFloat3Attribute m attr (fun _ v => origin.Add ((v.Sub origin).MultByVector amount))

/-- `Mesh.ApplyTRS(t)`: `SetFloat3Attribute(Position, t.TransformArray(old))` -/
def applyTRS (m : Mesh s) (t : trs.TRS s) : Option (Mesh s) :=
  match m.v3Data.get? positionAttribute with
  | none => none
  | some old => some (setFloat3Attribute m positionAttribute (transformArray t old))

end C17Mesh
end PolyVerif
