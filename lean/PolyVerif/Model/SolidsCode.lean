/-
  C18 — the parts of the solid primitives that the implementation builds by ROTATING a flat mesh with a quaternion,
  modelled as the code builds them (core Lean only): the quaternion arithmetic is `PolyVerif.Gen.Transform`
  (`quaternion.FromTheta`, `Quaternion.Rotate`), regenerated from /repo/math/quaternion on every run.

    * `cubeQuadsPosCode` / `cubeQuadsNormalCode` — cube.go:129-179 `Cube.UnweldedQuads`: six `Quad.ToMesh()` meshes
      (quad.go:34-47), five of them passed through `rotate` (cube.go:14-25: positions AND normals), all translated;
    * `cylinderPosCode` / `cylinderNormalCode` — cylinder.go:100-121: the bottom cap is `Circle.ToMesh()` rotated by
      `quaternion.FromTheta(math.Pi, (1,0,0))` (positions and normals), then translated by `(0, -halfHeight, 0)`.

  `Props/C18.lean` proves, over ℝ, that these equal the exact forms of `Model/Solids.lean` (`cubeQuadsPos` = the
  hand-written corner table, `cylinderPos`' `(x, −y, −z)` bottom cap): the corner table and the bottom-cap form are
  therefore derived from the code's construction, not assumed.
-/
import PolyVerif.Model.Solids
import PolyVerif.Gen.Transform

namespace PolyVerif.Solids
open PolyVerif Scalar Gen

section
variable {α : Type} [Scalar α]

/-- quad.go:38-43: the four positions of `Quad{Width, Depth}.ToMesh()` -/
def quadPos (width depth : α) (k : Nat) : V3 α :=
  let hw := width / n2a 2
  let hh := depth / n2a 2
  match k with
  | 0 => V3.New (-hw) (n2a 0) (-hh)
  | 1 => V3.New (-hw) (n2a 0) hh
  | 2 => V3.New hw (n2a 0) hh
  | _ => V3.New hw (n2a 0) (-hh)

/-- cube.go:143-176, face `v / 4` in `Append` order (top, bottom, left, right, front, back), quad corner `v % 4` -/
def cubeQuadsPosCode (w h d : α) (v : Nat) : V3 α :=
  let halfW := w / n2a 2
  let halfH := h / n2a 2
  let halfD := d / n2a 2
  let k := v % 4
  match v / 4 with
  | 0 => (quadPos w d k).Add (V3.New (n2a 0) halfH (n2a 0))
  | 1 => ((quaternion.FromTheta pi (V3.Forward : V3 α)).Rotate (quadPos w d k)).Add (V3.New (n2a 0) (-halfH) (n2a 0))
  | 2 => ((quaternion.FromTheta (pi / n2a 2) (V3.Forward : V3 α)).Rotate (quadPos h d k)).Add
            (V3.New (-halfW) (n2a 0) (n2a 0))
  | 3 => ((quaternion.FromTheta (pi * (n2a 3 / n2a 2)) (V3.Forward : V3 α)).Rotate (quadPos h d k)).Add
            (V3.New halfW (n2a 0) (n2a 0))
  | 4 => ((quaternion.FromTheta (pi * (n2a 3 / n2a 2)) (V3.Left : V3 α)).Rotate (quadPos w h k)).Add
            (V3.New (n2a 0) (n2a 0) halfD)
  | _ => ((quaternion.FromTheta (pi * (n2a 1 / n2a 2)) (V3.Left : V3 α)).Rotate (quadPos w h k)).Add
            (V3.New (n2a 0) (n2a 0) (-halfD))

/-- the supplied normals: `Up` (quad.go:44-46), rotated with the face by `rotate` (cube.go:14-25) -/
def cubeQuadsNormalCode (v : Nat) : V3 α :=
  let up : V3 α := V3.Up
  match v / 4 with
  | 0 => up
  | 1 => (quaternion.FromTheta pi (V3.Forward : V3 α)).Rotate up
  | 2 => (quaternion.FromTheta (pi / n2a 2) (V3.Forward : V3 α)).Rotate up
  | 3 => (quaternion.FromTheta (pi * (n2a 3 / n2a 2)) (V3.Forward : V3 α)).Rotate up
  | 4 => (quaternion.FromTheta (pi * (n2a 3 / n2a 2)) (V3.Left : V3 α)).Rotate up
  | _ => (quaternion.FromTheta (pi * (n2a 1 / n2a 2)) (V3.Left : V3 α)).Rotate up

/-- circle.go:29-41 `Circle.ToMesh`: rim vertex `k < sides` at angle `angleIncrement * k` in the XZ plane, centre at
    index `sides`.  PROVED equal to the positions of the loop program extracted from circle.go
    (`C18.circle_positions_from_source`). -/
def circlePos (radius : α) (sides k : Nat) : V3 α :=
  if k = sides then V3.New (n2a 0) (n2a 0) (n2a 0)
  else V3.New (cos (angleIncrement sides * n2a k) * radius) (n2a 0) (sin (angleIncrement sides * n2a k) * radius)

/-- circle.go:36,41: every circle normal is `(0, 1, 0)` -/
def circleNormal : V3 α := V3.New (n2a 0) (n2a 1) (n2a 0)

/-- cylinder.go:108-118: the quaternion of the bottom cap -/
def bottomCapQ : quaternion.Quaternion α := quaternion.FromTheta pi (V3.New (n2a 1) (n2a 0) (n2a 0))

/-- the capped cylinder as the code builds it (cylinder.go:100-121): the side vertices of `Cylinder.ToMesh`, then
    `top.ToMesh().Translate((0, halfHeight, 0))`, then `bottom.ToMesh()` rotated by `bottomCapQ` and translated by
    `(0, -halfHeight, 0)`; `Translate` is `v.Add(t)` per vertex (mesh.go) -/
def cylinderPosCode (radius height : α) (sides v : Nat) : V3 α :=
  let hh : α := height / n2a 2
  if v < 2 * sides + 2 then cylinderPos radius height sides v
  else if v < 3 * sides + 3 then
    (circlePos radius sides (v - (2 * sides + 2))).Add (V3.New (n2a 0) hh (n2a 0))
  else (bottomCapQ.Rotate (circlePos radius sides (v - (3 * sides + 3)))).Add (V3.New (n2a 0) (-hh) (n2a 0))

/-- supplied normals as the code builds them: side normals, the top circle's `(0,1,0)`, the bottom circle's `(0,1,0)`
    rotated by `bottomCapQ` -/
def cylinderNormalCode (sides v : Nat) : V3 α :=
  if v < 2 * sides + 2 then cylinderNormal sides v
  else if v < 3 * sides + 3 then circleNormal
  else bottomCapQ.Rotate circleNormal

end

end PolyVerif.Solids
