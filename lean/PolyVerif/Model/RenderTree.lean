/-
  C16 (round 2) — `rendering.Tree` (tree.go): `NewBVH(items, t0, t1)` builds an OCTREE over the items' bounding boxes
  (`trees.BoundingBoxElement`), `Tree.Hit` collects `ElementsIntersectingRay(r.Ray(), min, max)` and runs the hit-list
  loop over `items[index]`.  Core Lean only.
-/
import PolyVerif.Model.RenderPrims

namespace PolyVerif
namespace RPrims
open Scalar Gen.geometry Gen.rendering PolyVerif.Tree

variable {α : Type} [Scalar α]

/-- `NewBVH` (tree.go:14-23); the Go code uses the automatic depth `OctreeDepthFromCount(len(items))` -/
def treeOf (objs : List (RPrim α)) (depth : Nat) : Option (Oct (AABB α) (Elem α)) :=
  newOctreeWithDepth (objs.map (fun p => Prim.box p.box)) depth

/-- `bvh.items[itemIndex].Hit(r, min, closestSoFar, tempRecord)` -/
def itemHit (objs : List (RPrim α)) (ray : TemporalRay α) (e : Elem α) (lo hi : α) : Option α :=
  (objs[e.id]?).bind (fun p => p.hitDist ray lo hi)

/-- `Tree.Hit` (tree.go:25-41): flag / distance -/
def treeHit (objs : List (RPrim α)) (t : Oct (AABB α) (Elem α)) (ray : TemporalRay α) (mn mx : α) : Option α :=
  listHit (itemHit objs ray)
    (t.pruned (fun b => !intersectsRayInRange b ray.Ray.Origin ray.Ray.Direction mn mx)
              (fun e => intersectsRayInRange e.box ray.Ray.Origin ray.Ray.Direction mn mx)) mn mx

end RPrims
end PolyVerif
