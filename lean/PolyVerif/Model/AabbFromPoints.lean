/-
  Hand model of `geometry.NewAABBFromPoints` (math/geometry/aabb.go:54): a loop over a slice with `math.Inf`
  start values — outside the translator's subset.  Core Lean only; used by the C17 driver (at Float) and by
  Props/C17 (at ℝ).  Tied by the `c17.aabb.frompoints` correspondence lines, bit for bit.
-/
import PolyVerif.Gen.Transform

namespace PolyVerif
namespace C17
open Gen Gen.geometry

/-- hand model of `geometry.NewAABBFromPoints` for a non-empty point list (the Go code starts its running
    min/max at ±Inf, which for finite inputs is the same as starting at the first point; the loop and `math.Inf`
    are outside the translator's subset — tied by the `c17.aabb.frompoints` correspondence lines, bit for bit) -/
def fromPointsMin {α : Type} [Scalar α] (p : V3 α) (ps : List (V3 α)) : V3 α :=
  ps.foldl (fun m v => ⟨min v.x m.x, min v.y m.y, min v.z m.z⟩) p
def fromPointsMax {α : Type} [Scalar α] (p : V3 α) (ps : List (V3 α)) : V3 α :=
  ps.foldl (fun m v => ⟨max v.x m.x, max v.y m.y, max v.z m.z⟩) p
def fromPoints {α : Type} [Scalar α] (p : V3 α) (ps : List (V3 α)) : AABB α :=
  let mn := fromPointsMin p ps
  let mx := fromPointsMax p ps
  let area := mx.Sub mn
  let center := (area.Scale (Scalar.lit 1 2)).Add mn
  geometry.NewAABB center area

end C17
end PolyVerif
