/-
  The attribute transforms of /repo `modeling/mesh.go` and `modeling/meshops/*.go` as instances of
  `mapAttr` / `modifyAttr` / `setAttr`, polymorphic over the scalar (`[Scalar s]`, core Lean only):
  executed at `Float` by the driver and compared bit-for-bit with Go, reasoned about structurally
  in `Props/C03.lean` (exactly one attribute changes, by the function written here).
  Payload of a mesh with attributes of mixed widths: `List s` (one vector).
-/
import PolyVerif.Model.MeshOps
import PolyVerif.Gen.Transform

namespace PolyVerif.Mesh
open PolyVerif PolyVerif.Gen
variable {s : Type} [Scalar s]

def v3? : List s → Option (V3 s)
  | [a, b, c] => some ⟨a, b, c⟩
  | _ => none
def ofV3 (v : V3 s) : List s := [v.x, v.y, v.z]

/-- lift a map on 3-vectors to payloads; a payload of another width is left alone (it cannot
    occur under a width-3 key) -/
def liftV3 (f : V3 s → V3 s) (p : List s) : List s :=
  match v3? p with
  | some v => ofV3 (f v)
  | none => p

def posKey : AttrKey := ⟨3, "Position"⟩
def normalKey : AttrKey := ⟨3, "Normal"⟩

def isNaN (x : s) : Bool := !(x == x)
/-- Go struct equality `n == vector3.Zero()` (IEEE: -0 == 0) -/
def isZeroV (v : V3 s) : Bool := v.x == ((0 : Nat) : s) && v.y == ((0 : Nat) : s) && v.z == ((0 : Nat) : s)

namespace MeshVal

/-- `Mesh.Translate` / `TranslateAttribute3D`: `v ↦ v + t` -/
def translate (m : MeshVal (List s)) (name : String) (t : V3 s) := m.mapAttr ⟨3, name⟩ (liftV3 fun v => v.Add t)
/-- `ScaleAttribute3D`: `v ↦ origin + (v - origin) ∘ amount` -/
def scaleAbout (m : MeshVal (List s)) (name : String) (o a : V3 s) :=
  m.mapAttr ⟨3, name⟩ (liftV3 fun v => o.Add ((v.Sub o).MultByVector a))
/-- `Mesh.Scale`: `v ↦ v ∘ amount` on Position -/
def scaleMesh (m : MeshVal (List s)) (a : V3 s) := m.mapAttr posKey (liftV3 fun v => v.MultByVector a)
/-- `Mesh.Rotate` / `RotateAttribute3D`: `v ↦ q.Rotate v` -/
def rotate (m : MeshVal (List s)) (name : String) (q : quaternion.Quaternion s) :=
  m.mapAttr ⟨3, name⟩ (liftV3 fun v => q.Rotate v)
/-- `Mesh.ApplyTRS`: `v ↦ trs.Transform v` on Position -/
def applyTRS (m : MeshVal (List s)) (t : trs.TRS s) := m.mapAttr posKey (liftV3 fun v => t.Transform v)

/-- centre of the bounding box as `CenterFloat3Attribute` computes it (center_attribute.go:33-41);
    `mn`, `mx` are Go's `math.Min` / `math.Max` (their NaN / ±Inf conventions differ from the generic
    `Scalar` min/max, so they are parameters: the driver passes bit-faithful ones) -/
def centerOf (mn mx : s → s → s) (d : List (V3 s)) : V3 s :=
  let inf : s := ((1 : Nat) : s) / ((0 : Nat) : s)
  let lo := d.foldl (fun acc v => (⟨mn acc.x v.x, mn acc.y v.y, mn acc.z v.z⟩ : V3 s)) ⟨inf, inf, inf⟩
  let hi := d.foldl (fun acc v => (⟨mx acc.x v.x, mx acc.y v.y, mx acc.z v.z⟩ : V3 s)) ⟨-inf, -inf, -inf⟩
  lo.Midpoint hi

/-- `CenterFloat3Attribute`: `v ↦ v - centre` -/
def center (mn mx : s → s → s) (m : MeshVal (List s)) (name : String) :=
  m.modifyAttr ⟨3, name⟩ fun d => d.map (liftV3 fun v => v.Sub (centerOf mn mx (d.filterMap v3?)))

/-- `NormalizeAttribute3D`: `v ↦ v / maxLength`; `init` is Go's `-math.MaxFloat64`, `mx` is `math.Max` -/
def normalize (init : s) (mx : s → s → s) (m : MeshVal (List s)) (name : String) :=
  m.modifyAttr ⟨3, name⟩ fun d =>
    d.map (liftV3 fun v => v.DivByConstant ((d.filterMap v3?).foldl (fun acc v => mx acc v.Length) init))

/-! ### normals -/

def addAt (ns : List (V3 s)) (i : Nat) (n : V3 s) : List (V3 s) :=
  match ns[i]? with
  | some x => ns.set i (x.Add n)
  | none => ns

def triCross (pos : List (V3 s)) (t : Nat × Nat × Nat) : Option (V3 s) :=
  match pos[t.1]?, pos[t.2.1]?, pos[t.2.2]? with
  | some p1, some p2, some p3 => some ((p2.Sub p1).Cross (p3.Sub p1))
  | _, _, _ => none

/-- the accumulation loop of `SmoothNormals` (smooth_normals.go:36-52) -/
def smoothAccum (pos : List (V3 s)) : List (V3 s) → List (Nat × Nat × Nat) → List (V3 s)
  | ns, [] => ns
  | ns, t :: ts =>
    match triCross pos t with
    | none => smoothAccum pos ns ts
    | some n =>
      if isNaN n.x then smoothAccum pos ns ts
      else smoothAccum pos (addAt (addAt (addAt ns t.1 n) t.2.1 n) t.2.2 n) ts

/-- `SmoothNormals`: sets Normal; requires triangle topology and Position -/
def smoothNormals (m : MeshVal (List s)) : Option (MeshVal (List s)) :=
  if m.topology = .triangle then
    match m.attr? posKey with
    | none => none
    | some d =>
      let ns := smoothAccum (d.filterMap v3?) (List.replicate d.length V3.Zero) (triples m.indices)
      some (m.setAttr normalKey (ns.map fun n => ofV3 (if isZeroV n then n else n.Normalized)))
  else none

/-- the overwrite loop of `FlatNormals` (flat_normals.go:37-47): last triangle wins -/
def flatAccum (pos : List (V3 s)) : List (V3 s) → List (Nat × Nat × Nat) → List (V3 s)
  | ns, [] => ns
  | ns, t :: ts =>
    match triCross pos t with
    | none => flatAccum pos ns ts
    | some c => let n := c.Normalized; flatAccum pos (((ns.set t.1 n).set t.2.1 n).set t.2.2 n) ts

def flatNormals (m : MeshVal (List s)) : Option (MeshVal (List s)) :=
  if m.topology = .triangle then
    match m.attr? posKey with
    | none => none
    | some d =>
      let ns := flatAccum (d.filterMap v3?) (List.replicate d.length V3.One) (triples m.indices)
      some (m.setAttr normalKey (ns.map fun n => ofV3 n.Normalized))
  else none

/-! ### Laplacian smoothing (laplacian_smoothing.go:33-63) -/

/-- undirected edges of `VertexNeighborTable` (mesh.go:980-1016): triangle = the three sides of every index triple;
    line strip = consecutive index pairs; line = the pairs (i-1, i) for odd i; line loop = consecutive pairs plus the
    closing edge (first, last). `none`: point / quad (Go: require-panic) and the EMPTY line loop (Go indexes
    `m.indices[0]`: a runtime panic — documented observation, the drivers answer `panic` for it). -/
def pairsOdd : List Nat → List (Nat × Nat)
  | a :: b :: rest => (a, b) :: pairsOdd rest
  | _ => []

def edges (m : MeshVal (List s)) : Option (List (Nat × Nat)) :=
  match m.topology with
  | .triangle => some ((triples m.indices).flatMap fun t => [(t.1, t.2.1), (t.2.1, t.2.2), (t.1, t.2.2)])
  | .lineStrip => some (m.indices.zip m.indices.tail)
  | .line => some (pairsOdd m.indices)
  | .lineLoop =>
    match m.indices, m.indices.getLast? with
    | first :: _, some last => some (m.indices.zip m.indices.tail ++ [(first, last)])
    | _, _ => none
  | _ => none

def insertSorted (x : Nat) : List Nat → List Nat
  | [] => [x]
  | y :: ys => if x < y then x :: y :: ys else if x = y then y :: ys else y :: insertSorted x ys

/-- the neighbour set of `v`, ascending (the Go map iterates it in arbitrary order) -/
def neighbours (es : List (Nat × Nat)) (v : Nat) : List Nat :=
  es.foldl (fun acc e => if e.1 = v then insertSorted e.2 acc else if e.2 = v then insertSorted e.1 acc else acc) []

/-- one in-place sweep: vertex `vi` is replaced using the *current* values of its neighbours -/
def lapSweep (es : List (Nat × Nat)) (factor : s) (vs : List (V3 s)) : Nat → List (V3 s)
  | 0 => vs
  | k + 1 =>
    let vs := lapSweep es factor vs k
    let vi := k
    match vs[vi]? with
    | none => vs
    | some vertex =>
      let nb := neighbours es vi
      let sum := nb.foldl (fun acc vn => match vs[vn]? with | some x => acc.Add x | none => acc) V3.Zero
      vs.set vi (vertex.Add (((sum.DivByConstant ((nb.length : Nat) : s)).Sub vertex).Scale factor))

def lapIter (es : List (Nat × Nat)) (factor : s) : Nat → List (V3 s) → List (V3 s)
  | 0, vs => vs
  | n + 1, vs => lapIter es factor n (lapSweep es factor vs vs.length)

def laplacian (m : MeshVal (List s)) (name : String) (iterations : Nat) (factor : s) : Option (MeshVal (List s)) :=
  match m.edges with
  | none => none
  | some es => m.modifyAttr ⟨3, name⟩ fun d =>
      if d.all (fun p => (v3? p).isSome) then (lapIter es factor iterations (d.filterMap v3?)).map ofV3 else d

end MeshVal
end PolyVerif.Mesh
