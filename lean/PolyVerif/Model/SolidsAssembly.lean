/-
  C18 — interpretation of the ASSEMBLY facts extracted by `go/facts c18.assembly` (`Gen/PrimAssembly.lean`): how
  `Cylinder.ToMesh` places its two caps (rotation quaternion, translation) and how `Cube.UnweldedQuads` builds and places
  its six quads (core Lean only).  The quaternion arithmetic is the regenerated `Gen.Transform`
  (`quaternion.FromTheta`, `Quaternion.Rotate`); `Translate` is `v.Add(t)` per vertex (mesh.go).
  `Props/C18.lean` proves that `Model/SolidsCode.lean`'s `cubeQuadsPosCode`, `cubeQuadsNormalCode`, `cylinderPosCode`,
  `cylinderNormalCode` EQUAL this interpretation of the extracted facts, for every scalar.
-/
import PolyVerif.Model.LoopIR
import PolyVerif.Gen.Transform
namespace PolyVerif.Solids
open PolyVerif PolyVerif.LoopIR Gen
variable {α : Type} [Scalar α]

/-- evaluate a float expression over float parameters and float locals -/
def evalFE (fpar fenv : Nat → α) (e : FE) : α :=
  evalF fpar { env := fun _ => 0, fenv := fenv, venv := fun _ => default } (fun _ => []) e

def evalVE (fpar fenv : Nat → α) (v : VE) : V3 α :=
  evalV fpar 0 { env := fun _ => 0, fenv := fenv, venv := fun _ => default } (fun _ => [], fun _ => default) v

/-- float locals defined in sequence: entry `k` of `ls` defines local `k` (it may use earlier locals) -/
def localsOf (fpar : Nat → α) (ls : List FE) : Nat → α :=
  (ls.foldl (fun (st : (Nat → α) × Nat) e => (upd st.1 st.2 (evalFE fpar st.1 e), st.2 + 1))
    (fun _ => ((0 : Nat) : α), 0)).1

def placePos (fpar fenv : Nat → α) (p : Placement) (x : V3 α) : V3 α :=
  let x1 := match p.rotPos with
    | none => x
    | some (θ, ax) => (quaternion.FromTheta (evalFE fpar fenv θ) (evalVE fpar fenv ax)).Rotate x
  match p.translate with
  | none => x1
  | some t => x1.Add (evalVE fpar fenv t)

def placeNrm (fpar fenv : Nat → α) (p : Placement) (n : V3 α) : V3 α :=
  match p.rotNrm with
  | none => n
  | some (θ, ax) => (quaternion.FromTheta (evalFE fpar fenv θ) (evalVE fpar fenv ax)).Rotate n

def assembleQuads (faces : List QuadFace) (cubeLocals quadLocals : List FE) (quadVecs : List VE) (isNormal : Bool)
    (w h d : α) (v : Nat) : V3 α :=
  let cpar : Nat → α := fun k => [w, h, d].getD k ((0 : Nat) : α)
  let cenv := localsOf cpar cubeLocals
  match faces[v / 4]? with
  | none => default
  | some f =>
    let qpar : Nat → α := fun k => [evalFE cpar cenv f.width, evalFE cpar cenv f.depth].getD k ((0 : Nat) : α)
    let qenv := localsOf qpar quadLocals
    let x := evalVE qpar qenv (quadVecs.getD (v % 4) VE.zero)
    if isNormal then placeNrm cpar cenv f.place x else placePos cpar cenv f.place x

def capPos (caps : List CapAppend) (k : Nat) (fpar fenv : Nat → α) (x : V3 α) : V3 α :=
  match caps[k]? with
  | none => default
  | some c => placePos fpar fenv c.place x

def capNrm (caps : List CapAppend) (k : Nat) (fpar fenv : Nat → α) (n : V3 α) : V3 α :=
  match caps[k]? with
  | none => default
  | some c => placeNrm fpar fenv c.place n

end PolyVerif.Solids
