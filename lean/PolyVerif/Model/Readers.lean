/-
  Models of the mesh-file readers of /repo as TOTAL functions on the input bytes
  (ASCII bodies: on the line/token structure the scanner delivers), core Lean only.
  Written for C14 (truncated inputs): every loop is a structural recursion that
  consumes input (a record, a line) on every iteration or stops.

    STL    formats/stl/read.go        Read / ReadMesh
    PLY    formats/ply/reader*.go     MeshReader.Read: header line scan, binary body (LE/BE), ASCII body
    PTS    formats/pts/reader.go      ReadPointCloud
    SPZ    formats/spz/load.go        Read, after gzip          (Model/Spz.lean: readRaw)
    .splat formats/splat/read.go      Read                      (Model/Splat.lean: readRecs)

  What is kept of the decoded data is the *raw* payload of every vertex / face /
  record (the bytes or tokens it was decoded from): C14 is about which records a
  reader returns, not about how a record is turned into floats (C04/C07/C15).
-/
import PolyVerif.Model.Splat
import PolyVerif.Model.Spz

namespace PolyVerif
namespace Readers
open Spz (readArrays leNat)

inductive Err where
  | short      -- the input ended early (io.EOF / io.ErrUnexpectedEOF / "read i of n")
  | malformed  -- any other rejection
deriving DecidableEq, Repr

/-- little-endian uint32 -/
def le32n (n : Nat) : List UInt8 :=
  [UInt8.ofNat (n % 256), UInt8.ofNat (n / 256 % 256), UInt8.ofNat (n / 65536 % 256), UInt8.ofNat (n / 16777216 % 256)]

/-! ## binary STL -/

/-- `stl.Read`: 80-byte header, uint32 count, `count` 50-byte triangle records
    (read.go:14-29: three `binary.Read` calls); the raw records. `stl.ReadMesh` turns
    record `i` into vertices `3i..3i+2` (and an empty mesh for zero records). -/
def readStl (bs : List UInt8) : Except Err (List (List UInt8)) :=
  match readArrays [80, 4] bs with
  | some ([_, c], r) =>
    match readArrays (List.replicate (leNat c) 50) r with
    | some (tris, _) => .ok tris
    | none => .error .short
  | _ => .error .short

/-- a binary STL file with the given header and records -/
def stlFile (hdr : List UInt8) (tris : List (List UInt8)) : List UInt8 :=
  hdr ++ le32n tris.length ++ tris.flatten

/-! ## PLY -/

/-- `readLine` (reader.go:18-40): bytes up to the next '\n' with every '\r' dropped;
    `none` when the input ends first -/
def readLine : List UInt8 → Option (List UInt8 × List UInt8)
  | [] => none
  | b :: bs =>
    if b = 10 then some ([], bs) else
    match readLine bs with
    | none => none
    | some (l, r) => some (if b = 13 then l else b :: l, r)

theorem readLine_length {bs l r : List UInt8} (h : readLine bs = some (l, r)) : r.length < bs.length := by
  induction bs generalizing l r with
  | nil => simp [readLine] at h
  | cons b bs ih =>
    unfold readLine at h
    split at h
    · simp only [Option.some.injEq, Prod.mk.injEq] at h; simp [← h.2]
    · split at h
      · simp at h
      · next l' r' h' =>
        simp only [Option.some.injEq, Prod.mk.injEq] at h
        have := ih h'
        simp only [List.length_cons, ← h.2]; omega

def endHeader : List UInt8 := [101, 110, 100, 95, 104, 101, 97, 100, 101, 114]  -- "end_header"

/-- the line loop of `ReadHeader` (reader.go:171-218) as far as the position of the body is concerned:
    read lines until one is exactly `end_header`; the rest is the body.  What the lines *say* is the
    parsed header `Hdr`, which the caller supplies. -/
def skipHeader (bs : List UInt8) : Option (List UInt8) :=
  match h : readLine bs with
  | none => none
  | some (l, r) => if l = endHeader then some r else skipHeader r
termination_by bs.length
decreasing_by exact readLine_length h

inductive Fmt where
  | ascii | le | be
deriving DecidableEq, Repr

/-- a list property of the face element -/
structure ListProp where
  /-- bytes of the count field: 1 (uchar) or 4 (int, uint); anything else is unimplemented → error -/
  countSize : Nat
  /-- bytes per list entry -/
  elemSize : Nat
deriving DecidableEq, Repr

structure FaceHdr where
  count : Nat
  lists : List ListProp
  /-- position of `vertex_indices` / `vertex_index` among the list properties -/
  idx : Nat
  /-- position of `texcoord`, if present -/
  tex : Option Nat
deriving DecidableEq, Repr

/-- what `ReadHeader` + the set-up part of `MeshReader.Read` extract from a supported header -/
structure Hdr where
  fmt : Fmt
  vcount : Nat
  /-- bytes per vertex record (sum of the scalar property sizes) -/
  vsize : Nat
  /-- number of vertex properties -/
  nprops : Nat
  face : Option FaceHdr
deriving DecidableEq, Repr

structure Face where
  /-- entries of the index list: 3 or 4 -/
  points : Nat
  raw : List UInt8
deriving DecidableEq, Repr

def decodeCount (be : Bool) (bs : List UInt8) : Nat := if be then leNat bs.reverse else leNat bs

/-- `listBinaryPropertyReader.Read`: count field, then `count · elemSize` payload bytes -/
def binList (be : Bool) (p : ListProp) (bs : List UInt8) : Option (Nat × List UInt8 × List UInt8) :=
  if p.countSize = 1 ∨ p.countSize = 4 then
    if p.countSize ≤ bs.length then
      let c := decodeCount be (bs.take p.countSize)
      if c * p.elemSize ≤ (bs.drop p.countSize).length then
        some (c, bs.take (p.countSize + c * p.elemSize), bs.drop (p.countSize + c * p.elemSize))
      else none
    else none
  else none

/-- all list properties of one face record, in header order -/
def binFaceLists (be : Bool) : List ListProp → List UInt8 → Option (List Nat × List UInt8 × List UInt8)
  | [], bs => some ([], [], bs)
  | p :: ps, bs =>
    match binList be p bs with
    | none => none
    | some (c, raw, r) =>
      match binFaceLists be ps r with
      | none => none
      | some (cs, raws, r') => some (c :: cs, raw ++ raws, r')

/-- one iteration of the loop of `readBinaryFaceElement` (reader.go:704-752) -/
def binFace (be : Bool) (f : FaceHdr) (bs : List UInt8) : Except Err (Face × List UInt8) :=
  match binFaceLists be f.lists bs with
  | none => .error .short
  | some (cs, raw, r) =>
    match cs[f.idx]? with
    | none => .error .malformed
    | some pts => if pts < 3 ∨ 4 < pts then .error .malformed else .ok (⟨pts, raw⟩, r)

def binFaces (be : Bool) (f : FaceHdr) : Nat → List UInt8 → Except Err (List Face)
  | 0, _ => .ok []
  | n + 1, bs =>
    match binFace be f bs with
    | .error e => .error e
    | .ok (fc, r) =>
      match binFaces be f n r with
      | .error e => .error e
      | .ok fs => .ok (fc :: fs)

structure BinMesh where
  verts : List (List UInt8)
  faces : List Face
deriving DecidableEq, Repr

/-- binary body (reader.go:514-534): `vcount` records of `vsize` bytes, then the faces -/
def readPlyBinBody (h : Hdr) (be : Bool) (body : List UInt8) : Except Err BinMesh :=
  match readArrays (List.replicate h.vcount h.vsize) body with
  | none => .error .short
  | some (vs, r) =>
    match h.face with
    | none => .ok ⟨vs, []⟩
    | some f =>
      match binFaces be f f.count r with
      | .error e => .error e
      | .ok fs => .ok ⟨vs, fs⟩

/-! ### ASCII bodies: line / token structure -/

abbrev Tok := List UInt8

/-- a line as `bufio.Scanner` delivers it: the text, and its `strings.Fields` -/
structure Line where
  raw : List UInt8
  toks : List Tok
deriving DecidableEq, Repr

/-- `text == ""` -/
def Line.blank (l : Line) : Bool := l.raw.isEmpty

/-- the number syntax the readers rely on -/
structure Lex where
  /-- `strconv.ParseFloat` accepts the token -/
  floatOk : Tok → Bool
  /-- `strconv.ParseInt(tok, 10, 32)` -/
  int? : Tok → Option Int
  /-- `strconv.Atoi` on a whole line -/
  atoi? : List UInt8 → Option Int

/-- vertex loop of the ASCII body (reader.go:443-470, after bd55314 and a9972a3):
    end of input → error; `""` skipped; fewer tokens than properties → error; every property parsed. -/
def asciiVerts (L : Lex) (nprops : Nat) : List Line → Nat → Except Err (List (List Tok) × List Line)
  | ls, 0 => .ok ([], ls)
  | [], _ + 1 => .error .short
  | l :: ls, n + 1 =>
    if l.blank then asciiVerts L nprops ls (n + 1)
    else if l.toks.length < nprops then .error .short
    else if !((l.toks.take nprops).all L.floatOk) then .error .malformed
    else
      match asciiVerts L nprops ls n with
      | .error e => .error e
      | .ok (vs, r) => .ok (l.toks :: vs, r)

/-- `listAsciiPropertyReader.Read` (reader_list_ascii.go, after a9972a3): the entries and the remaining tokens -/
def asciiList (L : Lex) : List Tok → Option (List Tok × List Tok)
  | [] => none
  | c :: rest =>
    match L.int? c with
    | none => none
    | some v => if v < 0 ∨ (rest.length : Int) < v then none else some (rest.take v.toNat, rest.drop v.toNat)

/-- `Int(indicesBuf)` (4 slots, every entry an int) / `Float64(texBuf)` (8 slots, every entry a float) -/
def entriesOk (L : Lex) (f : FaceHdr) (i : Nat) (es : List Tok) : Bool :=
  (i != f.idx || (es.length ≤ 4 && es.all (fun t => (L.int? t).isSome))) &&
  (some i != f.tex || (es.length ≤ 8 && es.all L.floatOk))

/-- the readers of one face line in header order (reader.go:603-633); `i` = index of the next list
    property, `n` = how many are left, `pts` = size of the index list once seen -/
def asciiFaceLine (L : Lex) (f : FaceHdr) : Nat → Nat → List Tok → Option Nat → Except Err Nat
  | _, 0, _, pts =>
    match pts with
    | none => .error .malformed
    | some p => if p < 3 ∨ 4 < p then .error .malformed else .ok p
  | i, n + 1, toks, pts =>
    match asciiList L toks with
    | none => .error .short
    | some (es, rest) =>
      if entriesOk L f i es then asciiFaceLine L f (i + 1) n rest (if i = f.idx then some es.length else pts)
      else .error .malformed

/-- face loop of the ASCII body (reader.go:588-661) -/
def asciiFaces (L : Lex) (f : FaceHdr) : List Line → Nat → Except Err (List (Nat × List Tok))
  | _, 0 => .ok []
  | [], _ + 1 => .error .short
  | l :: ls, n + 1 =>
    if l.blank then asciiFaces L f ls (n + 1)
    else
      match asciiFaceLine L f 0 f.lists.length l.toks none with
      | .error e => .error e
      | .ok p =>
        match asciiFaces L f ls n with
        | .error e => .error e
        | .ok fs => .ok ((p, l.toks) :: fs)

structure AsciiMesh where
  verts : List (List Tok)
  faces : List (Nat × List Tok)
deriving DecidableEq, Repr

def readPlyAsciiBody (L : Lex) (h : Hdr) (ls : List Line) : Except Err AsciiMesh :=
  match asciiVerts L h.nprops ls h.vcount with
  | .error e => .error e
  | .ok (vs, r) =>
    match h.face with
    | none => .ok ⟨vs, []⟩
    | some f =>
      match asciiFaces L f r f.count with
      | .error e => .error e
      | .ok fs => .ok ⟨vs, fs⟩

/-! ### bytes → lines → tokens (`bufio.ScanLines`, `strings.Fields`) -/

def dropCR (l : List UInt8) : List UInt8 :=
  match l.reverse with
  | 13 :: r => r.reverse
  | _ => l

def scanLinesAux : List UInt8 → List UInt8 → List (List UInt8)
  | [], cur => if cur.isEmpty then [] else [dropCR cur.reverse]
  | b :: bs, cur => if b = 10 then dropCR cur.reverse :: scanLinesAux bs [] else scanLinesAux bs (b :: cur)

/-- ASCII white space as `strings.Fields` / `strings.TrimSpace` see it -/
def isSpace (b : UInt8) : Bool := b = 32 || (9 ≤ b && b ≤ 13)

def fieldsAux : List UInt8 → List UInt8 → List Tok
  | [], cur => if cur.isEmpty then [] else [cur.reverse]
  | b :: bs, cur =>
    if isSpace b then (if cur.isEmpty then fieldsAux bs [] else cur.reverse :: fieldsAux bs [])
    else fieldsAux bs (b :: cur)

def fields (l : List UInt8) : List Tok := fieldsAux l []

def scanLines (bs : List UInt8) : List Line := (scanLinesAux bs []).map fun r => ⟨r, fields r⟩

/-! ### the PLY reader -/

inductive PlyMesh where
  | bin (m : BinMesh)
  | ascii (m : AsciiMesh)
deriving DecidableEq, Repr

/-- `MeshReader.Read` for a file whose header parses to the supported header `h` -/
def readPly (L : Lex) (h : Hdr) (bs : List UInt8) : Except Err PlyMesh :=
  match skipHeader bs with
  | none => .error .short
  | some body =>
    match h.fmt with
    | .ascii => (readPlyAsciiBody L h (scanLines body)).map .ascii
    | .le => (readPlyBinBody h false body).map .bin
    | .be => (readPlyBinBody h true body).map .bin

/-! ## PTS -/

/-- the tokens of a point line that the reader uses: x y z, intensity (4+ fields), r g b (7+ fields) -/
structure PtsPoint where
  pos : List Tok
  intensity : Option Tok
  color : Option (List Tok)
deriving DecidableEq, Repr

def ptsPoint (toks : List Tok) : PtsPoint :=
  { pos := toks.take 3,
    intensity := if 3 < toks.length then toks[3]? else none,
    color := if 6 < toks.length then some ((toks.drop 4).take 3) else none }

def ptsTokensOk (L : Lex) (toks : List Tok) : Bool :=
  (toks.take 3).all L.floatOk &&
  (!(3 < toks.length) || ((toks.drop 3).take 1).all L.floatOk) &&
  (!(6 < toks.length) || ((toks.drop 4).take 3).all L.floatOk)

/-- the point loop (reader.go:53-100 after f35bae9 and 43af7f0); `n` = points still expected,
    `fpp` = field count fixed by the first point line -/
def ptsLoop (L : Lex) : List Line → Nat → Option Nat → Except Err (List PtsPoint)
  | _, 0, _ => .ok []
  | [], _ + 1, _ => .error .short
  | l :: ls, n + 1, fpp =>
    if l.toks.isEmpty then .error .malformed
    else if l.toks.length < 3 then .error .short
    else if (match fpp with | some k => l.toks.length != k | none => false) then .error .short
    else if !ptsTokensOk L l.toks then .error .malformed
    else
      match ptsLoop L ls n (some l.toks.length) with
      | .error e => .error e
      | .ok ps => .ok (ptsPoint l.toks :: ps)

/-- `pts.ReadPointCloud` on the scanned lines: the count line, then the points -/
def readPtsLines (L : Lex) : List Line → Except Err (List PtsPoint)
  | [] => .error .malformed
  | c :: ls =>
    match L.atoi? c.raw with
    | none => .error .malformed
    | some n => if n < 0 then .error .malformed else ptsLoop L ls n.toNat none

def readPts (L : Lex) (bs : List UInt8) : Except Err (List PtsPoint) := readPtsLines L (scanLines bs)

/-! ## prefix-restriction: the decidable predicate of `no_placeholder_*` and of the oracle `c14.holds.prefix_only` -/

/-- what a decode returns, for comparison: named attribute arrays (one value per vertex / record) and the
    primitives -/
structure Summary (V P : Type) where
  attrs : List (String × List V)
  prims : List P

/-- how much of the full decode a cut file may return -/
inductive Mode where
  /-- record-streamed format (.splat): any list prefix of the records -/
  | streamed
  /-- every other format: the complete decode, with every attribute of the full decode -/
  | complete
  /-- PTS file declaring ONE point: complete in count, attributes may be missing (the format has no field
      count: a one-point line cut after ≥ 3 fields is itself a valid file; `pts_prefix`, clause 4) -/
  | restricted
deriving DecidableEq, Repr

/-- `m` is a prefix-restriction of `x`: every attribute of `m` is an attribute of `x` whose per-vertex values
    are a list prefix of `x`'s (equal in count unless streamed); the primitives of `m` are a prefix of
    `x`'s (equal in count unless streamed); in mode `complete`, `m` carries every attribute of `x` -/
def prefixOf {V P : Type} [DecidableEq V] [DecidableEq P] (mode : Mode) (m x : Summary V P) : Bool :=
  m.attrs.all (fun nv =>
    match x.attrs.lookup nv.1 with
    | some ws => nv.2.isPrefixOf ws && (mode == .streamed || nv.2.length == ws.length)
    | none => false)
  && m.prims.isPrefixOf x.prims && (mode == .streamed || m.prims.length == x.prims.length)
  && (mode != .complete || x.attrs.all (fun nv => (m.attrs.lookup nv.1).isSome))

/-! ## iteration counts: instrumented readers

  `xI` is the loop `x` with an iteration counter threaded through the SAME recursion: it returns the pair
  (result of `x`, number of iterations made).  `Lemmas/Readers.lean` proves `(xI …).1 = x …` (the
  instrumented function computes exactly the reader's result) and `Props/C14.lean` bounds `(xI …).2` by
  the size of the input.  `Splat.readRecs` carries its counter itself. -/

/-- `readArrays` with the number of reads attempted -/
def readArraysI : List Nat → List UInt8 → Option (List (List UInt8) × List UInt8) × Nat
  | [], bs => (some ([], bs), 0)
  | n :: ns, bs =>
    if n ≤ bs.length then
      let r := readArraysI ns (bs.drop n)
      (match r.1 with
       | some (as, rest) => some (bs.take n :: as, rest)
       | none => none, r.2 + 1)
    else (none, 1)

/-- `asciiVerts` with the number of `scanner.Scan()` calls -/
def asciiVertsI (L : Lex) (nprops : Nat) : List Line → Nat → Except Err (List (List Tok) × List Line) × Nat
  | ls, 0 => (.ok ([], ls), 0)
  | [], _ + 1 => (.error .short, 1)
  | l :: ls, n + 1 =>
    if l.blank then
      let r := asciiVertsI L nprops ls (n + 1)
      (r.1, r.2 + 1)
    else if l.toks.length < nprops then (.error .short, 1)
    else if !((l.toks.take nprops).all L.floatOk) then (.error .malformed, 1)
    else
      let r := asciiVertsI L nprops ls n
      (match r.1 with
       | .error e => .error e
       | .ok (vs, rest) => .ok (l.toks :: vs, rest), r.2 + 1)

/-- `asciiFaces` with the number of `scanner.Scan()` calls -/
def asciiFacesI (L : Lex) (f : FaceHdr) : List Line → Nat → Except Err (List (Nat × List Tok)) × Nat
  | _, 0 => (.ok [], 0)
  | [], _ + 1 => (.error .short, 1)
  | l :: ls, n + 1 =>
    if l.blank then
      let r := asciiFacesI L f ls (n + 1)
      (r.1, r.2 + 1)
    else
      match asciiFaceLine L f 0 f.lists.length l.toks none with
      | .error e => (.error e, 1)
      | .ok p =>
        let r := asciiFacesI L f ls n
        (match r.1 with
         | .error e => .error e
         | .ok fs => .ok ((p, l.toks) :: fs), r.2 + 1)

/-- `ptsLoop` with the number of lines consumed -/
def ptsLoopI (L : Lex) : List Line → Nat → Option Nat → Except Err (List PtsPoint) × Nat
  | _, 0, _ => (.ok [], 0)
  | [], _ + 1, _ => (.error .short, 1)
  | l :: ls, n + 1, fpp =>
    if l.toks.isEmpty then (.error .malformed, 1)
    else if l.toks.length < 3 then (.error .short, 1)
    else if (match fpp with | some k => l.toks.length != k | none => false) then (.error .short, 1)
    else if !ptsTokensOk L l.toks then (.error .malformed, 1)
    else
      let r := ptsLoopI L ls n (some l.toks.length)
      (match r.1 with
       | .error e => .error e
       | .ok ps => .ok (ptsPoint l.toks :: ps), r.2 + 1)

/-- `binFaceLists` with the number of `listBinaryPropertyReader.Read` calls -/
def binFaceListsI (be : Bool) : List ListProp → List UInt8 → Option (List Nat × List UInt8 × List UInt8) × Nat
  | [], bs => (some ([], [], bs), 0)
  | p :: ps, bs =>
    match binList be p bs with
    | none => (none, 1)
    | some (c, raw, r) =>
      let q := binFaceListsI be ps r
      (match q.1 with
       | none => none
       | some (cs, raws, r') => some (c :: cs, raw ++ raws, r'), q.2 + 1)

/-- `binFace` with its list reads plus one for the iteration itself -/
def binFaceI (be : Bool) (f : FaceHdr) (bs : List UInt8) : Except Err (Face × List UInt8) × Nat :=
  let q := binFaceListsI be f.lists bs
  (match q.1 with
   | none => .error .short
   | some (cs, raw, r) =>
     match cs[f.idx]? with
     | none => .error .malformed
     | some pts => if pts < 3 ∨ 4 < pts then .error .malformed else .ok (⟨pts, raw⟩, r), q.2 + 1)

/-- `binFaces` with the total number of iterations (faces + list reads) -/
def binFacesI (be : Bool) (f : FaceHdr) : Nat → List UInt8 → Except Err (List Face) × Nat
  | 0, _ => (.ok [], 0)
  | n + 1, bs =>
    let q := binFaceI be f bs
    match q.1 with
    | .error e => (.error e, q.2)
    | .ok (fc, r) =>
      let t := binFacesI be f n r
      (match t.1 with
       | .error e => .error e
       | .ok fs => .ok (fc :: fs), q.2 + t.2)

/-- binary body with all its iterations: vertex record reads, face iterations, list reads -/
def readPlyBinBodyI (h : Hdr) (be : Bool) (body : List UInt8) : Except Err BinMesh × Nat :=
  let q := readArraysI (List.replicate h.vcount h.vsize) body
  match q.1 with
  | none => (.error .short, q.2)
  | some (vs, r) =>
    match h.face with
    | none => (.ok ⟨vs, []⟩, q.2)
    | some f =>
      let t := binFacesI be f f.count r
      (match t.1 with
       | .error e => .error e
       | .ok fs => .ok ⟨vs, fs⟩, q.2 + t.2)

/-- `stl.Read` with its reads -/
def readStlI (bs : List UInt8) : Except Err (List (List UInt8)) × Nat :=
  let q := readArraysI [80, 4] bs
  match q.1 with
  | some ([_, c], r) =>
    let t := readArraysI (List.replicate (leNat c) 50) r
    (match t.1 with
     | some (tris, _) => .ok tris
     | none => .error .short, q.2 + t.2)
  | _ => (.error .short, q.2)

/-- `scanLinesAux` with one step per byte (and one for the end of input) -/
def scanLinesAuxI : List UInt8 → List UInt8 → List (List UInt8) × Nat
  | [], cur => (if cur.isEmpty then [] else [dropCR cur.reverse], 1)
  | b :: bs, cur =>
    if b = 10 then
      let q := scanLinesAuxI bs []
      (dropCR cur.reverse :: q.1, q.2 + 1)
    else
      let q := scanLinesAuxI bs (b :: cur)
      (q.1, q.2 + 1)

/-- `fieldsAux` with one step per byte -/
def fieldsAuxI : List UInt8 → List UInt8 → List Tok × Nat
  | [], cur => (if cur.isEmpty then [] else [cur.reverse], 1)
  | b :: bs, cur =>
    if isSpace b then
      let q := fieldsAuxI bs []
      (if cur.isEmpty then q.1 else cur.reverse :: q.1, q.2 + 1)
    else
      let q := fieldsAuxI bs (b :: cur)
      (q.1, q.2 + 1)

/-- `scanLines`: the line scan plus the field split of every line -/
def scanLinesI (bs : List UInt8) : List Line × Nat :=
  let q := scanLinesAuxI bs []
  (q.1.map fun r => ⟨r, (fieldsAuxI r []).1⟩, q.2 + (q.1.map fun r => (fieldsAuxI r []).2).sum)

/-- `asciiFaceLine` with one step per list reader run (and one for the final check) -/
def asciiFaceLineI (L : Lex) (f : FaceHdr) : Nat → Nat → List Tok → Option Nat → Except Err Nat × Nat
  | _, 0, _, pts =>
    (match pts with
     | none => .error .malformed
     | some p => if p < 3 ∨ 4 < p then .error .malformed else .ok p, 1)
  | i, n + 1, toks, pts =>
    match asciiList L toks with
    | none => (.error .short, 1)
    | some (es, rest) =>
      if entriesOk L f i es then
        let q := asciiFaceLineI L f (i + 1) n rest (if i = f.idx then some es.length else pts)
        (q.1, q.2 + 1)
      else (.error .malformed, 1)

/-- `asciiFaces` counting the line iterations AND the list readers run on each line -/
def asciiFacesJ (L : Lex) (f : FaceHdr) : List Line → Nat → Except Err (List (Nat × List Tok)) × Nat
  | _, 0 => (.ok [], 0)
  | [], _ + 1 => (.error .short, 1)
  | l :: ls, n + 1 =>
    if l.blank then
      let r := asciiFacesJ L f ls (n + 1)
      (r.1, r.2 + 1)
    else
      let q := asciiFaceLineI L f 0 f.lists.length l.toks none
      match q.1 with
      | .error e => (.error e, q.2 + 1)
      | .ok p =>
        let r := asciiFacesJ L f ls n
        (match r.1 with
         | .error e => .error e
         | .ok fs => .ok ((p, l.toks) :: fs), q.2 + 1 + r.2)

/-- ASCII body on the BYTES: line scan, field split, vertex loop, face loop (number syntax of the tokens aside) -/
def readPlyAsciiBytesI (L : Lex) (h : Hdr) (body : List UInt8) : Except Err AsciiMesh × Nat :=
  let s := scanLinesI body
  let v := asciiVertsI L h.nprops s.1 h.vcount
  match v.1 with
  | .error e => (.error e, s.2 + v.2)
  | .ok (vs, r) =>
    match h.face with
    | none => (.ok ⟨vs, []⟩, s.2 + v.2)
    | some f =>
      let t := asciiFacesJ L f r f.count
      (match t.1 with
       | .error e => .error e
       | .ok fs => .ok ⟨vs, fs⟩, s.2 + v.2 + t.2)

/-- `pts.ReadPointCloud` on the bytes: line scan, field split, point loop -/
def readPtsI (L : Lex) (bs : List UInt8) : Except Err (List PtsPoint) × Nat :=
  let s := scanLinesI bs
  match s.1 with
  | [] => (.error .malformed, s.2)
  | c :: ls =>
    match L.atoi? c.raw with
    | none => (.error .malformed, s.2)
    | some n =>
      if n < 0 then (.error .malformed, s.2)
      else
        let t := ptsLoopI L ls n.toNat none
        (t.1, s.2 + t.2)

/-! ## the pinned ASCII face loop (before bd55314), kept as a record of the defect

  `for i < count { scanner.Scan(); line := scanner.Text(); if line == "" { continue }; … i++ }`
  with the result of `Scan()` ignored: at end of input `Text()` is `""`, so the state is unchanged. -/

/-- one iteration of the pinned loop on the state (remaining lines, faces read so far); `none` = loop exit -/
def oldFaceLoopStep (count : Nat) : List Line × Nat → Option (List Line × Nat)
  | (ls, i) =>
    if count ≤ i then none
    else match ls with
      | [] => some ([], i)              -- Scan() = false ignored, Text() = "" → continue
      | l :: rest => if l.blank then some (rest, i) else some (rest, i + 1)

/-! ## Go number syntax (decimal subset) for the driver -/

def isDigit (b : UInt8) : Bool := 48 ≤ b && b ≤ 57

def dropDigits : List UInt8 → Nat × List UInt8
  | [] => (0, [])
  | b :: bs => if isDigit b then let (n, r) := dropDigits bs; (n + 1, r) else (0, b :: bs)

def dropSign : List UInt8 → List UInt8
  | 43 :: r => r
  | 45 :: r => r
  | l => l

def lower (b : UInt8) : UInt8 := if 65 ≤ b && b ≤ 90 then b + 32 else b

/-- `strconv.ParseFloat` accepts: optional sign, `inf`/`infinity`/`nan`, or decimal mantissa with
    optional fraction and exponent (hex floats and digit separators are not produced by any writer here;
    out-of-range magnitudes are not generated) -/
def goFloatOk (t : Tok) : Bool :=
  let s := dropSign t
  let ls := s.map lower
  if ls = [105, 110, 102] || ls = [105, 110, 102, 105, 110, 105, 116, 121] then true
  else if (t.map lower) = [110, 97, 110] then true
  else
    let (ni, r1) := dropDigits s
    let (nf, r2, _dot) := match r1 with
      | 46 :: r => let (n, r') := dropDigits r; (n, r', true)
      | r => (0, r, false)
    if ni + nf = 0 then false
    else match r2 with
      | [] => true
      | e :: r3 =>
        if e = 101 || e = 69 then
          let (ne, r4) := dropDigits (dropSign r3)
          ne > 0 && r4.isEmpty
        else false

def digitsVal : List UInt8 → Nat → Nat
  | [], acc => acc
  | b :: bs, acc => digitsVal bs (acc * 10 + (b.toNat - 48))

/-- `strconv.ParseInt(t, 10, bits)` -/
def goInt? (bits : Nat) (t : Tok) : Option Int :=
  let neg := t.head? = some 45
  let s := dropSign t
  if s.isEmpty || !s.all isDigit then none
  else
    let v := digitsVal s 0
    if neg then (if v ≤ 2 ^ (bits - 1) then some (-(v : Int)) else none)
    else (if v < 2 ^ (bits - 1) then some (v : Int) else none)

def goLex : Lex := { floatOk := goFloatOk, int? := goInt? 32, atoi? := goInt? 64 }

end Readers
end PolyVerif
