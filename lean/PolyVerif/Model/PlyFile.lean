/-
  Composition of the PLY header TEXT parser (`Ply.parseHeader`, Model/Ply.lean — b-ply's model of
  `ply.ReadHeader`, proved at the byte level in Props/C04Header.lean) with the body readers of
  Model/Readers.lean: `MeshReader.Read` as a total function of the FILE BYTES alone.  Core Lean only.

  The bridge `hdrOf : Ply.Header → Option Hdr` is the part of `MeshReader.Read` (reader.go:364-409 and the first
  lines of `readBinaryFaceElement` / `readAsciiFaceElement`) that decides WHICH BYTES / LINES the body loops read:
  the last element named "vertex" (all properties scalar; record size = sum of the scalar sizes), the last
  element named "face" (all properties lists; count-field and entry sizes; position of `vertex_indices` /
  `vertex_index` and of `texcoord`, last match wins as in the source's loops).

  NOT here (b-ply's territory: `ClaimOK` / `buildAll` in Model/Ply.lean and Props/C04*): which PropertyReader
  claims which vertex property (buildAscii / buildBinary, LoadUnspecifiedProperties) and how a vertex record is
  turned into mesh attributes — that decides what the bytes of a record MEAN, not which records are read; the
  readers below keep every record raw.
-/
import PolyVerif.Model.Ply
import PolyVerif.Model.Readers

namespace PolyVerif
namespace PlyFile
open Readers

/-- size of the count field of a list property as `listBinaryPropertyReader.Count` reads it:
    uchar → 1 byte, int / uint → 4 bytes, anything else → "unimplemented" (0: `binList` then fails) -/
def countSizeOf : Ply.SType → Nat
  | .uchar => 1
  | .int | .uint => 4
  | _ => 0

/-- sum of the scalar sizes; `none` if some property is a list ("unimplemented scenario") -/
def vsizeOf : List Ply.PProp → Option Nat
  | [] => some 0
  | .scalar _ t :: ps => (vsizeOf ps).map (· + t.size)
  | .list _ _ _ :: _ => none

/-- the list properties of the face element; `none` if some property is a scalar -/
def listsOf : List Ply.PProp → Option (List ListProp)
  | [] => some []
  | .list _ c t :: ps => (listsOf ps).map (⟨countSizeOf c, t.size⟩ :: ·)
  | .scalar _ _ :: _ => none

/-- index of the LAST property satisfying `p` (the source's loops overwrite: last match wins) -/
def lastIdx (p : Ply.PProp → Bool) : List Ply.PProp → Nat → Option Nat → Option Nat
  | [], _, acc => acc
  | x :: xs, i, acc => lastIdx p xs (i + 1) (if p x then some i else acc)

def isIndexProp (p : Ply.PProp) : Bool := p.name = Ply.nm "vertex_index" || p.name = Ply.nm "vertex_indices"
def isTexProp (p : Ply.PProp) : Bool := p.name = Ply.nm "texcoord"

/-- the LAST element with the given name -/
def lastElement (name : Ply.Bytes) (es : List Ply.Element) : Option Ply.Element :=
  (es.filter fun e => e.name = name).getLast?

def fmtOf : Ply.Format → Fmt
  | .ascii => .ascii
  | .le => .le
  | .be => .be

def faceOf (e : Ply.Element) : Option FaceHdr :=
  match listsOf e.props, lastIdx isIndexProp e.props 0 none with
  | some ls, some idx => some ⟨e.count.toNat, ls, idx, lastIdx isTexProp e.props 0 none⟩
  | _, _ => none

/-- what `MeshReader.Read` extracts from a parsed header before its body loops; `none` = one of its
    "missing element" / "unimplemented scenario" / "did not contain indices property" errors -/
def hdrOf (h : Ply.Header) : Option Hdr :=
  match lastElement (Ply.nm "vertex") h.elements with
  | none => none
  | some v =>
    match vsizeOf v.props with
    | none => none
    | some vs =>
      match lastElement (Ply.nm "face") h.elements with
      | none => some ⟨fmtOf h.format, v.count.toNat, vs, v.props.length, none⟩
      | some f =>
        match faceOf f with
        | none => none
        | some fh => some ⟨fmtOf h.format, v.count.toNat, vs, v.props.length, some fh⟩

/-- classes of a whole-file read -/
inductive FErr where
  | header (e : Ply.Err)   -- `ReadHeader` failed (error value or panic)
  | unsupported            -- header parsed, `MeshReader.Read` rejects its shape
  | body (e : Err)         -- a body loop failed
deriving DecidableEq, Repr

/-- `MeshReader.Read` after `ReadHeader` returned `h` and left `body` unread: bridge, then the body reader -/
def readAfterHeader (L : Lex) (h : Ply.Header) (body : List UInt8) : Except FErr PlyMesh :=
  match hdrOf h with
  | none => .error .unsupported
  | some hd =>
    match hd.fmt with
    | .ascii =>
      match readPlyAsciiBody L hd (scanLines body) with
      | .ok m => .ok (.ascii m)
      | .error e => .error (.body e)
    | .le =>
      match readPlyBinBody hd false body with
      | .ok m => .ok (.bin m)
      | .error e => .error (.body e)
    | .be =>
      match readPlyBinBody hd true body with
      | .ok m => .ok (.bin m)
      | .error e => .error (.body e)

/-- `MeshReader.Read` from the bytes of the file: header text parser, bridge, body reader -/
def readPlyFile (L : Lex) (bs : List UInt8) : Except FErr PlyMesh :=
  match Ply.parseHeader bs with
  | .error e => .error (.header e)
  | .ok (h, body) => readAfterHeader L h body

/-! ### iteration counts including the header scan -/

/-- `Ply.headerLoop` with the number of header lines read (one `readLine` each), same recursion -/
def headerLoopI (s : Ply.HState) (bs : Ply.Bytes) : Ply.R (Ply.Header × Ply.Bytes) × Nat :=
  match h : Ply.readLine bs with
  | none => (.error .err, 1)
  | some (line, rest) =>
    match Ply.headerStep s line with
    | .error e => (.error e, 1)
    | .ok (.inr hdr) => (.ok (hdr, rest), 1)
    | .ok (.inl s') =>
      let q := headerLoopI s' rest
      (q.1, q.2 + 1)
termination_by bs.length
decreasing_by exact Ply.readLine_length bs line rest h

/-- the whole read with all its iterations: header lines + the instrumented body reader -/
def readPlyFileI (L : Lex) (bs : List UInt8) : Except FErr PlyMesh × Nat :=
  let hq := headerLoopI .init bs
  match hq.1 with
  | .error e => (.error (.header e), hq.2)
  | .ok (h, body) =>
    match hdrOf h with
    | none => (.error .unsupported, hq.2)
    | some hd =>
      match hd.fmt with
      | .ascii =>
        let q := readPlyAsciiBytesI L hd body
        (match q.1 with
         | .ok m => .ok (.ascii m)
         | .error e => .error (.body e), hq.2 + q.2)
      | .le =>
        let q := readPlyBinBodyI hd false body
        (match q.1 with
         | .ok m => .ok (.bin m)
         | .error e => .error (.body e), hq.2 + q.2)
      | .be =>
        let q := readPlyBinBodyI hd true body
        (match q.1 with
         | .ok m => .ok (.bin m)
         | .error e => .error (.body e), hq.2 + q.2)

end PlyFile
end PolyVerif
