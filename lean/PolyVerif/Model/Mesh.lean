/-
  Shared pure mesh model (core Lean only — no Mathlib).  Owner: C02/C03 builder.
  Imported by C01/C04/C05/C07 models; keep small and stable.

  Mirrors `modeling.Mesh` of /repo (modeling/mesh.go:20-28):

      type Mesh struct {
          v4Data, v3Data, v2Data, v1Data  map[string][]T      -- four maps, one per width
          indices   []int
          materials []MeshMaterial                            -- {PrimitiveCount int; Material *Material}
          topology  Topology
      }

  * the four Go maps are ONE association list keyed by `(width, name)`; Go map iteration order
    is unobservable through the public API (`FloatNAttributes()` sorts), so the list order is a
    representation detail: drivers serialise sorted by key, theorems that care use `lookup`;
  * the element type `α` of an attribute array is an opaque payload (a Go `float64` /
    `vectorN.Float64`): layout operations only move payloads, so their theorems hold for every `α`;
  * `*Material` pointer identity is a `Nat` id.
-/
namespace PolyVerif.Mesh

/-- `modeling.Topology` (modeling/topology.go); constructor order = Go iota order. -/
inductive Topology where
  | triangle | point | quad | line | lineStrip | lineLoop
  deriving DecidableEq, Repr, Inhabited

namespace Topology

/-- Go's iota value. -/
def toNat : Topology → Nat
  | triangle => 0 | point => 1 | quad => 2 | line => 3 | lineStrip => 4 | lineLoop => 5

def ofNat? : Nat → Option Topology
  | 0 => some triangle | 1 => some point | 2 => some quad | 3 => some line
  | 4 => some lineStrip | 5 => some lineLoop | _ => none

/-- `Topology.IndexSize()` -/
def indexSize : Topology → Nat
  | triangle => 3 | point => 1 | quad => 4 | line => 2 | lineStrip => 2 | lineLoop => 2

/-- "the number of indices fits the topology": whole primitives only. Points, strips and loops
    accept any count. -/
def Fits : Topology → Nat → Prop
  | triangle, k => k % 3 = 0
  | quad, k => k % 4 = 0
  | line, k => k % 2 = 0
  | _, _ => True

instance (t : Topology) (k : Nat) : Decidable (Fits t k) := by
  cases t <;> unfold Fits <;> infer_instance

end Topology

/-- key of an attribute array: which of the four Go maps (`width` ∈ 1..4) and the name in it -/
structure AttrKey where
  width : Nat
  name : String
  deriving DecidableEq, Repr, Inhabited

/-- canonical (serialisation) order of keys: by width, then by name -/
def AttrKey.lt (a b : AttrKey) : Bool :=
  a.width < b.width || (a.width == b.width && a.name < b.name)

/-- `modeling.MeshMaterial`: a run of `count` primitives drawn with material `mat` (pointer identity as id) -/
structure MatRange where
  count : Nat
  mat : Nat
  deriving DecidableEq, Repr, Inhabited

abbrev Attrs (α : Type) := List (AttrKey × List α)

structure MeshVal (α : Type) where
  topology : Topology
  indices : List Nat
  materials : List MatRange
  attrs : Attrs α
  deriving Repr

instance {α} [DecidableEq α] : DecidableEq (MeshVal α) := fun a b => by
  cases a; cases b; simp only [MeshVal.mk.injEq]; infer_instance

variable {α : Type}

/-- lookup of an attribute array by key (first match, like a map read) -/
def Attrs.find? (as : Attrs α) (k : AttrKey) : Option (List α) :=
  (List.find? (fun kd => kd.1 == k) as).map (·.2)

def Attrs.keys (as : Attrs α) : List AttrKey := as.map (·.1)

namespace MeshVal

def empty (t : Topology) : MeshVal α := ⟨t, [], [], []⟩

def attr? (m : MeshVal α) (k : AttrKey) : Option (List α) := m.attrs.find? k
def hasAttr (m : MeshVal α) (k : AttrKey) : Bool := (m.attrs.find? k).isSome
def keys (m : MeshVal α) : List AttrKey := m.attrs.keys

/-- `Mesh.AttributeLength()` (mesh.go:1272): the length of *some* attribute array, 0 when there
    is none. The Go code takes whichever the map iteration yields first; on a well-formed mesh all
    agree, which is the first clause of `WF`. -/
def attrLen (m : MeshVal α) : Nat :=
  match m.attrs with
  | [] => 0
  | (_, d) :: _ => d.length

/-- `Mesh.PrimitiveCount()` (mesh.go:310) -/
def primitiveCount (m : MeshVal α) : Nat :=
  match m.topology with
  | .triangle | .quad => m.indices.length / m.topology.indexSize
  | .point | .lineLoop => m.indices.length
  | .line | .lineStrip => m.indices.length - 1

/-- Well-formedness as C02 states it: all attribute arrays have one common length, every index
    refers to an existing vertex, the number of indices fits the topology. -/
def WF (m : MeshVal α) : Prop :=
  (∀ kd ∈ m.attrs, kd.2.length = m.attrLen) ∧
  (∀ i ∈ m.indices, i < m.attrLen) ∧
  m.topology.Fits m.indices.length

instance (m : MeshVal α) : Decidable (WF m) := by unfold WF; infer_instance

/-- the Go maps cannot hold one key twice -/
def KeysNodup (m : MeshVal α) : Prop := m.keys.Nodup

instance (m : MeshVal α) : Decidable (KeysNodup m) := by unfold KeysNodup; infer_instance

/-- What a reader of the mesh sees at each index position ("corner"), per attribute:
    `corners m = [(k, [d[i₀]?, d[i₁]?, …]) | (k, d) ∈ attrs]` where `i₀ i₁ …` are the indices.
    It is the per-corner attribute tuple list of the property, stored attribute-major; `none`
    marks a read out of range (never on a `WF` mesh, see `PolyVerif.Mesh.corners_some_of_WF`).
    Vertex numbering is not visible in it. -/
def corners (m : MeshVal α) : List (AttrKey × List (Option α)) :=
  m.attrs.map fun kd => (kd.1, m.indices.map fun i => kd.2[i]?)

/-- the corner values of one attribute -/
def cornersOf (m : MeshVal α) (k : AttrKey) : Option (List (Option α)) :=
  (m.attr? k).map fun d => m.indices.map fun i => d[i]?

end MeshVal

/-- split a list into consecutive triples; an incomplete tail is dropped -/
def triples {β : Type} : List β → List (β × β × β)
  | a :: b :: c :: rest => (a, b, c) :: triples rest
  | _ => []

def untriples {β : Type} : List (β × β × β) → List β
  | [] => []
  | (a, b, c) :: rest => a :: b :: c :: untriples rest

end PolyVerif.Mesh
