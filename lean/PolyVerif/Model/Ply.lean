/-
  Model of /repo/formats/ply (writer.go, writer_vector{1..4}.go, write.go, header.go, property.go,
  element.go, reader.go, reader_vector{1..4}.go, reader_list_{ascii,binary}.go) and of the parts of
  modeling.Mesh / meshops.Unweld they use.  Core Lean only.

  Two layers:
    * record layer  — which property writers fire, header built from them, vertex / face records;
                      reader: built property readers (claim logic, offsets from HEADER order), unclaimed
                      scalars → float1 attributes, quad → fan, per-corner UVs → unweld;
    * wire layer    — binary: fixed-width fields over `List UInt8`, real endianness;
                      ASCII: lines and blank-separated tokens.
  Scalar coding (float32 narrowing, 8-bit quantisation, decimal printing / parsing) enters through the
  parameter bundle `Coding α`; its laws are stated in `Props/C04.lean`, the driver instantiates it at `Float`.

  Byte strings (file contents, names, tokens) are `List UInt8`.
-/
namespace PolyVerif
namespace Ply

abbrev Bytes := List UInt8

/-- byte string of a (7-bit) literal -/
def nm (s : String) : Bytes := s.toList.map (fun c => UInt8.ofNat c.toNat)

/-- result classes of the implementation: error value returned, or Go panic -/
inductive Err | err | panic
  deriving DecidableEq, Repr, Inhabited

abbrev R := Except Err

/-! ## Scalar types (property.go) -/

inductive SType | char | uchar | short | ushort | int | uint | float | double
  deriving DecidableEq, Repr, Inhabited

def SType.size : SType → Nat
  | .char | .uchar => 1
  | .short | .ushort => 2
  | .int | .uint | .float => 4
  | .double => 8

/-- the spelling `fmt.Fprintf("%s", type)` produces (the constant's string value) -/
def SType.name : SType → Bytes
  | .char => nm "char" | .uchar => nm "uchar" | .short => nm "short" | .ushort => nm "ushort"
  | .int => nm "int" | .uint => nm "uint" | .float => nm "float" | .double => nm "double"

/-- reader.go:90-114 `scalarPropTypeNameToScalarPropertyType` -/
def aliasTable : List (String × SType) :=
  [("char", .char), ("int8", .char), ("uchar", .uchar), ("uint8", .uchar),
   ("short", .short), ("int16", .short), ("ushort", .ushort), ("uint16", .ushort),
   ("int", .int), ("int32", .int), ("uint", .uint), ("uint32", .uint),
   ("float", .float), ("float32", .float), ("double", .double), ("float64", .double)]

/-! ## Byte-string helpers (strings.Fields / TrimSpace / ToLower restricted to ASCII) -/

def isSpace (b : UInt8) : Bool := b = 32 || b = 9 || b = 10 || b = 11 || b = 12 || b = 13

def lowerByte (b : UInt8) : UInt8 := if 65 ≤ b ∧ b ≤ 90 then b + 32 else b
def lower (s : Bytes) : Bytes := s.map lowerByte

/-- `strings.Fields` (ASCII white space): `cur` is the token being accumulated, reversed -/
def fieldsAux : Bytes → Bytes → List Bytes
  | [], cur => if cur.isEmpty then [] else [cur.reverse]
  | b :: rest, cur =>
    if isSpace b then (if cur.isEmpty then fieldsAux rest [] else cur.reverse :: fieldsAux rest [])
    else fieldsAux rest (b :: cur)

def fields (s : Bytes) : List Bytes := fieldsAux s []

def trimLeft : Bytes → Bytes
  | [] => []
  | b :: rest => if isSpace b then trimLeft rest else b :: rest

def trimSpace (s : Bytes) : Bytes := (trimLeft (trimLeft s).reverse).reverse

def isBlank (s : Bytes) : Bool := s.all isSpace

/-- `strings.Index(line, pat)`; `none` = -1 -/
def indexOf (pat : Bytes) : Bytes → Nat → Option Nat
  | [], k => if pat.isEmpty then some k else none
  | b :: rest, k => if pat.isPrefixOf (b :: rest) then some k else indexOf pat rest (k + 1)

/-! ## Decimal integers (strconv.AppendInt / ParseInt base 10) -/

def digitsAux : Nat → Nat → Bytes → Bytes
  | 0, _, acc => acc
  | fuel + 1, n, acc =>
    let acc' := UInt8.ofNat (48 + n % 10) :: acc
    if n / 10 = 0 then acc' else digitsAux fuel (n / 10) acc'

def showNat (n : Nat) : Bytes := digitsAux (n + 1) n []

def showInt (i : Int) : Bytes :=
  if i < 0 then 45 :: showNat i.natAbs else showNat i.natAbs

def parseDigits : Bytes → Nat → Option Nat
  | [], acc => some acc
  | b :: rest, acc => if 48 ≤ b ∧ b ≤ 57 then parseDigits rest (acc * 10 + (b.toNat - 48)) else none

/-- `strconv.ParseInt(s, 10, bits)`: optional sign, at least one digit, range check -/
def parseIntBits (bits : Nat) (s : Bytes) : Option Int :=
  let (neg, ds) := match s with
    | 45 :: r => (true, r)
    | 43 :: r => (false, r)
    | r => (false, r)
  if ds.isEmpty then none else
  match parseDigits ds 0 with
  | none => none
  | some n =>
    let v : Int := if neg then - (n : Int) else (n : Int)
    if - (2 ^ (bits - 1) : Int) ≤ v ∧ v < (2 ^ (bits - 1) : Int) then some v else none

def parseInt32 := parseIntBits 32
def parseInt64 := parseIntBits 64

/-! ## Scalar coding bundle -/

/-- How mesh scalars (Go `float64`) are coded.  Each field names the Go expression it stands for. -/
structure Coding (α : Type) where
  /-- `math.Float32bits(float32(v))` -/
  f32 : α → UInt32
  /-- `float64(math.Float32frombits(b))` -/
  unf32 : UInt32 → α
  /-- `math.Float64bits(v)` -/
  f64 : α → UInt64
  /-- `math.Float64frombits(b)` -/
  unf64 : UInt64 → α
  /-- `byte(math.Round(math.Max(0, math.Min(1, v)) * 255))` -/
  u8 : α → UInt8
  /-- `uint32(v)` (binary `int` writer) -/
  i32 : α → UInt32
  /-- `float64(i)` for an integer that fits 32 bits -/
  ofInt : Int → α
  /-- `v / 255.` -/
  div255 : α → α
  /-- `v * (1.0 / 255.)` — `vector2.DivByConstant` scales by the reciprocal (vector3 / vector4 divide) -/
  mulInv255 : α → α
  /-- `strconv.AppendFloat(v, 'f', -1, 64)` -/
  showF : α → Bytes
  /-- `strconv.AppendInt(int64(v), 10)` -/
  showI : α → Bytes
  /-- `strconv.ParseFloat(s, 32)` (value returned as float64); `none` = error -/
  parseF : Bytes → Option α
  /-- `strconv.ParseFloat(s, 64)`; `none` = error -/
  parseF64 : Bytes → Option α

/-! ## Fixed-width fields, real endianness (encoding/binary) -/

inductive Endian | le | be
  deriving DecidableEq, Repr, Inhabited

def byteOf (n : Nat) (k : Nat) : UInt8 := UInt8.ofNat ((n / 256 ^ k) % 256)

def put32 (e : Endian) (w : UInt32) : Bytes :=
  let n := w.toNat
  match e with
  | .le => [byteOf n 0, byteOf n 1, byteOf n 2, byteOf n 3]
  | .be => [byteOf n 3, byteOf n 2, byteOf n 1, byteOf n 0]

def put64 (e : Endian) (w : UInt64) : Bytes :=
  let n := w.toNat
  match e with
  | .le => [byteOf n 0, byteOf n 1, byteOf n 2, byteOf n 3, byteOf n 4, byteOf n 5, byteOf n 6, byteOf n 7]
  | .be => [byteOf n 7, byteOf n 6, byteOf n 5, byteOf n 4, byteOf n 3, byteOf n 2, byteOf n 1, byteOf n 0]

/-- `endian.Uint32(buf)`; `none` when fewer than 4 bytes (Go: index-out-of-range panic) -/
def get32 (e : Endian) : Bytes → Option UInt32
  | b0 :: b1 :: b2 :: b3 :: _ =>
    match e with
    | .le => some (UInt32.ofNat (b0.toNat + 256 * b1.toNat + 65536 * b2.toNat + 16777216 * b3.toNat))
    | .be => some (UInt32.ofNat (b3.toNat + 256 * b2.toNat + 65536 * b1.toNat + 16777216 * b0.toNat))
  | _ => none

def get64 (e : Endian) : Bytes → Option UInt64
  | b0 :: b1 :: b2 :: b3 :: b4 :: b5 :: b6 :: b7 :: _ =>
    let f (a0 a1 a2 a3 a4 a5 a6 a7 : UInt8) : UInt64 :=
      UInt64.ofNat (a0.toNat + 256 * a1.toNat + 256 ^ 2 * a2.toNat + 256 ^ 3 * a3.toNat + 256 ^ 4 * a4.toNat
        + 256 ^ 5 * a5.toNat + 256 ^ 6 * a6.toNat + 256 ^ 7 * a7.toNat)
    match e with
    | .le => some (f b0 b1 b2 b3 b4 b5 b6 b7)
    | .be => some (f b7 b6 b5 b4 b3 b2 b1 b0)
  | _ => none

/-- two's complement reading `int32(u)` -/
def toInt32 (u : UInt32) : Int := if u.toNat < 2 ^ 31 then (u.toNat : Int) else (u.toNat : Int) - 2 ^ 32

/-- `uint32(i)` for a Go `int` -/
def ofInt32 (i : Int) : UInt32 := UInt32.ofNat (i % (2 ^ 32 : Int)).toNat

/-! ## Header (header.go, element.go, property.go) -/

inductive Format | ascii | le | be
  deriving DecidableEq, Repr, Inhabited

def Format.endian : Format → Endian
  | .be => .be
  | _ => .le

inductive PProp
  | scalar (name : Bytes) (ty : SType)
  | list (name : Bytes) (cnt item : SType)
  deriving DecidableEq, Repr, Inhabited

def PProp.name : PProp → Bytes
  | .scalar n _ => n
  | .list n _ _ => n

structure Element where
  name : Bytes
  count : Int
  props : List PProp
  deriving DecidableEq, Repr, Inhabited

structure Header where
  format : Format
  elements : List Element
  comments : List Bytes
  objInfo : List Bytes := []
  deriving DecidableEq, Repr, Inhabited

def nl : Bytes := [10]
def sp : Bytes := [32]

def Format.line : Format → Bytes
  | .ascii => nm "format ascii 1.0"
  | .le => nm "format binary_little_endian 1.0"
  | .be => nm "format binary_big_endian 1.0"

def PProp.render : PProp → Bytes
  | .scalar n t => nm "property " ++ t.name ++ sp ++ n ++ nl
  | .list n c t => nm "property list " ++ c.name ++ sp ++ t.name ++ sp ++ n ++ nl

def Element.render (e : Element) : Bytes :=
  nm "element " ++ e.name ++ sp ++ showInt e.count ++ nl ++ (e.props.map PProp.render).flatten

/-- `Header.Write` -/
def Header.render (h : Header) : Bytes :=
  nm "ply" ++ nl ++ h.format.line ++ nl
  ++ (h.comments.map (fun c => nm "comment " ++ c ++ nl)).flatten
  ++ (h.objInfo.map (fun c => nm "obj_info " ++ c ++ nl)).flatten
  ++ (h.elements.map Element.render).flatten
  ++ nm "end_header" ++ nl

/-! ### Header parser (reader.go:18-221) -/

/-- `readLine`: bytes up to the next LF with every CR dropped; `none` = EOF before LF -/
def readLine : Bytes → Option (Bytes × Bytes)
  | [] => none
  | b :: rest =>
    if b = 10 then some ([], rest) else
    match readLine rest with
    | none => none
    | some (l, r) => some (if b = 13 then l else b :: l, r)

theorem readLine_length : ∀ (bs : Bytes) (l r : Bytes), readLine bs = some (l, r) → r.length < bs.length
  | [], _, _, h => by simp [readLine] at h
  | b :: rest, l, r, h => by
    unfold readLine at h
    split at h
    · simp at h; simp [← h.2]
    · split at h
      · simp at h
      · rename_i l' r' heq
        simp at h
        have := readLine_length rest l' r' heq
        simp [← h.2]; omega

/-- `ParseScalarPropertyType`: lower-cased, trimmed, looked up; unknown → panic -/
def parseSType (s : Bytes) : R SType :=
  let c := lower (trimSpace s)
  match aliasTable.find? (fun p => nm p.1 = c) with
  | some p => .ok p.2
  | none => .error .panic

/-- `readPlyProperty` (called with `contents[0] == "property"`) -/
def parseProperty (contents : List Bytes) : R PProp :=
  match contents with
  | _ :: c1 :: _ =>
    if lower c1 = nm "list" then
      match contents with
      | [_, _, c2, c3, c4] => do
        let ct ← parseSType c2
        let lt ← parseSType c3
        pure (.list (lower c4) ct lt)
      | _ => .error .err
    else
      match contents with
      | [_, c1, c2] => do
        let t ← parseSType c1
        pure (.scalar c2 t)
      | _ => .error .err
  | _ => .error .panic   -- contents[1] out of range

inductive HPhase | magic | format | body
  deriving DecidableEq, Repr

structure HState where
  phase : HPhase
  format : Format
  elements : List Element    -- reversed
  comments : List Bytes      -- reversed

def HState.init : HState := ⟨.magic, .ascii, [], []⟩

def HState.header (s : HState) : Header :=
  { format := s.format, elements := s.elements.reverse, comments := s.comments.reverse }

/-- one header line; `.inl` = continue, `.inr` = `end_header` reached -/
def headerStep (s : HState) (line : Bytes) : R (HState ⊕ Header) :=
  match s.phase with
  | .magic => if line = nm "ply" then .ok (.inl { s with phase := .format }) else .error .err
  | .format =>
    if isBlank line then .ok (.inl s) else
    match fields line with
    | [c0, c1, c2] =>
      if c0 ≠ nm "format" then .error .err
      else if c2 ≠ nm "1.0" then .error .err
      else if c1 = nm "ascii" then .ok (.inl { s with phase := .body, format := .ascii })
      else if c1 = nm "binary_little_endian" then .ok (.inl { s with phase := .body, format := .le })
      else if c1 = nm "binary_big_endian" then .ok (.inl { s with phase := .body, format := .be })
      else .error .err
    | _ => .error .err
  | .body =>
    if isBlank line then .ok (.inl s)
    else if line = nm "end_header" then .ok (.inr s.header)
    else
      match fields line with
      | [] => .ok (.inl s)    -- unreachable: a non-blank line has a field
      | c0 :: cs =>
        if c0 = nm "comment" then
          match indexOf (nm "comment") line 0 with
          | some start => .ok (.inl { s with comments := trimSpace (line.drop (7 + start)) :: s.comments })
          | none => .ok (.inl s)
        else if c0 = nm "element" then
          match cs with
          | [c1, c2] =>
            match parseInt64 c2 with
            | none => .error .err
            | some n => .ok (.inl { s with elements := ⟨lower c1, n, []⟩ :: s.elements })
          | _ => .error .err
        else if c0 = nm "property" then
          match parseProperty (c0 :: cs) with
          | .error .panic => .error .panic
          | .error .err => .error .err
          | .ok p =>
            match s.elements with
            | [] => .error .panic    -- header.Elements[-1]
            | e :: es => .ok (.inl { s with elements := { e with props := e.props ++ [p] } :: es })
        else .ok (.inl s)    -- obj_info and anything else: ignored

/-- `ReadHeader`: returns the header and the unread rest of the input -/
def headerLoop (s : HState) (bs : Bytes) : R (Header × Bytes) :=
  match h : readLine bs with
  | none => .error .err
  | some (line, rest) =>
    match headerStep s line with
    | .error e => .error e
    | .ok (.inr hdr) => .ok (hdr, rest)
    | .ok (.inl s') => headerLoop s' rest
termination_by bs.length
decreasing_by exact readLine_length bs line rest h

def parseHeader (bs : Bytes) : R (Header × Bytes) := headerLoop .init bs

/-! ## Mesh values (the part of modeling.Mesh the codec touches) -/

inductive Topo | point | triangle
  deriving DecidableEq, Repr, Inhabited

/-- one entry of one of the four `map[string][]vectorN` of a mesh: `dim` ∈ 1..4, every item has `dim` components -/
structure Attr (α : Type) where
  dim : Nat
  name : Bytes
  data : List (List α)
  deriving Repr, Inhabited

structure MeshVal (α : Type) where
  topo : Topo
  indices : List Int
  attrs : List (Attr α)
  /-- `Materials()[0].Material.ColorTextureURI`, when present -/
  texURI : Option Bytes := none
  deriving Repr, Inhabited

variable {α : Type}

def MeshVal.find (m : MeshVal α) (dim : Nat) (name : Bytes) : Option (Attr α) :=
  m.attrs.find? (fun a => a.dim = dim ∧ a.name = name)

def MeshVal.has (m : MeshVal α) (dim : Nat) (name : Bytes) : Bool := (m.find dim name).isSome

/-- `SetFloatNAttribute(attr, data)`: replace or add; an empty array deletes the key -/
def MeshVal.set (m : MeshVal α) (dim : Nat) (name : Bytes) (data : List (List α)) : MeshVal α :=
  let others := m.attrs.filter (fun a => ¬ (a.dim = dim ∧ a.name = name))
  { m with attrs := if data.isEmpty then others else others ++ [⟨dim, name, data⟩] }

/-- `AttributeLength()` (all arrays of a well-formed mesh have one length) -/
def MeshVal.attrLen (m : MeshVal α) : Nat :=
  match m.attrs with
  | [] => 0
  | a :: _ => a.data.length

def positionAttr : Bytes := nm "Position"
def normalAttr : Bytes := nm "Normal"
def colorAttr : Bytes := nm "Color"
def texCoordAttr : Bytes := nm "TexCoord"
def fdcAttr : Bytes := nm "FDC"
def opacityAttr : Bytes := nm "Opacity"
def scaleAttr : Bytes := nm "Scale"
def rotationAttr : Bytes := nm "Rotation"

/-- byte-wise lexicographic `<` (Go string order, `sort.Strings`) -/
def bytesLt : Bytes → Bytes → Bool
  | [], [] => false
  | [], _ :: _ => true
  | _ :: _, [] => false
  | a :: as, b :: bs => if a < b then true else if b < a then false else bytesLt as bs

def insertSorted (x : Bytes) : List Bytes → List Bytes
  | [] => [x]
  | y :: ys => if bytesLt y x then y :: insertSorted x ys else x :: y :: ys

def sortNames (l : List Bytes) : List Bytes := l.foldr insertSorted []

/-- `Float<dim>Attributes()`: sorted names -/
def MeshVal.names (m : MeshVal α) (dim : Nat) : List Bytes :=
  sortNames ((m.attrs.filter (fun a => a.dim = dim)).map (·.name))

/-- Go slice indexing with an `int` -/
def atIdx {β : Type} (l : List β) (i : Int) : R β :=
  if i < 0 then .error .panic else
  match l[i.toNat]? with
  | some x => .ok x
  | none => .error .panic

/-- `idx.map (data[·])` with Go's bounds check; the array is only there to make the lookups constant-time -/
def gather {β : Type} (data : List β) (idx : List Int) : R (List β) :=
  let arr := data.toArray
  idx.mapM (fun (i : Int) => if i < 0 then .error .panic else
    match arr[i.toNat]? with
    | some x => .ok x
    | none => .error .panic)

/-- `meshops.Unweld` -/
def unweld (m : MeshVal α) : R (MeshVal α) := do
  let attrs ← m.attrs.mapM (fun a => do
    let d ← gather a.data m.indices
    pure (⟨a.dim, a.name, d⟩ : Attr α))
  pure { m with indices := (List.range m.indices.length).map Int.ofNat, attrs := attrs }

/-! ## Writer (writer.go, writer_vector*.go, write.go) -/

/-- a `Vector<dim>PropertyWriter`: `names.length = dim` -/
structure WProp where
  attr : Bytes
  names : List Bytes
  ty : SType
  deriving DecidableEq, Repr, Inhabited

def WProp.dim (w : WProp) : Nat := w.names.length

structure WriterCfg where
  format : Format
  props : List WProp
  writeUnspecified : Bool
  deriving Repr, Inhabited

/-- write.go `defaultWriter` -/
def defaultProps : List WProp :=
  [⟨positionAttr, [nm "x", nm "y", nm "z"], .float⟩,
   ⟨normalAttr, [nm "nx", nm "ny", nm "nz"], .float⟩,
   ⟨colorAttr, [nm "red", nm "green", nm "blue"], .uchar⟩,
   ⟨fdcAttr, [nm "f_dc_0", nm "f_dc_1", nm "f_dc_2"], .float⟩,
   ⟨opacityAttr, [nm "opacity"], .float⟩,
   ⟨scaleAttr, [nm "scale_0", nm "scale_1", nm "scale_2"], .float⟩,
   ⟨rotationAttr, [nm "rot_0", nm "rot_1", nm "rot_2", nm "rot_3"], .float⟩]

def defaultWriter (f : Format) : WriterCfg := ⟨f, defaultProps, true⟩

/-- `fmt.Sprintf("%s_%d", p, k)` -/
def suffixed (p : Bytes) (k : Nat) : Bytes := p ++ [95] ++ showNat k

/-- the writer added for an unclaimed attribute when `WriteUnspecifiedProperties` -/
def unspecifiedWriter (dim : Nat) (p : Bytes) : WProp :=
  if dim = 1 then ⟨p, [p], .float⟩ else ⟨p, (List.range dim).map (suffixed p), .float⟩

/-- the property writers that fire for a mesh, in order (writer.go:36-118) -/
def selectWriters (cfg : WriterCfg) (m : MeshVal α) : List WProp :=
  let qualified := cfg.props.filter (fun w => m.has w.dim w.attr)
  let claimed (dim : Nat) (p : Bytes) : Bool := qualified.any (fun w => w.dim = dim ∧ w.attr = p)
  let extra (dim : Nat) : List WProp :=
    ((m.names dim).filter (fun p => ¬ claimed dim p ∧ ¬ (dim = 2 ∧ p = texCoordAttr ∧ m.topo = .triangle))).map
      (fun p =>
        -- writer.go:105-118: TexCoord of a mesh without face element goes per vertex as `s`, `t`;
        -- a triangle mesh carries it per corner in the face element (filtered out above)
        if dim = 2 ∧ p = texCoordAttr then ⟨p, [nm "s", nm "t"], .float⟩ else unspecifiedWriter dim p)
  if cfg.writeUnspecified then qualified ++ extra 4 ++ extra 3 ++ extra 2 ++ extra 1 else qualified

def WProp.props (w : WProp) : List PProp := w.names.map (fun n => .scalar n w.ty)

def hasTexCoord (m : MeshVal α) : Bool := m.has 2 texCoordAttr

def faceProps (m : MeshVal α) : List PProp :=
  [.list (nm "vertex_indices") .uchar .int] ++
  (if hasTexCoord m then [.list (nm "texcoord") .uchar .float] else [])

/-- `len(indices) / 3` -/
def triCount (m : MeshVal α) : Nat := m.indices.length / 3

/-- the header `MeshWriter.Write` builds -/
def writeHeader (cfg : WriterCfg) (m : MeshVal α) : Header :=
  let ws := selectWriters cfg m
  { format := cfg.format
    elements :=
      [⟨nm "vertex", m.attrLen, (ws.map WProp.props).flatten⟩] ++
      (if m.topo = .triangle then [⟨nm "face", triCount m, faceProps m⟩] else [])
    comments :=
      (match m.texURI with | some u => [nm "TextureFile " ++ u] | none => []) ++
      [nm "Created with github.com/EliCDavis/polyform"] }

/-- one scalar in a binary body (builtVectorNPropertyWriter.Write); unimplemented type → panic -/
def encScalarBin (c : Coding α) (e : Endian) (t : SType) (v : α) : R Bytes :=
  match t with
  | .uchar => .ok [c.u8 v]
  | .int => .ok (put32 e (c.i32 v))
  | .float => .ok (put32 e (c.f32 v))
  | .double => .ok (put64 e (c.f64 v))
  | _ => .error .panic

/-- one scalar token in an ASCII body (asciiVectorNPropertyWriter.Write) -/
def encScalarAscii (c : Coding α) (t : SType) (v : α) : R Bytes :=
  match t with
  | .uchar => .ok (showNat (c.u8 v).toNat)
  | .int | .uint | .short | .ushort => .ok (c.showI v)
  | .float | .double => .ok (c.showF v)
  | .char => .error .panic

/-- the values one built writer emits for vertex `i`: the components of `attr[i]` -/
def writerValues (m : MeshVal α) (w : WProp) (i : Nat) : R (List α) :=
  match m.find w.dim w.attr with
  | none => .error .panic
  | some a =>
    match a.data[i]? with
    | none => .error .panic
    | some comps => .ok comps

/-- record layer: the scalar values of vertex `i`, one per header property -/
def vertexRecord (m : MeshVal α) (ws : List WProp) (i : Nat) : R (List α) := do
  let parts ← ws.mapM (fun w => writerValues m w i)
  pure parts.flatten

/-- property types in header order, one per scalar of a vertex record -/
def writerTypes (ws : List WProp) : List SType := (ws.map (fun w => w.names.map (fun _ => w.ty))).flatten

def encRecordBin (c : Coding α) (e : Endian) (tys : List SType) (vals : List α) : R Bytes := do
  let parts ← (tys.zip vals).mapM (fun (t, v) => encScalarBin c e t v)
  pure parts.flatten

def intercalate (sep : Bytes) : List Bytes → Bytes
  | [] => []
  | [x] => x
  | x :: y :: rest => x ++ sep ++ intercalate sep (y :: rest)

/-- ASCII vertex line: per built writer its components joined by one blank; writers separated by one blank, LF after
the last writer (writer.go:186-201).  With no writers nothing is written. -/
def encRecordAscii (c : Coding α) (tys : List SType) (vals : List α) : R Bytes := do
  let toks ← (tys.zip vals).mapM (fun (t, v) => encScalarAscii c t v)
  pure (if toks.isEmpty then [] else intercalate sp toks ++ nl)

/-- groups of three indices; `none` when the length is not a multiple of 3 -/
def chunk3 : List Int → Option (List (Int × Int × Int))
  | [] => some []
  | a :: b :: c :: rest => (chunk3 rest).map ((a, b, c) :: ·)
  | _ => none

/-- complete triples only (ASCII path: `PrimitiveCount()` and `Tri(i)`) -/
def chunk3Floor : List Int → List (Int × Int × Int)
  | a :: b :: c :: rest => (a, b, c) :: chunk3Floor rest
  | _ => []

/-- a face record of the writer: three indices and, with TexCoord, the three corner UVs -/
structure WFace (α : Type) where
  idx : Int × Int × Int
  uv : Option (List α)     -- six values
  deriving Repr

def faceRecords (m : MeshVal α) (tris : List (Int × Int × Int)) : R (List (WFace α)) :=
  match m.find 2 texCoordAttr with
  | none => .ok (tris.map (fun t => ⟨t, none⟩))
  | some tex =>
    tris.mapM (fun (a, b, c) => do
      let p1 ← atIdx tex.data a
      let p2 ← atIdx tex.data b
      let p3 ← atIdx tex.data c
      pure ⟨(a, b, c), some (p1 ++ p2 ++ p3)⟩)

def encFaceBin (c : Coding α) (e : Endian) (f : WFace α) : Bytes :=
  let (i0, i1, i2) := f.idx
  [3] ++ put32 e (ofInt32 i0) ++ put32 e (ofInt32 i1) ++ put32 e (ofInt32 i2) ++
  (match f.uv with
   | none => []
   | some uv => [6] ++ (uv.map (fun v => put32 e (c.f32 v))).flatten)

def encFaceAscii (c : Coding α) (f : WFace α) : Bytes :=
  let (i0, i1, i2) := f.idx
  nm "3 " ++ showInt i0 ++ sp ++ showInt i1 ++ sp ++ showInt i2 ++
  (match f.uv with
   | none => []
   | some uv => nm " 6 " ++ intercalate sp (uv.map c.showF)) ++ nl

/-- writer.go:144-158 (fix 858df3c): a property is found again by its name, a single blank-delimited token of its header
line — a name that is empty, holds white space (`strings.Fields(name) ≠ [name]`) or is used by two properties makes
`Write` return an error before anything is written -/
def namesOK (names : List Bytes) : Bool := names.all (fun n => fields n == [n]) && decide names.Nodup

/-- the body `MeshWriter.Write` emits after the header, once the property names have been accepted -/
def writeBodyCore (c : Coding α) (cfg : WriterCfg) (m : MeshVal α) : R Bytes := do
  let ws := selectWriters cfg m
  let tys := writerTypes ws
  let recs ← (List.range m.attrLen).mapM (vertexRecord m ws)
  let vbytes ← recs.mapM (fun r =>
    match cfg.format with
    | .ascii => encRecordAscii c tys r
    | f => encRecordBin c f.endian tys r)
  if m.topo ≠ .triangle then pure vbytes.flatten else
  match cfg.format with
  | .ascii => do
    let fs ← faceRecords m (chunk3Floor m.indices)
    pure (vbytes.flatten ++ (fs.map (encFaceAscii c)).flatten)
  | f =>
    match chunk3 m.indices with
    | none => .error .panic
    | some tris => do
      let fs ← faceRecords m tris
      pure (vbytes.flatten ++ (fs.map (encFaceBin c f.endian)).flatten)

/-- the body `MeshWriter.Write` emits after the header; `.error .err` when a property name is rejected -/
def writeBody (c : Coding α) (cfg : WriterCfg) (m : MeshVal α) : R Bytes :=
  if namesOK (((selectWriters cfg m).map WProp.names).flatten) then writeBodyCore c cfg m else .error .err

/-- `MeshWriter.Write`: header then body -/
def writeMesh (c : Coding α) (cfg : WriterCfg) (m : MeshVal α) : R Bytes := do
  let body ← writeBody c cfg m
  pure ((writeHeader cfg m).render ++ body)

/-! ## Reader (reader.go, reader_vector*.go, reader_list_*.go) -/

/-- a `Vector<dim>PropertyReader` of `MeshReader.Properties` -/
structure RProp where
  attr : Bytes
  names : List Bytes
  ignorableW : Bool := false
  deriving DecidableEq, Repr, Inhabited

/-- reader.go:224-314 `defaultReader.Properties` -/
def defaultReaders : List RProp :=
  [⟨positionAttr, [nm "x", nm "y", nm "z"], false⟩,
   ⟨positionAttr, [nm "px", nm "py", nm "pz"], false⟩,
   ⟨positionAttr, [nm "posx", nm "posy", nm "posz"], false⟩,
   ⟨normalAttr, [nm "nx", nm "ny", nm "nz"], false⟩,
   ⟨normalAttr, [nm "normalx", nm "normaly", nm "normalz"], false⟩,
   ⟨colorAttr, [nm "red", nm "green", nm "blue", nm "alpha"], true⟩,
   ⟨colorAttr, [nm "r", nm "g", nm "b", nm "a"], true⟩,
   ⟨colorAttr, [nm "diffuse_red", nm "diffuse_green", nm "diffuse_blue", nm "diffuse_alpha"], true⟩,
   ⟨texCoordAttr, [nm "s", nm "t"], false⟩,
   ⟨fdcAttr, [nm "f_dc_0", nm "f_dc_1", nm "f_dc_2"], false⟩,
   ⟨opacityAttr, [nm "opacity"], false⟩,
   ⟨scaleAttr, [nm "scale_0", nm "scale_1", nm "scale_2"], false⟩,
   ⟨rotationAttr, [nm "rot_0", nm "rot_1", nm "rot_2", nm "rot_3"], false⟩]

/-- a built property reader: where each component sits in a vertex record (byte offset in a binary record, column in
an ASCII line — both computed from HEADER order) and the scalar type used to decode it.  `ty = none` is the ASCII
`Vector1PropertyReader`, which never assigns `scalarType` (reader_vector1.go:38-57). -/
structure Built where
  attr : Bytes
  names : List Bytes
  offs : List Nat
  ty : Option SType
  deriving DecidableEq, Repr, Inhabited

def Built.claims (b : Built) (p : Bytes) : Bool := b.names.contains p

/-- state of the scan over the element's properties in `buildBinary` / `buildAscii` of the 2-, 3-, 4-vectors -/
structure Scan where
  offs : List (Option Nat)      -- one per component; `none` = -1
  ty : Option SType             -- `none` = "" (not yet assigned)
  pos : Nat                     -- running byte offset (binary) or column (ASCII)

/-- the `if scalar.PropertyName == PlyPropertyK { … }` block for component `k`.
`forceTy` was the extra unconditional `scalarType = scalar.Type` of the binary 4-vector's W block (reader_vector4.go:73),
removed by fix 8c2f8cb: `scanProp` now always passes `false`, the mixed-type check is live for W as for X/Y/Z. -/
def scanComponent (pname : Bytes) (pty : SType) (forceTy : Bool) (s : Scan) (k : Nat) (cname : Bytes) : Scan :=
  if pname ≠ cname then s else
  let ty0 := if forceTy then some pty else s.ty
  let ty1 := match ty0 with | none => some pty | some t => some t
  let off : Option Nat := if ty1 = some pty then some s.pos else none
  { s with offs := s.offs.set k off, ty := ty1 }

def scanProp (binary : Bool) (names : List Bytes) (s : Scan) (p : Bytes × SType) : Scan :=
  let s' := (names.zipIdx).foldl
    (fun acc (cname, k) => scanComponent p.1 p.2 false acc k cname) s
  { s' with pos := s'.pos + (if binary then p.2.size else 1) }

def allSome {β : Type} : List (Option β) → Option (List β)
  | [] => some []
  | none :: _ => none
  | some x :: rest => (allSome rest).map (x :: ·)

/-- `VectorNPropertyReader.build{Binary,Ascii}` for N ≥ 2 without the IgnorableW fallback -/
def buildVec (binary : Bool) (props : List (Bytes × SType)) (attr : Bytes) (names : List Bytes) : Option Built :=
  let s := props.foldl (scanProp binary names) ⟨names.map (fun _ => none), none, 0⟩
  match allSome s.offs with
  | some offs => some ⟨attr, names, offs, s.ty⟩
  | none => none

/-- `Vector1PropertyReader.build*`: first property with the name; the ASCII variant leaves the type unset -/
def buildV1 (binary : Bool) (props : List (Bytes × SType)) (attr : Bytes) (name : Bytes) : Option Built :=
  let rec go : List (Bytes × SType) → Nat → Option Built
    | [], _ => none
    | (n, t) :: rest, pos =>
      if n = name then some ⟨attr, [name], [pos], if binary then some t else none⟩
      else go rest (pos + (if binary then t.size else 1))
  go props 0

/-- `PropertyReader.build{Binary,Ascii}` -/
def buildReader (binary : Bool) (props : List (Bytes × SType)) (r : RProp) : Option Built :=
  match r.names with
  | [n] => buildV1 binary props r.attr n
  | names =>
    match buildVec binary props r.attr names with
    | some b => some b
    | none =>
      if names.length = 4 ∧ r.ignorableW then
        let s := props.foldl (scanProp binary names) ⟨names.map (fun _ => none), none, 0⟩
        match s.offs with
        | [some _, some _, some _, _] => buildVec binary props r.attr (names.take 3)
        | _ => none
      else none

/-- readers for every property no earlier reader claims (reader.go:422-440, 494-512) -/
def addUnclaimed (binary : Bool) (props : List (Bytes × SType)) (built : List Built) : List Built :=
  props.foldl (fun acc p =>
    if acc.any (fun b => b.claims p.1) then acc
    else match buildV1 binary props p.1 p.1 with
      | some b => acc ++ [b]
      | none => acc) built

def buildAll (binary : Bool) (props : List (Bytes × SType)) (readers : List RProp) (loadUnspecified : Bool) : List Built :=
  let built := readers.filterMap (buildReader binary props)
  if loadUnspecified then addUnclaimed binary props built else built

/-- decode one binary scalar at byte offset `off` of a vertex record (builtVectorNPropertyReader.Read) -/
def Coding.norm8 (c : Coding α) (dim : Nat) (v : α) : α := if dim = 2 then c.mulInv255 v else c.div255 v

def decScalarBin (c : Coding α) (e : Endian) (dim : Nat) (t : SType) (buf : Bytes) (off : Nat) : R α :=
  match t with
  | .uchar =>
    match buf[off]? with
    | some b => .ok (c.norm8 dim (c.ofInt b.toNat))
    | none => .error .panic
  | .int =>
    match get32 e (buf.drop off) with
    | some u => .ok (c.ofInt (toInt32 u))
    | none => .error .panic
  | .float =>
    match get32 e (buf.drop off) with
    | some u => .ok (c.unf32 u)
    | none => .error .panic
  | .double =>
    match get64 e (buf.drop off) with
    | some u => .ok (c.unf64 u)
    | none => .error .panic
  | _ => .error .panic

def Built.readBin (c : Coding α) (e : Endian) (b : Built) (buf : Bytes) : R (List α) :=
  match b.ty with
  | none => .error .panic
  | some t => b.offs.mapM (decScalarBin c e b.names.length t buf)

/-- decode the tokens of one ASCII line (builtAsciiVectorNPropertyReader.Read) -/
def Built.readAscii (c : Coding α) (b : Built) (toks : List Bytes) : R (List α) := do
  let vals ← b.offs.mapM (fun o =>
    match toks[o]? with
    | none => .error .panic
    | some t =>
      match c.parseF t with
      | none => .error .err
      | some v => .ok v)
  pure (if b.ty = some .uchar then vals.map (c.norm8 b.names.length) else vals)

/-- scalar properties of the vertex element; `none` if it contains a list property -/
def scalarProps : List PProp → Option (List (Bytes × SType))
  | [] => some []
  | .scalar n t :: rest => (scalarProps rest).map ((n, t) :: ·)
  | .list _ _ _ :: _ => none

/-- `n` chunks of `size` bytes; error if the input ends early -/
def takeChunks (size : Nat) : Nat → Bytes → R (List Bytes × Bytes)
  | 0, bs => .ok ([], bs)
  | n + 1, bs =>
    if bs.length < size then .error .err else do
      let (cs, rest) ← takeChunks size n (bs.drop size)
      pure (bs.take size :: cs, rest)

/-- a `listBinaryPropertyReader` / `listAsciiPropertyReader` for one list property of the face element -/
structure FaceScan where
  idxProp : Option Nat
  texProp : Option Nat

def findFaceProps (props : List (Bytes × SType × SType)) : FaceScan :=
  (props.zipIdx).foldl (fun s (p, i) =>
    let s := if p.1 = nm "vertex_index" ∨ p.1 = nm "vertex_indices" then { s with idxProp := some i } else s
    if p.1 = nm "texcoord" then { s with texProp := some i } else s) ⟨none, none⟩

def listProps : List PProp → Option (List (Bytes × SType × SType))
  | [] => some []
  | .list n c t :: rest => (listProps rest).map ((n, c, t) :: ·)
  | .scalar _ _ :: _ => none

/-- overwrite the first `src.length` entries of a fixed-size buffer -/
def overwrite {β : Type} (buf src : List β) : List β := src ++ buf.drop src.length

/-- buffers that persist across faces: `indicesBuf` (4), `texBuf` (8) -/
structure FaceBufs (α : Type) where
  idx : List Int
  tex : List α

/-- result of reading one face: fan triangles' indices and per-corner UVs appended -/
def emitFace (points : Int) (hasTex : Bool) (b : FaceBufs α) : R (List Int × List (List α)) :=
  if points < 3 ∨ points > 4 then .error .err else
  match b.idx, b.tex with
  | [i0, i1, i2, i3], [t0, t1, t2, t3, t4, t5, t6, t7] =>
    let idx := [i0, i1, i2] ++ (if points = 4 then [i0, i2, i3] else [])
    let uvs := if hasTex then
        [[t0, t1], [t2, t3], [t4, t5]] ++ (if points = 4 then [[t0, t1], [t4, t5], [t6, t7]] else [])
      else []
    .ok (idx, uvs)
  | _, _ => .error .panic

/-- binary: read one list property (count, payload) from the stream -/
def readListBin (e : Endian) (cnt item : SType) (bs : Bytes) : R (Int × Bytes × Bytes) := do
  let (count, rest) ← (match cnt with
    | .uchar =>
      match bs with
      | b :: rest => (.ok ((b.toNat : Int), rest) : R (Int × Bytes))
      | [] => .error .err
    | .uint | .int =>
      match get32 e bs with
      | some u => .ok (toInt32 u, bs.drop 4)
      | none => .error .err
    | _ => .error .err)
  if count < 0 then .error .panic else
  let size := count.toNat * item.size
  if rest.length < size then .error .err else
  pure (count, rest.take size, rest.drop size)

/-- `listBinaryPropertyReader.Int`: `none` = error (ignored by the caller, buffer unchanged) -/
def listIntsBin (e : Endian) (item : SType) (count : Nat) (payload : Bytes) (cap : Nat) : Option (List Int) :=
  if cap < count then none else
  match item with
  | .uint | .int => (List.range count).mapM (fun i => (get32 e (payload.drop (i * 4))).map toInt32)
  | _ => none

def listFloatsBin (c : Coding α) (e : Endian) (item : SType) (count : Nat) (payload : Bytes) (cap : Nat) : Option (List α) :=
  if cap < count then none else
  match item with
  | .float => (List.range count).mapM (fun i => (get32 e (payload.drop (i * 4))).map c.unf32)
  | .double => (List.range count).mapM (fun i => (get64 e (payload.drop (i * 8))).map c.unf64)
  | _ => none

/-- a failing `Int`/`Float64` in the binary face loop may have written a prefix of the buffer before the error;
only the unsupported-type case (fails before the first store) and the capacity case (fails before the loop)
exist, so the buffer is unchanged -/
def readFaceBin (c : Coding α) (e : Endian) (props : List (Bytes × SType × SType)) (fs : FaceScan)
    (bufs : FaceBufs α) (bs : Bytes) : R (Int × FaceBufs α × Bytes) :=
  let rec go : List ((Bytes × SType × SType) × Nat) → Int → FaceBufs α → Bytes → R (Int × FaceBufs α × Bytes)
    | [], points, bufs, bs => .ok (points, bufs, bs)
    | ((_, cnt, item), i) :: rest, points, bufs, bs => do
      let (count, payload, bs') ← readListBin e cnt item bs
      let (points, bufs) :=
        if fs.idxProp = some i then
          (count, match listIntsBin e item count.toNat payload 4 with
            | some xs => { bufs with idx := overwrite bufs.idx xs }
            | none => bufs)
        else (points, bufs)
      let bufs :=
        if fs.texProp = some i then
          match listFloatsBin c e item count.toNat payload 8 with
          | some xs => { bufs with tex := overwrite bufs.tex xs }
          | none => bufs
        else bufs
      go rest points bufs bs'
  go props.zipIdx (-1) bufs bs

/-- ASCII: one face line -/
def readFaceAscii (c : Coding α) (props : List (Bytes × SType × SType)) (fs : FaceScan)
    (bufs : FaceBufs α) (toks : List Bytes) : R (Int × FaceBufs α) :=
  let rec go : List ((Bytes × SType × SType) × Nat) → Int → FaceBufs α → List Bytes → R (Int × FaceBufs α)
    | [], points, bufs, _ => .ok (points, bufs)
    | (_, i) :: rest, points, bufs, toks =>
      match toks with
      | [] => .error .err            -- "missing its count" (reader_list_ascii.go:17-19)
      | t0 :: more =>
        match parseInt32 t0 with
        | none => .error .err
        | some count =>
          if count < 0 then .error .err
          else if more.length < count.toNat then .error .err     -- "declares n entries but only k are present"
          else
            let items := more.take count.toNat
            let r1 : R (Int × FaceBufs α) :=
              if fs.idxProp = some i then
                if 4 < count.toNat then .error .err else
                match items.mapM parseInt32 with
                | none => .error .err
                | some xs => .ok (count, { bufs with idx := overwrite bufs.idx xs })
              else .ok (points, bufs)
            match r1 with
            | .error e => .error e
            | .ok (points, bufs) =>
              let r2 : R (FaceBufs α) :=
                if fs.texProp = some i then
                  if 8 < count.toNat then .error .err else
                  match items.mapM c.parseF64 with
                  | none => .error .err
                  | some xs => .ok { bufs with tex := overwrite bufs.tex xs }
                else .ok bufs
              match r2 with
              | .error e => .error e
              | .ok bufs => go rest points bufs (more.drop count.toNat)
  go props.zipIdx (-1) bufs toks

/-- the face loop of `readBinaryFaceElement` -/
def readFacesBin (c : Coding α) (e : Endian) (props : List (Bytes × SType × SType)) (fs : FaceScan) :
    Nat → FaceBufs α → Bytes → R (List Int × List (List α))
  | 0, _, _ => .ok ([], [])
  | n + 1, bufs, bs => do
    let (points, bufs', rest) ← readFaceBin c e props fs bufs bs
    let (idx, uvs) ← emitFace points fs.texProp.isSome bufs'
    let (idxs, uvss) ← readFacesBin c e props fs n bufs' rest
    pure (idx ++ idxs, uvs ++ uvss)

/-- the face loop of `readAsciiFaceElement` over the non-empty lines -/
def readFacesAscii (c : Coding α) (props : List (Bytes × SType × SType)) (fs : FaceScan) :
    Nat → FaceBufs α → List Bytes → R (List Int × List (List α))
  | 0, _, _ => .ok ([], [])
  | _ + 1, _, [] => .error .err
  | n + 1, bufs, l :: ls => do
    let (points, bufs') ← readFaceAscii c props fs bufs (fields l)
    let (idx, uvs) ← emitFace points fs.texProp.isSome bufs'
    let (idxs, uvss) ← readFacesAscii c props fs n bufs' ls
    pure (idx ++ idxs, uvs ++ uvss)

/-- `bufio.ScanLines`: split at LF, drop one trailing CR, no final empty line -/
def dropCR (l : Bytes) : Bytes := match l.reverse with | 13 :: r => r.reverse | _ => l

def scanLines (bs : Bytes) : List Bytes :=
  let rec go : Bytes → Bytes → List Bytes
    | [], cur => if cur.isEmpty then [] else [dropCR cur.reverse]
    | b :: rest, cur => if b = 10 then dropCR cur.reverse :: go rest [] else go rest (b :: cur)
  go bs []

/-- vertex loop, binary: one record of `total` bytes per vertex, every built reader decodes its components -/
def readVertsBin (c : Coding α) (e : Endian) (total : Nat) (built : List Built) :
    Nat → Bytes → R (List (List (List α)) × Bytes)
  | 0, bs => .ok ([], bs)
  | n + 1, bs =>
    if bs.length < total then .error .err else do
      let row ← built.mapM (fun b => b.readBin c e (bs.take total))
      let (rows, rest) ← readVertsBin c e total built n (bs.drop total)
      pure (row :: rows, rest)

/-- vertex loop, ASCII, over the non-empty lines -/
def readVertsAscii (c : Coding α) (nprops : Nat) (built : List Built) :
    Nat → List Bytes → R (List (List (List α)) × List Bytes)
  | 0, ls => .ok ([], ls)
  | _ + 1, [] => .error .err
  | n + 1, l :: ls =>
    if (fields l).length < nprops then .error .err else do     -- "vertex i has k of n properties" (reader.go:458-460)
      let row ← built.mapM (fun b => b.readAscii c (fields l))
      let (rows, rest) ← readVertsAscii c nprops built n ls
      pure (row :: rows, rest)

structure ReaderCfg where
  attributeElement : Bytes
  props : List RProp
  loadUnspecified : Bool
  deriving Repr, Inhabited

def defaultReader : ReaderCfg := ⟨nm "vertex", defaultReaders, true⟩

/-- last element with the given name (the `for … range header.Elements` loop keeps the last match) -/
def findElement (h : Header) (name : Bytes) : Option Element :=
  (h.elements.reverse).find? (fun e => e.name = name)

/-- `UpdateMesh` of every built reader in order: column `j` of the rows becomes attribute `built[j]` -/
def applyColumns (m : MeshVal α) (built : List Built) (rows : List (List (List α))) : MeshVal α :=
  (built.zipIdx).foldl (fun acc (b, j) => acc.set b.names.length b.attr (rows.map (fun r => r.getD j []))) m

/-- `MeshReader.Read` after the header has been parsed -/
def readBody (c : Coding α) (cfg : ReaderCfg) (hdr : Header) (body : Bytes) : R (MeshVal α) :=
  match findElement hdr cfg.attributeElement with
  | none => .error .err
  | some ve =>
    match scalarProps ve.props with
    | none => .error .err
    | some props =>
      let fe := findElement hdr (nm "face")
      let binary := hdr.format ≠ .ascii
      let built := buildAll binary props cfg.props cfg.loadUnspecified
      if ve.count < 0 ∧ (fe.isNone ∨ ¬ built.isEmpty) then .error .panic else
      let nv := ve.count.toNat
      let total := (props.map (fun p => p.2.size)).sum
      let bufs0 : FaceBufs α := ⟨[0, 0, 0, 0], List.replicate 8 (c.ofInt 0)⟩
      let faceSetup : R (Option (List (Bytes × SType × SType) × FaceScan × Nat)) :=
        match fe with
        | none => .ok none
        | some f =>
          match listProps f.props with
          | none => .error .err
          | some lp =>
            let fs := findFaceProps lp
            if fs.idxProp.isNone then .error .err else .ok (some (lp, fs, f.count.toNat))
      do
        let (rows, idxUv) ← (match hdr.format with
          | .ascii => do
            let lines := (scanLines body).filter (fun l => ¬ l.isEmpty)
            let (rows, rest) ← readVertsAscii c props.length built nv lines
            match ← faceSetup with
            | none => pure (rows, none)
            | some (lp, fs, nf) => do
              let r ← readFacesAscii c lp fs nf bufs0 rest
              pure (rows, some r)
          | f => do
            let (rows, rest) ← readVertsBin c f.endian total built nv body
            match ← faceSetup with
            | none => pure (rows, none)
            | some (lp, fs, nf) => do
              let r ← readFacesBin c f.endian lp fs nf bufs0 rest
              pure (rows, some r) : R (List (List (List α)) × Option (List Int × List (List α))))
        let (topo, indices, uvs) := match idxUv with
          | none => (Topo.point, (List.range nv).map Int.ofNat, ([] : List (List α)))
          | some (idx, uvs) => (Topo.triangle, idx, uvs)
        let mesh := applyColumns ⟨topo, indices, [], none⟩ built rows
        if 0 < uvs.length ∧ uvs.length = indices.length then do   -- reader.go:545
          let u ← unweld mesh
          pure (u.set 2 texCoordAttr uvs)
        else pure mesh

/-- `MeshReader.Read` -/
def readMesh (c : Coding α) (cfg : ReaderCfg) (bs : Bytes) : R (MeshVal α) := do
  let (hdr, body) ← parseHeader bs
  readBody c cfg hdr body

/-! ## The decidable predicates the property theorems are stated about (also evaluated by the driver on the
implementation's own output: oracle lines) -/

/-- what a scalar written with type `t` in format `f` reads back as: decode ∘ encode of the stored field.
`none` = the type is not implemented by the writer or the reader. -/
def quant (c : Coding α) (f : Format) (dim : Nat) (t : SType) (v : α) : Option α :=
  match f with
  | .ascii =>
    match encScalarAscii c t v with
    | .ok tok => (c.parseF tok).map (fun x => if t = .uchar then c.norm8 dim x else x)
    | .error _ => none
  | f =>
    match encScalarBin c f.endian t v with
    | .ok bs => (decScalarBin c f.endian dim t bs 0).toOption
    | .error _ => none

/-- a per-corner texture coordinate (face element, `float` list) read back -/
def quantUV (c : Coding α) (f : Format) (v : α) : Option α :=
  match f with
  | .ascii => c.parseF64 (c.showF v)
  | _ => some (c.unf32 (c.f32 v))

/-- the value of attribute `(dim, name)` at every primitive corner; `none` if the attribute is missing (and there
is at least one corner) or an index is out of range -/
def cornerVals (m : MeshVal α) (dim : Nat) (name : Bytes) : Option (List (List α)) :=
  if m.indices.isEmpty then some [] else
  match m.find dim name with
  | none => none
  | some a => (gather a.data m.indices).toOption

def primCount (m : MeshVal α) : Nat :=
  match m.topo with
  | .point => m.indices.length
  | .triangle => m.indices.length / 3

/-- PLY property names some default reader claims -/
def reservedNames : List Bytes := (defaultReaders.map (·.names)).flatten

/-- the default reader maps the names a writer emits back to the writer's attribute, with the same dimension -/
def comesBack (w : WProp) : Bool :=
  defaultReaders.any (fun r => r.attr = w.attr ∧ (r.names = w.names ∨ (r.ignorableW ∧ r.names.take 3 = w.names)))
  || (w.names = [w.attr] && !reservedNames.contains w.attr)

/-- well-formed mesh: distinct attribute keys, dimensions 1..4, one array length, every item has `dim` components,
indices in range, index count fits the topology -/
def MeshVal.WF (m : MeshVal α) : Bool :=
  let n := m.attrLen
  (m.attrs.map (fun a => (a.dim, a.name))).Nodup
  && m.attrs.all (fun a => 1 ≤ a.dim && a.dim ≤ 4 && a.data.length = n && !a.data.isEmpty && a.data.all (fun x => x.length = a.dim))
  && m.indices.all (fun i => 0 ≤ i && i < n)
  && (m.topo = .point || m.indices.length % 3 = 0)

/-- `RoundTrips c cfg m back`: `back` has the topology and primitive count of `m`, and at every primitive corner every
attribute the configuration writes under names the reader recognises carries the stored-precision image of the
original value; with `TexCoord` on a triangle mesh the per-corner UVs of the face element come back (they replace what a
vertex-level `s t` writer may have stored, reader.go:542-546). -/
def RoundTrips [BEq α] (c : Coding α) (cfg : WriterCfg) (m back : MeshVal α) : Bool :=
  decide (back.topo = m.topo) && decide (primCount back = primCount m) &&
  ((selectWriters cfg m).filter (fun w => comesBack w && !(m.topo = .triangle && w.dim = 2 && w.attr = texCoordAttr))).all (fun w =>
    match cornerVals m w.dim w.attr, cornerVals back w.dim w.attr with
    | some orig, some got => (orig.mapM (fun comps => comps.mapM (quant c cfg.format w.dim w.ty))) == some got
    | _, _ => false) &&
  (if m.topo = .triangle && hasTexCoord m then
    match cornerVals m 2 texCoordAttr, cornerVals back 2 texCoordAttr with
    | some orig, some got => (orig.mapM (fun comps => comps.mapM (quantUV c cfg.format))) == some got
    | _, _ => false
   else true)

/-- canonical order of attributes (maps have no order): by dimension, then name -/
def attrLe (a b : Attr α) : Bool := a.dim < b.dim || (a.dim = b.dim && !bytesLt b.name a.name)

def insertAttr (x : Attr α) : List (Attr α) → List (Attr α)
  | [] => [x]
  | y :: ys => if attrLe y x then y :: insertAttr x ys else x :: y :: ys

def MeshVal.canon (m : MeshVal α) : MeshVal α := { m with attrs := m.attrs.foldr insertAttr [] }

/-- `HeaderDescribes bytes nv nf`: the header of a written file parses, declares `nv` vertices (and `nf` faces when a
face element is present) and, for the binary formats, the body that follows has exactly
`nv · Σ size(vertex props) + nf · faceSize` bytes, where `faceSize` is what the declared list properties occupy
for a triangle: count field + 3 indices (+ count field + 6 texcoords). -/
def faceSizeTri (lp : List (Bytes × SType × SType)) : Nat :=
  (lp.map (fun (n, c, t) => c.size + (if n = nm "texcoord" then 6 else 3) * t.size)).sum

/-- ASCII body of a written file: as many non-empty lines as records (vertex records of an element without properties
are empty, hence invisible), the first `nv` of them holding exactly one token per vertex property, every face line
holding `1 + 3` (+ `1 + 6`) tokens -/
def asciiBodyDescribed (body : Bytes) (nprops nv nf : Nat) (faceToks : Nat) : Bool :=
  let lines := (scanLines body).filter (fun l => !l.isEmpty)
  let nvLines := if nprops = 0 then 0 else nv
  lines.length = nvLines + nf &&
  (lines.take nvLines).all (fun l => (fields l).length = nprops) &&
  (lines.drop nvLines).all (fun l => (fields l).length = faceToks)

def faceToksTri (lp : List (Bytes × SType × SType)) : Nat :=
  (lp.map (fun (n, _, _) => 1 + (if n = nm "texcoord" then 6 else 3))).sum

def HeaderDescribes (bytes : Bytes) (nv nf : Nat) (tri : Bool) : Bool :=
  match parseHeader bytes with
  | .error _ => false
  | .ok (hdr, body) =>
    match findElement hdr (nm "vertex") with
    | none => false
    | some ve =>
      ve.count = nv &&
      (match scalarProps ve.props with
       | none => false
       | some props =>
         let vsize := (props.map (fun p => p.2.size)).sum
         match findElement hdr (nm "face") with
         | none =>
           !tri && (if hdr.format = .ascii then asciiBodyDescribed body props.length nv 0 0
                    else body.length = nv * vsize)
         | some fe =>
           tri && fe.count = nf &&
           (match listProps fe.props with
            | none => false
            | some lp =>
              if hdr.format = .ascii then asciiBodyDescribed body props.length nv nf (faceToksTri lp)
              else body.length = nv * vsize + nf * faceSizeTri lp))

end Ply
end PolyVerif
