/-
  C06 (round 2) — the bytes-free part of `valid`, for payloads that are too large to cross the pipe: the buffer views tile
  [0, byteLength) back to back and accessor k reads view k and fills it exactly (`Inv.tiles`, `Inv.own`, `accOK`'s length
  clause).  `Props/C06DocMode.lean` proves it of every accepted well-formed scene (`gltf_shape_ok`); the driver evaluates it
  on the implementation's document in `c06.holds.bigtext`, together with summaries of the payload.  Core Lean only.
-/
import PolyVerif.Model.GltfSpec

namespace PolyVerif
namespace Gltf

def viewsTile : Nat → List View → Nat → Bool
  | o, [], e => o == e
  | o, v :: r, e => v.off == o && viewsTile (o + v.len) r e

def shapeOK (d : Doc) : Bool :=
  viewsTile 0 d.views (d.bufLen.getD 0)
  && d.accessors.length == d.views.length
  && (List.range d.accessors.length).all (fun k => match d.accessors[k]?, d.views[k]? with
      | some a, some v => a.view == k && a.byteLen == v.len
      | _, _ => false)

/-- summaries of a large payload: strict base64 verdict, declared / text-decoded / BIN-chunk / expected lengths and hashes,
    the reader's min/max/count verdict, text and binary document summaries equal -/
structure PayloadSummary where
  b64ok : Bool
  declared : Nat
  textLen : Nat
  textHash : String
  glbLen : Nat
  glbHash : String
  expLen : Nat
  expHash : String
  boundsOK : Bool
  sameDoc : Bool

def bigTextOK (d : Doc) (p : PayloadSummary) : Bool :=
  shapeOK d && d.bufLen == some p.declared && p.b64ok
  && p.textLen == p.declared && p.glbLen == p.declared && p.expLen == p.declared
  && p.textHash == p.expHash && p.glbHash == p.expHash && p.boundsOK && p.sameDoc

end Gltf
end PolyVerif
