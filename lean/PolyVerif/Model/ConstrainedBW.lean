/-
  The part of `triangulation.ConstrainedBowyerWatson` (bowyer_watson.go:255-365) that decides well-formedness,
  abstractly (core Lean only).  The function starts from `bowyerWatson(points)` (indices < n, C20), deletes
  triangles, and for every triangle cut by a constraint edge in exactly two places APPENDS two points to the point
  list and records one or two new triangles (`trisToAdd`):
    one corner inside (lines 303-316):  points += 2;  tri = {pc, len-1, len-2}  or, if that is counter-clockwise, {pc, len-2, len-1}
    two corners inside (lines 317-340): points += 2;  tris = {km1, len-2, kp1}, {len-2, len-1, kp1}
  where pc / km1 / kp1 are corners of the cut triangle.  Which triangles are cut, where, and the winding test are
  geometry: parameters here (`Clip` events in any order).  The mesh has one vertex per point of the FINAL point list.
-/
namespace PolyVerif.CBW

abbrev Tri := Nat × Nat × Nat

inductive Clip where
  | one (pc : Nat) (ccw : Bool)
  | two (km1 kp1 : Nat)

structure State where
  pts : Nat
  added : List Tri

def applyClip (s : State) : Clip → State
  | .one pc ccw => ⟨s.pts + 2, (if ccw then (pc, s.pts, s.pts + 1) else (pc, s.pts + 1, s.pts)) :: s.added⟩
  | .two km1 kp1 => ⟨s.pts + 2, (km1, s.pts, kp1) :: (s.pts, s.pts + 1, kp1) :: s.added⟩

def run (n : Nat) (clips : List Clip) : State := clips.foldl applyClip ⟨n, []⟩

/-- the corner indices a clip event takes from the cut triangle -/
def Clip.corners : Clip → List Nat
  | .one pc _ => [pc]
  | .two a b => [a, b]

end PolyVerif.CBW
