/-
  Pure models of the mesh operations of /repo `modeling/mesh.go` and `modeling/meshops/*.go`
  over `MeshVal α` (core Lean only).  Layout operations are polymorphic in the payload `α`.

  Conventions
  * An operation that the Go code *rejects* on a well-formed mesh (wrong topology, missing
    attribute, material ranges that run out) returns `none` (Go: error / panic with a message).
  * Reads `d[i]` that Go would panic on (index out of range) can only happen on meshes that are
    not `WF`; the models stay total there by reading through `d[i]?` (the value is skipped).
    All property theorems are about `WF` inputs, which is what C02/C03 quantify over.
-/
import PolyVerif.Model.Mesh

namespace PolyVerif.Mesh
variable {α : Type}

/-! ### helpers -/

/-- `[d[i] | i ∈ idx]` (Go: `data.At(indices.At(i))` in a loop) -/
def gather (d : List α) (idx : List Nat) : List α := idx.filterMap fun i => d[i]?

def mapAttrs (f : List α → List α) (as : Attrs α) : Attrs α := as.map fun kd => (kd.1, f kd.2)

/-- keep `d[i]` where `u[i]` (Go: `if used[i] { out = append(out, data.At(i)) }`) -/
def compact (u : List Bool) (d : List α) : List α :=
  (d.zip u).filterMap fun xb => if xb.2 then some xb.1 else none

/-- `shiftBy[i]`: number of dropped entries among positions `0..i` (inclusive) -/
def skipped (u : List Bool) (i : Nat) : Nat := (u.take (i + 1)).countP (fun b => !b)

/-- `used[]` of remove_unreferenced_vertices.go:40-43 -/
def usedFlags (n : Nat) (idx : List Nat) : List Bool := (List.range n).map fun v => idx.contains v

namespace MeshVal

/-! ### setters (mesh.go:192-202, 284-294, 1029-1194) -/

def setIndices (m : MeshVal α) (idx : List Nat) : MeshVal α := { m with indices := idx }
def setMaterials (m : MeshVal α) (ms : List MatRange) : MeshVal α := { m with materials := ms }

/-- `SetMaterial`: one range covering `len(indices) / IndexSize` primitives -/
def setMaterial (m : MeshVal α) (mat : Nat) : MeshVal α :=
  { m with materials := [⟨m.indices.length / m.topology.indexSize, mat⟩] }

/-- `SetFloatNAttribute(attr, data)`: copy the map, replace/insert one key, and *delete* the key
    when `data` is empty (mesh.go:1068-1088). -/
def setAttr (m : MeshVal α) (k : AttrKey) (data : List α) : MeshVal α :=
  { m with attrs :=
      if data.isEmpty then m.attrs.filter (fun kd => kd.1 != k)
      else if m.hasAttr k then m.attrs.map (fun kd => if kd.1 == k then (k, data) else kd)
      else m.attrs ++ [(k, data)] }

/-- `ClearAttributeData` (mesh.go:1196): all four maps dropped, indices kept. A caller-checked builder: the
    result is well-formed only when there is no index (theorem `clearAttrs_wf`). -/
def clearAttrs (m : MeshVal α) : MeshVal α := { m with attrs := [] }

/-- `SetFloatNData(data)` (mesh.go:1051, 1090, 1145, 1184): the whole map of width `w` is replaced by the
    caller's map (nothing is checked or stripped). Caller-checked builder: see `setData_wf`. -/
def setData (m : MeshVal α) (w : Nat) (new : Attrs α) : MeshVal α :=
  { m with attrs := (m.attrs.filter fun kd => kd.1.width != w) ++ new }

/-- `ModifyFloatNAttribute` and every per-element transform: requires the attribute, replaces it by `f data`. -/
def modifyAttr (m : MeshVal α) (k : AttrKey) (f : List α → List α) : Option (MeshVal α) :=
  match m.attr? k with
  | none => none
  | some d => some (m.setAttr k (f d))

/-- element-wise transform (`Translate`, `Scale`, `Rotate`, `ApplyTRS`, `TranslateAttribute3D`, …) -/
def mapAttr (m : MeshVal α) (k : AttrKey) (φ : α → α) : Option (MeshVal α) :=
  m.modifyAttr k (List.map φ)

/-! ### ToPointCloud (mesh.go:171-190) -/

def toPointCloud (m : MeshVal α) : MeshVal α :=
  if m.topology = .point then m
  else { m with indices := List.range m.attrLen, topology := .point }

/-! ### Unweld (meshops/unweld.go) -/

def unweld (m : MeshVal α) : MeshVal α :=
  { topology := m.topology
    indices := List.range m.indices.length
    materials := m.materials
    attrs := mapAttrs (fun d => gather d m.indices) m.attrs }

/-! ### RemovedUnreferencedVertices (meshops/remove_unreferenced_vertices.go) -/

/-- the part shared with weld: drop vertices whose flag is false and shift the indices down
    (`finalIndices[i] = idx[i] - shiftBy[idx[i]]`). -/
def compactVertices (m : MeshVal α) (u : List Bool) : MeshVal α :=
  { topology := m.topology
    indices := m.indices.map fun i => i - skipped u i
    materials := m.materials
    attrs := mapAttrs (compact u) m.attrs }

/-- `removedUnreferenced` skips attributes that end up empty (line 29) -/
def stripEmpty (m : MeshVal α) : MeshVal α :=
  { m with attrs := m.attrs.filter fun kd => !kd.2.isEmpty }

def removeUnreferenced (m : MeshVal α) : MeshVal α :=
  (m.compactVertices (usedFlags m.attrLen m.indices)).stripEmpty

/-! ### FlipTriangleWinding (meshops/flip_winding.go): (a,b,c) ↦ (b,a,c) -/

def flipIdx (idx : List Nat) : List Nat :=
  untriples ((triples idx).map fun t => (t.2.1, t.1, t.2.2))

def flip (m : MeshVal α) : Option (MeshVal α) :=
  if m.topology = .triangle then some (m.setIndices (flipIdx m.indices)) else none

/-! ### Append (mesh.go:325-385) -/

/-- `zero w` is Go's `nilVal()` for the map of width `w` -/
def appendAttrs (zero : Nat → α) (a b : Attrs α) (la lb : Nat) : Attrs α :=
  (a.map fun kd => (kd.1, kd.2 ++ (match b.find? kd.1 with
                                    | some db => db
                                    | none => List.replicate lb (zero kd.1.width)))) ++
  ((b.filter fun kd => !(a.find? kd.1).isSome).map fun kd =>
      (kd.1, List.replicate la (zero kd.1.width) ++ kd.2))

def append (zero : Nat → α) (a b : MeshVal α) : Option (MeshVal α) :=
  if a.topology = b.topology then
    some { topology := a.topology
           indices := a.indices ++ b.indices.map (· + a.attrLen)
           materials := a.materials ++ b.materials
           attrs := appendAttrs zero a.attrs b.attrs a.attrLen b.attrLen }
  else none

/-- `repeat.Mesh` (modeling/repeat/repeat.go): fold of `Append ∘ ApplyTRS` from the empty mesh;
    `ts` are the per-copy position maps. `none` when the mesh has no position attribute (`ApplyTRS` panics). -/
def repeatMesh (zero : Nat → α) (pos : AttrKey) (m : MeshVal α) (ts : List (α → α)) : Option (MeshVal α) :=
  ts.foldl (fun acc φ => do
    let r ← acc
    let c ← m.mapAttr pos φ
    append zero r c) (some (MeshVal.empty m.topology))

/-! ### Attribute filters (meshops/filter_attribute.go) -/

/-- `FilterFloatN(m, attr, pred)`: point clouds only (any other topology is rejected: filtering
    single index entries would tear multi-index primitives apart); keep the index entries whose
    vertex passes, then remove unreferenced vertices. -/
def filterAttr (m : MeshVal α) (k : AttrKey) (p : α → Bool) : Option (MeshVal α) :=
  if m.topology = .point then
    match m.attr? k with
    | none => none
    | some d =>
      let keep := fun i => match d[i]? with | some x => p x | none => false
      some (m.setIndices (m.indices.filter keep)).removeUnreferenced
  else none

/-- the filters as they were before /repo commit fc6738f (no topology requirement); kept only to
    state the defect that commit repaired (`Props/C02.lean: filterAttrOld_breaks_triangles`). -/
def filterAttrOld (m : MeshVal α) (k : AttrKey) (p : α → Bool) : Option (MeshVal α) :=
  match m.attr? k with
  | none => none
  | some d =>
    let keep := fun i => match d[i]? with | some x => p x | none => false
    some (m.setIndices (m.indices.filter keep)).removeUnreferenced

/-! ### CropFloat3Attribute (meshops/crop_transformer.go) -/

/-- point clouds only; walks the *vertex* arrays (the incoming indices are not consulted),
    keeps vertices with `inside`, rebuilds an identity-indexed cloud via `NewPointCloud`
    (which strips empty attribute arrays). -/
def crop (m : MeshVal α) (k : AttrKey) (inside : α → Bool) : Option (MeshVal α) :=
  if m.topology = .point then
    match m.attr? k with
    | none => none
    | some d =>
      let u := d.map inside
      let r : MeshVal α := stripEmpty { topology := .point, indices := [], materials := m.materials,
                                        attrs := mapAttrs (compact u) m.attrs }
      some { r with indices := List.range r.attrLen }
  else none

/-! ### RemoveNullFaces3D (meshops/remove_null_faces_transformer.go) -/

/-- `keep a b c` is `!IsNaN(area) && area > minArea` for the triangle on vertices `a b c`. -/
def removeNullFaces (m : MeshVal α) (k : AttrKey) (keep : Nat → Nat → Nat → Bool) : Option (MeshVal α) :=
  if m.topology = .triangle ∧ m.hasAttr k then
    let kept := (triples m.indices).filter fun t => keep t.1 t.2.1 t.2.2
    if kept.length * 3 = m.indices.length then some m
    else some (m.setIndices (untriples kept)).removeUnreferenced
  else none

/-! ### SplitOnUniqueMaterials (meshops/split_on_materials.go) -/

/-- the `for originalMaterials[cur].PrimitiveCount+trisFromOtherMats <= tri` loop: skip every
    exhausted range; `none` = ran past the last range (Go: index out of range panic). State is the
    list of ranges from `cur` on and `trisFromOtherMats`. -/
def advanceMat : List MatRange → Nat → Nat → Option (List MatRange × Nat)
  | [], _, _ => none
  | r :: rs, other, tri =>
    if r.count + other ≤ tri then advanceMat rs (other + r.count) tri else some (r :: rs, other)

/-- add a triangle to the working mesh of material `mat` (insertion order kept) -/
def addToPart (parts : List (Nat × List Nat)) (mat : Nat) (t : Nat × Nat × Nat) : List (Nat × List Nat) :=
  if parts.any (fun p => p.1 == mat) then
    parts.map fun p => if p.1 == mat then (p.1, p.2 ++ [t.1, t.2.1, t.2.2]) else p
  else parts ++ [(mat, [t.1, t.2.1, t.2.2])]

def splitLoop : List (Nat × Nat × Nat) → Nat → List MatRange → Nat → List (Nat × List Nat) →
    Option (List (Nat × List Nat))
  | [], _, _, _, parts => some parts
  | t :: ts, tri, rest, other, parts =>
    match advanceMat rest other tri with
    | none => none
    | some (rest', other') =>
      match rest' with
      | [] => none
      | r :: _ => splitLoop ts (tri + 1) rest' other' (addToPart parts r.mat t)

def splitOnMaterials (m : MeshVal α) : Option (List (MeshVal α)) :=
  match m.materials with
  | [] | [_] => some [m]
  | r0 :: _ =>
    if m.topology = .triangle then
      (splitLoop (triples m.indices) 0 m.materials 0 [(r0.mat, [])]).map fun parts =>
        parts.map fun p => ((m.setIndices p.2).setMaterial p.1).removeUnreferenced
    else none

/-! ### WeldByFloat3Attribute (mesh.go:861-978) -/

section weld
variable {K : Type} [DecidableEq K]

/-- one entry per distinct key, in order of first appearance, with the index of that first vertex
    (`vertILU` / `vertIToOriginalLU`) -/
def firstsAux (key : α → K) : List α → Nat → List (K × Nat) → List (K × Nat)
  | [], _, acc => acc
  | x :: xs, i, acc =>
    if acc.any (fun c => c.1 == key x) then firstsAux key xs (i + 1) acc
    else firstsAux key xs (i + 1) (acc ++ [(key x, i)])

def firsts (key : α → K) (d : List α) : List (K × Nat) := firstsAux key d 0 []

def classOf (cls : List (K × Nat)) (k : K) : Option Nat := cls.findIdx? fun c => c.1 == k

/-- the class triple of a triangle, `none` when two corners share a key (triangle dropped) -/
def weldTri (key : α → K) (d : List α) (cls : List (K × Nat)) (t : Nat × Nat × Nat) : Option (Nat × Nat × Nat) :=
  match d[t.1]?, d[t.2.1]?, d[t.2.2]? with
  | some x, some y, some z =>
    let kx := key x; let ky := key y; let kz := key z
    if kx = ky ∨ kx = kz ∨ ky = kz then none
    else match classOf cls kx, classOf cls ky, classOf cls kz with
      | some a, some b, some c => some (a, b, c)
      | _, _, _ => none
  | _, _, _ => none

/-- `key` is `Vector3ToInt(·, decimalPlace)`; attribute `k` must exist and topology be triangle -/
def weld (m : MeshVal α) (k : AttrKey) (key : α → K) : Option (MeshVal α) :=
  if m.topology = .triangle then
    match m.attr? k with
    | none => none
    | some d =>
      let cls := firsts key d
      let newTris := untriples ((triples m.indices).filterMap (weldTri key d cls))
      let reps := cls.map (·.2)
      let m' : MeshVal α := { topology := m.topology, indices := newTris, materials := [],
                              attrs := mapAttrs (fun vals => gather vals reps) m.attrs }
      some (m'.compactVertices (usedFlags cls.length newTris))
  else none

/-- the welded index list expressed in the *input's* vertex numbering: every corner of a
    surviving triangle re-pointed at the representative (first vertex) of its key class -/
def weldRepIdx (key : α → K) (d : List α) (idx : List Nat) : List Nat :=
  let cls := firsts key d
  (untriples ((triples idx).filterMap (weldTri key d cls))).filterMap fun c => (cls.map (·.2))[c]?

end weld

end MeshVal
end PolyVerif.Mesh
