/-
  C20 — model of /repo/modeling/triangulation/bowyer_watson.go  (core Lean only).

  Everything that computes on coordinates is polymorphic in the number type `α`
  and only uses the core operator classes (`+ - * /`, `<`, `0`, `Nat` literals
  through `NatCast`).  The same definitions are therefore
    * executed by the driver in EXACT arithmetic: at `Int` (all float64
      coordinates of one case scaled to a common power of two — the predicates
      are homogeneous polynomials, see `orient_smul`/`inCircleDet_smul` in
      Props/C20) for the oracle checkers, and at core `Rat` for the
      Bowyer–Watson algorithm itself, and
    * reasoned about over an arbitrary ordered commutative ring / ordered field
      in `PolyVerif/Props/C20.lean`.

  Points are looked up through a total function `P : Nat → Pt α`
  (the Go slice `points`, i.e. the input points followed by the three
  super-triangle vertices); theorems quantify over every `P`.
  The Go `map[Triangle]struct{}` is a duplicate-free `List Tri`; wherever Go
  ranges over the map, the model first applies an arbitrary enumeration
  `env : List Tri → List Tri` supplied by the environment (the driver uses `id`).
-/
namespace PolyVerif
namespace Delaunay

abbrev Pt (α : Type) := α × α
/-- `Triangle [3]int` -/
abbrev Tri := Nat × Nat × Nat
/-- `Edge [2]int` -/
abbrev Edge := Nat × Nat

/-! ### predicates (bowyer_watson.go:28-33, 56-88) -/
section Pred
variable {α : Type} [Add α] [Sub α] [Mul α]

/-- the expression of `Triangle.CounterClockwise` / `ccw` -/
def orient (a b c : Pt α) : α :=
  (b.1 - a.1) * (c.2 - a.2) - (c.1 - a.1) * (b.2 - a.2)

/-- the expression `det` of `Triangle.InsideCircumcircle`, same operation order -/
def inCircleDet (a b c p : Pt α) : α :=
  let ax := a.1 - p.1
  let ay := a.2 - p.2
  let bx := b.1 - p.1
  let by' := b.2 - p.2
  let cx := c.1 - p.1
  let cy := c.2 - p.2
  ((ax * ax + ay * ay) * (bx * cy - cx * by') -
    (bx * bx + by' * by') * (ax * cy - cx * ay) +
    (cx * cx + cy * cy) * (ax * by' - bx * ay))

variable [Zero α] [LT α] [DecidableLT α]

/-- `t.CounterClockwise(points)` : `orient > 0` -/
def ccw (P : Nat → Pt α) (t : Tri) : Bool :=
  decide (0 < orient (P t.1) (P t.2.1) (P t.2.2))

/-- `t.InsideCircumcircle(p, points)` : `det < 0` -/
def insideCirc (P : Nat → Pt α) (t : Tri) (p : Pt α) : Bool :=
  decide (inCircleDet (P t.1) (P t.2.1) (P t.2.2) p < 0)

end Pred

/-! ### the algorithm (bowyer_watson.go:141-262) -/

/-- `Triangle.Edges` -/
def edges (t : Tri) : List Edge := [(t.1, t.2.1), (t.2.1, t.2.2), (t.2.2, t.1)]

/-- the two nested `if`s of the hole-boundary loop: same edge in either direction -/
def edgeSame (e f : Edge) : Bool :=
  (e.1 == f.1 && e.2 == f.2) || (e.1 == f.2 && e.2 == f.1)

/-- `!notShared` for edge `e` of the bad triangle at position `ti` -/
def sharedWithOther (bad : List Tri) (ti : Nat) (e : Edge) : Bool :=
  bad.zipIdx.any (fun (o, oti) => ti != oti && (edges o).any (fun f => edgeSame e f))

/-- `polygon`: the edges of bad triangles not shared with another bad triangle -/
def polygon (bad : List Tri) : List Edge :=
  bad.zipIdx.flatMap (fun (t, ti) => (edges t).filter (fun e => !sharedWithOther bad ti e))

/-- `triangulation[t] = exists` -/
def insertTri (t : Tri) (tris : List Tri) : List Tri :=
  if tris.contains t then tris else tris ++ [t]

/-- the triangle `fillHole` adds for boundary edge `e` and new point `pi` -/
def fanTri {α : Type} [Add α] [Sub α] [Mul α] [Zero α] [LT α] [DecidableLT α]
    (P : Nat → Pt α) (e : Edge) (pi : Nat) : Tri :=
  if ccw P (e.1, e.2, pi) then (e.1, pi, e.2) else (e.1, e.2, pi)

section Alg
variable {α : Type} [Add α] [Sub α] [Mul α] [Zero α] [LT α] [DecidableLT α]

/-- `fillHole` -/
def fillHole (P : Nat → Pt α) (poly : List Edge) (pi : Nat) (tris : List Tri) : List Tri :=
  poly.foldl (fun acc e => if e.1 == pi || e.2 == pi then acc else insertTri (fanTri P e pi) acc) tris

/-- the bad triangles for point `pi` (enumerated in map order `env tris`) -/
def badTris (P : Nat → Pt α) (env : List Tri → List Tri) (tris : List Tri) (pi : Nat) : List Tri :=
  (env tris).filter (fun t => insideCirc P t (P pi))

/-- one iteration of the insertion loop -/
def step (P : Nat → Pt α) (env : List Tri → List Tri) (tris : List Tri) (pi : Nat) : List Tri :=
  let bad := badTris P env tris pi
  fillHole P (polygon bad) pi (tris.filter (fun t => !bad.contains t))

/-- the insertion loop over the `n` input points, starting from the super-triangle `{n, n+1, n+2}` -/
def bwLoop (P : Nat → Pt α) (env : List Tri → List Tri) (n : Nat) : List Tri :=
  (List.range n).foldl (step P env) [(n, n + 1, n + 2)]

/-- `containsSuperTriangleVertex` with `superStart = n` -/
def touchesSuper (n : Nat) (t : Tri) : Bool :=
  decide (n ≤ t.1) || decide (n ≤ t.2.1) || decide (n ≤ t.2.2)

/-- `bowyerWatson` after the points array has been built -/
def bw (P : Nat → Pt α) (env : List Tri → List Tri) (n : Nat) : List Tri :=
  (bwLoop P env n).filter (fun t => !touchesSuper n t)

end Alg

/-! ### super-triangle and the public entry point (bowyer_watson.go:90-139, 380-399) -/
section Super
variable {α : Type} [Add α] [Sub α] [Mul α] [Div α] [NatCast α] [LT α] [DecidableLT α]

/-- running `math.Min` / `math.Max` over a non-empty list (start `±Inf` absorbed by the first element) -/
def minOf (x : α) (xs : List α) : α := xs.foldl (fun m v => if v < m then v else m) x
def maxOf (x : α) (xs : List α) : α := xs.foldl (fun m v => if m < v then v else m) x

/-- `SuperTriangle(points)` for the non-empty list `p :: ps`; returns `[left, top, right]` -/
def superTriangle (p : Pt α) (ps : List (Pt α)) : List (Pt α) :=
  let minX := minOf p.1 (ps.map (·.1))
  let minY := minOf p.2 (ps.map (·.2))
  let maxX := maxOf p.1 (ps.map (·.1))
  let maxY := maxOf p.2 (ps.map (·.2))
  let height := maxY - minY
  let minY' := minY - ((2 : Nat) : α)
  let xMiddle := (minX + maxX) / ((2 : Nat) : α)
  let width := maxX - minX
  let top : Pt α := (xMiddle, maxY + height * ((20 : Nat) : α) + ((2 : Nat) : α))
  let left : Pt α := (xMiddle - width * ((20 : Nat) : α), minY')
  let right : Pt α := (xMiddle + width * ((20 : Nat) : α), minY')
  [left, top, right]

variable [Zero α]

/-- the slice `points = append(pointsDirty, SuperTriangle(pointsDirty)...)` as a lookup function -/
def pointFn (p : Pt α) (ps : List (Pt α)) : Nat → Pt α :=
  fun i => ((p :: ps) ++ superTriangle p ps).getD i p

/-- `bowyerWatson(points)`: `none` = panic (fewer than 3 points) -/
def bowyerWatson (env : List Tri → List Tri) (pts : List (Pt α)) : Option (List Tri) :=
  match pts with
  | p :: q :: r :: rest => some (bw (pointFn p (q :: r :: rest)) env pts.length)
  | _ => none

end Super

/-- vertex construction of `BowyerWatson`: `verts[i] = (x_i, 0, y_i)` -/
def bwVertices {α : Type} [Zero α] (pts : List (Pt α)) : List (α × α × α) :=
  pts.map (fun p => (p.1, 0, p.2))

/-! ### executable checkers (evaluated by the driver on the implementation's output) -/
section Check
variable {α : Type} [Add α] [Sub α] [Mul α] [Zero α] [LT α] [DecidableLT α]

/-- every index of every triangle is `< n` -/
def indicesOk (n : Nat) (tris : List Tri) : Bool :=
  tris.all (fun t => decide (t.1 < n) && decide (t.2.1 < n) && decide (t.2.2 < n))

/-- every triangle is strictly clockwise: `orient < 0` -/
def windingOk (P : Nat → Pt α) (tris : List Tri) : Bool :=
  tris.all (fun t => decide (orient (P t.1) (P t.2.1) (P t.2.2) < 0))

/-- no triangle × input point pair has a negative in-circle determinant -/
def delaunayOk (P : Nat → Pt α) (n : Nat) (tris : List Tri) : Bool :=
  tris.all (fun t => (List.range n).all (fun i => !insideCirc P t (P i)))

/-- some edge line of the clockwise triangle `t` has all of `u` on its closed outer side -/
def sepEdge (P : Nat → Pt α) (t u : Tri) : Bool :=
  (edges t).any (fun e =>
    !decide (orient (P e.1) (P e.2) (P u.1) < 0) &&
    !decide (orient (P e.1) (P e.2) (P u.2.1) < 0) &&
    !decide (orient (P e.1) (P e.2) (P u.2.2) < 0))

def sepOk (P : Nat → Pt α) (t u : Tri) : Bool := sepEdge P t u || sepEdge P u t

/-- all pairs of triangles are separated by one of their six edge lines -/
def noOverlapOk (P : Nat → Pt α) : List Tri → Bool
  | [] => true
  | t :: ts => ts.all (sepOk P t) && noOverlapOk P ts

end Check

/-! ### executable forms of the two geometric hypotheses `FanPositive` / `FanEmpty` of Props/C20
    (evaluated by the driver, in exact arithmetic, on the states the MODEL passes through for a given input) -/
section FanCheck
variable {α : Type} [Add α] [Sub α] [Mul α] [Zero α] [LT α] [DecidableLT α]

/-- the state after the first `k` insertions (enumeration order `id`) -/
def stateAtE (P : Nat → Pt α) (n k : Nat) : List Tri :=
  (List.range k).foldl (step P id) [(n, n + 1, n + 2)]

/-- the inserted point is strictly on the inner side of every directed boundary edge of its cavity -/
def fanPositiveOk (P : Nat → Pt α) (n : Nat) : Bool :=
  (List.range n).all fun k =>
    (polygon ((stateAtE P n k).filter (fun t => insideCirc P t (P k)))).all fun e =>
      (e.1 == k || e.2 == k) || decide (orient (P e.1) (P e.2) (P k) < 0)

/-- no new fan triangle has an earlier point strictly inside its circumcircle -/
def fanEmptyOk (P : Nat → Pt α) (n : Nat) : Bool :=
  (List.range n).all fun k =>
    (polygon ((stateAtE P n k).filter (fun t => insideCirc P t (P k)))).all fun e =>
      (e.1 == k || e.2 == k) || (List.range k).all fun j => !insideCirc P (fanTri P e k) (P j)

/-- executable form of `DiscAt` (Props/C20): in- and out-degree one at every vertex of the cavity boundary -/
def discOk (Q : List Edge) : Bool :=
  Q.all (fun e => Q.any (fun f => f.1 == e.2)) && Q.all (fun e => Q.any (fun f => f.2 == e.1)) &&
  Q.all (fun e => Q.all (fun f => !(e.2 == f.2) || e == f)) && Q.all (fun e => Q.all (fun f => !(e.1 == f.1) || e == f))

/-- executable form of the hypothesis `CavityDisc` on the model's own run (enumeration order `id`) -/
def cavityDiscOk (P : Nat → Pt α) (n : Nat) : Bool :=
  (List.range n).all fun k => discOk (polygon ((stateAtE P n k).filter (fun t => insideCirc P t (P k))))

end FanCheck

/-- output vertices are exactly the input points at `(x, 0, y)`; run on raw bit patterns -/
def verticesOk {α : Type} [Zero α] [BEq α] (pts : List (Pt α)) (out : List (α × α × α)) : Bool :=
  out == bwVertices pts

/-! ### canonical form of a triangle set (for the correspondence) -/

/-- rotate so that the smallest index comes first (cyclic order, hence winding, is kept) -/
def canonTri (t : Tri) : Tri :=
  let (a, b, c) := t
  if a ≤ b ∧ a ≤ c then (a, b, c) else if b ≤ a ∧ b ≤ c then (b, c, a) else (c, a, b)

def triLe (s t : Tri) : Bool :=
  s.1 < t.1 || (s.1 == t.1 && (s.2.1 < t.2.1 || (s.2.1 == t.2.1 && s.2.2 ≤ t.2.2)))

def canonTris (ts : List Tri) : List Tri := (ts.map canonTri).mergeSort triLe

end Delaunay
end PolyVerif
