/-
  C06 (round 2) — an independent GLB reader (core Lean; the driver runs it on the implementation's file:
  `c06.holds.glbparse`).  `Props/C06Glb.lean` proves `glbParse (glbFrame json bin) = some (json ++ blanks, bin ++ zeros)`.
-/
import PolyVerif.Model.GltfSpec

namespace PolyVerif
namespace Gltf

/-- a 32-bit little-endian word at byte offset `o` -/
def glbWord (f : List UInt8) (o : Nat) : Nat := leVal ((f.drop o).take 4)

/-- an independent GLB reader: magic, version, declared total = file length, a JSON chunk of the declared length, then either
    the end of the file or exactly one BIN chunk of the declared length that ends the file.  Returns the two chunk payloads
    (as stored, i.e. with their padding) -/
def glbParse (f : List UInt8) : Option (List UInt8 × List UInt8) :=
  let jl := glbWord f 12
  if f.length < 20 ∨ glbWord f 0 ≠ 0x46546C67 ∨ glbWord f 4 ≠ 2 ∨ glbWord f 8 ≠ f.length
      ∨ glbWord f 16 ≠ 0x4E4F534A ∨ f.length < 20 + jl then none
  else if f.length = 20 + jl then some ((f.drop 20).take jl, [])
  else
    let bl := glbWord f (20 + jl)
    if f.length < 20 + jl + 8 ∨ glbWord f (20 + jl + 4) ≠ 0x004E4942 ∨ f.length ≠ 20 + jl + 8 + bl then none
    else some ((f.drop 20).take jl, (f.drop (20 + jl + 8)).take bl)

/-- the statement of `glb_parse_write`, as a check on a file: it parses into the JSON text + blank padding and the buffer +
    zero padding, both padded to a multiple of four -/
def glbRoundTrips (file json bin : List UInt8) : Bool :=
  glbParse file == some (json ++ List.replicate (pad4 json.length) 0x20, bin ++ List.replicate (pad4 bin.length) 0x00)

end Gltf
end PolyVerif
