/-
  C10 — small-step model of block storage allocation under `chunkMutex` (modeling/marching/canvas.go
  `chunkIndex_atomic`, `addFloat1Range`).  Core Lean only.

  Concrete canvas storage: `slots[i]` is the block that owns `float1Data[i]` (the `positions` map is the inverse of
  this list), `mem (i, k)` is `float1Data[i][k]`.  A block job is the event sequence

      alloc b                 -- index := d.chunkIndex_atomic(section, b)   ONE atomic critical section:
                              --   Lock; look b up in positions; if absent { index = len(float1Data);
                              --   float1Data = append(float1Data, make(zeroed)); positions[b] = index }; Unlock
      upd b k u …             -- data[k] = u(data[k]) with data = float1Data[index], `index` the job's own variable

  Atomicity of `alloc` is what the extractor reports about the source (Gen/Partition.lean `Sync.*`: the body of
  chunkIndex_atomic is Lock; defer Unlock; …, every store to float1Data / positions of the file lies in it, the read of
  float1Data[index] in addFloat1Range lies between Lock and Unlock); the extractor refuses any other shape.
-/
import PolyVerif.Model.ParCanvas

namespace PolyVerif.Par

/-- `positions[b]` for a block that has a slot: position of `b` in the slot list -/
def slotOf : List Block → Block → Nat
  | [], _ => 0
  | x :: xs, b => if x = b then 0 else slotOf xs b + 1

/-- storage + the job-local variable `index` of the job of each block -/
structure Store (α : Type) where
  slots : List Block
  mem : Nat × Int → α
  cur : Block → Nat

inductive SEv (α : Type) where
  | alloc (b : Block)
  | upd (b : Block) (k : Int) (u : α → α)

/-- one event; `z` is the content of a freshly made array (Go zero value) -/
def Store.step {α : Type} (z : α) (σ : Store α) : SEv α → Store α
  | .alloc b =>
      if b ∈ σ.slots then
        { σ with cur := fun b' => if b' = b then slotOf σ.slots b else σ.cur b' }
      else
        { slots := σ.slots ++ [b]
          mem := fun p => if p.1 = σ.slots.length then z else σ.mem p
          cur := fun b' => if b' = b then σ.slots.length else σ.cur b' }
  | .upd b k u =>
      { σ with mem := fun p => if p = (σ.cur b, k) then u (σ.mem p) else σ.mem p }

def Store.run {α : Type} (z : α) (σ : Store α) (s : List (SEv α)) : Store α := s.foldl (Store.step z) σ

/-- the canvas as the marching code sees it: cell `k` of block `b` (a block without storage reads as the zero value,
    exactly what `make` would give it) -/
def Store.view {α : Type} (z : α) (σ : Store α) : Cell → α :=
  fun c => if c.1 ∈ σ.slots then σ.mem (slotOf σ.slots c.1, c.2) else z

/-- the concrete event sequence of the job of block `b` -/
def FieldFns.cjobLog {α : Type} (F : FieldFns) (d : Dom) (g : Int → Int → Int → α → α) (b : Block) : List (SEv α) :=
  SEv.alloc b :: (F.jobCells d b).map fun e => SEv.upd b e.1.2 (g e.2.1 e.2.2.1 e.2.2.2)

/-- what an event does to the canvas seen by block: nothing (alloc) or one cell update -/
def SEv.keyed {α : Type} : SEv α → Option (Cell × (α → α))
  | .alloc _ => none
  | .upd b k u => some ((b, k), u)

end PolyVerif.Par
