/-
  Model of /repo/formats/splat (the 32-byte-record ".splat" gaussian splat
  codec), core Lean only.

  Byte level (write.go:55-84, read.go:26-62):
    record = 3 float32 position ++ 3 float32 exp(scale) ++ R G B A bytes ++ 4 rotation bytes
             (float32 = 4 bytes little endian)                       -- 32 bytes
    file   = records back to back, no header, no count.

  Scalar level: polymorphic over `[Scalar α]` (field arithmetic, min, max) and a
  bundle `Env α` of the operations that are *not* field arithmetic: `exp`, `log`
  (opaque functions), the float→byte conversion `trunc`, the float32 narrowing
  `to32` / widening `of32`, and the constant `SH_C0`.  The driver instantiates
  `Env Float` with IEEE operations (exp supplied by the implementation as a
  table, so that it is opaque there as well); `Props/C15.lean` reasons at `ℝ`
  with `trunc = ⌊·⌋₊`.
-/
import PolyVerif.Model.Vec

namespace PolyVerif
namespace Splat
open Scalar

/-! ### bytes -/

/-- `binary.LittleEndian.PutUint32` -/
def le32 (w : UInt32) : List UInt8 :=
  [UInt8.ofNat (w.toNat % 256), UInt8.ofNat (w.toNat / 256 % 256),
   UInt8.ofNat (w.toNat / 65536 % 256), UInt8.ofNat (w.toNat / 16777216 % 256)]

/-- `binary.LittleEndian.Uint32` -/
def u32le (a b c d : UInt8) : UInt32 :=
  UInt32.ofNat (a.toNat + 256 * b.toNat + 65536 * c.toNat + 16777216 * d.toNat)

/-- the content of one 32-byte record: six float32 bit patterns and eight bytes -/
structure Rec where
  p0 : UInt32
  p1 : UInt32
  p2 : UInt32
  s0 : UInt32
  s1 : UInt32
  s2 : UInt32
  c0 : UInt8
  c1 : UInt8
  c2 : UInt8
  al : UInt8
  r0 : UInt8
  r1 : UInt8
  r2 : UInt8
  r3 : UInt8
deriving DecidableEq, Repr, Inhabited

def encRec (r : Rec) : List UInt8 :=
  le32 r.p0 ++ le32 r.p1 ++ le32 r.p2 ++ le32 r.s0 ++ le32 r.s1 ++ le32 r.s2 ++
  [r.c0, r.c1, r.c2, r.al, r.r0, r.r1, r.r2, r.r3]

/-- a full 32-byte buffer → record; anything else is not a record -/
def decRec : List UInt8 → Option Rec
  | [a0, a1, a2, a3, b0, b1, b2, b3, c0, c1, c2, c3, d0, d1, d2, d3,
     e0, e1, e2, e3, f0, f1, f2, f3, x0, x1, x2, x3, y0, y1, y2, y3] =>
    some { p0 := u32le a0 a1 a2 a3, p1 := u32le b0 b1 b2 b3, p2 := u32le c0 c1 c2 c3,
           s0 := u32le d0 d1 d2 d3, s1 := u32le e0 e1 e2 e3, s2 := u32le f0 f1 f2 f3,
           c0 := x0, c1 := x1, c2 := x2, al := x3, r0 := y0, r1 := y1, r2 := y2, r3 := y3 }
  | _ => none

/-- result of the record loop of `splat.Read` -/
structure ReadOut where
  recs  : List Rec
  /-- `io.ErrUnexpectedEOF`: the input ended inside a record -/
  short : Bool
  /-- number of `io.ReadFull` calls made -/
  steps : Nat
deriving DecidableEq, Repr

/-- `splat.Read` (read.go:25-62), the loop: `io.ReadFull` of 32 bytes; `io.EOF`
    (no byte left) ends the file cleanly, a partial record ends it with
    `ErrUnexpectedEOF`; the complete records read so far are returned in both
    cases.  Every iteration that continues consumes 32 bytes. -/
def readRecs (bs : List UInt8) : ReadOut :=
  if h : bs = [] then ⟨[], false, 1⟩ else
  match decRec (bs.take 32) with
  | none => ⟨[], true, 1⟩
  | some r =>
    let o := readRecs (bs.drop 32)
    ⟨r :: o.recs, o.short, o.steps + 1⟩
termination_by bs.length
decreasing_by
  have : 0 < bs.length := List.length_pos_iff.mpr h
  simp only [List.length_drop]; omega

/-! ### scalars -/

/-- what the codec needs from its scalar beyond `Scalar` -/
structure Env (α : Type) where
  /-- Go `byte(x)` for `0 ≤ x < 256`: the integer part -/
  trunc : α → Nat
  exp   : α → α
  log   : α → α
  /-- `math.Float32bits(float32(x))` -/
  to32  : α → UInt32
  /-- `float64(math.Float32frombits(w))` -/
  of32  : UInt32 → α
  /-- `SH_C0 = 0.28209479177387814` -/
  shC0  : α

/-- one gaussian splat as the mesh attributes hold it -/
structure Splat (α : Type) where
  px : α
  py : α
  pz : α
  sx : α
  sy : α
  sz : α
  cx : α
  cy : α
  cz : α
  op : α
  r0 : α
  r1 : α
  r2 : α
  r3 : α
deriving Repr, Inhabited

variable {α : Type} [Scalar α]

@[inline] def half : α := lit 1 2
@[inline] def byteF (b : UInt8) : α := ((b.toNat : Nat) : α)
@[inline] def byteOf (n : Nat) : UInt8 := UInt8.ofNat n

/-- stored colour value: `fdc.Scale(SH_C0).Add(Fill(0.5)).Clamp(0, 1)` -/
@[inline] def colStored (E : Env α) (c : α) : α := vclamp (c * E.shC0 + half) ((0 : Nat) : α) ((1 : Nat) : α)
/-- `byte(color * 255)` -/
@[inline] def colByte (E : Env α) (c : α) : UInt8 := byteOf (E.trunc (colStored E c * ((255 : Nat) : α)))
/-- stored colour value of a byte, `b / 255` -/
@[inline] def colUnit (b : UInt8) : α := byteF b / ((255 : Nat) : α)
/-- `((b/255) - 0.5) / SH_C0` -/
@[inline] def colDec (E : Env α) (b : UInt8) : α := (colUnit b - half) / E.shC0

/-- `alpha := 1 / (1 + exp(-opacity))` -/
@[inline] def alphaStored (E : Env α) (o : α) : α := ((1 : Nat) : α) / (((1 : Nat) : α) + E.exp (-o))
@[inline] def alphaByte (E : Env α) (o : α) : UInt8 := byteOf (E.trunc (alphaStored E o * ((255 : Nat) : α)))
/-- `-log(1/a - 1)` with `a = b/255` -/
@[inline] def alphaDec (E : Env α) (b : UInt8) : α := -(E.log ((((1 : Nat) : α) / colUnit b) - ((1 : Nat) : α)))

/-- `rot.Scale(128).Add(Fill(128)).Clamp(0, 255)` (commit 6751c33) -/
@[inline] def rotStored (r : α) : α := vclamp (r * ((128 : Nat) : α) + ((128 : Nat) : α)) ((0 : Nat) : α) ((255 : Nat) : α)
@[inline] def rotByte (E : Env α) (r : α) : UInt8 := byteOf (E.trunc (rotStored r))
/-- `(b - 128) / 128` -/
@[inline] def rotDec (b : UInt8) : α := (byteF b - ((128 : Nat) : α)) / ((128 : Nat) : α)
/-- the encoder before commit 6751c33: no clamp, the byte conversion wraps -/
@[inline] def rotByteOld (E : Env α) (r : α) : UInt8 := byteOf (E.trunc (r * ((128 : Nat) : α) + ((128 : Nat) : α)))

/-- write.go:55-84, one loop iteration -/
def encSplat (E : Env α) (s : Splat α) : Rec :=
  { p0 := E.to32 s.px, p1 := E.to32 s.py, p2 := E.to32 s.pz,
    s0 := E.to32 (E.exp s.sx), s1 := E.to32 (E.exp s.sy), s2 := E.to32 (E.exp s.sz),
    c0 := colByte E s.cx, c1 := colByte E s.cy, c2 := colByte E s.cz,
    al := alphaByte E s.op,
    r0 := rotByte E s.r0, r1 := rotByte E s.r1, r2 := rotByte E s.r2, r3 := rotByte E s.r3 }

/-- read.go:32-61, one loop iteration -/
def decSplat (E : Env α) (r : Rec) : Splat α :=
  { px := E.of32 r.p0, py := E.of32 r.p1, pz := E.of32 r.p2,
    sx := E.log (E.of32 r.s0), sy := E.log (E.of32 r.s1), sz := E.log (E.of32 r.s2),
    cx := colDec E r.c0, cy := colDec E r.c1, cz := colDec E r.c2,
    op := alphaDec E r.al,
    r0 := rotDec r.r0, r1 := rotDec r.r1, r2 := rotDec r.r2, r3 := rotDec r.r3 }

/-- `splat.Write` on a point cloud carrying the five attributes: the records back to back
    (an empty cloud writes nothing). -/
def write (E : Env α) (cloud : List (Splat α)) : List UInt8 :=
  (cloud.map (encSplat E)).flatMap encRec

inductive WriteErr where
  | topology
  | missingAttribute
deriving DecidableEq, Repr

/-- `splat.Write` with its guards (write.go:20-40), in the order the source has them:
    an empty mesh writes nothing, whatever else is wrong with it. -/
def writeMesh (E : Env α) (isPointTopology hasAllAttributes : Bool) (cloud : List (Splat α)) :
    Except WriteErr (List UInt8) :=
  if cloud.isEmpty then .ok []
  else if !isPointTopology then .error .topology
  else if !hasAllAttributes then .error .missingAttribute
  else .ok (write E cloud)

/-- `splat.Read`: the splats of the complete records and the `ErrUnexpectedEOF` flag -/
def read (E : Env α) (bs : List UInt8) : List (Splat α) × Bool :=
  let o := readRecs bs
  (o.recs.map (decSplat E), o.short)

end Splat
end PolyVerif
