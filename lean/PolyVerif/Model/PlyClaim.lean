/-
  C04 — the CLAIM STAGE of the default PLY reader, predicted from the WRITER's side (core Lean only).

  `MeshReader.Read` builds, for the parsed header, one reader per entry of `defaultReader.Properties` whose component
  names it finds (reader_vector{1..4}.go: `build{Binary,Ascii}`) and then one scalar reader per property nobody claimed
  (reader.go:422-440, 494-512).  `Ply.buildAll` is the model of that stage; it is a scan over the header.

  This file states, as a decidable predicate on the list `ws` of property writers that fire (`selectWriters cfg m`: what
  the header is built from), WHEN that stage claims exactly what the writers wrote: `claimGuard ws`.  It looks only at
  property NAMES grouped by writer — it does not run `buildAll`.  `expectNames ws r` is the prediction for one entry `r`
  of `defaultReader.Properties`: the names it claims and the scalar type it decodes with.

  Proved in `Lemmas/PlyClaim.lean`: for distinct property names, `claimGuard ws` implies that every default reader is built
  exactly as predicted (`buildReader_expect`), that the whole reader list of `buildAll` on the header of `ws` is
  `claimSpec ws` (`claimSpec_exact`), and the claim-stage hypotheses `ClaimOK` / `ClaimOKA` of the composed round-trip
  theorems (`claimOK_of_guard`, `claimOKA_of_guard`).  `claimAgrees` is evaluated by the driver on the header of every file
  the real writer emits (oracle `c04.holds.claim_ok`); `claimGuard` on a corpus case (`c04.holds.claim_guard_inside`).
-/
import PolyVerif.Model.Ply

namespace PolyVerif
namespace Ply

/-- the property names of the vertex element, in header order -/
def wsNames (ws : List WProp) : List Bytes := (ws.map WProp.names).flatten

/-- names and types of the vertex element's properties, in header order -/
def wsProps (ws : List WProp) : List (Bytes × SType) := (ws.map (fun w => w.names.map (fun n => (n, w.ty)))).flatten

/-- the writers after (the first occurrence of) `w` in configuration order — their properties stand after `w`'s in the header -/
def writersAfter (ws : List WProp) (w : WProp) : List WProp := (ws.dropWhile (fun w' => w' != w)).drop 1

/-- the fourth name `a` of an IgnorableW group does not disturb the first three names written by `w`: it is absent from
the header, or it is written AFTER `w` with ANOTHER scalar type (the 4-vector scan takes its type from the first member it
meets, finds the fourth "mixed", and the reader falls back to the 3-vector: reader_vector4.go, fix 8c2f8cb) -/
def wHarmless (ws : List WProp) (w : WProp) (a : Bytes) : Bool :=
  !(wsNames ws).contains a || (writersAfter ws w).any (fun w' => w'.names.contains a && w'.ty != w.ty)

/-- what entry `r` of `defaultReader.Properties` is expected to claim on the header of `ws`:
* a scalar reader (`opacity`): its property, if some writer emits it;
* a vector reader: all its names, if ONE writer emits exactly these names;
* an IgnorableW reader (`red green blue [alpha]` …): its first three names, if one writer emits exactly these three and
  the fourth name is harmless (`wHarmless`: absent, or later in the header with another type);
* nothing otherwise. -/
def expectNames (ws : List WProp) (r : RProp) : Option (List Bytes × SType) :=
  if r.names.length = 1 then
    (ws.find? (fun w => r.names.all (fun n => w.names.contains n))).map (fun w => (r.names, w.ty))
  else
    match ws.find? (fun w => w.names == r.names) with
    | some w => some (r.names, w.ty)
    | none =>
      if r.ignorableW then
        match ws.find? (fun w => w.names == r.names.take 3) with
        | some w => if wHarmless ws w (r.names.getD 3 []) then some (r.names.take 3, w.ty) else none
        | none => none
      else none

/-- the names a vector reader needs at least: all of them, the first three for an IgnorableW reader -/
def RProp.needed (r : RProp) : List Bytes := if r.ignorableW then r.names.take 3 else r.names

/-- per reader: either the prediction is a claim, or the reader is certainly not built because a name it needs is
absent from the header.  Excluded: a recognised group completed by properties of SEVERAL writers (user scalars `px py pz`,
a scalar `alpha` of the SAME type after `red green blue`, or of another type BEFORE it, …: the known-finding classes
C04-w-name-…) -/
def readerGuard (ws : List WProp) (r : RProp) : Bool :=
  r.names.length = 1 || (expectNames ws r).isSome || r.needed.any (fun n => !(wsNames ws).contains n)

/-- `(dimension, attribute)` of the predicted claims, in reader order -/
def expectKeys (ws : List WProp) : List (Nat × Bytes) :=
  defaultReaders.filterMap (fun r => (expectNames ws r).map (fun p => (p.1.length, r.attr)))

/-- THE HEADER-LEVEL GUARD of the claim stage:
1. every default reader is predictable (`readerGuard`);
2. no two predicted claims land on the same mesh attribute with the same dimension (the later would overwrite the earlier);
3. no property is NAMED like the attribute of a claimed scalar reader (`Opacity` next to `opacity`: the unclaimed-scalar
   reader of the former would overwrite the latter). -/
def claimGuard (ws : List WProp) : Bool :=
  defaultReaders.all (readerGuard ws) && decide (expectKeys ws).Nodup &&
  defaultReaders.all (fun r => !(decide (r.names.length = 1) && (expectNames ws r).isSome && (wsNames ws).contains r.attr))

/-- ASCII only: the ASCII scalar reader never learns the property's type (known finding C04-ascii-uchar-scalar), so inside
the guard every `uchar` writer must be claimed as a whole by a VECTOR reader (`red green blue` as Color, …) -/
def asciiGuard (ws : List WProp) : Bool :=
  ws.all (fun w => w.ty != .uchar ||
    defaultReaders.any (fun r => decide (r.names.length ≠ 1) && ((expectNames ws r).map (·.1) == some w.names)))

/-- the predicted claim stage as data: (attribute, names, type) of the default readers that fire, in reader order, then
one scalar reader per remaining property, in header order -/
def claimSpec (ws : List WProp) : List (Bytes × List Bytes × SType) :=
  let d := defaultReaders.filterMap (fun r => (expectNames ws r).map (fun p => (r.attr, p.1, p.2)))
  d ++ ((wsProps ws).filter (fun p => !d.any (fun x => x.2.1.contains p.1))).map (fun p => (p.1, [p.1], p.2))

/-- oracle `c04.holds.claim_ok`: `props` are the vertex properties of the header the REAL writer emitted for the
configuration and mesh from which `ws = selectWriters cfg m` was computed.  The header is the one the model predicts, and
— inside the guard — the claim stage run on it builds exactly the predicted readers. -/
def claimAgrees (ws : List WProp) (props : List (Bytes × SType)) : Bool :=
  props == wsProps ws &&
  (!claimGuard ws ||
    (buildAll true props defaultReaders true).map (fun b => (b.attr, b.names, b.ty))
      == (claimSpec ws).map (fun x => (x.1, x.2.1, some x.2.2)))

end Ply
end PolyVerif
