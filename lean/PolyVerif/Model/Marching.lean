/-
  The vertex/index allocation of the marching-cubes block mesher, abstractly (core Lean only):
  /repo modeling/marching/canvas.go:37-47 (`LookupOrAdd`) and :650-656 (three `LookupOrAdd` results
  appended to `tris` per emitted triangle), :659-662 (mesh from `tris` and `verts`), :668-674 (blocks
  folded with `Append` from the empty mesh).  Which triangles are emitted (the case table, the
  interpolation) is a parameter: the theorems hold for every sequence of emitted triangles.
-/
import PolyVerif.Model.MeshOps

namespace PolyVerif.March
open PolyVerif.Mesh

/-- `workingData`: vertices, the rounded-position lookup, the index buffer -/
structure Working (V K : Type) where
  verts : List V
  lookup : List (K × Nat)
  tris : List Nat

variable {V K : Type} [DecidableEq K]

/-- `LookupOrAdd(data, vert)` with `key = Vector3ToInt(·, 4)` -/
def lookupOrAdd (key : V → K) (w : Working V K) (v : V) : Working V K × Nat :=
  match w.lookup.find? (fun e => e.1 == key v) with
  | some e => (w, e.2)
  | none => ({ w with verts := w.verts ++ [v], lookup := w.lookup ++ [(key v, w.verts.length)] }, w.verts.length)

/-- one emitted triangle: Go evaluates the three `LookupOrAdd` calls left to right, then appends -/
def addTri (key : V → K) (w : Working V K) (t : V × V × V) : Working V K :=
  let r1 := lookupOrAdd key w t.1
  let r2 := lookupOrAdd key r1.1 t.2.1
  let r3 := lookupOrAdd key r2.1 t.2.2
  { r3.1 with tris := r3.1.tris ++ [r1.2, r2.2, r3.2] }

def marchBlock (key : V → K) (ts : List (V × V × V)) : Working V K :=
  ts.foldl (addTri key) ⟨[], [], []⟩

/-- the block mesh: `NewTriangleMesh(tris).SetFloat3Data({attr: verts})` -/
def blockMesh (attr : AttrKey) (w : Working V K) : MeshVal V :=
  ⟨.triangle, w.tris, [], [(attr, w.verts)]⟩

end PolyVerif.March
