/-
  Hand model of math/sdf/operators.go `Union` and `Intersect` (variadic, with
  special cases for 1 and 2 operands and a loop otherwise — outside the
  translator's subset).  Tied to the Go functions by the `c19` correspondence
  stream at Float, bit for bit.  Core Lean only.
-/
import PolyVerif.Model.Vec

namespace PolyVerif
namespace SdfOps
variable {α : Type} [Scalar α]

/-- operators.go:10 `Union` — panics on no operands (modelled as `none`). -/
def Union : List (V3 α → α) → Option (V3 α → α)
  | [] => none
  | [f] => some f
  | [a, b] => some (fun v => min (a v) (b v))
  | f0 :: rest => some (fun v => rest.foldl (fun m f => min m (f v)) (f0 v))

/-- operators.go:36 `Intersect` — panics on no operands (modelled as `none`). -/
def Intersect : List (V3 α → α) → Option (V3 α → α)
  | [] => none
  | [f] => some f
  | f0 :: rest => some (fun v => rest.foldl (fun m f => max m (f v)) (f0 v))

end SdfOps
end PolyVerif
