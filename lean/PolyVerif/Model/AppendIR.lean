/-
  The INDEX part of `func (m Mesh) Append(other Mesh) Mesh` (/repo modeling/mesh.go) as a three-construct language, core
  Lean only.  Engine F (`go/facts c18.append`) extracts what the body does to its index buffer, in source order, into
  `PolyVerif/Gen/PrimAppend.lean`; `Props/C18Append.lean` proves that its interpretation is "the receiver's indices,
  then the other mesh's indices each shifted by the receiver's vertex count" — the `shift` the cylinder and six-quad box
  models (`Model/Solids.lean`) are written with.

  Semantics (mirrors Go):
    * the buffer starts empty (`make([]int, 0, ..)`);
    * `appendAll s`      : `T = append(T, s.indices...)`
    * `addFrom lo k`     : `for i := lo; i < len(T); i++ { T[i] += k }` — executed step by step (`addLoop`: one in-place
                           update per iteration, `len(T)` iterations of fuel), `lo` = `len(m.indices)` / `len(other.indices)`,
                           `k` = `m.AttributeLength()` / `other.AttributeLength()` (the vertex counts; `AttributeLength` itself
                           — the length of the first attribute array — is not extracted).
-/
namespace PolyVerif.AppendIR

inductive Src where | recv | other
inductive Lo where | lenRecv | lenOther
inductive K where | recvVerts | otherVerts

inductive Stmt where
  | appendAll (s : Src)
  | addFrom (lo : Lo) (k : K)

structure Inputs where
  recvIdx : List Nat
  otherIdx : List Nat
  recvVerts : Nat
  otherVerts : Nat

/-- `for i := i₀; i < len(t); i++ { t[i] += k }`, at most `fuel` iterations -/
def addLoop (k : Nat) : Nat → Nat → List Nat → List Nat
  | 0, _, t => t
  | fuel + 1, i, t => if i < t.length then addLoop k fuel (i + 1) (t.set i (t.getD i 0 + k)) else t

def step (inp : Inputs) (t : List Nat) : Stmt → List Nat
  | .appendAll .recv => t ++ inp.recvIdx
  | .appendAll .other => t ++ inp.otherIdx
  | .addFrom lo k =>
    let lo' := match lo with | .lenRecv => inp.recvIdx.length | .lenOther => inp.otherIdx.length
    let k' := match k with | .recvVerts => inp.recvVerts | .otherVerts => inp.otherVerts
    addLoop k' t.length lo' t

def run (prog : List Stmt) (inp : Inputs) : List Nat := prog.foldl (step inp) []

end PolyVerif.AppendIR
