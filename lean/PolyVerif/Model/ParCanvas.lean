/-
  C10 — model of the block jobs of MarchingCanvas.AddField / AddFieldParallel / AddFieldParallel2, built from the
  expressions regenerated from modeling/marching/canvas.go (Gen/Partition.lean, namespace Canvas).  Core Lean only.

  A cell of the canvas is (block coordinate, index inside the block's array).  A job is one block; its events are the
  read-modify-write updates `data[index(local x, local y, local z)] += function(pos)` of its triple loop, in loop order.
-/
import PolyVerif.Model.Par
import PolyVerif.Gen.Partition

namespace PolyVerif.Par

/-- read-modify-write of one cell: `m[k] = u (m[k])` -/
def upd {κ α : Type} [DecidableEq κ] (m : κ → α) (e : κ × (α → α)) : κ → α :=
  fun j => if j = e.1 then e.2 (m j) else m j

def runUpd {κ α : Type} [DecidableEq κ] (m : κ → α) (s : List (κ × (α → α))) : κ → α := s.foldl upd m

/-- what one axis of a block job needs: clamped start/stop of block `c` in domain `[lo,hi)`, the loop bounds of the worker
    given (start, stop), the block-local coordinate, and the enumerated block coordinates -/
structure AxisFns where
  start : Int → Int → Int → Int
  stop : Int → Int → Int → Int
  loopLo : Int → Int → Int
  loopHi : Int → Int → Int
  loc : Int → Int → Int
  chunks : Int → Int → List Int

/-- loop values of block `c` on this axis -/
def AxisFns.range (A : AxisFns) (c lo hi : Int) : List Int :=
  intRange (A.loopLo (A.start c lo hi) (A.stop c lo hi)) (A.loopHi (A.start c lo hi) (A.stop c lo hi))

structure FieldFns where
  X : AxisFns
  Y : AxisFns
  Z : AxisFns
  index : Int → Int → Int → Int

/-- padded domain of a field (`fieldBounds`): `[lo, hi)` per axis -/
structure Dom where
  loX : Int
  hiX : Int
  loY : Int
  hiY : Int
  loZ : Int
  hiZ : Int

abbrev Block := Int × Int × Int
abbrev Cell := Block × Int

namespace FieldFns

/-- the blocks in the order `chunkSectionsInRange` produces them (x outermost, z innermost) -/
def blocks (F : FieldFns) (d : Dom) : List Block :=
  (F.X.chunks d.loX d.hiX).flatMap fun cx => (F.Y.chunks d.loY d.hiY).flatMap fun cy =>
    (F.Z.chunks d.loZ d.hiZ).map fun cz => (cx, cy, cz)

/-- cells touched by the job of block `b`, in loop order (z outermost, x innermost), with the sample coordinates -/
def jobCells (F : FieldFns) (d : Dom) (b : Block) : List (Cell × (Int × Int × Int)) :=
  (F.Z.range b.2.2 d.loZ d.hiZ).flatMap fun z => (F.Y.range b.2.1 d.loY d.hiY).flatMap fun y =>
    (F.X.range b.1 d.loX d.hiX).map fun x =>
      ((b, F.index (F.X.loc x b.1) (F.Y.loc y b.2.1) (F.Z.loc z b.2.2)), (x, y, z))

/-- the job's event log: cell `+=` the sample at (x, y, z); `g x y z` is the update (e.g. `(· + f (x,y,z)/cubesPerUnit)`) -/
def jobLog {α : Type} (F : FieldFns) (d : Dom) (g : Int → Int → Int → α → α) (b : Block) : List (Cell × (α → α)) :=
  (F.jobCells d b).map fun e => (e.1, g e.2.1 e.2.2.1 e.2.2.2)

end FieldFns

open PolyVerif.Gen.Partition in
/-- per-axis enumeration of `chunkSectionsInRange` -/
def chunksX (lo hi : Int) : List Int :=
  (intRange 0 (Canvas.chunkCountX (Canvas.chunkOfX lo) (Canvas.chunkOfX hi))).map (Canvas.chunkAtX (Canvas.chunkOfX lo) (Canvas.chunkOfX hi))
open PolyVerif.Gen.Partition in
def chunksY (lo hi : Int) : List Int :=
  (intRange 0 (Canvas.chunkCountY (Canvas.chunkOfY lo) (Canvas.chunkOfY hi))).map (Canvas.chunkAtY (Canvas.chunkOfY lo) (Canvas.chunkOfY hi))
open PolyVerif.Gen.Partition in
def chunksZ (lo hi : Int) : List Int :=
  (intRange 0 (Canvas.chunkCountZ (Canvas.chunkOfZ lo) (Canvas.chunkOfZ hi))).map (Canvas.chunkAtZ (Canvas.chunkOfZ lo) (Canvas.chunkOfZ hi))

open PolyVerif.Gen.Partition in
/-- sequential `AddField`: clamps of AddField, loops of addFloat1Range -/
def addFieldFns : FieldFns where
  X := ⟨Canvas.AddField.startX, Canvas.AddField.endX, Canvas.addFloat1Range.loopLoX, Canvas.addFloat1Range.loopHiX, Canvas.addFloat1Range.localX, chunksX⟩
  Y := ⟨Canvas.AddField.startY, Canvas.AddField.endY, Canvas.addFloat1Range.loopLoY, Canvas.addFloat1Range.loopHiY, Canvas.addFloat1Range.localY, chunksY⟩
  Z := ⟨Canvas.AddField.startZ, Canvas.AddField.endZ, Canvas.addFloat1Range.loopLoZ, Canvas.addFloat1Range.loopHiZ, Canvas.addFloat1Range.localZ, chunksZ⟩
  index := Canvas.index

open PolyVerif.Gen.Partition in
/-- `AddFieldParallel`: its own clamps, the same worker `addFloat1Range` -/
def addFieldParallelFns : FieldFns where
  X := ⟨Canvas.AddFieldParallel.startX, Canvas.AddFieldParallel.endX, Canvas.addFloat1Range.loopLoX, Canvas.addFloat1Range.loopHiX, Canvas.addFloat1Range.localX, chunksX⟩
  Y := ⟨Canvas.AddFieldParallel.startY, Canvas.AddFieldParallel.endY, Canvas.addFloat1Range.loopLoY, Canvas.addFloat1Range.loopHiY, Canvas.addFloat1Range.localY, chunksY⟩
  Z := ⟨Canvas.AddFieldParallel.startZ, Canvas.AddFieldParallel.endZ, Canvas.addFloat1Range.loopLoZ, Canvas.addFloat1Range.loopHiZ, Canvas.addFloat1Range.localZ, chunksZ⟩
  index := Canvas.index

open PolyVerif.Gen.Partition in
/-- `AddFieldParallel2`: its own clamps, the merge loop on the main goroutine -/
def addFieldParallel2Fns : FieldFns where
  X := ⟨Canvas.AddFieldParallel2.startX, Canvas.AddFieldParallel2.endX, Canvas.AddFieldParallel2.merge.loopLoX, Canvas.AddFieldParallel2.merge.loopHiX, Canvas.AddFieldParallel2.merge.localX, chunksX⟩
  Y := ⟨Canvas.AddFieldParallel2.startY, Canvas.AddFieldParallel2.endY, Canvas.AddFieldParallel2.merge.loopLoY, Canvas.AddFieldParallel2.merge.loopHiY, Canvas.AddFieldParallel2.merge.localY, chunksY⟩
  Z := ⟨Canvas.AddFieldParallel2.startZ, Canvas.AddFieldParallel2.endZ, Canvas.AddFieldParallel2.merge.loopLoZ, Canvas.AddFieldParallel2.merge.loopHiZ, Canvas.AddFieldParallel2.merge.localZ, chunksZ⟩
  index := Canvas.index

end PolyVerif.Par
