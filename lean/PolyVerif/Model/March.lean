/-
  C09 — model of `modeling/marching` (canvas.go, table.go).  Core Lean only.

  The data (case table, edge→corner tables, corner offsets, bit masks, neighbour
  index, block size) comes from `PolyVerif.Gen.MarchTable`, regenerated from
  /repo by engine F on every check.  Everything below is a *function of those
  tables*; nothing about the cube's geometry is entered by hand.

  Vocabulary
    Pt      lattice point (sample position) in ℤ³
    LEdge   lattice edge = (lower end point, axis 0/1/2).  A mesh vertex is
            identified with the lattice edge it lies on — the exact-arithmetic
            meaning of the code's "share vertices by rounded position".
    DEdge   directed triangle edge between two such vertices
-/
import PolyVerif.Gen.MarchTable

namespace PolyVerif.March
open PolyVerif.Gen.March

abbrev Pt := Int × Int × Int
abbrev LEdge := Pt × Nat
abbrev DEdge := LEdge × LEdge

@[inline] def padd (p q : Pt) : Pt := (p.1 + q.1, p.2.1 + q.2.1, p.2.2 + q.2.2)
@[inline] def coord (a : Nat) (p : Pt) : Int := if a = 0 then p.1 else if a = 1 then p.2.1 else p.2.2
/-- unit vector of axis `a` -/
@[inline] def unit (a : Nat) : Pt := if a = 0 then (1, 0, 0) else if a = 1 then (0, 1, 0) else (0, 0, 1)

def ptOfRow : List Int → Pt
  | [x, y, z] => (x, y, z)
  | _ => (0, 0, 0)

/-- offset of cube corner `i` as used for the sample lookup (`cubeDataIndexIncrements[i]`) -/
def cornerOff (i : Nat) : Pt := ptOfRow (cubeDataIndexIncrements.getD i [])
/-- offset of cube corner `i` as used for vertex positions (`cubeCornerPositions[i]`) -/
def cornerPosOff (i : Nat) : Pt := ptOfRow (cubeCornerPositions.getD i [])

def cA (e : Nat) : Nat := cornerIndexAFromEdge.getD e 0
def cB (e : Nat) : Nat := cornerIndexBFromEdge.getD e 0

/-- the lattice edge (relative to the cell origin) that cube edge `e` lies on -/
def edgeRelRaw (e : Nat) : LEdge :=
  let a := cornerOff (cA e); let b := cornerOff (cB e)
  ((min a.1 b.1, min a.2.1 b.2.1, min a.2.2 b.2.2),
   if a.1 ≠ b.1 then 0 else if a.2.1 ≠ b.2.1 then 1 else 2)

/-- `edgeRelRaw` tabulated once (a closed term: the kernel evaluates it once and shares it) -/
def edgeRelTab : List LEdge := (List.range 12).map edgeRelRaw
def edgeRel (e : Nat) : LEdge := edgeRelTab.getD e ((0, 0, 0), 3)

/-- `lookupIndex`: the `|=` chain of canvas.go over the extracted (corner, mask) pairs -/
def caseIndex (bits : List Bool) : Nat :=
  lookupBits.foldl (fun acc r =>
    match r with
    | [i, m] => if bits.getD i.toNat false then acc ||| m.toNat else acc
    | _ => acc) 0

/-- the triangle loop `for i := 0; row[i] != -1; i += 3 { row[i], row[i+1], row[i+2] }`.
    A row that runs out before the terminator makes the Go code panic (index out of range);
    `rowTerminates` is the guard and `table_rows_wellformed` proves it for all 256 rows. -/
def rowTris : List Int → List (Int × Int × Int)
  | a :: b :: c :: rest => if a = loopTerminator then [] else (a, b, c) :: rowTris rest
  | _ => []

def rowTerminates : List Int → Bool
  | [] => false
  | a :: rest =>
    if a = loopTerminator then true
    else match rest with
      | _ :: _ :: rest' => rowTerminates rest'
      | _ => false

def triEdges {V : Type} (t : V × V × V) : List (V × V) := [(t.1, t.2.1), (t.2.1, t.2.2), (t.2.2, t.1)]

/-- triangles of case `c`, as triples of cube-edge indices -/
def caseTris (c : Nat) : List (Nat × Nat × Nat) :=
  (rowTris (triangulation.getD c [])).map (fun t => (t.1.toNat, t.2.1.toNat, t.2.2.toNat))

/-- directed triangle edges of case `c` in cube-edge indices -/
def caseSegs (c : Nat) : List (Nat × Nat) := (caseTris c).flatMap triEdges

/-- the same in relative lattice-edge ids -/
def caseSegsRel (c : Nat) : List DEdge := (caseSegs c).map (fun s => (edgeRel s.1, edgeRel s.2))

def shiftL (p : Pt) (l : LEdge) : LEdge := (padd p l.1, l.2)
def shiftE (p : Pt) (e : DEdge) : DEdge := (shiftL p e.1, shiftL p e.2)
def swapE {V : Type} (e : V × V) : V × V := (e.2, e.1)

/-- inside/outside bits of the eight corners of the cell with origin `p` -/
def cellBits (s : Pt → Bool) (p : Pt) : List Bool :=
  [s (padd p (cornerOff 0)), s (padd p (cornerOff 1)), s (padd p (cornerOff 2)), s (padd p (cornerOff 3)),
   s (padd p (cornerOff 4)), s (padd p (cornerOff 5)), s (padd p (cornerOff 6)), s (padd p (cornerOff 7))]

/-- directed triangle edges emitted for the cell with origin `p`, in lattice-edge ids -/
def cellEdges (s : Pt → Bool) (p : Pt) : List DEdge :=
  (caseSegsRel (caseIndex (cellBits s p))).map (shiftE p)

/-- triangles emitted for the cell with origin `p`, in lattice-edge ids -/
def cellTris (s : Pt → Bool) (p : Pt) : List (LEdge × LEdge × LEdge) :=
  (caseTris (caseIndex (cellBits s p))).map
    (fun t => (shiftL p (edgeRel t.1), shiftL p (edgeRel t.2.1), shiftL p (edgeRel t.2.2)))

/-- cells of the box with origin `o` and `nx × ny × nz` cells -/
def boxCells (o : Pt) (nx ny nz : Nat) : List Pt :=
  (List.range nx).flatMap fun (i : Nat) => (List.range ny).flatMap fun (j : Nat) =>
    (List.range nz).map fun (k : Nat) => padd o (Int.ofNat i, Int.ofNat j, Int.ofNat k)

def boxEdges (s : Pt → Bool) (o : Pt) (nx ny nz : Nat) : List DEdge :=
  (boxCells o nx ny nz).flatMap (cellEdges s)

/-! ### faces -/

/-- the point of the unit cube on face `(a, side)` with in-plane coordinates `(u, v)` -/
def embed (a : Nat) (side : Int) (uv : Int × Int) : Pt :=
  if a = 0 then (side, uv.1, uv.2) else if a = 1 then (uv.1, side, uv.2) else (uv.1, uv.2, side)

def planePts : List (Int × Int) := [(0, 0), (1, 0), (0, 1), (1, 1)]

/-- index of the cube corner with offset `q` (8 = none) -/
def cornerAt (q : Pt) : Nat := ((List.range 8).find? (fun i => cornerOff i = q)).getD 8

/-- the four bits of face `(a, side)` in in-plane order -/
def faceBits (bits : List Bool) (a : Nat) (side : Int) : List Bool :=
  planePts.map fun uv => bits.getD (cornerAt (embed a side uv)) false

/-- a relative lattice edge lies in face `(a, side)` of the unit cube -/
def onFace (a : Nat) (side : Int) (l : LEdge) : Bool := l.2 ≠ a && coord a l.1 = side

/-- directed segments case `c` draws in face `(a, side)` -/
def faceSegs (c : Nat) (a : Nat) (side : Int) : List DEdge :=
  (caseSegsRel c).filter fun e => onFace a side e.1 && onFace a side e.2

/-- directed edges of case `c` that lie in no cube face -/
def interiorSegs (c : Nat) : List DEdge :=
  (caseSegsRel c).filter fun e =>
    !((List.range 3).any fun a => (onFace a 0 e.1 && onFace a 0 e.2) || (onFace a 1 e.1 && onFace a 1 e.2))

/-- the case whose two faces perpendicular to `a` both carry the bits `fb` -/
def dupCase (a : Nat) (fb : List Bool) : Nat :=
  caseIndex ((List.range 8).map fun i =>
    let q := cornerOff i
    let uv : Int × Int := if a = 0 then (q.2.1, q.2.2) else if a = 1 then (q.1, q.2.2) else (q.1, q.2.1)
    fb.getD (uv.1 + 2 * uv.2).toNat false)

def negUnit (a : Nat) : Pt := if a = 0 then (-1, 0, 0) else if a = 1 then (0, -1, 0) else (0, 0, -1)

/-- canonical segments of a face perpendicular to `a` whose corners carry `fb`, relative to the
    face's lower corner: read off the table (high face of `dupCase`, moved down by one cell) -/
def canonRaw (a : Nat) (fb : List Bool) : List DEdge :=
  (faceSegs (dupCase a fb) a 1).map (shiftE (negUnit a))

def bits4 (k : Nat) : List Bool := [k.testBit 0, k.testBit 1, k.testBit 2, k.testBit 3]
def idx4 (fb : List Bool) : Nat :=
  (if fb.getD 0 false then 1 else 0) + (if fb.getD 1 false then 2 else 0) +
  (if fb.getD 2 false then 4 else 0) + (if fb.getD 3 false then 8 else 0)

/-- `canonRaw` tabulated per axis over the 16 face patterns (closed terms, shared by the kernel) -/
def canonTab (a : Nat) : List (List DEdge) := (List.range 16).map fun k => canonRaw a (bits4 k)
def canon (a : Nat) (fb : List Bool) : List DEdge := (canonTab a).getD (idx4 fb) []

def balancedB {V : Type} [DecidableEq V] (L : List (V × V)) : Bool :=
  L.all fun e => L.count e == L.count (e.2, e.1)

/-- `flowList bits`: the case's own directed edges, plus the canonical segments of its three low
    faces, plus the reversed canonical segments of its three high faces.  Balanced for all 256
    sign patterns (`table_cell_flow`) = "what a cell draws is interior-balanced and on each face
    exactly the canonical segments, reversed on the low side". -/
def flowList (bits : List Bool) : List DEdge :=
  caseSegsRel (caseIndex bits)
    ++ canon 0 (faceBits bits 0 0) ++ canon 1 (faceBits bits 1 0) ++ canon 2 (faceBits bits 2 0)
    ++ ((canon 0 (faceBits bits 0 1)).map (shiftE (unit 0))).map swapE
    ++ ((canon 1 (faceBits bits 1 1)).map (shiftE (unit 1))).map swapE
    ++ ((canon 2 (faceBits bits 2 1)).map (shiftE (unit 2))).map swapE

/-! ### block storage (canvas.go) -/

/-- `d.index(x, y, z)` -/
def bindex (x y z : Int) : Int := z * (marchingSectionSize * marchingSectionSize) + y * marchingSectionSize + x

/-- block storage: block coordinate ↦ (if allocated) its `marchingSectionSize³` samples by `index` -/
abbrev Blocks (α : Type) := Pt → Option (Int → α)

/-- `canvasPosToChunkPos` (floor division; the Go code computes it through float64, exact for |x| < 2^46) -/
def chunkOf (q : Pt) : Pt := (q.1 / marchingSectionSize, q.2.1 / marchingSectionSize, q.2.2 / marchingSectionSize)

/-- the global sample grid the storage represents; `none` = the block was never allocated -/
def globalAt {α : Type} (bl : Blocks α) (q : Pt) : Option α :=
  (bl (chunkOf q)).map fun d =>
    d (bindex (q.1 % marchingSectionSize) (q.2.1 % marchingSectionSize) (q.2.2 % marchingSectionSize))

/-- corner lookup of `marchFloat1BlockPosition` for cell `(x, y, z)` of block `b`, corner `i`:
    block `cubeDataBlockPositions[i]`, index `x + inc`, replaced by `neighbourIndex` on every
    axis where that block differs from `b`.  `none` = block missing (the cell is skipped). -/
def fetchCorner {α : Type} (bl : Blocks α) (b : Pt) (x y z : Int) (i : Nat) : Option α :=
  let last := marchingSectionSize - 1
  let xB := if x = last then b.1 + 1 else b.1
  let yB := if y = last then b.2.1 + 1 else b.2.1
  let zB := if z = last then b.2.2 + 1 else b.2.2
  let sel := ptOfRow (cubeDataBlockPositions.getD i [])
  let pos : Pt := (if sel.1 = 1 then xB else b.1, if sel.2.1 = 1 then yB else b.2.1, if sel.2.2 = 1 then zB else b.2.2)
  (bl pos).map fun d =>
    let inc := cornerOff i
    let nx := if pos.1 ≠ b.1 then neighbourIndex.getD 0 0 else x + inc.1
    let ny := if pos.2.1 ≠ b.2.1 then neighbourIndex.getD 1 0 else y + inc.2.1
    let nz := if pos.2.2 ≠ b.2.2 then neighbourIndex.getD 2 0 else z + inc.2.2
    d (bindex nx ny nz)

/-- all eight corners, or `none` when the code `continue`s (some needed block is missing) -/
def fetchCell {α : Type} (bl : Blocks α) (b : Pt) (x y z : Int) : Option (List α) :=
  (List.range 8).mapM (fetchCorner bl b x y z)

end PolyVerif.March
