/-
  C06 (round 2) — standard base64 with padding (RFC 4648 §4, Go `base64.StdEncoding`), core Lean only.
  `encode` is what `ToGLTF(Base64Encode)` puts behind `data:application/octet-stream;base64,`; `decode` is a STRICT reader:
  it rejects characters outside the alphabet, a length that is not a multiple of four, padding anywhere but at the end of the
  LAST quantum, and non-zero trailing bits (Go's `StdEncoding.Strict()`; everything it accepts, `StdEncoding` accepts too).
-/
namespace PolyVerif
namespace Base64

def alphabet : List Char := "ABCDEFGHIJKLMNOPQRSTUVWXYZabcdefghijklmnopqrstuvwxyz0123456789+/".toList

/-- the character of a sextet -/
def ch (n : Nat) : Char := alphabet.getD n 'A'

def findVal : List Char → Nat → Char → Option Nat
  | [], _, _ => none
  | a :: r, i, c => if a = c then some i else findVal r (i + 1) c

/-- the sextet of a character (`none` outside the alphabet, in particular for the padding character) -/
def val (c : Char) : Option Nat := findVal alphabet 0 c

def pad : Char := '='

def encode : List UInt8 → List Char
  | [] => []
  | [a] => [ch (a.toNat / 4), ch (a.toNat % 4 * 16), pad, pad]
  | [a, b] => [ch (a.toNat / 4), ch (a.toNat % 4 * 16 + b.toNat / 16), ch (b.toNat % 16 * 4), pad]
  | a :: b :: c :: r =>
    ch (a.toNat / 4) :: ch (a.toNat % 4 * 16 + b.toNat / 16) :: ch (b.toNat % 16 * 4 + c.toNat / 64) :: ch (c.toNat % 64)
      :: encode r

/-- one quantum of four characters; padding is only accepted when it is the last one -/
def decodeQuad (c0 c1 c2 c3 : Char) (last : Bool) : Option (List UInt8) :=
  match val c0, val c1 with
  | some v0, some v1 =>
    if c2 = pad then
      (if last && c3 = pad && v1 % 16 = 0 then some [UInt8.ofNat (v0 * 4 + v1 / 16)] else none)
    else match val c2 with
      | none => none
      | some v2 =>
        if c3 = pad then
          (if last && v2 % 4 = 0 then some [UInt8.ofNat (v0 * 4 + v1 / 16), UInt8.ofNat (v1 % 16 * 16 + v2 / 4)] else none)
        else match val c3 with
          | none => none
          | some v3 => some [UInt8.ofNat (v0 * 4 + v1 / 16), UInt8.ofNat (v1 % 16 * 16 + v2 / 4), UInt8.ofNat (v2 % 4 * 64 + v3)]
  | _, _ => none

def decode : List Char → Option (List UInt8)
  | [] => some []
  | c0 :: c1 :: c2 :: c3 :: r =>
    match decodeQuad c0 c1 c2 c3 r.isEmpty with
    | none => none
    | some bs => match decode r with
      | none => none
      | some rest => some (bs ++ rest)
  | _ => none

def uriPrefix : List Char := "data:application/octet-stream;base64,".toList

/-- the buffer URI of the text container -/
def dataURI (buf : List UInt8) : List Char := uriPrefix ++ encode buf

/-- strict reader of a base64 data URI -/
def parseDataURI (u : List Char) : Option (List UInt8) :=
  if uriPrefix.isPrefixOf u then decode (u.drop uriPrefix.length) else none

end Base64
end PolyVerif
