/-
  C18 — vertex-manifoldness ("one umbrella per vertex") and connectedness as decidable predicates on triangle lists
  (core Lean only).  `Closed` (Model/Solids.lean) is edge-manifoldness with consistent orientation; a closed
  edge-manifold complex can still be pinched at a vertex (two umbrellas sharing their apex) or consist of several
  components — these two predicates exclude that.
-/
import PolyVerif.Model.Solids

namespace PolyVerif.Solids

section
variable {β : Type} [DecidableEq β]

/-- the link of `v`: for every triangle that has `v` as a corner, the directed edge opposite to `v`
    (`(v,b,c) ↦ b→c`, with the triangle rotated so that `v` comes first) -/
def linkEdges (ts : List (β × β × β)) (v : β) : List (β × β) :=
  ts.flatMap fun t =>
    (if t.1 = v then [(t.2.1, t.2.2)] else []) ++ (if t.2.1 = v then [(t.2.2, t.1)] else []) ++
      (if t.2.2 = v then [(t.1, t.2.1)] else [])

/-- successor of `b` along the link -/
def linkNext (l : List (β × β)) (b : β) : Option β := (l.find? fun e => e.1 = b).map (·.2)

/-- the vertices visited by following the link from `b` for `n` steps (`b` first); stops early at a dead end -/
def linkWalk (l : List (β × β)) : Nat → β → List β
  | 0, _ => []
  | n + 1, b => b :: (match linkNext l b with | some c => linkWalk l n c | none => [])

/-- Boolean form of `Umbrella` -/
def umbrellaB (ts : List (β × β × β)) (v : β) : Bool :=
  let l := linkEdges ts v
  match l.head? with
  | none => false
  | some e0 =>
    let w := linkWalk l l.length e0.1
    decide (3 ≤ l.length) && decide ((l.map (·.1)).Nodup) && (w.length == l.length) && decide w.Nodup &&
      ((w.getLast?.bind (linkNext l)) == some e0.1)

/-- **one umbrella**: the link of `v` is a single directed cycle through all its edges: it has at least 3 edges, no two link
    edges start at the same vertex, and following the link from the first edge's start visits `|link|` distinct
    vertices and then returns to the start. -/
def Umbrella (ts : List (β × β × β)) (v : β) : Prop := umbrellaB ts v = true

instance (ts : List (β × β × β)) (v : β) : Decidable (Umbrella ts v) := by unfold Umbrella; infer_instance

/-- the corners used by a triangle list -/
def cornersOf (ts : List (β × β × β)) : List β := ts.flatMap fun t => [t.1, t.2.1, t.2.2]

/-- **vertex-manifold**: every used vertex has exactly one umbrella -/
def VertexManifold (ts : List (β × β × β)) : Prop := ∀ v ∈ cornersOf ts, Umbrella ts v

instance (ts : List (β × β × β)) : Decidable (VertexManifold ts) := by unfold VertexManifold; infer_instance

/-- one round of reachability: add the heads of all directed edges whose tail is already reached -/
def reachStep (es : List (β × β)) (r : List β) : List β :=
  es.foldl (fun acc e => if e.1 ∈ acc ∧ e.2 ∉ acc then e.2 :: acc else acc) r

def reachIter (es : List (β × β)) : Nat → List β → List β
  | 0, r => r
  | n + 1, r => reachIter es n (reachStep es r)

def connectedB (ts : List (β × β × β)) : Bool :=
  let cs := cornersOf ts
  match cs.head? with
  | none => true
  | some v0 => let r := reachIter (edges ts) cs.eraseDups.length [v0]; cs.all fun v => decide (v ∈ r)

/-- **connected**: from the first corner every corner is reached along directed edges (for a `Closed` list the edge
    relation is symmetric, so this is connectedness of the surface); one round per distinct vertex suffices -/
def Connected (ts : List (β × β × β)) : Prop := connectedB ts = true

instance (ts : List (β × β × β)) : Decidable (Connected ts) := by unfold Connected; infer_instance

end

end PolyVerif.Solids
