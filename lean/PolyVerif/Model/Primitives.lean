/-
  Index generators of /repo `modeling/primitives/*.go` as pure functions of the integer
  parameters (core Lean only).  Vertex positions are floating point and not modelled here;
  what C02 needs is: how many vertices are allocated, and which indices are emitted.
  Every definition mirrors the loop structure and index arithmetic of the Go constructor.
-/
namespace PolyVerif.Prim

/-! ### UVSphere (sphere.go:12-80) and Hemisphere.UV (hemisphere.go:17-86): same counters -/

/-- `len(positions)`: top vertex, `(rows-1)` rings of `columns`, bottom vertex -/
def uvVerts (rows cols : Nat) : Nat := 1 + (rows - 1) * cols + 1

/-- index of the bottom vertex `v1i` -/
def uvBottom (rows cols : Nat) : Nat := 1 + (rows - 1) * cols

def uvSphereCaps (rows cols : Nat) : List Nat :=
  (List.range cols).flatMap fun i =>
    [0, (i + 1) % cols + 1, i + 1,
     uvBottom rows cols, i + cols * (rows - 2) + 1, (i + 1) % cols + cols * (rows - 2) + 1]

def uvSphereQuads (rows cols : Nat) : List Nat :=
  (List.range (rows - 2)).flatMap fun j =>
    let j0 := j * cols + 1
    let j1 := (j + 1) * cols + 1
    (List.range cols).flatMap fun i =>
      let i0 := j0 + i
      let i1 := j0 + (i + 1) % cols
      let i2 := j1 + (i + 1) % cols
      let i3 := j1 + i
      [i0, i1, i2, i0, i2, i3]

def uvSphereTris (rows cols : Nat) : List Nat := uvSphereCaps rows cols ++ uvSphereQuads rows cols

def hemisphereCaps (rows cols : Nat) : List Nat :=
  (List.range cols).flatMap fun i =>
    [0, i + 1, (i + 1) % cols + 1,
     uvBottom rows cols, (i + 1) % cols + cols * (rows - 2) + 1, i + cols * (rows - 2) + 1]

def hemisphereQuads (rows cols : Nat) : List Nat :=
  (List.range (rows - 2)).flatMap fun j =>
    let j0 := j * cols + 1
    let j1 := (j + 1) * cols + 1
    (List.range cols).flatMap fun i =>
      let i0 := j0 + i
      let i1 := j0 + (i + 1) % cols
      let i2 := j1 + (i + 1) % cols
      let i3 := j1 + i
      [i0, i2, i1, i0, i3, i2]

def hemisphereTris (rows cols : Nat) : List Nat := hemisphereCaps rows cols ++ hemisphereQuads rows cols

/-! ### UVSphereUnwelded (sphere.go:82-172): every triangle / quad gets fresh vertices -/

/-- Unwelded sphere: the cap loop appends 3 + 3 vertices per column and indexes the last three;
    the quad loop appends 4 and indexes the last four. `n` is `len(finalVerts)` before the step. -/
def uvUnweldedCaps (cols : Nat) : List Nat :=
  (List.range cols).flatMap fun i =>
    let n := 6 * i
    [n, n + 1, n + 2, n + 3, n + 4, n + 5]

def uvUnweldedQuads (rows cols : Nat) : List Nat :=
  (List.range (rows - 2)).flatMap fun j =>
    (List.range cols).flatMap fun i =>
      let n := 6 * cols + 4 * (j * cols + i)
      [n, n + 1, n + 2, n, n + 2, n + 3]

def uvUnweldedTris (rows cols : Nat) : List Nat := uvUnweldedCaps cols ++ uvUnweldedQuads rows cols
def uvUnweldedVerts (rows cols : Nat) : Nat := 6 * cols + 4 * ((rows - 2) * cols)

/-! ### Circle (circle.go:22-82), `3 ≤ sides` (fewer are rejected by a panic) -/

def circleVerts (sides : Nat) : Nat := sides + 1

def circleTris (sides : Nat) : List Nat :=
  ((List.range (sides - 1)).flatMap fun s => [s, sides, s + 1]) ++ [sides - 1, sides, 0]

/-! ### Cylinder (cylinder.go:28-120): side strip, then `Append` of the top and bottom circle -/

def cylinderSideVerts (sides : Nat) : Nat := sides * 2 + 2

def cylinderSideTris (sides : Nat) : List Nat :=
  (List.range sides).flatMap fun s =>       -- Go's sideIndex = s + 1
    let topLeft := s * 2
    let topRight := (s + 1) * 2
    let bottomLeft := topLeft + 1
    let bottomRight := topRight + 1
    [bottomLeft, topLeft, topRight, bottomLeft, topRight, bottomRight]

def cylinderTris (sides : Nat) (top bottom : Bool) : List Nat :=
  let side := cylinderSideTris sides
  let n0 := cylinderSideVerts sides
  let t := if top then (circleTris sides).map (· + n0) else []
  let n1 := if top then n0 + circleVerts sides else n0
  let b := if bottom then (circleTris sides).map (· + n1) else []
  side ++ t ++ b

def cylinderVerts (sides : Nat) (top bottom : Bool) : Nat :=
  cylinderSideVerts sides + (if top then circleVerts sides else 0) + (if bottom then circleVerts sides else 0)

/-! ### Cone (cones.go:17-38), `3 ≤ sides` -/

def coneVerts (sides : Nat) : Nat := sides + 1

/-- `tris = append(tris, i, lastVert, i+1)` then the very last entry is overwritten with 0 -/
def coneTris (sides : Nat) : List Nat :=
  ((List.range (sides - 1)).flatMap fun i => [i, sides, i + 1]) ++ [sides - 1, sides, 0]

/-! ### Quad (quad.go:32) and the welded cube table (cube.go:62-86) -/

def quadVerts : Nat := 4
def quadTris : List Nat := [0, 1, 2, 2, 3, 0]

def cubeVerts : Nat := 8
def cubeTris : List Nat :=
  [0, 2, 6, 0, 6, 4,   1, 3, 2, 1, 2, 0,   4, 6, 7, 4, 7, 5,
   2, 3, 7, 2, 7, 6,   1, 0, 4, 1, 4, 5,   5, 7, 3, 5, 3, 1]

/-- `Cube.UnweldedQuads`: six quads appended one after another -/
def cubeUnweldedVerts : Nat := 24
def cubeUnweldedTris : List Nat := (List.range 6).flatMap fun q => quadTris.map (· + 4 * q)

/-! ### extrude.Shape / extrude.ClosedShape (extrude/shape.go:11-90): `pathLen` rings of `sides` vertices -/

def extrudeShapeVerts (pathLen sides : Nat) : Nat := pathLen * sides

/-- the ring joining `bottom` and `top` -/
def extrudeRing (bottom top sides : Nat) : List Nat :=
  (List.range sides).flatMap fun sideIndex =>
    let topRight := top + sideIndex
    let bottomRight := bottom + sideIndex
    let topLeft := if sideIndex = 0 then top + sides - 1 else topRight - 1
    let bottomLeft := if sideIndex = 0 then bottom + sides - 1 else bottomRight - 1
    [bottomLeft, topLeft, topRight, bottomLeft, topRight, bottomRight]

def extrudeShapeTris (pathLen sides : Nat) (close : Bool) : List Nat :=
  (List.range pathLen).flatMap fun pathIndex =>
    if pathIndex = pathLen - 1 then
      (if close then extrudeRing (pathIndex * sides) 0 sides else [])
    else extrudeRing (pathIndex * sides) ((pathIndex + 1) * sides) sides

/-! ### extrude.Line (extrude/line.go:26-116): three vertices per path point, four triangles per segment -/

def extrudeLineVerts (n : Nat) : Nat := n * 3

def extrudeLineTris (n : Nat) : List Nat :=
  (List.range (n - 1)).flatMap fun j =>        -- Go's i = j + 1
    let front := (j + 1) * 3
    let back := j * 3
    [front, back, back + 1,  front, back + 1, front + 1,
     front, front + 2, back,  front + 2, back + 2, back]

/-! ### extrude.ScrewNodeData.Process (extrude/screw.go:24-112): `segments` copies of a line of `lineLen` points -/

def screwVerts (lineLen segments : Nat) : Nat := lineLen * segments

def screwTris (lineLen segments : Nat) : List Nat :=
  (List.range (segments - 1)).flatMap fun s =>          -- Go's seg = s + 1
    (List.range (lineLen - 1)).flatMap fun j =>         -- Go's l = j + 1
      let bottomLeft := j + s * lineLen
      let bottomRight := (j + 1) + s * lineLen
      let topLeft := j + (s + 1) * lineLen
      let topRight := (j + 1) + (s + 1) * lineLen
      [bottomRight, bottomLeft, topLeft, topRight, bottomRight, topLeft]

/-! ### extrude.polygon (extrude/circle.go:50-194; `Polygon`, `Circle.Extrude`, `CircleAlongSpline.Extrude`):
`pathLen` rings of `sides + 1` vertices. The winding of each quad is decided by a floating point
test (`dir.Dot(...) < 0`), so it is a parameter here: one flag per quad, in emission order. -/

def polygonVerts (pathLen sides : Nat) : Nat := pathLen * (sides + 1)

def polygonQuad (bottom top s : Nat) (flip : Bool) : List Nat :=
  let topRight := top + s
  let bottomRight := bottom + s
  let topLeft := topRight + 1
  let bottomLeft := bottomRight + 1
  if flip then [bottomLeft, topRight, topLeft, bottomLeft, bottomRight, topRight]
  else [bottomLeft, topLeft, topRight, bottomLeft, topRight, bottomRight]

/-- the quads in emission order as (bottom, top, sideIndex) -/
def polygonQuads (pathLen sides : Nat) (closed : Bool) : List (Nat × Nat × Nat) :=
  (List.range pathLen).flatMap fun p =>
    if p = pathLen - 1 then
      (if closed then (List.range sides).map fun s => (p * (sides + 1), 0, s) else [])
    else (List.range sides).map fun s => (p * (sides + 1), (p + 1) * (sides + 1), s)

def polygonTris (pathLen sides : Nat) (closed : Bool) (flips : List Bool) : List Nat :=
  ((polygonQuads pathLen sides closed).zip flips).flatMap fun qf =>
    polygonQuad qf.1.1 qf.1.2.1 qf.1.2.2 qf.2

/-- recover the winding flags from an emitted index list (second entry of each group of six) -/
def polygonFlipsOf (pathLen sides : Nat) (closed : Bool) (idx : List Nat) : List Bool :=
  (polygonQuads pathLen sides closed).zipIdx.map fun qi =>
    match idx[6 * qi.2 + 1]? with
    | some x => x == qi.1.2.1 + qi.1.2.2
    | none => false

/-! ### the extrusion entry points with their rejection branch: `none` = the Go function panics -/

/-- `extrude.polygon(sides, points, closed)` (circle.go:51-57): panics for fewer than 2 points or fewer than 3 sides -/
def extrudePolygon? (pathLen sides : Nat) (closed : Bool) (flips : List Bool) : Option (Nat × List Nat) :=
  if pathLen < 2 ∨ sides < 3 then none else some (polygonVerts pathLen sides, polygonTris pathLen sides closed flips)

/-- `extrude.makeShape(shape, path, close)` (shape.go:12-14): panics for fewer than 2 path points; any shape size -/
def extrudeShape? (pathLen sides : Nat) (close : Bool) : Option (Nat × List Nat) :=
  if pathLen < 2 then none else some (extrudeShapeVerts pathLen sides, extrudeShapeTris pathLen sides close)

/-- `extrude.Line(points)` (line.go:27-29): panics for fewer than 2 points -/
def extrudeLine? (n : Nat) : Option (Nat × List Nat) :=
  if n < 2 then none else some (extrudeLineVerts n, extrudeLineTris n)

/-- `ScrewNodeData.Process` (screw.go:30-40): never rejects; fewer than 2 line points or segments give the empty mesh -/
def screw (lineLen segments : Nat) : Nat × List Nat :=
  if lineLen < 2 ∨ segments < 2 then (0, []) else (screwVerts lineLen segments, screwTris lineLen segments)

end PolyVerif.Prim
