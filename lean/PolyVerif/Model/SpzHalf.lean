/-
  util.go `halfToFloat` of /repo/formats/spz with the source's own operators on a `uint16` (`BitVec 16`), and the
  integer reading of a finite pattern; core Lean only (the C15 driver runs these for the exhaustive
  `c15.spz.halfall` / `c15.holds.half_binary16` lines).  `Spz.halfToFloat` (Model/Spz.lean) is the div/mod
  form used inside `Spz.read`; `Half.halfToFloatBits_eq` (Lemmas/Half.lean) proves them equal.
-/
import PolyVerif.Model.Spz

namespace PolyVerif
namespace Half
open Spz Scalar

/-- biased exponent `(h >> 10) & 0x1f` -/
def expOf (h : Nat) : Nat := h / 1024 % 32
/-- trailing significand `h & 0x3ff` -/
def manOf (h : Nat) : Nat := h % 1024
/-- util.go `halfToFloat` with the source's own operators on a `uint16`: `(h >> 10) & 0x1f`, `h & 0x3ff`,
    `(h >> 15) & 0x1` -/
def halfToFloatBits {α : Type} [Scalar α] (E : Env α) (h : BitVec 16) : α :=
  let exponent := (h >>> 10) &&& 0x1f#16
  let mantissa := h &&& 0x3ff#16
  let signMul : α := if (h >>> 15) &&& 0x1#16 = 1#16 then -(natF 1) else natF 1
  if exponent = 0#16 then signMul * E.pow2 (-14) * natF mantissa.toNat / natF 1024
  else if exponent = 31#16 then
    (if mantissa ≠ 0#16 then E.nan else if (h >>> 15) &&& 0x1#16 = 1#16 then -E.inf else E.inf)
  else signMul * E.pow2 ((exponent.toNat : Int) - 15) * (natF 1 + natF mantissa.toNat / natF 1024)

/-- numerator over `2^25` of the magnitude: `m·2` for subnormals, `(1024 + m)·2^e` for normals -/
def num (h : Nat) : Nat := if expOf h = 0 then manOf h * 2 else (1024 + manOf h) * 2 ^ expOf h

/-- the closed form of `C15.half_is_binary16` / `Half.halfToFloat_finite`, evaluated on a value `v` the
    implementation returned for pattern `h`: NaN patterns give a NaN, infinities the signed infinity, every
    finite pattern `± num h / 2^25` (exact in float64: an 11-bit significand times a power of two; `−0` for
    0x8000), compared bit for bit -/
def isBinary16 (h : Nat) (v : Float) : Bool :=
  let neg := h / 32768 % 2 = 1
  if expOf h = 31 then
    if manOf h ≠ 0 then v.isNaN else v.toBits == (if neg then (-1.0 / 0.0 : Float) else (1.0 / 0.0 : Float)).toBits
  else
    let mag : Float := Float.ofNat (num h) / Float.ofNat (2 ^ 25)
    v.toBits == (if neg then -mag else mag).toBits

end Half
end PolyVerif
