/-
  A tiny language for the node wrappers of the solid primitives (`UvSphereNodeData.Process`, `HemisphereNodeData.Process`,
  `CylinderNodeData.Process`, `CubeNodeData.Process` in /repo `modeling/primitives/*.go`), core Lean only.
  Engine F (`go/facts c18.nodes`) extracts each `Process` body as a term of this language into
  `PolyVerif/Gen/PrimNodes.lean`; `Props/C18Nodes.lean` proves that the hand model of `Model/SolidsNodes.lean` (defaults,
  clamps, which constructor is called on which parameters) EQUALS the interpretation of the extracted program for every
  assignment of the optional input ports.

  Semantics (mirrors Go for the recognised shapes):
    * variables are numbered (locals and the fields `v.F` of a struct literal `v := T{...}`); ports are numbered by their
      position in the `...NodeData` struct; a port is either unconnected (`nil`) or yields a value of its kind;
    * `decl x a`     : `x := a`                                (literal, variable or `!variable`)
    * `port x p`     : `if recv.P != nil { x = recv.P.Value() }`
    * `clampMin x n` : `x = max(x, n)`                          (Go `int` modelled as `Int`)
    * `ret`          : `return CALL, nil`, or `if w { return CALL₁, nil }; return CALL₂, nil`
    * the result is the constructor that is called, the field values of its receiver struct and its arguments.
-/
import PolyVerif.Model.Scalar

namespace PolyVerif.NodeIR
open PolyVerif

inductive Val (α : Type) where
  | int (i : Int)
  | bool (b : Bool)
  | flt (x : α)

inductive Lit where
  | int (i : Int)
  | bool (b : Bool)
  | flt (num den : Nat)     -- decimal literal `num/den` (`Scalar.lit`)

inductive Arg where
  | var (k : Nat)
  | notVar (k : Nat)
  | lit (l : Lit)

inductive Stmt where
  | decl (x : Nat) (a : Arg)
  | port (x : Nat) (p : Nat)
  | clampMin (x : Nat) (n : Int)

structure Call where
  fn : String
  recv : List (String × Arg)
  args : List Arg

inductive Ret where
  | call (c : Call)
  | ite (x : Nat) (t e : Call)

structure Node where
  stmts : List Stmt
  ret : Ret

/-- what a wrapper does: which constructor it calls, on which receiver fields and arguments -/
structure Outcome (α : Type) where
  fn : String
  recv : List (String × Val α)
  args : List (Val α)

abbrev Env (α : Type) := List (Nat × Val α)

def lookup {α : Type} (env : Env α) (k : Nat) : Option (Val α) :=
  match env with
  | [] => none
  | (j, v) :: r => if j = k then some v else lookup r k

section
variable {α : Type} [Scalar α]

def evalLit : Lit → Val α
  | .int i => .int i
  | .bool b => .bool b
  | .flt n d => .flt (Scalar.lit n d)

def evalArg (env : Env α) : Arg → Option (Val α)
  | .var k => lookup env k
  | .notVar k => match lookup env k with
    | some (.bool b) => some (.bool (!b))
    | _ => none
  | .lit l => some (evalLit l)

def step (ports : Nat → Option (Val α)) (env : Env α) : Stmt → Option (Env α)
  | .decl x a => (evalArg env a).map fun v => (x, v) :: env
  | .port x p => match ports p with
    | none => some env
    | some v => some ((x, v) :: env)
  | .clampMin x n => match lookup env x with
    | some (.int i) => some ((x, .int (max i n)) :: env)
    | _ => none

def steps (ports : Nat → Option (Val α)) : Env α → List Stmt → Option (Env α)
  | env, [] => some env
  | env, s :: r => match step ports env s with
    | none => none
    | some env' => steps ports env' r

def evalArgs (env : Env α) : List Arg → Option (List (Val α))
  | [] => some []
  | a :: r => match evalArg env a, evalArgs env r with
    | some v, some vs => some (v :: vs)
    | _, _ => none

def evalRecv (env : Env α) : List (String × Arg) → Option (List (String × Val α))
  | [] => some []
  | (f, a) :: r => match evalArg env a, evalRecv env r with
    | some v, some vs => some ((f, v) :: vs)
    | _, _ => none

def evalCall (env : Env α) (c : Call) : Option (Outcome α) :=
  match evalRecv env c.recv, evalArgs env c.args with
  | some r, some a => some { fn := c.fn, recv := r, args := a }
  | _, _ => none

/-- run a wrapper on an assignment of its ports; `none`: ill-formed program (undeclared variable, kind error) -/
def run (nd : Node) (ports : Nat → Option (Val α)) : Option (Outcome α) :=
  match steps ports [] nd.stmts with
  | none => none
  | some env => match nd.ret with
    | .call c => evalCall env c
    | .ite x t e => match lookup env x with
      | some (.bool true) => evalCall env t
      | some (.bool false) => evalCall env e
      | _ => none
end

end PolyVerif.NodeIR
