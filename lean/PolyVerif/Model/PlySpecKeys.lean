/-
  C08 — header-only part of `PlySpec.meaning`: the (arity, attribute) keys it installs, and the keys of the readers the
  claim stage builds.  Core Lean only (used by the driver oracle `c08.holds.claim_keys` and by Props/C08Claim.lean).
-/
import PolyVerif.Model.PlySpec

namespace PolyVerif
namespace PlySpec
open Ply

variable {α : Type}

/-- the (arity, attribute) keys `meaning` installs, in its order: recognised groups, then every other property as a
float1 attribute of its own name — the header-only part of `PlySpec.meaning` (same expressions) -/
def meaningKeys (f : SpecFile α) : List (Nat × Bytes) :=
  let present := f.vprops.map (·.name)
  let used := groups.filterMap (fun g => (groupNames present g).map (fun ns => (g.1, ns)))
  let claimed := (used.map (·.2)).flatten
  used.map (fun x => (x.2.length, x.1)) ++ (present.filter (fun n => !claimed.contains n)).map (fun n => (1, n))

/-- the keys of the readers `MeshReader.Read` builds on the header of `f` -/
def builtKeys (f : SpecFile α) : List (Nat × Bytes) :=
  (buildAll (f.format != .ascii) (f.vprops.map (fun p => (p.name, p.ty))) defaultReaders true).map
    (fun b => (b.names.length, b.attr))

end PlySpec
end PolyVerif
