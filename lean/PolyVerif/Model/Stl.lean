/-
  Model of /repo/formats/stl (binary STL codec), core Lean only.

  Byte level (binary.go, write.go `Write`, read.go `Read`):
    file   = header[80] ++ le32(uint32(len(tris))) ++ records
    record = 12 float32 (normal, vertex1, vertex2, vertex3; x y z each) as 4-byte
             little-endian words ++ le16(attribute)          -- 50 bytes
  Words are bit patterns (`BitVec 32`): the codec only moves them
  (`encoding/binary` goes through math.Float32bits / Float32frombits).

  Mesh level (write.go `WriteMesh`, read.go `ReadMesh`): polymorphic in the
  float64 payload type `α`; float32 narrowing, widening and the two normal
  computations are the parameter bundle `Params α` (the driver instantiates it
  with IEEE arithmetic mirroring the Go operation order).
-/
namespace PolyVerif.Stl

abbrev Byte := BitVec 8
abbrev W32 := BitVec 32
abbrev W16 := BitVec 16

structure P3 (α : Type) where
  x : α
  y : α
  z : α
deriving DecidableEq, Repr

def P3.map {α β : Type} (f : α → β) (v : P3 α) : P3 β := ⟨f v.x, f v.y, f v.z⟩

/-- `stl.Triangle`: Normal, Vertex1..3 (each three float32) and the attribute word -/
structure Tri where
  n : P3 W32
  v1 : P3 W32
  v2 : P3 W32
  v3 : P3 W32
  attr : W16
deriving DecidableEq, Repr

/-- `stl.Header = [80]byte` -/
structure Header where
  bytes : List Byte
  len : bytes.length = 80

instance : DecidableEq Header := fun a b =>
  if h : a.bytes = b.bytes then isTrue (by cases a; cases b; simp_all) else isFalse (by intro e; exact h (e ▸ rfl))

def zeroHeader : Header := ⟨List.replicate 80 0, by simp⟩

inductive Err where
  | short   -- io.ErrUnexpectedEOF / io.EOF from binary.Read
  | panic   -- index out of range in the corner gather
deriving DecidableEq, Repr

/-! ### little-endian words -/

def le16 (w : W16) : List Byte := [BitVec.ofNat 8 w.toNat, BitVec.ofNat 8 (w.toNat / 256)]

def le32 (w : W32) : List Byte :=
  [BitVec.ofNat 8 w.toNat, BitVec.ofNat 8 (w.toNat / 256), BitVec.ofNat 8 (w.toNat / 65536),
   BitVec.ofNat 8 (w.toNat / 16777216)]

def rd16 : List Byte → Option (W16 × List Byte)
  | b0 :: b1 :: r => some (BitVec.ofNat 16 (b0.toNat + 256 * b1.toNat), r)
  | _ => none

def rd32 : List Byte → Option (W32 × List Byte)
  | b0 :: b1 :: b2 :: b3 :: r =>
      some (BitVec.ofNat 32 (b0.toNat + 256 * b1.toNat + 65536 * b2.toNat + 16777216 * b3.toNat), r)
  | _ => none

/-! ### encoder (`stl.Write`) -/

def encP3 (v : P3 W32) : List Byte := le32 v.x ++ le32 v.y ++ le32 v.z

def encTri (t : Tri) : List Byte :=
  encP3 t.n ++ encP3 t.v1 ++ encP3 t.v2 ++ encP3 t.v3 ++ le16 t.attr

def encTris : List Tri → List Byte
  | [] => []
  | t :: ts => encTri t ++ encTris ts

/-- the pure layout: the count is `uint32(len(bin.Triangles))` (truncating conversion) -/
def encodeRaw (h : Header) (ts : List Tri) : List Byte :=
  h.bytes ++ le32 (BitVec.ofNat 32 ts.length) ++ encTris ts

/-! `encoding/binary` serialises a struct field of kind float32 through reflection:
    `math.Float32bits(float32(v.Float()))` on write and `v.SetFloat(float64(math.Float32frombits(u)))`
    on read.  The float32→float64→float32 trip sets the quiet bit of a signalling NaN and changes no
    other bit pattern (observed: the `c07.write` / `c07.read` correspondence feeds sNaN words). -/

/-- a float32 NaN: exponent all ones, mantissa non-zero, i.e. the low 31 bits exceed 0x7f800000 -/
def isNaN32 (w : W32) : Bool := decide (0x7f800000 < w.toNat % 0x80000000)

/-- what a float32 bit pattern becomes on its way through `encoding/binary`: a NaN gets its quiet
    bit (bit 22) set -/
def quiet (w : W32) : W32 :=
  if isNaN32 w then (if w.toNat / 0x400000 % 2 = 1 then w else BitVec.ofNat 32 (w.toNat + 0x400000)) else w

def quietV (v : P3 W32) : P3 W32 := ⟨quiet v.x, quiet v.y, quiet v.z⟩

def quietTri (t : Tri) : Tri := ⟨quietV t.n, quietV t.v1, quietV t.v2, quietV t.v3, t.attr⟩

/-- `stl.Write` -/
def encode (h : Header) (ts : List Tri) : List Byte := encodeRaw h (ts.map quietTri)

/-! ### decoder (`stl.Read`): sequential reads, each failing on a short input; bytes after
    the last record are left unread (Go reads from an `io.Reader` and never checks for EOF) -/

def rdP3 (bs : List Byte) : Option (P3 W32 × List Byte) :=
  (rd32 bs).bind fun (x, bs) => (rd32 bs).bind fun (y, bs) => (rd32 bs).bind fun (z, bs) =>
    some (⟨x, y, z⟩, bs)

def rdTri (bs : List Byte) : Option (Tri × List Byte) :=
  (rdP3 bs).bind fun (n, bs) => (rdP3 bs).bind fun (v1, bs) => (rdP3 bs).bind fun (v2, bs) =>
  (rdP3 bs).bind fun (v3, bs) => (rd16 bs).bind fun (a, bs) => some (⟨n, v1, v2, v3, a⟩, bs)

def rdTris : Nat → List Byte → Option (List Tri × List Byte)
  | 0, bs => some ([], bs)
  | k + 1, bs => (rdTri bs).bind fun (t, bs) => (rdTris k bs).bind fun (ts, bs) => some (t :: ts, bs)

def rdHeader (bs : List Byte) : Option (Header × List Byte) :=
  if h : 80 ≤ bs.length then some (⟨bs.take 80, by simp [List.length_take]; omega⟩, bs.drop 80) else none

def decodeRaw (bs : List Byte) : Except Err (Header × List Tri) :=
  match rdHeader bs with
  | none => .error .short
  | some (h, bs) =>
    match rd32 bs with
    | none => .error .short
    | some (c, bs) =>
      match rdTris c.toNat bs with
      | none => .error .short
      | some (ts, _) => .ok (h, ts)

/-- `stl.Read` -/
def decode (bs : List Byte) : Except Err (Header × List Tri) :=
  (decodeRaw bs).map fun (h, ts) => (h, ts.map quietTri)

/-- a byte string is a well-formed binary STL file: exactly header, count and `count` records -/
def WellFormed (bs : List Byte) : Prop :=
  ∃ c rest, rd32 (bs.drop 80) = some (c, rest) ∧ bs.length = 84 + 50 * c.toNat

/-! ### mesh level -/

/-- the part of `modeling.Mesh` the STL codec looks at (triangle topology) -/
structure Mesh (α : Type) where
  indices : List Nat
  pos : Option (List (P3 α))   -- v3Data["Position"], `none` = attribute absent
  nrm : Option (List (P3 α))   -- v3Data["Normal"]
deriving DecidableEq, Repr

/-- stored-precision bundle (DESIGN §4 (iii)) -/
structure Params (α : Type) where
  /-- `math.Float32bits(float32(x))` -/
  q32 : α → W32
  /-- `float64(math.Float32frombits(w))` -/
  up : W32 → α
  /-- `v1.Add(v2).Add(v3).DivByConstant(3).Normalized()` -/
  avgNormal : P3 α → P3 α → P3 α → P3 α
  /-- `v2.Sub(v1).Cross(v3.Sub(v1)).Normalized()` -/
  flatNormal : P3 α → P3 α → P3 α → P3 α

/-- float32 `x == 0`: exactly the two bit patterns ±0 -/
def isZero32 (w : W32) : Bool := w &&& 0x7fffffff#32 == 0#32

/-- `Vec.Zero()` -/
def isZeroV (v : P3 W32) : Bool := isZero32 v.x && isZero32 v.y && isZero32 v.z

def zeroV : P3 W32 := ⟨0, 0, 0⟩

/-- consecutive index triples: `Tri(i)` reads `indices[3i], indices[3i+1], indices[3i+2]`
    for `i < len(indices)/3` -/
def chunks : List Nat → List (Nat × Nat × Nat)
  | a :: b :: c :: r => (a, b, c) :: chunks r
  | _ => []

/-- the same triples, literally as the Go loop computes them (`i*3`, `+1`, `+2`); `none` never
    occurs for `i < len/3` (see `Props.C07.chunks_eq_triples`) -/
def triples (idx : List Nat) : List (Option (Nat × Nat × Nat)) :=
  (List.range (idx.length / 3)).map fun i =>
    match idx[3 * i]?, idx[3 * i + 1]?, idx[3 * i + 2]? with
    | some a, some b, some c => some (a, b, c)
    | _, _, _ => none

variable {α : Type}

/-- the facet normal `WriteMesh` stores for the triple `(a,b,c)`; `none` = index out of range (panic) -/
def storedNormal (P : Params α) (ns : Option (List (P3 α))) (a b c : Nat) : Option (P3 W32) :=
  match ns with
  | none => some zeroV
  | some ns =>
    match ns[a]?, ns[b]?, ns[c]? with
    | some n1, some n2, some n3 => some ((P.avgNormal n1 n2 n3).map P.q32)
    | _, _, _ => none

def buildTris (P : Params α) (ps : List (P3 α)) (ns : Option (List (P3 α))) :
    List (Nat × Nat × Nat) → Except Err (List Tri)
  | [] => .ok []
  | (a, b, c) :: r =>
    match ps[a]?, ps[b]?, ps[c]?, storedNormal P ns a b c, buildTris P ps ns r with
    | some p1, some p2, some p3, some n, .ok ts =>
        .ok (⟨n, p1.map P.q32, p2.map P.q32, p3.map P.q32, 0⟩ :: ts)
    | _, _, _, _, _ => .error .panic

/-- the `[]Triangle` that `WriteMesh` hands to `Write` -/
def writeTris (P : Params α) (m : Mesh α) : Except Err (List Tri) :=
  match m.pos with
  | none => .ok []          -- "no position attribute": an empty file, whatever the indices
  | some ps => buildTris P ps m.nrm (chunks m.indices)

/-- `stl.WriteMesh` (header left zero) -/
def writeMesh (P : Params α) (m : Mesh α) : Except Err (List Byte) :=
  (writeTris P m).map (encode zeroHeader)

/-- the normal `ReadMesh` assigns to the three corners of a record -/
def triNormal (P : Params α) (t : Tri) : P3 α :=
  if isZeroV t.n then P.flatNormal (t.v1.map P.up) (t.v2.map P.up) (t.v3.map P.up)
  else t.n.map P.up

def corners (P : Params α) : List Tri → List (P3 α)
  | [] => []
  | t :: ts => t.v1.map P.up :: t.v2.map P.up :: t.v3.map P.up :: corners P ts

def cornerNormals (P : Params α) : List Tri → List (P3 α)
  | [] => []
  | t :: ts => triNormal P t :: triNormal P t :: triNormal P t :: cornerNormals P ts

def meshOfTris (P : Params α) (ts : List Tri) : Mesh α :=
  match ts with
  | [] => ⟨[], none, none⟩                              -- modeling.EmptyMesh
  | _ :: _ =>
    ⟨List.range (3 * ts.length), some (corners P ts),
     if ts.any (fun t => !isZeroV t.n) then some (cornerNormals P ts) else none⟩

/-- `stl.ReadMesh` -/
def readMesh (P : Params α) (bs : List Byte) : Except Err (Mesh α) :=
  (decode bs).map fun (_, ts) => meshOfTris P ts

/-! ### the round-trip predicate (what the property says about `ReadMesh ∘ WriteMesh`) -/

/-- well-formed triangle mesh with a position attribute -/
def WF (m : Mesh α) : Prop :=
  m.indices.length % 3 = 0 ∧
  ∃ ps, m.pos = some ps ∧ (∀ i ∈ m.indices, i < ps.length) ∧ ∀ ns, m.nrm = some ns → ns.length = ps.length

/-- float32 rounding of a float64 triple, seen again as float64 -/
def r32 (P : Params α) (v : P3 α) : P3 α := (v.map P.q32).map P.up

/-- what corner normals the read-back mesh must carry for index triples `cs`:
    per facet the stored normal `q32 (avgNormal …)` widened, or — when that is (±0,±0,±0) or the
    source has no normals — the geometric normal of the rounded corners -/
def expectedNormals (P : Params α) (ps : List (P3 α)) (ns : Option (List (P3 α))) :
    List (Nat × Nat × Nat) → Option (List (P3 α))
  | [] => some []
  | (a, b, c) :: r =>
    match ps[a]?, ps[b]?, ps[c]?, storedNormal P ns a b c, expectedNormals P ps ns r with
    | some p1, some p2, some p3, some s, some rest =>
        let n := if isZeroV s then P.flatNormal (r32 P p1) (r32 P p2) (r32 P p3) else s.map P.up
        some (n :: n :: n :: rest)
    | _, _, _, _, _ => none

/-- does any facet of the source get a non-zero stored normal? -/
def anyStored (P : Params α) (ns : Option (List (P3 α))) (cs : List (Nat × Nat × Nat)) : Bool :=
  cs.any fun (a, b, c) => match storedNormal P ns a b c with
    | some s => !isZeroV s
    | none => false

/-- `r` is what the property promises for reading back the STL file of `m`:
    * as many triangles, un-indexed in order (`indices = 0,1,…,3n-1`);
    * corner `k` is the float32 rounding of position `indices[k]`;
    * a normal attribute exists iff some facet stored a non-zero normal, and then carries per facet
      the stored (normalised mean) normal, or the geometric one where the stored normal is zero. -/
def RoundTrips [DecidableEq α] (P : Params α) (m r : Mesh α) : Bool :=
  match m.pos with
  | none => false
  | some ps =>
    let n := m.indices.length / 3
    r.indices == List.range (3 * n) &&
    (match r.pos with
     | some cs => cs.map some == m.indices.map (fun i => (ps[i]?).map (r32 P))
     | none => n == 0) &&
    (if n == 0 then r.nrm == none
     else if anyStored P m.nrm (chunks m.indices) then
       r.nrm.isSome && r.nrm == expectedNormals P ps m.nrm (chunks m.indices)
     else r.nrm == none)

/-! ### ReadMesh → WriteMesh (exact behaviour; clause 3 of C07 is read at the `Read`/`Write` level, a mesh
    has no place for the header or the attribute word) -/

/-- `stl.ReadMesh` followed by `stl.WriteMesh` -/
def resaveMesh (P : Params α) (bs : List Byte) : Except Err (List Byte) :=
  match readMesh P bs with
  | .ok m => writeMesh P m
  | .error e => .error e

/-- what a record becomes: positions widened and narrowed again; the normal re-derived from the three (equal)
    corner normals ReadMesh made — if the read mesh has a normal attribute at all (`keepN`) —; attribute 0 -/
def resaveTri (P : Params α) (keepN : Bool) (t : Tri) : Tri :=
  ⟨if keepN then (P.avgNormal (triNormal P t) (triNormal P t) (triNormal P t)).map P.q32 else zeroV,
   (t.v1.map P.up).map P.q32, (t.v2.map P.up).map P.q32, (t.v3.map P.up).map P.q32, 0⟩

def resaveTris (P : Params α) (ts : List Tri) : List Tri :=
  ts.map (resaveTri P (ts.any fun t => !isZeroV t.n))

/-- the STRICT reading of the normal clause of C07: the read-back mesh carries, for EVERY triangle, a
    facet normal — the stored one where it is non-zero, the geometric one otherwise (in particular for a
    mesh that stores no normals at all).  The code does not satisfy this (see
    `C07.stl_geometric_normal_counterexample`): `ReadMesh` drops the attribute when every stored normal is
    zero, and formats/stl/read_test.go pins that behaviour. -/
def FullNormals [DecidableEq α] (P : Params α) (m r : Mesh α) : Bool :=
  match m.pos with
  | none => false
  | some ps => r.nrm.isSome && r.nrm == expectedNormals P ps m.nrm (chunks m.indices)

end PolyVerif.Stl
