/-
  C01 — sharing summaries of Go functions and of the model's operation classes (core Lean only).

  `Src`, `Comp`, `FnSummary` are the data the extractor go/facts/c01_classes.go emits (Gen/C01Classes.lean):
  for every exported Mesh-returning function of package modeling and every component of the returned mesh
  (topology, indices, materials, v1Data..v4Data) the set of places the component can come from.

  `Cls` names the model's operation classes (`MeshHeap.Op` constructors of the current tree, parameters that
  matter for sharing kept: the attribute kind, the materials mode); `Cls.spec` is the sharing summary of the class;
  `handClass` is the HAND CLASSIFICATION: which model class the harness sends for which Go function (the first
  token of the request string next to the Go call in go/harness/c01.go; the harness emits one `c01.class` line per
  Go function it has exercised and the driver answers it from this very table).
-/
import PolyVerif.Model.MeshHeap

namespace PolyVerif
namespace MeshClasses

open MeshHeap

/-- where a component of the returned mesh comes from.  Fields: 0 topology, 1 indices, 2 materials, 3..6 v1Data..v4Data -/
inductive Src where
  /-- field `f` of mesh parameter `i` (0 = receiver) passed through unchanged: SHARED -/
  | recv (i f : Nat)
  /-- a slice stored in map field `f` of mesh parameter `i` -/
  | elem (i f : Nat)
  /-- non-mesh parameter `j` passed through: the caller's slice / map -/
  | caller (j : Nat)
  /-- an element of the non-mesh parameter `j` -/
  | celem (j : Nat)
  /-- allocated in this call -/
  | fresh
  | nil
  /-- a plain value (topology) -/
  | val
  /-- not recognised by the extractor -/
  | unknown
deriving DecidableEq, Repr

/-- `obj`: possible sources of the slice / map itself; `ent` (maps only): possible sources of what is stored in it -/
structure Comp where
  obj : List Src
  ent : List Src
deriving DecidableEq, Repr

structure FnSummary where
  name : String
  meshParams : Nat
  comps : List Comp
deriving Repr

/-- the model's operation classes that a single Go function of package modeling can belong to -/
inductive Cls where
  | newMesh | setIndices | setMaterials | toPointCloud | clearAttrs
  | setData (kind : Nat) | setAttr (kind : Nat) | copyAttr (kind : Nat)
  | rebuild (mats : MatMode) | readOnly | append
deriving DecidableEq, Repr

/-- the name the harness / driver use for the class (first token of a `c01.shape` request) -/
def Cls.wire : Cls → String
  | .newMesh => "newmesh" | .setIndices => "setindices" | .setMaterials => "setmaterials"
  | .toPointCloud => "topointcloud" | .clearAttrs => "clearattrs"
  | .setData k => s!"setdata {k}" | .setAttr k => s!"setattr {k}" | .copyAttr k => s!"copyattr {k}"
  | .rebuild .share => "rebuild share" | .rebuild .drop => "rebuild drop"
  | .readOnly => "readonly" | .append => "append"

def shared (f : Nat) : Comp := ⟨[.recv 0 f], []⟩

/-- all seven components shared with the receiver, except component `f` which is `c` -/
def sharedExcept (f : Nat) (c : Comp) : List Comp :=
  (List.range 7).map fun g => if g = f then c else shared g

/-- THE SHARING SUMMARY OF EACH MODEL CLASS (theorem `class_realises`: the model's operation does exactly this).
    A set with several members means: any of them (which one depends on the arguments). -/
def Cls.spec : Cls → List Comp
  | .readOnly => (List.range 7).map shared
  | .setIndices => sharedExcept 1 ⟨[.fresh], []⟩
  | .setMaterials => sharedExcept 2 ⟨[.fresh], []⟩
  | .toPointCloud => [⟨[.recv 0 0, .val], []⟩, ⟨[.recv 0 1, .fresh], []⟩, shared 2, shared 3, shared 4, shared 5, shared 6]
  | .clearAttrs => [shared 0, shared 1, shared 2, ⟨[.nil], []⟩, ⟨[.nil], []⟩, ⟨[.nil], []⟩, ⟨[.nil], []⟩]
  | .setData k => sharedExcept (3 + k) ⟨[.fresh], [.fresh]⟩
  | .setAttr k => sharedExcept (3 + k) ⟨[.fresh], [.elem 0 (3 + k), .fresh]⟩
  | .copyAttr k => sharedExcept (3 + k) ⟨[.fresh], [.elem 0 (3 + k), .elem 1 (3 + k), .nil]⟩
  | .rebuild mm =>
    [⟨[.recv 0 0, .val], []⟩, ⟨[.fresh], []⟩, (match mm with | .share => shared 2 | .drop => ⟨[.nil], []⟩),
     ⟨[.fresh, .nil], [.fresh]⟩, ⟨[.fresh, .nil], [.fresh]⟩, ⟨[.fresh, .nil], [.fresh]⟩, ⟨[.fresh, .nil], [.fresh]⟩]
  | .newMesh =>
    [⟨[.val], []⟩, ⟨[.fresh], []⟩, ⟨[.fresh, .nil], []⟩,
     ⟨[.fresh, .nil], [.fresh, .nil]⟩, ⟨[.fresh, .nil], [.fresh, .nil]⟩, ⟨[.fresh, .nil], [.fresh, .nil]⟩, ⟨[.fresh, .nil], [.fresh, .nil]⟩]
  | .append =>
    [shared 0, ⟨[.fresh], []⟩, ⟨[.fresh], []⟩,
     ⟨[.fresh], [.fresh]⟩, ⟨[.fresh], [.fresh]⟩, ⟨[.fresh], [.fresh]⟩, ⟨[.fresh], [.fresh]⟩]

/-- memory handed in by the caller (a slice / map parameter that is not a mesh, or an element of one) is the caller's
    to leave alone: the model treats it as a fresh array nobody else writes (documented residue of C01, "caller-owned
    slices").  Everything else stays what it is. -/
def Src.norm : Src → Src
  | .caller _ => .fresh
  | .celem _ => .fresh
  | s => s

def Comp.norm (c : Comp) : Comp := ⟨c.obj.map Src.norm, c.ent.map Src.norm⟩

/-- every possible source the extractor found is one the class allows, and there is at least one -/
def Comp.fits (c spec : Comp) : Bool :=
  !c.norm.obj.isEmpty && c.norm.obj.all (fun s => spec.obj.contains s) && c.norm.ent.all (fun s => spec.ent.contains s)

def fitsAll : List Comp → List Comp → Bool
  | [], [] => true
  | c :: cs, s :: ss => c.fits s && fitsAll cs ss
  | _, _ => false

def FnSummary.fits (s : FnSummary) (c : Cls) : Bool := s.comps.length == 7 && fitsAll s.comps c.spec

/-- THE HAND CLASSIFICATION of the exported Mesh-returning functions of modeling/mesh.go.
    `none`: not modelled as one operation (`Mesh.Transform` applies caller-supplied transformers one after the other:
    dynamic dispatch; the harness models it as the chain of the operations it applies; what it dispatches to in /repo — the
    `Transform` methods of the meshops transformers — IS classified below). -/
def handClass : String → Option Cls
  | "EmptyMesh" | "EmptyPointcloud" | "NewMesh" | "NewTriangleMesh" | "NewLineStripMesh" | "NewPointCloud" => some .newMesh
  | "Mesh.SetIndices" => some .setIndices
  | "Mesh.SetMaterial" | "Mesh.SetMaterials" => some .setMaterials
  | "Mesh.ToPointCloud" => some .toPointCloud
  | "Mesh.ClearAttributeData" => some .clearAttrs
  | "Mesh.SetFloat1Data" => some (.setData 0) | "Mesh.SetFloat2Data" => some (.setData 1)
  | "Mesh.SetFloat3Data" => some (.setData 2) | "Mesh.SetFloat4Data" => some (.setData 3)
  | "Mesh.SetFloat1Attribute" => some (.setAttr 0) | "Mesh.SetFloat2Attribute" => some (.setAttr 1)
  | "Mesh.SetFloat3Attribute" => some (.setAttr 2) | "Mesh.SetFloat4Attribute" => some (.setAttr 3)
  | "Mesh.ModifyFloat1Attribute" | "Mesh.ModifyFloat1AttributeParallel" | "Mesh.ModifyFloat1AttributeParallelWithPoolSize" => some (.setAttr 0)
  | "Mesh.ModifyFloat2Attribute" | "Mesh.ModifyFloat2AttributeParallel" | "Mesh.ModifyFloat2AttributeParallelWithPoolSize" => some (.setAttr 1)
  | "Mesh.ModifyFloat3Attribute" | "Mesh.ModifyFloat3AttributeParallel" | "Mesh.ModifyFloat3AttributeParallelWithPoolSize" => some (.setAttr 2)
  | "Mesh.Translate" | "Mesh.Scale" | "Mesh.Rotate" | "Mesh.ApplyTRS" => some (.setAttr 2)
  | "Mesh.CopyFloat1Attribute" => some (.copyAttr 0) | "Mesh.CopyFloat2Attribute" => some (.copyAttr 1)
  | "Mesh.CopyFloat3Attribute" => some (.copyAttr 2) | "Mesh.CopyFloat4Attribute" => some (.copyAttr 3)
  | "Mesh.WeldByFloat3Attribute" => some (.rebuild .drop)
  | "Mesh.Append" => some .append
  | "Mesh.ScanPrimitives" | "Mesh.ScanPrimitivesParallel" | "Mesh.ScanPrimitivesParallelWithPoolSize"
  | "Mesh.ScanFloat1Attribute" | "Mesh.ScanFloat1AttributeParallel" | "Mesh.ScanFloat1AttributeParallelWithPoolSize"
  | "Mesh.ScanFloat2Attribute" | "Mesh.ScanFloat2AttributeParallel" | "Mesh.ScanFloat2AttributeParallelWithPoolSize"
  | "Mesh.ScanFloat3Attribute" | "Mesh.ScanFloat3AttributeParallel" | "Mesh.ScanFloat3AttributeParallelWithPoolSize"
  | "Mesh.ScanFloat4Attribute" => some .readOnly
  -- modeling/meshops: the exported functions that return one mesh
  | "meshops.FlipTriangleWinding" => some .setIndices
  | "meshops.NormalizeAttribute2D" | "meshops.ScaleAttribute2D" => some (.setAttr 1)
  | "meshops.CenterFloat3Attribute" | "meshops.ColorGradingLut" | "meshops.FlatNormals" | "meshops.LaplacianSmooth"
  | "meshops.LaplacianSmoothAlongAxis" | "meshops.NormalizeAttribute3D" | "meshops.RotateAttribute3D" | "meshops.ScaleAttribute3D"
  | "meshops.ScaleAttributeAlongNormal" | "meshops.SmoothNormals" | "meshops.SmoothNormalsImplicitWeld"
  | "meshops.TranslateAttribute3D" | "meshops.VertexColorSpace" => some (.setAttr 2)
  | "meshops.CropFloat3Attribute" | "meshops.FilterFloat1" | "meshops.FilterFloat2" | "meshops.FilterFloat3" | "meshops.FilterFloat4"
  | "meshops.RemovedUnreferencedVertices" | "meshops.Unweld" => some (.rebuild .share)
  -- modeling/meshops: the `Transform` methods of the transformers (what `Mesh.Transform` dispatches to); the mesh result of the
  -- success path (on the error path they return the zero Mesh, which shares and allocates nothing)
  | "meshops.FlipTriangleWindingTransformer.Transform" => some .setIndices
  | "meshops.NormalizeAttribute2DTransformer.Transform" | "meshops.ScaleAttribute2DTransformer.Transform" => some (.setAttr 1)
  | "meshops.CenterAttribute3DTransformer.Transform" | "meshops.ColorGradingLutTransformer.Transform"
  | "meshops.FlatNormalsTransformer.Transform" | "meshops.LaplacianSmoothTransformer.Transform"
  | "meshops.NormalizeAttribute3DTransformer.Transform" | "meshops.RotateAttribute3DTransformer.Transform"
  | "meshops.ScaleAttribute3DTransformer.Transform" | "meshops.ScaleAttributeAlongNormalTransformer.Transform"
  | "meshops.SmoothNormalsImplicitWeldTransformer.Transform" | "meshops.SmoothNormalsTransformer.Transform"
  | "meshops.TranslateAttribute3DTransformer.Transform" => some (.setAttr 2)
  | "meshops.CropAttribute3DTransformer.Transform" | "meshops.FilterFloat1Transformer.Transform"
  | "meshops.FilterFloat2Transformer.Transform" | "meshops.FilterFloat3Transformer.Transform"
  | "meshops.FilterFloat4Transformer.Transform" | "meshops.RemovedUnreferencedVerticesTransformer.Transform"
  | "meshops.UnweldTransformer.Transform" => some (.rebuild .share)
  | _ => none

/-- functions that behave as one of TWO classes depending on the input (`RemoveNullFaces3D` returns the mesh passed in when
    there is nothing to remove, else rebuilds; the harness sends `identity` or `rebuild share` accordingly).  The extractor
    joins all return statements, so for these the comparison is per component against the union of the two class summaries. -/
def handTwoClasses : String → Option (Cls × Cls)
  | "meshops.RemoveNullFaces3D" | "meshops.RemoveNullFaces3DTransformer.Transform" => some (.readOnly, .rebuild .share)
  -- returns the mesh passed in when the transformation is the identity one
  | "meshops.VertexColorSpaceTransformer.Transform" => some (.readOnly, .setAttr 2)
  | _ => none

def Comp.union (a b : Comp) : Comp := ⟨a.obj ++ b.obj, a.ent ++ b.ent⟩

def FnSummary.fitsEither (s : FnSummary) (c d : Cls) : Bool :=
  s.comps.length == 7 && fitsAll s.comps (List.zipWith Comp.union c.spec d.spec)

/-- functions of the regenerated table that are deliberately NOT classified (dynamic dispatch) -/
def notOneOperation : List String :=
  ["Mesh.Transform",                            -- dispatches to caller-supplied transformers, one after the other
   "meshops.CustomTransformer.Transform",       -- calls a caller-supplied function
   "meshops.SliceByPlaneTransformer.Transform"] -- picks one of the two results of a two-result function (not summarised)

end MeshClasses
end PolyVerif
