/-
  C05 — `strings.Fields` and the printed face line, core Lean only (linked into `driver_c05`).
  `fields` is what the driver's lexer splits every line with; `printFace` is the `f` line the driver's printer
  emits (`writeFaceVerts*` in /repo/formats/obj/writer.go: "f ", three corner tokens separated by one blank).
  Law (Props/C05Text.lean): `fields (printFace a b c) = ["f", showCorner a, showCorner b, showCorner c]`.
-/
import PolyVerif.Model.ObjText

namespace PolyVerif.ObjText
open Obj

/-- `strings.Fields` (ASCII white space), on characters: `cur` = current field reversed, `acc` = fields so far reversed -/
def fieldsGo : List Char → List Char → List (List Char) → List (List Char)
  | [], cur, acc => (if cur.isEmpty then acc else cur.reverse :: acc).reverse
  | c :: r, cur, acc =>
    if isSpace c then fieldsGo r [] (if cur.isEmpty then acc else cur.reverse :: acc)
    else fieldsGo r (c :: cur) acc

def fieldsL (cs : List Char) : List (List Char) := fieldsGo cs [] []

/-- `strings.Fields` -/
def fields (s : String) : List String := (fieldsL s.toList).map String.ofList

def printFaceL (a b c : Corner) : List Char :=
  'f' :: ' ' :: (showCornerL a ++ ' ' :: (showCornerL b ++ ' ' :: showCornerL c))

/-- the `f` line of the writer (without the line break) -/
def printFace (a b c : Corner) : String := String.ofList (printFaceL a b c)

/-- the first fields the lexer acts on; a line with any other first field is `.other` (ignored by the reader).
    Proved equal (as a set) to the case labels of `switch components[0]` in reader.go (`lexKeywords_from_source`). -/
def lexKeywords : List String := ["v", "vn", "vt", "f", "g", "usemtl", "mtllib"]

end PolyVerif.ObjText
