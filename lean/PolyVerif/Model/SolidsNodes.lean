/-
  C18 — hand model of the node wrappers of the solid primitives (sphere.go `UvSphereNodeData.Process`, hemisphere.go
  `HemisphereNodeData.Process`, cylinder.go `CylinderNodeData.Process`, cube.go `CubeNodeData.Process`): every input port
  is optional (`none` = not connected); the wrapper substitutes its default, clamps where the source clamps
  (`rows = max(rows, 2)`, `columns = max(columns, 3)` in the UV sphere only) and calls one constructor.
  Core Lean only (used by the driver).  `Props/C18Nodes.lean` proves these equal to the interpretation
  (`Model/NodeIR.lean`) of the programs regenerated from the source (`Gen/PrimNodes.lean`).
-/
import PolyVerif.Model.NodeIR
import PolyVerif.Model.Solids

namespace PolyVerif.Solids
open PolyVerif.NodeIR

structure UvSphereNodeIn (α : Type) where
  radius : Option α
  rows : Option Int
  columns : Option Int
  weld : Option Bool

structure HemisphereNodeIn (α : Type) where
  rows : Option Int
  columns : Option Int
  radius : Option α
  capped : Option Bool

structure CylinderNodeIn (α : Type) where
  sides : Option Int
  height : Option α
  radius : Option α
  top : Option Bool
  bottom : Option Bool

structure CubeNodeIn (α : Type) where
  width : Option α
  height : Option α
  depth : Option α

section
variable {α : Type} [Scalar α]

/-! UV sphere: defaults 0.5, 10, 10, welded; rows clamped to ≥ 2, columns to ≥ 3 -/
def uvSphereNodeRadius (i : UvSphereNodeIn α) : α := i.radius.getD (Scalar.lit 5 10)
def uvSphereNodeRows (i : UvSphereNodeIn α) : Int := max (i.rows.getD 10) 2
def uvSphereNodeCols (i : UvSphereNodeIn α) : Int := max (i.columns.getD 10) 3
def uvSphereNodeWeld (i : UvSphereNodeIn α) : Bool := i.weld.getD true

def uvSphereNodeCall (i : UvSphereNodeIn α) : Outcome α :=
  { fn := if uvSphereNodeWeld i then "UVSphere" else "UVSphereUnwelded", recv := [],
    args := [.flt (uvSphereNodeRadius i), .int (uvSphereNodeRows i), .int (uvSphereNodeCols i)] }

def uvSphereNodePorts (i : UvSphereNodeIn α) : Nat → Option (Val α)
  | 0 => i.radius.map .flt
  | 1 => i.rows.map .int
  | 2 => i.columns.map .int
  | 3 => i.weld.map .bool
  | _ => none

/-! hemisphere: defaults 0.5, capped, 20, 20; NO clamp (rows < 2 or columns < 3 panic in `Hemisphere.UV`) -/
def hemisphereNodeCall (i : HemisphereNodeIn α) : Outcome α :=
  { fn := "Hemisphere.UV",
    recv := [("Radius", .flt (i.radius.getD (Scalar.lit 5 10))), ("Capped", .bool (i.capped.getD true))],
    args := [.int (i.rows.getD 20), .int (i.columns.getD 20)] }

def hemisphereNodePorts (i : HemisphereNodeIn α) : Nat → Option (Val α)
  | 0 => i.rows.map .int
  | 1 => i.columns.map .int
  | 2 => i.radius.map .flt
  | 3 => i.capped.map .bool
  | _ => none

/-! cylinder: defaults 0.5, 1, top, bottom, 20 sides; `NoTop = !top`, `NoBottom = !bottom`; NO clamp -/
def cylinderNodeCall (i : CylinderNodeIn α) : Outcome α :=
  { fn := "Cylinder.ToMesh",
    recv := [("Radius", .flt (i.radius.getD (Scalar.lit 5 10))), ("Height", .flt (i.height.getD (Scalar.lit 1 1))),
             ("Sides", .int (i.sides.getD 20)), ("NoTop", .bool (!(i.top.getD true))),
             ("NoBottom", .bool (!(i.bottom.getD true)))],
    args := [] }

def cylinderNodePorts (i : CylinderNodeIn α) : Nat → Option (Val α)
  | 0 => i.sides.map .int
  | 1 => i.height.map .flt
  | 2 => i.radius.map .flt
  | 3 => i.top.map .bool
  | 4 => i.bottom.map .bool
  | _ => none

/-! box: defaults 1, 1, 1; always the six-quad construction -/
def cubeNodeCall (i : CubeNodeIn α) : Outcome α :=
  { fn := "Cube.UnweldedQuads",
    recv := [("Height", .flt (i.height.getD (Scalar.lit 1 1))), ("Width", .flt (i.width.getD (Scalar.lit 1 1))),
             ("Depth", .flt (i.depth.getD (Scalar.lit 1 1)))],
    args := [] }

def cubeNodePorts (i : CubeNodeIn α) : Nat → Option (Val α)
  | 0 => i.width.map .flt
  | 1 => i.height.map .flt
  | 2 => i.depth.map .flt
  | _ => none
end

end PolyVerif.Solids
