/-
  Hand model of math/sdf/line.go `VarryingThicknessLine`: a loop over consecutive line points that
  builds one `RoundedCone` per pair and hands them to `Union` (outside the translator's subset).
  `RoundedCone` is the REGENERATED definition (Gen/Sdf.lean); `Union` is the hand model of SdfOps.
  Tied to the Go function by the `c19.varline` correspondence lines at Float, bit for bit.
  Core Lean only.
-/
import PolyVerif.Gen.Sdf
import PolyVerif.Model.SdfOps

namespace PolyVerif
namespace SdfVarLine
variable {α : Type} [Scalar α]

/-- line.go:27-33: the cones of consecutive `(point, radius)` pairs -/
def cones (pts : List (V3 α × α)) : List (V3 α → α) :=
  (pts.zip pts.tail).map (fun se => Gen.sdf.RoundedCone se.1.1 se.2.1 se.1.2 se.2.2)

/-- line.go:22 `VarryingThicknessLine` — panics on fewer than two points (modelled as `none`;
    with fewer than two points there are no cones and `Union` of nothing is `none`). -/
def VarryingThicknessLine (pts : List (V3 α × α)) : Option (V3 α → α) :=
  SdfOps.Union (cones pts)

end SdfVarLine
end PolyVerif
