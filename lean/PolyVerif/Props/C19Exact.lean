/-
  C19 — exact Euclidean distance (both directions) for the shapes where round 1 had only the sign set,
  the 1-Lipschitz bound and the Minkowski-sum reading: rounded box and rounded cylinder; the sphere at
  its own centre; the plane with a non-unit normal (a scaled distance, with the exact factor).

  All statements are about the definitions regenerated from /repo/math/sdf (`Gen/Sdf.lean`) at ℝ.
  "Exact" is stated as in `line_exact`/`box_exact_attained`: no zero-set point is closer to `p` than
  `|f p|` (this direction is the Lipschitz bound) and SOME zero-set point is at distance exactly `|f p|`.
-/
import PolyVerif.Props.C19Capsule
import PolyVerif.Lemmas.SdfExact

namespace PolyVerif
namespace C19
open Gen Gen.sdf Gen.geometry SdfExact

/-! ### box: the ray from the nearest box point through an outside point -/

/-- the point at parameter `t` on the ray that starts at the clamp of `p` into the box (`t = 0`) and passes
    through `p` (`t = 1`) -/
noncomputable def boxRay (c b p : P3) (t : ℝ) : P3 :=
  ⟨c.x + rayH (p.x - c.x) (b.x * (1/2)) t, c.y + rayH (p.y - c.y) (b.y * (1/2)) t, c.z + rayH (p.z - c.z) (b.z * (1/2)) t⟩

theorem boxRay_zero (c b p : P3) : boxRay c b p 0 = boxClamp c b p := by
  simp [boxRay, boxClamp, rayH, clampH]

/-- along that ray the box field grows linearly, at unit speed scaled by the start distance: `Box (ray t) = t · Box p`
    and `|p − ray t| = |1 − t| · Box p`, for `p` outside or on the box -/
theorem box_ray (c b p : P3) (hx : 0 ≤ b.x) (hy : 0 ≤ b.y) (hz : 0 ≤ b.z) (t : ℝ) (ht : 0 ≤ t)
    (hout : 0 ≤ max (boxQ c b p).x (max (boxQ c b p).y (boxQ c b p).z)) :
    Box c b (boxRay c b p t) = t * Box c b p ∧ p.Distance (boxRay c b p t) = |1 - t| * Box c b p := by
  have hhx : 0 ≤ b.x * (1/2) := by positivity
  have hhy : 0 ≤ b.y * (1/2) := by positivity
  have hhz : 0 ≤ b.z * (1/2) := by positivity
  have hp : Box c b p = Real.sqrt ((max (boxQ c b p).x 0)^2 + (max (boxQ c b p).y 0)^2 + (max (boxQ c b p).z 0)^2) := by
    rw [box_eq, min_eq_right hout, add_zero]
  rw [hp]
  simp only [boxQ_x, boxQ_y, boxQ_z] at hout ⊢
  constructor
  · rw [box_eq]
    simp only [boxQ_x, boxQ_y, boxQ_z, boxRay, add_sub_cancel_left]
    rw [rayH_pos hhx ht, rayH_pos hhy ht, rayH_pos hhz ht]
    have hs : 0 ≤ max (|rayH (p.x - c.x) (b.x * (1/2)) t| - b.x * (1/2))
        (max (|rayH (p.y - c.y) (b.y * (1/2)) t| - b.y * (1/2)) (|rayH (p.z - c.z) (b.z * (1/2)) t| - b.z * (1/2))) := by
      rcases le_max_iff.mp hout with h | h
      · exact le_max_of_le_left (by rw [rayH_of_ge hhx ht h]; exact mul_nonneg ht h)
      · rcases le_max_iff.mp h with h | h
        · exact le_max_of_le_right (le_max_of_le_left (by rw [rayH_of_ge hhy ht h]; exact mul_nonneg ht h))
        · exact le_max_of_le_right (le_max_of_le_right (by rw [rayH_of_ge hhz ht h]; exact mul_nonneg ht h))
    rw [min_eq_right hs, add_zero, ← sqrt_scale ht]
    congr 1; ring
  · simp only [V3.Distance, V3.DistanceSquared, boxRay, RS.sqrt_eq]
    rw [← sqrt_scale_abs]
    congr 1
    have ex := rayH_dist (x := p.x - c.x) t hhx
    have ey := rayH_dist (x := p.y - c.y) t hhy
    have ez := rayH_dist (x := p.z - c.z) t hhz
    linear_combination ex + ey + ez

/-! ### rounded box: exact distance, both directions -/

/-- inside or on the box: pushing the coordinate of largest excess outward by `δ` raises the field by exactly `δ`,
    provided the result is not below the surface -/
private theorem box_push_x (c b p : P3) (δ : ℝ) (hδ : 0 ≤ δ)
    (hin : max (boxQ c b p).x (max (boxQ c b p).y (boxQ c b p).z) ≤ 0)
    (_hm : max (boxQ c b p).y (boxQ c b p).z ≤ (boxQ c b p).x) (hr : 0 ≤ (boxQ c b p).x + δ) :
    Box c b ⟨c.x + pushOut (p.x - c.x) δ, p.y, p.z⟩ = (boxQ c b p).x + δ := by
  have hy : (boxQ c b p).y ≤ 0 := ((le_max_left _ _).trans (le_max_right _ _)).trans hin
  have hz : (boxQ c b p).z ≤ 0 := ((le_max_right _ _).trans (le_max_right _ _)).trans hin
  rw [box_eq]
  simp only [boxQ_x, boxQ_y, boxQ_z, add_sub_cancel_left, pushOut_abs hδ] at *
  have e : |p.x - c.x| + δ - b.x * (1/2) = |p.x - c.x| - b.x * (1/2) + δ := by ring
  rw [e, max_eq_left hr, max_eq_right hy, max_eq_right hz, min_eq_right (le_max_of_le_left hr)]
  have hsq := Real.sqrt_sq hr
  simp at hsq ⊢; exact hsq

private theorem box_push_y (c b p : P3) (δ : ℝ) (hδ : 0 ≤ δ)
    (hin : max (boxQ c b p).x (max (boxQ c b p).y (boxQ c b p).z) ≤ 0) (hr : 0 ≤ (boxQ c b p).y + δ) :
    Box c b ⟨p.x, c.y + pushOut (p.y - c.y) δ, p.z⟩ = (boxQ c b p).y + δ := by
  have hx : (boxQ c b p).x ≤ 0 := (le_max_left _ _).trans hin
  have hz : (boxQ c b p).z ≤ 0 := ((le_max_right _ _).trans (le_max_right _ _)).trans hin
  rw [box_eq]
  simp only [boxQ_x, boxQ_y, boxQ_z, add_sub_cancel_left, pushOut_abs hδ] at *
  have e : |p.y - c.y| + δ - b.y * (1/2) = |p.y - c.y| - b.y * (1/2) + δ := by ring
  rw [e, max_eq_left hr, max_eq_right hx, max_eq_right hz,
    min_eq_right (le_max_of_le_right (le_max_of_le_left hr))]
  have hsq := Real.sqrt_sq hr
  simp at hsq ⊢; exact hsq

private theorem box_push_z (c b p : P3) (δ : ℝ) (hδ : 0 ≤ δ)
    (hin : max (boxQ c b p).x (max (boxQ c b p).y (boxQ c b p).z) ≤ 0) (hr : 0 ≤ (boxQ c b p).z + δ) :
    Box c b ⟨p.x, p.y, c.z + pushOut (p.z - c.z) δ⟩ = (boxQ c b p).z + δ := by
  have hx : (boxQ c b p).x ≤ 0 := (le_max_left _ _).trans hin
  have hy : (boxQ c b p).y ≤ 0 := ((le_max_left _ _).trans (le_max_right _ _)).trans hin
  rw [box_eq]
  simp only [boxQ_x, boxQ_y, boxQ_z, add_sub_cancel_left, pushOut_abs hδ] at *
  have e : |p.z - c.z| + δ - b.z * (1/2) = |p.z - c.z| - b.z * (1/2) + δ := by ring
  rw [e, max_eq_left hr, max_eq_right hx, max_eq_right hy,
    min_eq_right (le_max_of_le_right (le_max_of_le_right hr))]
  have hsq := Real.sqrt_sq hr
  simp at hsq ⊢; exact hsq

theorem box_of_inside (c b p : P3) (hin : max (boxQ c b p).x (max (boxQ c b p).y (boxQ c b p).z) ≤ 0) :
    Box c b p = max (boxQ c b p).x (max (boxQ c b p).y (boxQ c b p).z) := by
  have hx : (boxQ c b p).x ≤ 0 := (le_max_left _ _).trans hin
  have hy : (boxQ c b p).y ≤ 0 := ((le_max_left _ _).trans (le_max_right _ _)).trans hin
  have hz : (boxQ c b p).z ≤ 0 := ((le_max_right _ _).trans (le_max_right _ _)).trans hin
  rw [box_eq, max_eq_right hx, max_eq_right hy, max_eq_right hz, min_eq_left hin]; simp

/-- every level set `{Box = r}`, `r ≥ 0`, of the box field is reached from every point `p` at distance exactly
    `|Box p − r|`: the box field is the exact signed distance to each of its outer offset surfaces -/
theorem box_level_attained (c b : P3) (hx : 0 ≤ b.x) (hy : 0 ≤ b.y) (hz : 0 ≤ b.z) (r : ℝ) (hr : 0 ≤ r) (p : P3) :
    ∃ s : P3, Box c b s = r ∧ p.Distance s = |Box c b p - r| := by
  rcases le_or_gt (max (boxQ c b p).x (max (boxQ c b p).y (boxQ c b p).z)) 0 with hin | hout
  · -- inside or on the box: push the coordinate of largest excess outward
    have hf := box_of_inside c b p hin
    rcases le_total (max (boxQ c b p).y (boxQ c b p).z) (boxQ c b p).x with hm | hm
    · have hfx : Box c b p = (boxQ c b p).x := by rw [hf, max_eq_left hm]
      have hδ : 0 ≤ r - (boxQ c b p).x := by rw [← hfx, hf]; linarith
      refine ⟨⟨c.x + pushOut (p.x - c.x) (r - (boxQ c b p).x), p.y, p.z⟩, ?_, ?_⟩
      · rw [box_push_x c b p _ hδ hin hm (by linarith)]; ring
      · simp only [V3.Distance, V3.DistanceSquared, RS.sqrt_eq, sub_self, mul_zero, add_zero]
        rw [hfx, ← sq, show (c.x + pushOut (p.x - c.x) (r - (boxQ c b p).x) - p.x) ^ 2
          = ((p.x - c.x) - pushOut (p.x - c.x) (r - (boxQ c b p).x)) ^ 2 by ring, pushOut_dist, Real.sqrt_sq hδ,
          abs_of_nonpos (by linarith)]; ring
    · rcases le_total (boxQ c b p).z (boxQ c b p).y with hm2 | hm2
      · have hfy : Box c b p = (boxQ c b p).y := by rw [hf, max_eq_right hm, max_eq_left hm2]
        have hδ : 0 ≤ r - (boxQ c b p).y := by rw [← hfy, hf]; linarith
        refine ⟨⟨p.x, c.y + pushOut (p.y - c.y) (r - (boxQ c b p).y), p.z⟩, ?_, ?_⟩
        · rw [box_push_y c b p _ hδ hin (by linarith)]; ring
        · simp only [V3.Distance, V3.DistanceSquared, RS.sqrt_eq, sub_self, mul_zero, add_zero, zero_add]
          rw [hfy, ← sq, show (c.y + pushOut (p.y - c.y) (r - (boxQ c b p).y) - p.y) ^ 2
            = ((p.y - c.y) - pushOut (p.y - c.y) (r - (boxQ c b p).y)) ^ 2 by ring, pushOut_dist, Real.sqrt_sq hδ,
            abs_of_nonpos (by linarith)]; ring
      · have hfz : Box c b p = (boxQ c b p).z := by rw [hf, max_eq_right hm, max_eq_right hm2]
        have hδ : 0 ≤ r - (boxQ c b p).z := by rw [← hfz, hf]; linarith
        refine ⟨⟨p.x, p.y, c.z + pushOut (p.z - c.z) (r - (boxQ c b p).z)⟩, ?_, ?_⟩
        · rw [box_push_z c b p _ hδ hin (by linarith)]; ring
        · simp only [V3.Distance, V3.DistanceSquared, RS.sqrt_eq, sub_self, mul_zero, add_zero, zero_add]
          rw [hfz, ← sq, show (c.z + pushOut (p.z - c.z) (r - (boxQ c b p).z) - p.z) ^ 2
            = ((p.z - c.z) - pushOut (p.z - c.z) (r - (boxQ c b p).z)) ^ 2 by ring, pushOut_dist, Real.sqrt_sq hδ,
            abs_of_nonpos (by linarith)]; ring
  · -- strictly outside: walk along the ray from the nearest box point through p
    have hd : 0 < Box c b p := by
      by_contra hcon
      push Not at hcon
      rcases hcon.lt_or_eq with h | h
      · have := (box_neg_iff c b p).mp h
        exact absurd hout (not_lt.mpr (max_le this.1.le (max_le this.2.1.le this.2.2.le)))
      · have := (box_zero_iff c b p).mp h; linarith
    obtain ⟨h1, h2⟩ := box_ray c b p hx hy hz (r / Box c b p) (div_nonneg hr hd.le) hout.le
    refine ⟨boxRay c b p (r / Box c b p), ?_, ?_⟩
    · rw [h1]; field_simp
    · rw [h2, ← abs_of_pos hd, ← abs_mul, abs_of_pos hd]; congr 1; field_simp

/-- rounded box, exact distance, attained: for every point `p` some zero-set point is at distance exactly `|f p|`
    (rounding radius `r ≥ 0`, non-negative size) -/
theorem roundedBox_exact_attained (c b : P3) (hx : 0 ≤ b.x) (hy : 0 ≤ b.y) (hz : 0 ≤ b.z) (r : ℝ) (hr : 0 ≤ r) (p : P3) :
    ∃ s : P3, RoundedBox c b r s = 0 ∧ p.Distance s = |RoundedBox c b r p| := by
  obtain ⟨s, hs, hd⟩ := box_level_attained c b hx hy hz r hr p
  exact ⟨s, by rw [roundedBox_eq, hs, sub_self], by rw [roundedBox_eq, hd]⟩

theorem roundedBox_exact_le (c b : P3) (r : ℝ) (p s : P3) (hs : RoundedBox c b r s = 0) :
    |RoundedBox c b r p| ≤ p.Distance s :=
  lipschitz_zero_bound (roundedBox_lipschitz c b r) p s hs

/-- rounded box: `|f p|` IS the Euclidean distance from `p` to the zero set, for every `p` -/
theorem roundedBox_exact (c b : P3) (hx : 0 ≤ b.x) (hy : 0 ≤ b.y) (hz : 0 ≤ b.z) (r : ℝ) (hr : 0 ≤ r) (p : P3) :
    (∀ s : P3, RoundedBox c b r s = 0 → |RoundedBox c b r p| ≤ p.Distance s) ∧
    (∃ s : P3, RoundedBox c b r s = 0 ∧ p.Distance s = |RoundedBox c b r p|) :=
  ⟨fun s hs => roundedBox_exact_le c b r p s hs, roundedBox_exact_attained c b hx hy hz r hr p⟩

/-! ### sphere: the centre itself -/

/-- `sphere_exact_attained` without the side condition `p ≠ c`: at the centre every surface point is nearest -/
theorem sphere_exact_attained_all (c : P3) (r : ℝ) (hr : 0 ≤ r) (p : P3) :
    ∃ s : P3, s.Distance c = r ∧ p.Distance s = |Sphere c r p| := by
  by_cases hp : p = c
  · subst hp
    have hd : (⟨p.x + r, p.y, p.z⟩ : P3).Distance p = r := by
      simp only [V3.Distance, V3.DistanceSquared, RS.sqrt_eq]
      rw [show (p.x - (p.x + r)) * (p.x - (p.x + r)) + (p.y - p.y) * (p.y - p.y) + (p.z - p.z) * (p.z - p.z) = r ^ 2 by ring,
        Real.sqrt_sq hr]
    refine ⟨⟨p.x + r, p.y, p.z⟩, hd, ?_⟩
    rw [V3.distance_comm, hd, sphere_eq, V3.distance_eq_zero.mpr rfl, zero_sub, abs_neg, abs_of_nonneg hr]
  · exact sphere_exact_attained c r hr p hp

theorem sphere_exact (c : P3) (r : ℝ) (hr : 0 ≤ r) (p : P3) :
    (∀ s : P3, Sphere c r s = 0 → |Sphere c r p| ≤ p.Distance s) ∧
    (∃ s : P3, Sphere c r s = 0 ∧ p.Distance s = |Sphere c r p|) := by
  refine ⟨fun s hs => sphere_exact_le c r p s ((sphere_zero_iff c r s).mp hs), ?_⟩
  obtain ⟨s, hs, hd⟩ := sphere_exact_attained_all c r hr p
  exact ⟨s, (sphere_zero_iff c r s).mpr hs, hd⟩

/-! ### plane with an arbitrary (non-unit) normal: a distance scaled by `|n|` -/

theorem length_sq (n : P3) : n.Length * n.Length = n.Dot n := by
  simp only [V3.Length, V3.LengthSquared, RS.sqrt_eq, V3.Dot]
  exact Real.mul_self_sqrt (by nlinarith [mul_self_nonneg n.x, mul_self_nonneg n.y, mul_self_nonneg n.z])

theorem length_nonneg (n : P3) : 0 ≤ n.Length := by
  simp only [V3.Length, RS.sqrt_eq]; exact Real.sqrt_nonneg _

/-- Cauchy–Schwarz in the model's own vocabulary -/
theorem dot_le_length_distance (a b n : P3) : |(a.Sub b).Dot n| ≤ n.Length * a.Distance b := by
  rw [← inner_toE, toE_sub, ← dist_toE, ← norm_toE, mul_comm]
  exact abs_real_inner_le_norm (toE a - toE b) (toE n)

/-- for ANY normal the plane field changes at most `|n|` times as fast as distance -/
theorem plane_lipschitz_scaled (o n : P3) (h : ℝ) (p q : P3) :
    |Plane o n h p - Plane o n h q| ≤ n.Length * p.Distance q := by
  rw [plane_sub]; exact dot_le_length_distance p q n

theorem plane_exact_scaled_le (o n : P3) (h : ℝ) (p s : P3) (hs : Plane o n h s = 0) :
    |Plane o n h p| ≤ n.Length * p.Distance s := by
  have := plane_lipschitz_scaled o n h p s
  rwa [hs, sub_zero] at this

/-- … and for `n ≠ 0` the bound is attained at the orthogonal projection: `|f p| = |n| · dist(p, plane)` — the field
    of a plane with a non-unit normal is the exact distance scaled by the normal's length -/
theorem plane_exact_scaled_attained (o n : P3) (h : ℝ) (hn : 0 < n.Dot n) (p : P3) :
    ∃ s : P3, Plane o n h s = 0 ∧ n.Length * p.Distance s = |Plane o n h p| := by
  set N := n.Dot n with hN
  refine ⟨p.Sub (n.Scale (Plane o n h p / N)), ?_, ?_⟩
  · have e : Plane o n h (p.Sub (n.Scale (Plane o n h p / N))) = Plane o n h p - (Plane o n h p / N) * N := by
      simp only [plane_eq, V3.Sub, V3.Dot, V3.Scale, hN]; ring
    rw [e]; field_simp; ring
  · rw [← dist_toE, toE_sub, toE_scale, sub_sub_cancel, norm_smul, Real.norm_eq_abs, norm_toE, abs_div,
      abs_of_pos hn]
    have hL := length_sq n
    have hL0 : 0 < n.Length := by
      rcases (length_nonneg n).lt_or_eq with h | h
      · exact h
      · rw [← h] at hL; linarith
    rw [← hN] at hL
    rw [← hL]; field_simp

/-- sign and zero set need no normalisation (`plane_neg_iff`, `plane_zero_iff` hold for every `n`); with `n = 0` the
    field is the constant `h` -/
theorem plane_zero_normal (o : P3) (h : ℝ) (p : P3) : Plane o ⟨0, 0, 0⟩ h p = h := by
  simp [plane_eq, V3.Dot]

example : (0 : ℝ) < (⟨0, 3, 4⟩ : P3).Dot ⟨0, 3, 4⟩ := by simp [V3.Dot]; norm_num


/-! ### rounded cylinder: exact distance, both directions -/

theorem G2_eq_g2 (Q : E2) : G2 Q = g2 (Q 0) (Q 1) := by
  have hn : ‖pos2 Q‖ = Real.sqrt ((max (Q 0) 0) ^ 2 + (max (Q 1) 0) ^ 2) := by
    rw [EuclideanSpace.norm_eq]; simp [pos2, Fin.sum_univ_two]
  simp only [G2, g2, hn, sup2]

/-- the rounded cylinder's field in cylindrical coordinates about the axis through `pos` -/
theorem roundedCylinder_eq_g2 (pos : P3) (ra rb h : ℝ) (p : P3) :
    RoundedCylinder pos ra rb h p =
      g2 (Real.sqrt ((p.x - pos.x) ^ 2 + (p.z - pos.z) ^ 2) - (2 * ra - rb)) (|p.y - pos.y| - h) - rb := by
  rw [roundedCylinder_eq, G2_eq_g2]
  simp only [cylD]
  congr 2
  simp; ring

/-- rounded cylinder, exact distance, attained: for every point `p` some zero-set point is at distance exactly `|f p|`
    (rounding `rb ≥ 0`, core radius `2·radius − rb ≥ 0`, half height `≥ 0`: the same parameter range as
    `roundedCylinder_neg_iff_minkowski`, with `rb = 0` allowed) -/
theorem roundedCylinder_exact_attained (pos : P3) (ra rb h : ℝ) (hR : 0 ≤ 2 * ra - rb) (hh : 0 ≤ h) (hrb : 0 ≤ rb)
    (p : P3) : ∃ s : P3, RoundedCylinder pos ra rb h s = 0 ∧ p.Distance s = |RoundedCylinder pos ra rb h p| := by
  obtain ⟨ux, uz, hu, hax, haz⟩ := radial_dir (p.x - pos.x) (p.z - pos.z)
  set ρ := Real.sqrt ((p.x - pos.x) ^ 2 + (p.z - pos.z) ^ 2) with hρ
  obtain ⟨ρ', y', hρ', hlev, hdist⟩ :=
    profile_level_attained ρ (p.y - pos.y) (2 * ra - rb) h rb (Real.sqrt_nonneg _) hR hh hrb
  refine ⟨⟨pos.x + ρ' * ux, pos.y + y', pos.z + ρ' * uz⟩, ?_, ?_⟩
  · rw [roundedCylinder_eq_g2]
    have e : (ρ' * ux) ^ 2 + (ρ' * uz) ^ 2 = ρ' ^ 2 := by
      linear_combination ρ' ^ 2 * hu
    simp only [add_sub_cancel_left]
    rw [e, Real.sqrt_sq hρ', hlev, sub_self]
  · rw [roundedCylinder_eq_g2, ← hρ, ← Real.sqrt_sq_eq_abs, ← hdist]
    simp only [V3.Distance, V3.DistanceSquared, RS.sqrt_eq]
    congr 1
    have e1 : pos.x + ρ' * ux - p.x = (ρ' - ρ) * ux := by rw [sub_mul, ← hax]; ring
    have e3 : pos.z + ρ' * uz - p.z = (ρ' - ρ) * uz := by rw [sub_mul, ← haz]; ring
    rw [e1, e3]
    linear_combination (ρ' - ρ) ^ 2 * hu

theorem roundedCylinder_exact_le (pos : P3) (ra rb h : ℝ) (p s : P3) (hs : RoundedCylinder pos ra rb h s = 0) :
    |RoundedCylinder pos ra rb h p| ≤ p.Distance s :=
  lipschitz_zero_bound (roundedCylinder_lipschitz pos ra rb h) p s hs

/-- rounded cylinder: `|f p|` IS the Euclidean distance from `p` to the zero set, for every `p` -/
theorem roundedCylinder_exact (pos : P3) (ra rb h : ℝ) (hR : 0 ≤ 2 * ra - rb) (hh : 0 ≤ h) (hrb : 0 ≤ rb) (p : P3) :
    (∀ s : P3, RoundedCylinder pos ra rb h s = 0 → |RoundedCylinder pos ra rb h p| ≤ p.Distance s) ∧
    (∃ s : P3, RoundedCylinder pos ra rb h s = 0 ∧ p.Distance s = |RoundedCylinder pos ra rb h p|) :=
  ⟨fun s hs => roundedCylinder_exact_le pos ra rb h p s hs, roundedCylinder_exact_attained pos ra rb h hR hh hrb p⟩


/-! ### non-vacuity -/

example : ∃ s : P3, RoundedBox (⟨0, 0, 0⟩ : P3) ⟨2, 4, 6⟩ (1/2) s = 0 ∧
    (⟨0, 0, 0⟩ : P3).Distance s = |RoundedBox (⟨0, 0, 0⟩ : P3) ⟨2, 4, 6⟩ (1/2) ⟨0, 0, 0⟩| :=
  roundedBox_exact_attained _ _ (by norm_num) (by norm_num) (by norm_num) _ (by norm_num) _

example : ∃ s : P3, RoundedCylinder (⟨0, 0, 0⟩ : P3) 1 (1/2) 1 s = 0 ∧
    (⟨0, 0, 0⟩ : P3).Distance s = |RoundedCylinder (⟨0, 0, 0⟩ : P3) 1 (1/2) 1 ⟨0, 0, 0⟩| :=
  roundedCylinder_exact_attained _ _ _ _ (by norm_num) (by norm_num) (by norm_num) _


end C19
end PolyVerif
