/-
  C01 — Mesh values are immutable: derivations never disturb an existing mesh.

  Theorems about the heap-level model `PolyVerif.MeshHeap` (Model/MeshHeap.lean): meshes are
  slices + map references into a heap, `obs` reads what a mesh reports, operations are the
  memory-behaviour classes of modeling/mesh.go + meshops, Go's `append` has an arbitrary growth
  policy.  All statements are for every environment `E` (zero value, index shift, growth policy),
  every attribute-name type `κ`, every cell type `α`, every heap, pool and history.
  Property theorems only; helper lemmas live in Lemmas/MeshHeap.lean.
-/
import PolyVerif.Lemmas.MeshHeap
import PolyVerif.Gen.C01Stores

namespace PolyVerif
namespace C01
open MeshHeap

variable {κ α : Type} [DecidableEq κ]

/-- **op_frame.** (Unguarded: holds for ragged meshes and for EVERY value `Append`/`ToPointCloud` carry as the resolution of
    `AttributeLength()` — whatever the index shift or padding, nothing existing is written.)  Every operation of the current tree (`Op.current`: everything except the pre-74db58f
    `appendOld`) leaves the observable value of EVERY valid mesh representation of the heap — pool member
    or not, argument or not — exactly as it was. -/
theorem op_frame (E : Env α) (s : State κ α) (vs : s.Valid) (op : Op κ α) (hc : op.current = true)
    (h' : Heap κ α) (rs : List MeshRep) (ha : op.apply E s = some (h', rs))
    (r : MeshRep) (vr : r.Valid s.heap) : obs h' r = obs s.heap r :=
  obs_frame (apply_spec E vs hc ha).1 vr

/-- **op_writes_fresh_only.** The same fact at the level of memory: an operation of the current tree changes no
    array that existed before the call and no existing map object; it only allocates. -/
theorem op_writes_fresh_only (E : Env α) (s : State κ α) (vs : s.Valid) (op : Op κ α) (hc : op.current = true)
    (h' : Heap κ α) (rs : List MeshRep) (ha : op.apply E s = some (h', rs)) :
    (∀ i, i < s.heap.arrays.length → h'.arrays[i]? = s.heap.arrays[i]?) ∧
    (∀ i, i < s.heap.maps.length → h'.maps[i]? = s.heap.maps[i]?) :=
  ⟨(apply_spec E vs hc ha).1.arr_eq, (apply_spec E vs hc ha).1.maps_eq⟩

/-- results of an operation are valid meshes of the new heap, and the pool stays valid -/
theorem step_valid (E : Env α) (s : State κ α) (vs : s.Valid) (op : Op κ α) (hc : op.current = true) :
    (step E s op).Valid := by
  unfold step
  cases ha : op.apply E s with
  | none => exact vs
  | some x =>
    obtain ⟨h', rs⟩ := x
    obtain ⟨f, v⟩ := apply_spec E vs hc ha
    intro r hr
    rcases List.mem_append.mp hr with h1 | h1
    · exact (vs r h1).mono f
    · exact v r h1

/-- one step: the pool only grows at the end, and every valid mesh keeps its value -/
theorem step_immutable (E : Env α) (s : State κ α) (vs : s.Valid) (op : Op κ α) (hc : op.current = true) :
    (∃ rs, (step E s op).pool = s.pool ++ rs) ∧
    ∀ r, r.Valid s.heap → obs (step E s op).heap r = obs s.heap r := by
  unfold step
  cases ha : op.apply E s with
  | none => exact ⟨⟨[], by simp⟩, fun _ _ => rfl⟩
  | some x =>
    obtain ⟨h', rs⟩ := x
    exact ⟨⟨rs, rfl⟩, fun r vr => op_frame E s vs op hc h' rs ha r vr⟩

theorem run_valid (E : Env α) (ops : List (Op κ α)) : ∀ (s : State κ α), s.Valid →
    (∀ op ∈ ops, op.current = true) → (run E s ops).Valid := by
  induction ops with
  | nil => intro s vs _; exact vs
  | cons op rest ih =>
    intro s vs hc
    exact ih (step E s op) (step_valid E s vs op (hc op (List.mem_cons_self ..)))
      (fun o ho => hc o (List.mem_cons_of_mem _ ho))

/-- what immutability of a history means: split the history anywhere; every mesh that is in the pool at the
    split is still there, in the same position, at the end, and reports exactly the value it reported then -/
def Immutable (E : Env α) (s0 : State κ α) (pre post : List (Op κ α)) : Prop :=
  ∀ (i : Nat) (r : MeshRep), (run E s0 pre).pool[i]? = some r →
    (run E (run E s0 pre) post).pool[i]? = some r ∧
    obs (run E (run E s0 pre) post).heap r = obs (run E s0 pre).heap r

theorem run_immutable_aux (E : Env α) (ops : List (Op κ α)) : ∀ (s : State κ α), s.Valid →
    (∀ op ∈ ops, op.current = true) →
    ∀ (i : Nat) (r : MeshRep), s.pool[i]? = some r →
      (run E s ops).pool[i]? = some r ∧ obs (run E s ops).heap r = obs s.heap r := by
  induction ops with
  | nil => intro s _ _ i r hr; exact ⟨hr, rfl⟩
  | cons op rest ih =>
    intro s vs hc i r hr
    have hop := hc op (List.mem_cons_self ..)
    obtain ⟨⟨rs, hp⟩, himm⟩ := step_immutable E s vs op hop
    have hr' : (step E s op).pool[i]? = some r := by
      rw [hp, List.getElem?_append_left (List.getElem?_eq_some_iff.mp hr).1]; exact hr
    obtain ⟨a, b⟩ := ih (step E s op) (step_valid E s vs op hop)
      (fun o ho => hc o (List.mem_cons_of_mem _ ho)) i r hr'
    exact ⟨a, b.trans (himm r (vs r (List.mem_of_getElem? hr)))⟩

/-- **history_immutable.** For EVERY finite history of current operations, each picking its arguments anywhere in
    the pool of live meshes (so several derivations branching off one base are included), starting from any valid
    state (in particular the empty one), for every growth policy of `append`, every pool size, every mesh size and
    attribute mix: every mesh that ever entered the pool reports at the end exactly what it reported when it entered
    (and at every moment in between: `post` is arbitrary). -/
theorem history_immutable (E : Env α) (s0 : State κ α) (v0 : s0.Valid) (pre post : List (Op κ α))
    (hc : ∀ op ∈ pre ++ post, op.current = true) : Immutable E s0 pre post := by
  intro i r hr
  exact run_immutable_aux E post (run E s0 pre)
    (run_valid E pre s0 v0 (fun o ho => hc o (List.mem_append_left _ ho)))
    (fun o ho => hc o (List.mem_append_right _ ho)) i r hr

omit [DecidableEq κ] in
/-- the empty state is valid: a program that creates all its meshes itself needs no hypothesis at all -/
theorem empty_valid : (⟨Heap.empty, []⟩ : State κ α).Valid := fun _ hr => by simp at hr

/-! ### two derivations from one base -/

/-- The statement over merely `Valid` states (kept for reference; NOT claimed: a `Valid` state may contain slices that run
    past the end of their array, which read fewer cells than `len`).  The theorem that IS proved is
    `derivations_commute` in Props/C01Refine.lean: the same conclusion for every `State.Bounded` state, and
    `derivations_commute_reachable` for every state reachable from the empty one (where `Bounded` is an invariant). -/
def derivations_commute_full (E : Env α) : Prop :=
  ∀ (s : State κ α), s.Valid → ∀ (o1 o2 : Op κ α), o1.current = true → o2.current = true →
  ∀ h1 r1 h2 r2 h12 r2' h21 r1',
    o1.apply E s = some (h1, [r1]) → o2.apply E s = some (h2, [r2]) →
    o2.apply E ⟨h1, s.pool ++ [r1]⟩ = some (h12, [r2']) →
    o1.apply E ⟨h2, s.pool ++ [r2]⟩ = some (h21, [r1']) →
    obs h12 r1 = obs h21 r1' ∧ obs h12 r2' = obs h21 r2

/-- **derivations_commute_partial.** The part of the statement that is about interference: in either order, the
    derivation performed first is not influenced by the one performed second, and the base (every mesh of the pool)
    is influenced by neither.  The other half — the value an operation returns does not depend on where the heap happens
    to put its arrays (`obs h1 r1 = obs h21 r1'`) — is `op_refines` / `derivations_commute` in Props/C01Refine.lean. -/
theorem derivations_commute_partial (E : Env α) (s : State κ α) (vs : s.Valid) (o1 o2 : Op κ α)
    (c1 : o1.current = true) (c2 : o2.current = true)
    (h1 : Heap κ α) (r1 : MeshRep) (h2 : Heap κ α) (r2 : MeshRep)
    (h12 : Heap κ α) (r2' : MeshRep) (h21 : Heap κ α) (r1' : MeshRep)
    (a1 : o1.apply E s = some (h1, [r1])) (a2 : o2.apply E s = some (h2, [r2]))
    (a12 : o2.apply E ⟨h1, s.pool ++ [r1]⟩ = some (h12, [r2']))
    (a21 : o1.apply E ⟨h2, s.pool ++ [r2]⟩ = some (h21, [r1'])) :
    obs h12 r1 = obs h1 r1 ∧ obs h21 r2 = obs h2 r2 ∧
    ∀ r ∈ s.pool, obs h12 r = obs s.heap r ∧ obs h21 r = obs s.heap r := by
  obtain ⟨f1, v1⟩ := apply_spec E vs c1 a1
  obtain ⟨f2, v2⟩ := apply_spec E vs c2 a2
  have vs1 : (⟨h1, s.pool ++ [r1]⟩ : State κ α).Valid := by
    intro r hr
    rcases List.mem_append.mp hr with h | h
    · exact (vs r h).mono f1
    · exact v1 r h
  have vs2 : (⟨h2, s.pool ++ [r2]⟩ : State κ α).Valid := by
    intro r hr
    rcases List.mem_append.mp hr with h | h
    · exact (vs r h).mono f2
    · exact v2 r h
  refine ⟨op_frame E _ vs1 o2 c2 h12 _ a12 r1 (v1 r1 (by simp)),
          op_frame E _ vs2 o1 c1 h21 _ a21 r2 (v2 r2 (by simp)), ?_⟩
  intro r hr
  constructor
  · rw [op_frame E _ vs1 o2 c2 h12 _ a12 r ((vs r hr).mono f1)]
    exact op_frame E s vs o1 c1 h1 _ a1 r (vs r hr)
  · rw [op_frame E _ vs2 o1 c1 h21 _ a21 r ((vs r hr).mono f2)]
    exact op_frame E s vs o2 c2 h2 _ a2 r (vs r hr)

/-! ### second tie (engine F): the store sites of the source, regenerated on every run -/

/-- store sites named here are not stores into the memory of an existing mesh (reviewed by hand; the only exclusions):
    * `flattenSkeletonToNodes` (formats/gltf/write.go) adds an offset IN PLACE to the slice `Skeleton.Children(i)` returns,
      i.e. to the skeleton's own joint table — animation data, not a mesh value (reported as an observation in notes/C01.md);
    * `obj.Load` (formats/obj/fs.go) sets the material pointers of the meshes it has just read, before returning them. -/
def knownNonMesh : List (String × String) :=
  [("flattenSkeletonToNodes", "children"), ("Load", "meshes[meshI].Mesh.Materials()[matI]")]

/-- **store_sites_fresh.** Every syntactic store site (`x[i] = v`, `append(x, …)`, `copy(x, …)`, `delete`, `sort.*`, field
    stores through pointers) of modeling/mesh.go, tri/line/point.go, meshops, repeat, primitives, the ply/obj/stl/splat/spz writers and — with the `*Writer`'s own state exempted — formats/gltf
    — `Gen.C01Stores.sites`, extracted from the working tree by go/facts/c01.go before this file is compiled — stores into
    memory that the extractor's conservative provenance analysis shows to be allocated by the same call.  This is the
    source-level counterpart of `op_writes_fresh_only`; an in-place write added to these files makes this theorem fail. -/
theorem store_sites_fresh :
    ∀ s ∈ Gen.C01Stores.sites, s.fresh = true ∨ (s.fn, s.base) ∈ knownNonMesh := by decide +kernel

/-- the scan is not vacuous: it saw `Append`, `appendData`, the weld, an attribute transformer and a primitive -/
theorem store_sites_cover :
    100 ≤ Gen.C01Stores.sites.length ∧
    (["Mesh.Append", "appendData", "Mesh.WeldByFloat3Attribute", "Mesh.Translate", "Unweld", "RemovedUnreferencedVertices",
      "FlipTriangleWinding", "Mesh.ToPointCloud"].all fun f => Gen.C01Stores.sites.any fun s => s.fn == f) = true := by
  decide +kernel

/-! ### the defect repaired by 74db58f, as a theorem about the in-place `Append` -/

/-- growth policy used in the witness: double what is needed (Go does this for small slices) -/
def E0 : Env Nat := ⟨0, fun n x => x + n, id, fun _ need => need⟩

/-- four point clouds, one index and one value of attribute `7` each, all arrays exactly full;
    then `t := base.Append(a)` (must reallocate: leaves spare capacity) and `x := t.Append(b)` (fits: in place) -/
def witnessPre (app : Nat → Nat → Nat → Nat → Op Nat Nat) : List (Op Nat Nat) :=
  [ .newMesh 1 [0] 0 [] 0 [[(7, [100], 0)]],
    .newMesh 1 [0] 0 [] 0 [[(7, [200], 0)]],
    .newMesh 1 [0] 0 [] 0 [[(7, [300], 0)]],
    .newMesh 1 [0] 0 [] 0 [[(7, [400], 0)]],
    app 0 1 1 1,  -- t  = pool[4]   (both have one vertex: AttributeLength() = 1)
    app 4 2 2 1 ] -- x  = pool[5]   (t has two vertices)

/-- `y := t.Append(c)`: a second derivation from the same `t` -/
def witnessPost (app : Nat → Nat → Nat → Nat → Op Nat Nat) : List (Op Nat Nat) := [ app 4 3 2 1 ]

def s00 : State Nat Nat := ⟨Heap.empty, []⟩

/-- **appendInPlace_breaks.** With the in-place `Append` (modeling/mesh.go before 74db58f) there IS a history
    violating immutability: `t := base.Append(a); x := t.Append(b); y := t.Append(c)` — `y` rewrites `x`'s tail
    (index 2→ and attribute value 300 → 400). -/
theorem appendInPlace_breaks : ¬ Immutable E0 s00 (witnessPre .appendOld) (witnessPost .appendOld) := by
  intro H
  have h5 := H 5
  revert h5
  decide +kernel

/-- the concrete damage: `x` reported indices `[0,1,2]`, attribute `[100,200,300]`; after `y` is derived it reports `400` -/
example :
    ((run E0 s00 (witnessPre .appendOld)).pool[5]?).map (obs (run E0 s00 (witnessPre .appendOld)).heap)
      = some ⟨1, [0, 1, 2], [], [[(7, [100, 200, 300])]]⟩ ∧
    ((run E0 s00 (witnessPre .appendOld)).pool[5]?).map
        (obs (run E0 (run E0 s00 (witnessPre .appendOld)) (witnessPost .appendOld)).heap)
      = some ⟨1, [0, 1, 2], [], [[(7, [100, 200, 400])]]⟩ := by decide

/-- non-vacuity of `history_immutable`: the same history with the current `Append` satisfies its hypotheses,
    runs to a pool of seven meshes, and `x` keeps its value -/
example : Immutable E0 s00 (witnessPre .append) (witnessPost .append) :=
  history_immutable E0 s00 empty_valid _ _ (by decide)

example :
    (run E0 (run E0 s00 (witnessPre .append)) (witnessPost .append)).pool.length = 7 ∧
    ((run E0 s00 (witnessPre .append)).pool[5]?).map
        (obs (run E0 (run E0 s00 (witnessPre .append)) (witnessPost .append)).heap)
      = some ⟨1, [0, 1, 2], [], [[(7, [100, 200, 300])]]⟩ := by decide

/-- both calls of one order succeed with exactly one result each (decidable form of the hypotheses of
    `derivations_commute_partial`) -/
def appliesInOrder (E : Env α) (s : State κ α) (o1 o2 : Op κ α) : Bool :=
  match o1.apply E s with
  | some (h1, [r1]) =>
    (match o2.apply E ⟨h1, s.pool ++ [r1]⟩ with
     | some (_, [_]) => true
     | _ => false)
  | _ => false

theorem appliesInOrder_spec (E : Env α) (s : State κ α) (o1 o2 : Op κ α) (h : appliesInOrder E s o1 o2 = true) :
    ∃ h1 r1 h12 r2', o1.apply E s = some (h1, [r1]) ∧ o2.apply E ⟨h1, s.pool ++ [r1]⟩ = some (h12, [r2']) := by
  unfold appliesInOrder at h
  split at h
  · rename_i h1 r1 e1
    split at h
    · rename_i h12 r2 e2
      exact ⟨h1, r1, h12, r2, e1, e2⟩
    · cases h
  · cases h

/-- non-vacuity of `derivations_commute_partial`: after the four `newMesh` steps of the witness, `o1 = base.Append(a)` and
    `o2 = base.Append(b)` satisfy ALL FOUR hypotheses of the theorem (`apply = some (h, [r])` in `s`, and each after the
    other), with a valid `s` -/
example :
    let s := run E0 s00 ((witnessPre .append).take 4)
    let o1 : Op Nat Nat := .append 0 1 1 1
    let o2 : Op Nat Nat := .append 0 2 1 1
    s.Valid ∧ ∃ h1 r1 h2 r2 h12 r2' h21 r1',
      o1.apply E0 s = some (h1, [r1]) ∧ o2.apply E0 s = some (h2, [r2]) ∧
      o2.apply E0 ⟨h1, s.pool ++ [r1]⟩ = some (h12, [r2']) ∧
      o1.apply E0 ⟨h2, s.pool ++ [r2]⟩ = some (h21, [r1']) := by
  intro s o1 o2
  refine ⟨run_valid E0 _ s00 empty_valid (by decide), ?_⟩
  obtain ⟨h1, r1, h12, r2', a1, a12⟩ := appliesInOrder_spec E0 s o1 o2 (by decide +kernel)
  obtain ⟨h2, r2, h21, r1', a2, a21⟩ := appliesInOrder_spec E0 s o2 o1 (by decide +kernel)
  exact ⟨h1, r1, h2, r2, h12, r2', h21, r1', a1, a2, a12, a21⟩

end C01
end PolyVerif
