/-
  C05 — OBJ write/read round trip.  Theorems about `PolyVerif.Model.Obj` (model of
  /repo/formats/obj writer.go / reader.go, tied text-exactly by the `c05` correspondence stream).
  Helper lemmas are named `*_aux`.
-/
import PolyVerif.Model.Obj

set_option linter.unusedSimpArgs false
set_option linter.unusedSectionVars false

namespace PolyVerif
namespace C05
open Obj

section reader
variable {τ α : Type} [DecidableEq τ] (pc : τ → Except Err Corner)

def matSum (mats : List (String × Nat)) : Nat := (mats.map (·.2)).sum

theorem matSum_append_aux (a b : List (String × Nat)) : matSum (a ++ b) = matSum a + matSum b := by
  simp [matSum]

theorem setLast_concat_aux (init : List (String × Nat)) (m : String) (c n : Nat) :
    setLast (init ++ [(m, c)]) n = init ++ [(m, n)] := by
  simp [setLast]

/-- `addCorner` touches only the vertex tables of the group -/
theorem addCorner_frame_aux {s : RState τ α} {g g' : Group τ α} {t : τ} {p : Nat}
    (h : addCorner pc s g t = .ok (p, g')) :
    g'.tris = g.tris ∧ g'.ftoks = g.ftoks ∧ g'.mats = g.mats ∧ g'.name = g.name := by
  unfold addCorner at h
  split at h
  · cases h; simp
  · split at h
    · cases h
    · split at h
      · cases h
      · split at h
        · cases h
        · split at h
          · cases h
          · split at h
            · cases h
            · cases h; simp

/-- a group's material ranges account for each of its triangles exactly once (or it has no ranges) -/
def GroupOK (g : Group τ α) : Prop :=
  g.tris.length = g.ftoks.length ∧ (g.mats = [] ∨ matSum g.mats = g.tris.length)

/-- the working group: closed ranges plus the open count cover the triangles read so far; the open range
    still has count 0 -/
def CurOK (s : RState τ α) : Prop :=
  s.cur.tris.length = s.cur.ftoks.length ∧
  ((s.cur.mats = [] ∧ s.since = s.cur.tris.length ∧ (s.cur.tris ≠ [] → s.inEffect = none)) ∨
   (∃ init m, s.cur.mats = init ++ [(m, 0)] ∧ matSum init + s.since = s.cur.tris.length))

def faceTotal (s : RState τ α) : Nat := (s.done.map (·.tris.length)).sum + s.cur.tris.length

def Inv (s : RState τ α) : Prop := (∀ g ∈ s.done, GroupOK g) ∧ CurOK s

def isFace : Line τ α → Bool
  | .f _ _ _ => true
  | _ => false

theorem faceCount_cons_aux (l : Line τ α) (ls : List (Line τ α)) :
    faceCount (l :: ls) = (if isFace l then 1 else 0) + faceCount ls := by
  unfold faceCount
  cases l <;> simp [isFace, List.filter_cons] <;> omega

theorem faceCount_append_aux (a b : List (Line τ α)) : faceCount (a ++ b) = faceCount a + faceCount b := by
  simp [faceCount, List.filter_append]

/-- closing the open range of a working group in state `CurOK` gives a `GroupOK` group -/
theorem close_ok_aux {s : RState τ α} (h : CurOK s) :
    GroupOK { s.cur with mats := if s.since > 0 ∧ s.cur.mats ≠ [] then setLast s.cur.mats s.since else s.cur.mats } := by
  obtain ⟨hl, h⟩ := h
  refine ⟨hl, ?_⟩
  rcases h with ⟨h0, _, _⟩ | ⟨init, m, hm, hs⟩
  · left; simp [h0]
  · right
    by_cases hp : s.since > 0
    · have : s.cur.mats ≠ [] := by rw [hm]; simp
      simp only [hp, this, ne_eq, not_false_eq_true, and_self, ↓reduceIte, hm, setLast_concat_aux]
      simp [matSum_append_aux, matSum]; simpa [matSum] using hs
    · have h0 : s.since = 0 := by omega
      simp only [hp, false_and, ↓reduceIte, hm]
      simp [matSum_append_aux, matSum]; simpa [matSum, h0] using hs

theorem step_inv_aux {s s' : RState τ α} {l : Line τ α} (hi : Inv s) (h : step pc s l = .ok s') :
    Inv s' ∧ faceTotal s' = faceTotal s + (if isFace l then 1 else 0) := by
  obtain ⟨hd, hc⟩ := hi
  cases l with
  | other t => simp only [step, Except.ok.injEq] at h; subst h; exact ⟨⟨hd, hc⟩, by simp [isFace]⟩
  | bad e => simp [step] at h
  | mtllib fs =>
    simp only [step] at h
    split at h
    · cases h
    · cases h; exact ⟨⟨hd, hc⟩, by simp [isFace, faceTotal]⟩
  | v p => simp only [step, Except.ok.injEq] at h; subst h; exact ⟨⟨hd, hc⟩, by simp [isFace, faceTotal]⟩
  | vn p => simp only [step, Except.ok.injEq] at h; subst h; exact ⟨⟨hd, hc⟩, by simp [isFace, faceTotal]⟩
  | vt p => simp only [step, Except.ok.injEq] at h; subst h; exact ⟨⟨hd, hc⟩, by simp [isFace, faceTotal]⟩
  | usemtl name =>
    simp only [step] at h
    split at h
    · cases h
    · cases h
      refine ⟨⟨hd, ?_⟩, by simp [isFace, faceTotal]⟩
      obtain ⟨hl, hc⟩ := hc
      refine ⟨hl, Or.inr ?_⟩
      rcases hc with ⟨h0, hs, _⟩ | ⟨init, m, hm, hs⟩
      · by_cases hp : s.since > 0
        · exact ⟨[("Default", s.since)], name, by simp [hp, h0], by simp [matSum, hs]⟩
        · exact ⟨[], name, by simp [hp, h0], by simp [matSum]; omega⟩
      · by_cases hp : s.since > 0
        · have hne : s.cur.mats ≠ [] := by rw [hm]; simp
          refine ⟨init ++ [(m, s.since)], name, ?_, ?_⟩
          · simp [hp, hm, setLast_concat_aux]
          · simp [matSum_append_aux, matSum]; simpa [matSum] using hs
        · have h0 : s.since = 0 := by omega
          refine ⟨init ++ [(m, 0)], name, by simp [hp, hm], ?_⟩
          simp [matSum_append_aux, matSum]; simpa [matSum, h0] using hs
  | g name =>
    simp only [step] at h
    split at h
    · cases h
      refine ⟨⟨?_, ?_⟩, ?_⟩
      · intro g hg
        rcases List.mem_append.1 hg with hg | hg
        · exact hd g hg
        · simp only [List.mem_singleton] at hg; subst hg; exact close_ok_aux ⟨hc.1, hc.2⟩
      · exact ⟨rfl, Or.inl ⟨rfl, rfl, by simp⟩⟩
      · simp [isFace, faceTotal]
    · cases h
      refine ⟨⟨hd, ?_⟩, by simp [isFace, faceTotal]⟩
      exact hc
  | f a b c =>
    simp only [step] at h
    split at h
    · cases h
    · rename_i p1 g1 e1
      split at h
      · cases h
      · rename_i p2 g2 e2
        split at h
        · cases h
        · rename_i p3 g3 e3
          cases h
          obtain ⟨t1, f1, m1, _⟩ := addCorner_frame_aux pc e1
          obtain ⟨t2, f2, m2, _⟩ := addCorner_frame_aux pc e2
          obtain ⟨t3, f3, m3, _⟩ := addCorner_frame_aux pc e3
          simp only at t1 f1 m1
          have ht : g3.tris = s.cur.tris := by rw [t3, t2, t1]
          have hf : g3.ftoks = s.cur.ftoks := by rw [f3, f2, f1]
          have hm := m3.trans (m2.trans m1)
          refine ⟨⟨hd, ?_⟩, ?_⟩
          · obtain ⟨hl, hc⟩ := hc
            refine ⟨by simp [ht, hf, hl], ?_⟩
            simp only [ht, hm, List.length_append, List.length_singleton]
            rcases hc with ⟨h0, hs, hie⟩ | ⟨init, m, hmm, hs⟩
            · cases hin : s.inEffect with
              | none => left; simp [h0, hs]
              | some m =>
                right
                have : s.cur.tris = [] := by
                  by_cases ht0 : s.cur.tris = []
                  · exact ht0
                  · have := hie ht0; rw [hin] at this; cases this
                refine ⟨[], m, by simp [h0], ?_⟩
                simp [matSum, hs, this]
            · right
              have hne : s.cur.mats ≠ [] := by rw [hmm]; simp
              exact ⟨init, m, by simp [hne, hmm], by omega⟩
          · simp [isFace, faceTotal, ht]; omega

theorem steps_inv_aux : ∀ (ls : List (Line τ α)) {s s' : RState τ α}, Inv s → steps pc s ls = .ok s' →
    Inv s' ∧ faceTotal s' = faceTotal s + faceCount ls
  | [], s, s', hi, h => by simp only [steps, Except.ok.injEq] at h; subst h; exact ⟨hi, by simp [faceCount]⟩
  | l :: ls, s, s', hi, h => by
    simp only [steps] at h
    split at h
    · cases h
    · rename_i s1 e1
      obtain ⟨hi1, hf1⟩ := step_inv_aux pc hi e1
      obtain ⟨hi2, hf2⟩ := steps_inv_aux ls hi1 h
      exact ⟨hi2, by rw [hf2, hf1, faceCount_cons_aux]; omega⟩

theorem inv_init_aux : Inv ({} : RState τ α) :=
  ⟨(by intro g hg; cases hg), rfl, Or.inl ⟨rfl, rfl, by simp⟩⟩

/-- **Material ranges cover the triangles.**  For every input the reader accepts — any arrangement of
    `v/vt/vn/f/g/usemtl/mtllib`/comment lines, any corner tokens — every group it returns has either no
    material ranges or ranges whose counts sum to exactly the group's triangle count, and the groups
    together hold exactly the `f` lines of the input (none lost, none invented). -/
theorem readObj_ranges_sum {ls : List (Line τ α)} {gs : List (Group τ α)} {libs : List String}
    (h : readObj pc ls = .ok (gs, libs)) :
    (∀ g ∈ gs, g.tris.length = g.ftoks.length ∧ (g.mats = [] ∨ matSum g.mats = g.tris.length)) ∧
    (gs.map (·.tris.length)).sum = faceCount ls := by
  unfold readObj at h
  split at h
  · cases h
  · rename_i s e
    simp only [finish, Except.ok.injEq, Prod.mk.injEq] at h
    obtain ⟨rfl, rfl⟩ := h
    obtain ⟨⟨hd, hc⟩, hf⟩ := steps_inv_aux pc ls inv_init_aux e
    constructor
    · intro g hg
      rcases List.mem_append.1 hg with hg | hg
      · exact hd g hg
      · simp only [List.mem_singleton] at hg; subst hg; exact close_ok_aux hc
    · simp [faceTotal] at hf
      simp [hf]

end reader

/-! ### what the reader's vertex tables contain (any input) -/

section content
variable {τ α : Type} [DecidableEq τ] (pc : τ → Except Err Corner)

/-- position a token refers to in the `v` pool -/
def vOf (pv : List (V3 α)) (t : τ) : Option (V3 α) :=
  match pc t with
  | .ok c => if c.v = 0 then none else pv[c.v - 1]?
  | .error _ => none

/-- 0-based `vn` / `vt` index of a token, if it has one -/
def nIdx (t : τ) : Option Nat := match pc t with | .ok c => slot c.vn | .error _ => none
def tIdx (t : τ) : Option Nat := match pc t with | .ok c => slot c.vt | .error _ => none

/-- the tables of a group, relative to pools `pv pn pt`:
    * `verts` is the token table resolved through the `v` pool;
    * `normals` / `uvs` are the tokens that have a `vn` / `vt` slot, resolved through those pools;
    * the three local indices of the k-th triangle point at the three tokens of the k-th face line. -/
structure GInv (pv pn : List (V3 α)) (pt : List (V2 α)) (g : Group τ α) : Prop where
  hv : g.verts.map some = g.toks.map (vOf pc pv)
  hn : g.normals.map some = (g.toks.filterMap (nIdx pc)).map (pn[·]?)
  ht : g.uvs.map some = (g.toks.filterMap (tIdx pc)).map (pt[·]?)
  hf : g.tris.map (fun t => (g.toks[t.1]?, g.toks[t.2.1]?, g.toks[t.2.2]?)) =
       g.ftoks.map (fun f => (some f.1, some f.2.1, some f.2.2))

theorem map_some_mono_aux {β γ : Type} (f f' : γ → Option β) (hff : ∀ t x, f t = some x → f' t = some x) :
    ∀ (l : List β) (ts : List γ), l.map some = ts.map f → l.map some = ts.map f'
  | [], [], _ => rfl
  | [], _ :: _, h => by simp at h
  | _ :: _, [], h => by simp at h
  | a :: l, t :: ts, h => by
    simp only [List.map_cons, List.cons.injEq] at h ⊢
    exact ⟨(hff t a h.1.symm).symm, map_some_mono_aux f f' hff l ts h.2⟩

theorem getElem?_append_some_aux {β : Type} {l : List β} {i : Nat} {x : β} (h : l[i]? = some x) (l' : List β) :
    (l ++ l')[i]? = some x := by
  have hi : i < l.length := by
    rcases Nat.lt_or_ge i l.length with hi | hi
    · exact hi
    · rw [List.getElem?_eq_none hi] at h; cases h
  rw [List.getElem?_append_left hi]; exact h

theorem idxOf_getElem?_aux {β : Type} [DecidableEq β] : ∀ (l : List β) (t : β), t ∈ l → l[l.idxOf t]? = some t
  | [], _, h => by cases h
  | a :: l, t, h => by
    by_cases e : a = t
    · subst e; simp
    · have ht : t ∈ l := by rcases List.mem_cons.1 h with h | h; exact absurd h.symm e; exact h
      have hb : (a == t) = false := by simpa using e
      have : (a :: l).idxOf t = l.idxOf t + 1 := by simp [List.idxOf_cons, hb]
      rw [this]
      simpa using idxOf_getElem?_aux l t ht

theorem tris_res_mono_aux (toks ext : List τ) (tris : List (Nat × Nat × Nat)) (ftoks : List (τ × τ × τ))
    (h : tris.map (fun t => (toks[t.1]?, toks[t.2.1]?, toks[t.2.2]?)) = ftoks.map (fun f => (some f.1, some f.2.1, some f.2.2))) :
    tris.map (fun t => ((toks ++ ext)[t.1]?, (toks ++ ext)[t.2.1]?, (toks ++ ext)[t.2.2]?)) =
      ftoks.map (fun f => (some f.1, some f.2.1, some f.2.2)) := by
  induction tris generalizing ftoks with
  | nil => cases ftoks with
    | nil => rfl
    | cons f fs => simp at h
  | cons t ts ih =>
    cases ftoks with
    | nil => simp at h
    | cons f fs =>
      simp only [List.map_cons, List.cons.injEq, Prod.mk.injEq] at h ⊢
      obtain ⟨⟨h1, h2, h3⟩, hr⟩ := h
      exact ⟨⟨getElem?_append_some_aux h1 ext, getElem?_append_some_aux h2 ext, getElem?_append_some_aux h3 ext⟩, ih fs hr⟩

theorem GInv_mono_aux {pv pn : List (V3 α)} {pt : List (V2 α)} {g : Group τ α} (h : GInv pc pv pn pt g)
    (a b : List (V3 α)) (c : List (V2 α)) : GInv pc (pv ++ a) (pn ++ b) (pt ++ c) g := by
  refine ⟨?_, ?_, ?_, h.hf⟩
  · refine map_some_mono_aux _ _ ?_ _ _ h.hv
    intro t x hx
    unfold vOf at hx ⊢
    split at hx
    · split at hx
      · cases hx
      · rename_i c e hc; simp only [hc, ↓reduceIte]; exact getElem?_append_some_aux hx a
    · cases hx
  · exact map_some_mono_aux _ _ (fun i x hx => getElem?_append_some_aux hx b) _ _ h.hn
  · exact map_some_mono_aux _ _ (fun i x hx => getElem?_append_some_aux hx c) _ _ h.ht

theorem filterMap_concat_aux {β γ : Type} (f : β → Option γ) (l : List β) (t : β) :
    (l ++ [t]).filterMap f = l.filterMap f ++ (match f t with | some x => [x] | none => []) := by
  rw [List.filterMap_append]
  cases h : f t <;> simp [List.filterMap_cons, h]

/-- one corner: the tables stay consistent, the returned index points at the token, tokens only get appended -/
theorem addCorner_spec_aux {s : RState τ α} {g g' : Group τ α} {t : τ} {p : Nat}
    (h : addCorner pc s g t = .ok (p, g')) (hi : GInv pc s.pv s.pn s.pt g) :
    GInv pc s.pv s.pn s.pt g' ∧ g'.toks[p]? = some t ∧ ∃ ext, g'.toks = g.toks ++ ext := by
  unfold addCorner at h
  split at h
  · rename_i hmem
    cases h
    exact ⟨hi, idxOf_getElem?_aux _ _ hmem, [], by simp⟩
  · split at h
    · cases h
    · rename_i c hc
      split at h
      · cases h
      · rename_i hv0
        split at h
        · cases h
        · rename_i pos hpos
          split at h
          · cases h
          · rename_i normals hnrm
            split at h
            · cases h
            · rename_i uvs huv
              cases h
              refine ⟨⟨?_, ?_, ?_, ?_⟩, by simp, [t], rfl⟩
              · have : vOf pc s.pv t = some pos := by simp [vOf, hc, hv0, hpos]
                simp [hi.hv, this]
              · simp only [filterMap_concat_aux, nIdx, hc]
                cases hs : slot c.vn with
                | none => simp only [hs] at hnrm; cases hnrm; simpa using hi.hn
                | some i =>
                  simp only [hs, Option.map_eq_some_iff] at hnrm
                  obtain ⟨n, hn, rfl⟩ := hnrm
                  simp [hi.hn, hn]
              · simp only [filterMap_concat_aux, tIdx, hc]
                cases hs : slot c.vt with
                | none => simp only [hs] at huv; cases huv; simpa using hi.ht
                | some i =>
                  simp only [hs, Option.map_eq_some_iff] at huv
                  obtain ⟨u, hu, rfl⟩ := huv
                  simp [hi.ht, hu]
              · exact tris_res_mono_aux g.toks [t] g.tris g.ftoks hi.hf

def AllG (s : RState τ α) : Prop :=
  (∀ g ∈ s.done, GInv pc s.pv s.pn s.pt g) ∧ GInv pc s.pv s.pn s.pt s.cur

def poolV : List (Line τ α) → List (V3 α)
  | [] => []
  | .v p :: ls => p :: poolV ls
  | _ :: ls => poolV ls
def poolN : List (Line τ α) → List (V3 α)
  | [] => []
  | .vn p :: ls => p :: poolN ls
  | _ :: ls => poolN ls
def poolT : List (Line τ α) → List (V2 α)
  | [] => []
  | .vt p :: ls => p :: poolT ls
  | _ :: ls => poolT ls

theorem GInv_empty_aux (pv pn : List (V3 α)) (pt : List (V2 α)) (name : String) :
    GInv pc pv pn pt ({ name := name } : Group τ α) := ⟨rfl, rfl, rfl, rfl⟩

theorem step_allG_aux {s s' : RState τ α} {l : Line τ α} (hi : AllG pc s) (h : step pc s l = .ok s') :
    AllG pc s' ∧ s'.pv = s.pv ++ poolV [l] ∧ s'.pn = s.pn ++ poolN [l] ∧ s'.pt = s.pt ++ poolT [l] := by
  obtain ⟨hd, hc⟩ := hi
  cases l with
  | other t => simp only [step, Except.ok.injEq] at h; subst h; exact ⟨⟨hd, hc⟩, by simp [poolV, poolN, poolT]⟩
  | bad e => simp [step] at h
  | mtllib fs =>
    simp only [step] at h
    split at h
    · cases h
    · cases h; exact ⟨⟨hd, hc⟩, by simp [poolV, poolN, poolT]⟩
  | v p =>
    simp only [step, Except.ok.injEq] at h; subst h
    refine ⟨⟨fun g hg => ?_, ?_⟩, by simp [poolV, poolN, poolT]⟩
    · simpa using GInv_mono_aux pc (hd g hg) [p] [] []
    · simpa using GInv_mono_aux pc hc [p] [] []
  | vn p =>
    simp only [step, Except.ok.injEq] at h; subst h
    refine ⟨⟨fun g hg => ?_, ?_⟩, by simp [poolV, poolN, poolT]⟩
    · simpa using GInv_mono_aux pc (hd g hg) [] [p] []
    · simpa using GInv_mono_aux pc hc [] [p] []
  | vt p =>
    simp only [step, Except.ok.injEq] at h; subst h
    refine ⟨⟨fun g hg => ?_, ?_⟩, by simp [poolV, poolN, poolT]⟩
    · simpa using GInv_mono_aux pc (hd g hg) [] [] [p]
    · simpa using GInv_mono_aux pc hc [] [] [p]
  | usemtl name =>
    simp only [step] at h
    split at h
    · cases h
    · cases h
      exact ⟨⟨hd, ⟨hc.hv, hc.hn, hc.ht, hc.hf⟩⟩, by simp [poolV, poolN, poolT]⟩
  | g name =>
    simp only [step] at h
    split at h
    · cases h
      refine ⟨⟨?_, GInv_empty_aux pc _ _ _ _⟩, by simp [poolV, poolN, poolT]⟩
      intro g hg
      rcases List.mem_append.1 hg with hg | hg
      · exact hd g hg
      · simp only [List.mem_singleton] at hg; subst hg; exact ⟨hc.hv, hc.hn, hc.ht, hc.hf⟩
    · cases h
      exact ⟨⟨hd, ⟨hc.hv, hc.hn, hc.ht, hc.hf⟩⟩, by simp [poolV, poolN, poolT]⟩
  | f a b c =>
    simp only [step] at h
    split at h
    · cases h
    · rename_i p1 g1 e1
      split at h
      · cases h
      · rename_i p2 g2 e2
        split at h
        · cases h
        · rename_i p3 g3 e3
          cases h
          obtain ⟨i1, q1, x1, hx1⟩ := addCorner_spec_aux pc e1 ⟨hc.hv, hc.hn, hc.ht, hc.hf⟩
          obtain ⟨i2, q2, x2, hx2⟩ := addCorner_spec_aux pc e2 i1
          obtain ⟨i3, q3, x3, hx3⟩ := addCorner_spec_aux pc e3 i2
          refine ⟨⟨hd, ⟨i3.hv, i3.hn, i3.ht, ?_⟩⟩, by simp [poolV, poolN, poolT]⟩
          have r1 : g3.toks[p1]? = some a := by
            rw [hx3, hx2]; exact getElem?_append_some_aux (getElem?_append_some_aux q1 x2) x3
          have r2 : g3.toks[p2]? = some b := by rw [hx3]; exact getElem?_append_some_aux q2 x3
          simp [i3.hf, r1, r2, q3]

theorem pool_append_aux (l : Line τ α) (ls : List (Line τ α)) :
    poolV (l :: ls) = poolV [l] ++ poolV ls ∧ poolN (l :: ls) = poolN [l] ++ poolN ls ∧
    poolT (l :: ls) = poolT [l] ++ poolT ls := by
  cases l <;> simp [poolV, poolN, poolT]

theorem steps_allG_aux : ∀ (ls : List (Line τ α)) {s s' : RState τ α}, AllG pc s → steps pc s ls = .ok s' →
    AllG pc s' ∧ s'.pv = s.pv ++ poolV ls ∧ s'.pn = s.pn ++ poolN ls ∧ s'.pt = s.pt ++ poolT ls
  | [], s, s', hi, h => by
    simp only [steps, Except.ok.injEq] at h; subst h; exact ⟨hi, by simp [poolV, poolN, poolT]⟩
  | l :: ls, s, s', hi, h => by
    simp only [steps] at h
    split at h
    · cases h
    · rename_i s1 e1
      obtain ⟨hi1, a1, b1, c1⟩ := step_allG_aux pc hi e1
      obtain ⟨hi2, a2, b2, c2⟩ := steps_allG_aux ls hi1 h
      obtain ⟨pa, pb, pc'⟩ := pool_append_aux l ls
      exact ⟨hi2, by rw [a2, a1, pa, List.append_assoc], by rw [b2, b1, pb, List.append_assoc],
        by rw [c2, c1, pc', List.append_assoc]⟩

/-- **What the reader's tables contain.**  For every input the reader accepts and every group it
    returns, relative to the file's `v` / `vn` / `vt` lines (`poolV/N/T`, in file order):
    the group's vertex `k` is the position its `k`-th distinct corner token refers to; its normals / uvs
    are those of the tokens that carry a `vn` / `vt` slot, in token order; and the `j`-th triangle's
    three indices point at the three tokens of the group's `j`-th face line.  Hence every corner of every
    triangle read carries exactly the position the file's face line refers to. -/
theorem readObj_corners {ls : List (Line τ α)} {gs : List (Group τ α)} {libs : List String}
    (h : readObj pc ls = .ok (gs, libs)) : ∀ g ∈ gs, GInv pc (poolV ls) (poolN ls) (poolT ls) g := by
  unfold readObj at h
  split at h
  · cases h
  · rename_i s e
    simp only [finish, Except.ok.injEq, Prod.mk.injEq] at h
    obtain ⟨rfl, rfl⟩ := h
    have h0 : AllG pc ({} : RState τ α) := ⟨(by intro g hg; cases hg), GInv_empty_aux pc _ _ _ _⟩
    obtain ⟨⟨hd, hc⟩, a, b, c⟩ := steps_allG_aux pc ls h0 e
    simp only [List.nil_append] at a b c
    rw [← a, ← b, ← c]
    intro g hg
    rcases List.mem_append.1 hg with hg | hg
    · exact hd g hg
    · simp only [List.mem_singleton] at hg; subst hg; exact ⟨hc.hv, hc.hn, hc.ht, hc.hf⟩

end content

/-! ### the writer on what the reader returns -/

section resave
variable {τ α : Type}

theorem flatTris_append_aux : ∀ (a b : List (Nat × Nat × Nat)), flatTris (a ++ b) = flatTris a ++ flatTris b
  | [], _ => rfl
  | (x, y, z) :: a, b => by simp [flatTris, flatTris_append_aux a b]

theorem flatTris_length_aux : ∀ ts : List (Nat × Nat × Nat), (flatTris ts).length = 3 * ts.length
  | [] => rfl
  | (_, _, _) :: ts => by simp [flatTris, flatTris_length_aux ts]; omega

/-- the face lines for a list of index triples -/
def faceLines (mk : Nat → Corner) (ts : List (Nat × Nat × Nat)) : List (Line Corner α) :=
  ts.map fun t => .f (mk t.1) (mk t.2.1) (mk t.2.2)

theorem faceCount_faceLines_aux (mk : Nat → Corner) (ts : List (Nat × Nat × Nat)) :
    faceCount (faceLines (α := α) mk ts) = ts.length := by
  induction ts with
  | nil => rfl
  | cons t ts ih => rw [faceLines, List.map_cons, faceCount_cons_aux]; simp [isFace]; rw [← faceLines, ih]; omega

/-- the face cursor consumes exactly `n` triples when they are there -/
theorem faceRun_flat_aux (mk : Nat → Corner) : ∀ (ts : List (Nat × Nat × Nat)) (rest : List Nat),
    faceRun (α := α) mk ts.length (flatTris ts ++ rest) = .ok (faceLines mk ts, rest)
  | [], rest => rfl
  | (a, b, c) :: ts, rest => by
    simp [flatTris, faceRun, faceRun_flat_aux mk ts rest, faceLines]

theorem rangeRun_flat_aux (mk : Nat → Corner) : ∀ (mats : List (Option String × Nat)) (ts : List (Nat × Nat × Nat)),
    (mats.map (·.2)).sum = ts.length →
    ∃ ls, rangeRun (α := α) mk mats (flatTris ts) = .ok ls ∧ faceCount ls = ts.length
  | [], ts, h => by
    have : ts = [] := List.eq_nil_of_length_eq_zero (by simpa using h.symm)
    subst this; exact ⟨[], rfl, rfl⟩
  | (m, n) :: ms, ts, h => by
    simp only [List.map_cons, List.sum_cons] at h
    have hn : (ts.take n).length = n := by simp [List.length_take]; omega
    have hsplit : flatTris ts = flatTris (ts.take n) ++ flatTris (ts.drop n) := by
      rw [← flatTris_append_aux, List.take_append_drop]
    have hrun := faceRun_flat_aux (α := α) mk (ts.take n) (flatTris (ts.drop n))
    rw [hn] at hrun
    obtain ⟨ls', hr, hc⟩ := rangeRun_flat_aux mk ms (ts.drop n) (by simp [List.length_drop]; omega)
    refine ⟨.usemtl (matName m) :: faceLines mk (ts.take n) ++ ls', ?_, ?_⟩
    · simp [rangeRun, hsplit, hrun, hr]
    · rw [List.cons_append, faceCount_cons_aux, faceCount_append_aux, faceCount_faceLines_aux, hc, hn]
      simp [isFace, List.length_drop]; omega

theorem writeGroup_ok_aux (multi : Bool) (vo to no : Nat) (g : Group τ α)
    (hg : g.mats = [] ∨ matSum g.mats = g.tris.length) :
    ∃ ls, writeGroup multi vo to no (toMesh g).1 (toMesh g).2 = .ok ls ∧ faceCount ls = g.tris.length := by
  have hhdr : ∀ (h : List (Line Corner α)), (h = [] ∨ ∃ n, h = [.g n]) → faceCount h = 0 := by
    intro h hh; rcases hh with rfl | ⟨n, rfl⟩ <;> rfl
  by_cases hm : g.mats = []
  · have h1 := faceRun_flat_aux (α := α)
      (mkCorner (toMesh g).2.uv.isSome (toMesh g).2.nrm.isSome vo to no) g.tris []
    rw [List.append_nil] at h1
    have h2 : ((flatTris g.tris).length + 2) / 3 = g.tris.length := by rw [flatTris_length_aux]; omega
    refine ⟨(if (multi || decide (g.name ≠ "")) = true then [Line.g g.name] else []) ++
      faceLines (mkCorner (toMesh g).2.uv.isSome (toMesh g).2.nrm.isSome vo to no) g.tris, ?_, ?_⟩
    · simp only [writeGroup, toMesh, hm, List.map_nil, ↓reduceIte, h2]
      simp only [toMesh] at h1
      rw [h1]; rfl
    · rw [faceCount_append_aux, faceCount_faceLines_aux]
      have := hhdr (if (multi || decide (g.name ≠ "")) = true then [Line.g g.name] else [])
        (by split <;> simp)
      simp [toMesh] at this ⊢
      omega
  · have hs : matSum g.mats = g.tris.length := by rcases hg with h | h; exact absurd h hm; exact h
    obtain ⟨ls, hr, hc⟩ := rangeRun_flat_aux (α := α)
      (mkCorner (toMesh g).2.uv.isSome (toMesh g).2.nrm.isSome vo to no)
      (g.mats.map fun (n, c) => (some n, c)) g.tris (by simpa [matSum, List.map_map, Function.comp_def] using hs)
    have hne : (g.mats.map fun (p : String × Nat) => ((some p.1 : Option String), p.2)) ≠ [] := by simpa using hm
    refine ⟨(if (multi || decide (g.name ≠ "")) = true then [Line.g g.name] else []) ++ ls, ?_, ?_⟩
    · simp only [writeGroup, toMesh] at hr ⊢
      simp only [hne, ↓reduceIte, hr]
      try rfl
    · rw [faceCount_append_aux, hc]
      have := hhdr (if (multi || decide (g.name ≠ "")) = true then [Line.g g.name] else [])
        (by split <;> simp)
      simp [toMesh] at this ⊢
      omega

theorem writeGroups_ok_aux (multi : Bool) : ∀ (gs : List (Group τ α)) (vo to no : Nat),
    (∀ g ∈ gs, g.mats = [] ∨ matSum g.mats = g.tris.length) →
    ∃ ls, writeGroups multi vo to no (gs.map toMesh) = .ok ls ∧ faceCount ls = (gs.map (·.tris.length)).sum
  | [], _, _, _, _ => ⟨[], rfl, rfl⟩
  | g :: gs, vo, to, no, h => by
    obtain ⟨a, ha, hca⟩ := writeGroup_ok_aux multi vo to no g (h g (by simp))
    obtain ⟨b, hb, hcb⟩ := writeGroups_ok_aux multi gs (vo + optLen (toMesh g).2.pos) (to + optLen (toMesh g).2.uv)
      (no + optLen (toMesh g).2.nrm) (fun g' hg' => h g' (by simp [hg']))
    refine ⟨a ++ b, ?_, by rw [faceCount_append_aux, hca, hcb]; simp⟩
    have e : toMesh g = ((toMesh g).1, (toMesh g).2) := rfl
    rw [List.map_cons, e]
    simp only [writeGroups, ha, hb]

theorem faceCount_dataLines_aux : ∀ ms : List (String × Mesh α), faceCount (dataLines ms) = 0
  | [] => rfl
  | (_, m) :: ms => by
    have hv : ∀ l : List (V3 α), faceCount (l.map (Line.v (τ := Corner))) = 0 := by
      intro l; induction l with
      | nil => rfl
      | cons a l ih => rw [List.map_cons, faceCount_cons_aux, ih]; rfl
    have hn : ∀ l : List (V3 α), faceCount (l.map (Line.vn (τ := Corner))) = 0 := by
      intro l; induction l with
      | nil => rfl
      | cons a l ih => rw [List.map_cons, faceCount_cons_aux, ih]; rfl
    have ht : ∀ l : List (V2 α), faceCount (l.map (Line.vt (τ := Corner))) = 0 := by
      intro l; induction l with
      | nil => rfl
      | cons a l ih => rw [List.map_cons, faceCount_cons_aux, ih]; rfl
    simp [dataLines, meshData, faceCount_append_aux, hv, hn, ht, faceCount_dataLines_aux ms]

theorem faceCount_header_aux (f : String) : faceCount (headerLines (α := α) f) = 0 := by
  unfold headerLines; split <;> rfl

/-- **Load → save keeps every face.**  For every input the reader accepts (any arrangement of `g`,
    `usemtl`, data and face lines, any corner tokens, faces before any `g`, repeated or empty material
    ranges, …), saving what was read succeeds (no panic) and the saved text has exactly as many `f`
    lines as the input: no face lost, none invented. -/
theorem obj_resave_faces [DecidableEq τ] (pc : τ → Except Err Corner) {ls : List (Line τ α)}
    {gs : List (Group τ α)} {libs : List String} (h : readObj pc ls = .ok (gs, libs)) (matFile : String) :
    ∃ out, writeObj matFile (gs.map toMesh) = .ok out ∧ faceCount out = faceCount ls := by
  obtain ⟨hok, hsum⟩ := readObj_ranges_sum pc h
  obtain ⟨body, hb, hc⟩ := writeGroups_ok_aux (decide ((gs.map toMesh).length > 1)) gs 0 0 0 (fun g hg => (hok g hg).2)
  refine ⟨headerLines matFile ++ dataLines (gs.map toMesh) ++ body, by simp only [writeObj, hb], ?_⟩
  rw [faceCount_append_aux, faceCount_append_aux, faceCount_header_aux, faceCount_dataLines_aux, hc, hsum]
  omega

end resave

/-! ### the pinned defect: one shared offset for v / vt / vn -/

section shared

/-- write, then read the lines back (corner tokens are the corners themselves) -/
def thenRead {α : Type} (w : Except Err (List (Line Corner α))) : Except Err (List (String × Mesh α) × List String) :=
  match w with
  | .error e => .error e
  | .ok ls => match readObj (fun c => .ok c) ls with
    | .error e => .error e
    | .ok (gs, libs) => .ok (gs.map toMesh, libs)

/-- a mesh without normals followed by a mesh with normals (one triangle each; payload `Nat`) -/
def mixedWitness : List (String × Mesh Nat) :=
  [("A", ⟨[0, 1, 2], some [⟨0, 0, 0⟩, ⟨1, 0, 0⟩, ⟨0, 1, 0⟩], none, none, []⟩),
   ("B", ⟨[0, 2, 1], some [⟨5, 0, 0⟩, ⟨6, 0, 0⟩, ⟨5, 1, 0⟩], none, some [⟨7, 7, 1⟩, ⟨8, 8, 1⟩, ⟨9, 9, 1⟩], []⟩)]

/-- **A single shared offset is wrong for mixed attribute sets** (the defect the tree was pinned with):
    on `mixedWitness` the shared-offset writer emits `f 4//4 6//6 5//5` although only three `vn` lines
    exist, and reading its output panics; the writer with separate offsets round-trips the same scene. -/
theorem obj_shared_offset_breaks :
    (match thenRead (writeObjShared "" mixedWitness) with | .error .panic => true | _ => false) = true ∧
    (match thenRead (writeObj "" mixedWitness) with
     | .ok (gs, _) => RoundTrips id mixedWitness gs
     | .error _ => false) = true := by
  constructor <;> decide

end shared

end C05
end PolyVerif
